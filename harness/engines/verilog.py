"""Engine `verilog` — properties C06 (the Verilog reader builds exactly the design the source
describes) and C04 (structural Verilog write-then-read returns the same netlist).

Every run:
  1. Lean obligations (build, hygiene grep, #print axioms of the property theorems).
  2. corpus/<PID>/*.json first, then generated inputs in shards (fresh interpreter + driver each).
     C06: abstract design -> Verilog text by the engine's own writer (verilog_gen.render) ->
          sdn.parse(file) -> pin-centric view; P = verilog_view.check_c06 against the design's
          denotation (verilog_gen.denote) + canon.wf_problems + wire/pin consistency;
          correspondence: the Lean model's value of every connection (evalExpr, connectLowAligned /
          whole-design elaboration) against the pins the reader built; direct drives of the reader's
          building blocks (get_wires_from_cable, create_or_update_cable/port, port-map loops).
     C04: netlist = sdn.parse(generated or bundled text) [+ uniquify / flatten / clone];
          sdn.compose with the option combinations; sdn.parse again; P = equality of the C04 views;
          correspondence: the Lean writer model (emitPortExpr, header/alias, assign, order) against
          the composer's own building blocks on the parsed netlist.
  3. A failure is attributed to an open finding only if the input lies in that finding's documented
     sub-domain and the failure disappears when exactly that trigger is neutralised (verilog_known).
"""
import glob
import io
import json
import os
import random
import shutil
import tempfile
import time
import traceback
import zipfile

from common import lean
from common.ctx import ROOT, REPO, stable_hash
from common.shard import ShardResult, run_shards

import sys
sys.path.insert(0, os.path.dirname(os.path.abspath(__file__)))
import verilog_gen as G      # noqa: E402
import verilog_known as K    # noqa: E402

MODULES = ["Spydr.Verilog.Model", "Spydr.Verilog.ModelElab", "Spydr.Verilog.ModelText", "Spydr.Verilog.ModelParse",
           "Spydr.Verilog.Spec",
           "Spydr.Verilog.Lemmas", "Spydr.Verilog.LemmasEmit", "Spydr.Verilog.LemmasOrder", "Spydr.Verilog.LemmasElab",
           "Spydr.Verilog.Props.C06",
           "Spydr.Verilog.Props.C04Emit", "Spydr.Verilog.Props.C04",
           "Spydr.Verilog.RoundTripState", "Spydr.Verilog.RoundTripConn", "Spydr.Verilog.RoundTripInst",
           "Spydr.Verilog.RoundTripBody", "Spydr.Verilog.RoundTripHeader", "Spydr.Verilog.RoundTripDecls",
           "Spydr.Verilog.RoundTripModule", "Spydr.Verilog.RoundTripDesign", "Spydr.Verilog.RoundTripShape",
           "Spydr.Verilog.RoundTripStub", "Spydr.Verilog.RoundTripWriter", "Spydr.Verilog.RoundTripFirst",
           "Spydr.Verilog.RoundTripSingle", "Spydr.Verilog.RoundTripBits",
           "Spydr.Verilog.RoundTripTrack", "Spydr.Verilog.RoundTripAst", "Spydr.Verilog.RoundTripView",
           "Spydr.Verilog.RoundTripTokA", "Spydr.Verilog.RoundTripTokB", "Spydr.Verilog.RoundTripTokC",
           "Spydr.Verilog.RoundTripTokD", "Spydr.Verilog.RoundTripText",
           "Spydr.Verilog.RoundTripRenderA", "Spydr.Verilog.RoundTripRenderB",
           "Spydr.Verilog.RoundTripLexA", "Spydr.Verilog.RoundTripLexB",
           "Spydr.Verilog.RoundTripPieceA", "Spydr.Verilog.RoundTripPieceB", "Spydr.Verilog.RoundTripPieceC",
           "Spydr.Verilog.RoundTripStruct",
           "Spydr.Verilog.RoundTripLeafA", "Spydr.Verilog.RoundTripLeafB", "Spydr.Verilog.RoundTripLeafC",
           "Spydr.Verilog.RoundTripLeafD", "Spydr.Verilog.RoundTripLeafE", "Spydr.Verilog.RoundTripLeafF",
           "Spydr.Verilog.RoundTripLeafG", "Spydr.Verilog.RoundTripLeafH", "Spydr.Verilog.RoundTripLeafI",
           "Spydr.Verilog.RoundTripLeafJ", "Spydr.Verilog.FragmentReport",
           "Spydr.Verilog.RoundTripHierA", "Spydr.Verilog.RoundTripHierB", "Spydr.Verilog.RoundTripHierC",
           "Spydr.Verilog.RoundTripHierD", "Spydr.Verilog.RoundTripHierE",
           "Spydr.Verilog.RoundTripHierF", "Spydr.Verilog.RoundTripHierG", "Spydr.Verilog.RoundTripHierH",
           "Spydr.Verilog.RoundTripHierI",
           "Spydr.Verilog.RoundTripAsgA", "Spydr.Verilog.RoundTripAsgB", "Spydr.Verilog.RoundTripAsgC",
           "Spydr.Verilog.RoundTripAsgD", "Spydr.Verilog.RoundTripAsgE", "Spydr.Verilog.RoundTripAsgF",
           "Spydr.Verilog.RoundTripAsgG", "Spydr.Verilog.RoundTripAsgH", "Spydr.Verilog.RoundTripAsgI",
           "Spydr.Verilog.RoundTripAsgP", "Spydr.Verilog.RoundTripAsgU", "Spydr.Verilog.RoundTripAsgV",
           "Spydr.Verilog.WFWiresA", "Spydr.Verilog.WFWiresB", "Spydr.Verilog.WFWiresC",
           "Spydr.Verilog.WFBase", "Spydr.Verilog.WFPort", "Spydr.Verilog.WFEval", "Spydr.Verilog.WFHeader",
           "Spydr.Verilog.WFDecl", "Spydr.Verilog.WFInst", "Spydr.Verilog.WFDesign", "Spydr.Verilog.WFStruct"]
THEOREMS = {
    "C06": ["Spydr.Verilog.getWires_spec", "Spydr.Verilog.getWires_spec_single_all", "Spydr.Verilog.concat_spec",
            "Spydr.Verilog.connect_low_aligned", "Spydr.Verilog.connect_low_aligned_fresh",
            "Spydr.Verilog.lowAligned_bit", "Spydr.Verilog.connect_too_wide", "Spydr.Verilog.resize_stable",
            "Spydr.Verilog.resize_keeps_index", "Spydr.Verilog.resize_port_stable",
            "Spydr.Verilog.verilog_reader_spec_partial", "Spydr.Verilog.connect_assign_spec",
            "Spydr.Verilog.connect_alias_spec", "Spydr.Verilog.elab_connection_spec",
            "Spydr.Verilog.elab_connection_total",
            "Spydr.Verilog.Elab.instantiate_named", "Spydr.Verilog.Elab.instances_fold", "Spydr.Verilog.Elab.header_fold",
            "Spydr.Verilog.Elab.wires_fold", "Spydr.Verilog.Elab.elabModule_frag", "Spydr.Verilog.Elab.elabDesign_frag",
            "Spydr.Verilog.Elab.exDesign_frag",
            "Spydr.Verilog.Elab.regrow_wf", "Spydr.Verilog.Elab.createOrUpdateCable_wf", "Spydr.Verilog.Elab.createOrUpdatePort_wf", "Spydr.Verilog.Elab.reorderPorts_wf", "Spydr.Verilog.Elab.portDecl_wf", "Spydr.Verilog.Elab.connectInstRow_wf", "Spydr.Verilog.Elab.instantiate_wf", "Spydr.Verilog.Elab.positional_wf", "Spydr.Verilog.Elab.assignStmt_wf", "Spydr.Verilog.Elab.elabModule_wf", "Spydr.Verilog.Elab.elabDesign_wf", "Spydr.Verilog.Elab.readV_wf", "Spydr.Verilog.Elab.structWF_iff", "Spydr.Verilog.Elab.reader_structWF", "Spydr.Verilog.Elab.elab_structWF", "Spydr.Verilog.Elab.exNet_structWF", "Spydr.Verilog.Elab.pending_not_emptied",
            "Spydr.Verilog.Elab.createOrUpdateCable_ww", "Spydr.Verilog.Elab.elabDesign_ww", "Spydr.Verilog.Elab.reader_wiresWF", "Spydr.Verilog.Elab.elab_wiresWF", "Spydr.Verilog.Elab.exNet_wiresWF", "Spydr.Verilog.Elab.positional_too_many_rejected", "Spydr.Verilog.Elab.positional_undeclared_creates_ports",
            "Spydr.Verilog.Elab.elabModule_lateWA", "Spydr.Verilog.Elab.elabModule_wtopA", "Spydr.Verilog.Elab.elabModule_leafX", "Spydr.Verilog.Elab.elabDesign_hierA"],
    "C04": ["Spydr.Verilog.emit_eval", "Spydr.Verilog.emit_eval_spec", "Spydr.Verilog.decl_range_roundtrip",
            "Spydr.Verilog.alias_header_roundtrip", "Spydr.Verilog.assign_regen", "Spydr.Verilog.assign_regen_all",
            "Spydr.Verilog.write_order_defined", "Spydr.Verilog.write_order_total", "Spydr.Verilog.visit_order_defined",
            "Spydr.Verilog.verilog_roundtrip_partial",
            "Spydr.Verilog.connect_low_aligned", "Spydr.Verilog.getWires_spec",
            "Spydr.Verilog.Elab.reader_shape_frag", "Spydr.Verilog.Elab.reader_rows_roundtrip",
            "Spydr.Verilog.Elab.portDecl_stub", "Spydr.Verilog.Elab.fold_local", "Spydr.Verilog.Elab.elabModule_wshape",
            "Spydr.Verilog.Elab.exW_builds", "Spydr.Verilog.Elab.instantiate_first", "Spydr.Verilog.Elab.elabDesign_wsingle",
            "Spydr.Verilog.Elab.exWI_builds", "Spydr.Verilog.Elab.exprWires_bits", "Spydr.Verilog.Elab.buildW3_WF",
            "Spydr.Verilog.Elab.instStep2_den", "Spydr.Verilog.Elab.row_roundtrip",
            "Spydr.Verilog.Elab.buildW3_cab", "Spydr.Verilog.Elab.buildW3_ports", "Spydr.Verilog.Elab.buildW3_PC",
            "Spydr.Verilog.Elab.cables_view", "Spydr.Verilog.Elab.ports_view", "Spydr.Verilog.Elab.inst_view_step",
            "Spydr.Verilog.Elab.c04_view", "Spydr.Verilog.Elab.c04_ast", "Spydr.Verilog.Elab.exNet_frag",
            "Spydr.Verilog.Elab.expr_toks", "Spydr.Verilog.Elab.star_toks", "Spydr.Verilog.Elab.paramMap_toks", "Spydr.Verilog.Elab.namedMapGo_toks", "Spydr.Verilog.Elab.instP_toks", "Spydr.Verilog.Elab.portDeclP_toks", "Spydr.Verilog.Elab.cableDeclGo_toks", "Spydr.Verilog.Elab.bodyGo_items", "Spydr.Verilog.Elab.moduleP_toks", "Spydr.Verilog.Elab.parseV_toks", "Spydr.Verilog.Elab.parse_tokens", "Spydr.Verilog.Elab.c04_tokens", "Spydr.Verilog.Elab.exNet_tokens",
            "Spydr.Verilog.Elab.c04_text", "Spydr.Verilog.Elab.exNet_full", "Spydr.Verilog.Elab.exNet_roundtrip",
            "Spydr.Verilog.Elab.composeV_text", "Spydr.Verilog.Elab.moduleText_top", "Spydr.Verilog.Elab.fragFull_of",
            "Spydr.Verilog.Elab.lexV_run", "Spydr.Verilog.Elab.add_pend", "Spydr.Verilog.Elab.add_word_end", "Spydr.Verilog.Elab.run_clean", "Spydr.Verilog.Elab.lex_pieces", "Spydr.Verilog.Elab.lexV_pieces",
            "Spydr.Verilog.Elab.chars_modP", "Spydr.Verilog.Elab.toks_modP", "Spydr.Verilog.Elab.chars_fileP", "Spydr.Verilog.Elab.lexR_of_pieces", "Spydr.Verilog.Elab.c04_text_struct", "Spydr.Verilog.Elab.exNet_struct",
            "Spydr.Verilog.Elab.declStepL_run", "Spydr.Verilog.Elab.hdrStepL_run", "Spydr.Verilog.Elab.elabModule_leaf", "Spydr.Verilog.Elab.elabDesign_bb", "Spydr.Verilog.Elab.exBB_builds", "Spydr.Verilog.Elab.foldLeaves_view", "Spydr.Verilog.Elab.buildLeaf_iface", "Spydr.Verilog.Elab.foldLeaves_iface", "Spydr.Verilog.Elab.c04_view_bb", "Spydr.Verilog.Elab.c04_ast_bb", "Spydr.Verilog.Elab.exNetBB_frag",
            "Spydr.Verilog.Elab.primBodyGo_ports", "Spydr.Verilog.Elab.moduleP_leaf", "Spydr.Verilog.Elab.topGo_leaf", "Spydr.Verilog.Elab.preprocess_keep", "Spydr.Verilog.Elab.parse_bb", "Spydr.Verilog.Elab.moduleText_leaf", "Spydr.Verilog.Elab.composeV_text_bb", "Spydr.Verilog.Elab.chars_leafP", "Spydr.Verilog.Elab.toks_leafP", "Spydr.Verilog.Elab.chars_filePbb", "Spydr.Verilog.Elab.c04_text_bb", "Spydr.Verilog.Elab.exNetBB_struct", "Spydr.Verilog.Elab.exNetBB_roundtrip",
            "Spydr.Verilog.Elab.buildBB_low", "Spydr.Verilog.Elab.c04_full_ast", "Spydr.Verilog.Elab.c04_full_bb", "Spydr.Verilog.Elab.exNetBB_full", "Spydr.Verilog.Elab.nobb_row_shrinks", "Spydr.Verilog.Elab.exNetRB_full",
            "Spydr.Verilog.Elab.instantiate_firstG", "Spydr.Verilog.Elab.instStep2_runG", "Spydr.Verilog.Elab.insts_foldG", "Spydr.Verilog.Elab.declStepA_run", "Spydr.Verilog.Elab.wire_foldG", "Spydr.Verilog.Elab.elabModule_lateW", "Spydr.Verilog.Elab.late_fold", "Spydr.Verilog.Elab.elabDesign_hier", "Spydr.Verilog.Elab.exHier_builds",
            "Spydr.Verilog.Elab.late_facts", "Spydr.Verilog.Elab.view_core", "Spydr.Verilog.Elab.buildLateW_view", "Spydr.Verilog.Elab.hier_fold", "Spydr.Verilog.Elab.c04_view_hier", "Spydr.Verilog.Elab.c04_ast_hier", "Spydr.Verilog.Elab.exNetH_frag",
            "Spydr.Verilog.Elab.topGo_work", "Spydr.Verilog.Elab.parse_hier", "Spydr.Verilog.Elab.composeV_text_hier", "Spydr.Verilog.Elab.chars_filePH", "Spydr.Verilog.Elab.c04_text_hier", "Spydr.Verilog.Elab.exNetH_struct", "Spydr.Verilog.Elab.exNetH_roundtrip",
            "Spydr.Verilog.Elab.asgStepR_run", "Spydr.Verilog.Elab.asg_foldG", "Spydr.Verilog.Elab.late_prefix", "Spydr.Verilog.Elab.elabModule_lateWA", "Spydr.Verilog.Elab.top_prefix", "Spydr.Verilog.Elab.elabModule_wtopA", "Spydr.Verilog.Elab.late_foldA", "Spydr.Verilog.Elab.elabDesign_hierA", "Spydr.Verilog.Elab.exHierA_builds", "Spydr.Verilog.Elab.asg_view_step", "Spydr.Verilog.Elab.asgs_view", "Spydr.Verilog.Elab.view_coreA", "Spydr.Verilog.Elab.buildLateWA_view", "Spydr.Verilog.Elab.hier_foldA", "Spydr.Verilog.Elab.c04_view_hierA", "Spydr.Verilog.Elab.c04_ast_hierA", "Spydr.Verilog.Elab.exNetHA_frag", "Spydr.Verilog.Elab.exNetHA_has_assigns",
            "Spydr.Verilog.Elab.bodyGo_asg", "Spydr.Verilog.Elab.topGo_mod", "Spydr.Verilog.Elab.parse_hierA", "Spydr.Verilog.Elab.assigns_foldA", "Spydr.Verilog.Elab.instances_foldA", "Spydr.Verilog.Elab.moduleText_topA", "Spydr.Verilog.Elab.anys_textA", "Spydr.Verilog.Elab.composeV_text_hierA", "Spydr.Verilog.Elab.chars_asgP", "Spydr.Verilog.Elab.toks_asgP", "Spydr.Verilog.Elab.chars_modPA", "Spydr.Verilog.Elab.toks_modPA", "Spydr.Verilog.Elab.chars_filePHA", "Spydr.Verilog.Elab.toks_filePHA", "Spydr.Verilog.Elab.c04_text_hierA", "Spydr.Verilog.Elab.exNetHA_struct", "Spydr.Verilog.Elab.exNetHA_roundtrip",
            "Spydr.Verilog.Elab.elabModule_eq_tailGP", "Spydr.Verilog.Elab.buildW3_params", "Spydr.Verilog.Elab.foldInst_params", "Spydr.Verilog.Elab.foldAsg_params", "Spydr.Verilog.Elab.headerParamsGo_toks", "Spydr.Verilog.Elab.headerParams_toks", "Spydr.Verilog.Elab.moduleP_toksP", "Spydr.Verilog.Elab.params_text", "Spydr.Verilog.Elab.chars_mparamP", "Spydr.Verilog.Elab.toks_mparamP",
            "Spydr.Verilog.Elab.astLeafU_iface", "Spydr.Verilog.Elab.moduleText_leafU", "Spydr.Verilog.Elab.chars_leafPU", "Spydr.Verilog.Elab.toks_leafPU", "Spydr.Verilog.Elab.preprocess_filter", "Spydr.Verilog.Elab.leafToksU_filter", "Spydr.Verilog.Elab.toks_filePHA", "Spydr.Verilog.Elab.parseV_dropC",
            "Spydr.Verilog.Elab.elabModule_prim", "Spydr.Verilog.Elab.elabModule_leafX", "Spydr.Verilog.Elab.buildLeafX_facts", "Spydr.Verilog.Elab.moduleP_leafX", "Spydr.Verilog.Elab.topGo_leafX", "Spydr.Verilog.Elab.moduleText_leafX", "Spydr.Verilog.Elab.chars_leafPX", "Spydr.Verilog.Elab.toks_leafPX", "Spydr.Verilog.Elab.leafToksXU_filter",
            "Spydr.Verilog.Elab.splitKey_sound", "Spydr.Verilog.Elab.hp_last", "Spydr.Verilog.Elab.hp_more", "Spydr.Verilog.Elab.chars_keyP", "Spydr.Verilog.Elab.toks_keyP"],
}


class VShard(ShardResult):
    """divergences that are the direct effect of an open finding are kept twice per (obligation, finding) at most,
    so that they cannot crowd a new divergence out of the 20 slots a shard result carries"""

    def corr_mismatch(self, what, inp, impl=None, model=None, signature=None):
        if signature is not None:
            seen = self.__dict__.setdefault("_corr_seen", {})
            k = (what, signature)
            seen[k] = seen.get(k, 0) + 1
            if seen[k] > 2:
                return
        if signature is None or len(self["corr"]) < 14:
            ShardResult.corr_mismatch(self, what, inp, impl, model, signature)


def fam(e):
    if isinstance(e, AssertionError):
        return "assert"
    if isinstance(e, KeyError):
        return "key"
    if isinstance(e, IndexError):
        return "index"
    if isinstance(e, ValueError):
        return "value"
    if isinstance(e, TypeError):
        return "type"
    if isinstance(e, AttributeError):
        return "attribute"
    if isinstance(e, (RuntimeError, RecursionError, StopIteration)):
        return "runtime"
    return "other"


# ----------------------------------------------------------------------------------------------
# the implementation under test
# ----------------------------------------------------------------------------------------------
class Impl:
    """thin wrapper: text -> netlist through sdn.parse on a real file, netlist -> text through sdn.compose"""

    def __init__(self):
        import spydrnet as sdn
        from spydrnet.plugins import namespace_manager
        self.sdn = sdn
        self.nsm = namespace_manager
        self.dir = tempfile.mkdtemp(prefix="verif_verilog_")
        self.n = 0

    def close(self):
        shutil.rmtree(self.dir, ignore_errors=True)

    def parse(self, text):
        self.n += 1
        p = os.path.join(self.dir, "in%d.v" % (self.n % 4))
        with open(p, "w") as f:
            f.write(text)
        pol = self.nsm.default
        try:
            return self.sdn.parse(p)
        finally:
            self.nsm.default = pol      # C15's business; keep later cases independent of it

    def compose(self, nl, definition_list=None, write_blackbox=True, defparam=False):
        p = os.path.join(self.dir, "out%d.v" % (self.n % 4))
        kw = {"write_blackbox": write_blackbox, "defparam": defparam}
        if definition_list is not None:
            kw["definition_list"] = definition_list
        self.sdn.compose(nl, p, **kw)
        with open(p) as f:
            return f.read()


# ----------------------------------------------------------------------------------------------
# C06: one case
# ----------------------------------------------------------------------------------------------
def eval_c06(impl, design, text):
    """-> (problems, view|None, netlist|None); problems: list of (what, detail)"""
    import verilog_view as V
    from common import canon
    den = G.denote(design)
    try:
        nl = impl.parse(text)
    except Exception as e:                                    # noqa: BLE001
        return [("raises." + fam(e), "%s: %s" % (type(e).__name__, str(e)[:160]))], None, None
    v = V.view(nl)
    pr = V.check_c06(den, v)
    wf = canon.wf_problems(nl)
    if wf:
        pr.append(("well-formed", "; ".join(wf[:4])))
    wc = V.wire_pin_consistency(nl)
    if wc:
        pr.append(("well-formed", "; ".join(wc[:4])))
    return pr, v, nl


def c06_fails(impl, design, text=None):
    if text is None:
        text = G.render(design, None)
    pr, _, _ = eval_c06(impl, design, text)
    return pr


def attribute(fails, design, table):
    """fails(design) -> problems.  Returns (signatures, residual_design, residual_problems):
    known signatures that individually explain the failure, or the neutralised design that still fails."""
    trig = [(sig, neut) for (sig, t, neut) in table if t(design)]
    if not trig:
        return [], design, fails(design)
    # single cause?
    for sig, neut in trig:
        d1 = neut(design)
        try:
            if not fails(d1):
                return [sig], None, []
        except AssertionError:
            pass
    dall = K.neutralise_all(design, table)
    pr = fails(dall)
    if not pr:
        # several findings together: keep those without whose neutralisation the case still fails
        need = []
        for sig, _ in trig:
            rest = [(s_, t, n) for (s_, t, n) in table if s_ != sig]
            try:
                if fails(K.neutralise_all(design, rest)):
                    need.append(sig)
            except AssertionError:
                need.append(sig)
        return need or [sig for sig, _ in trig], None, []
    return [], dall, pr


def valid_design(design):
    try:
        G.denote(design)
    except Exception:                                         # noqa: BLE001
        return False
    mods = {m["name"] for m in design["modules"]}
    if design["top"] not in mods:
        return False
    # single root: every non-primitive module other than the top is instanced
    used = set()
    for m in design["modules"]:
        for it in m["body"]:
            if it["t"] == "inst":
                used.add(it["mod"])
    for m in design["modules"]:
        if m["kind"] == "module" and m["name"] != design["top"] and m["name"] not in used:
            return False
    if design["top"] in used:
        return False
    return True


def prune(design):
    """drop modules no longer reachable from the top"""
    mods = {m["name"]: m for m in design["modules"]}
    seen, todo = set(), [design["top"]]
    while todo:
        n = todo.pop()
        if n in seen or n not in mods:
            continue
        seen.add(n)
        for it in mods[n]["body"]:
            if it["t"] == "inst":
                todo.append(it["mod"])
    design["modules"] = [m for m in design["modules"] if m["name"] in seen]
    return design


def shrink(design, still_fails, budget=120):
    """greedy structural reduction; `still_fails(design)` must stay true"""
    import copy
    best = design
    steps = 0

    def candidates(d):
        for mi, m in enumerate(d["modules"]):
            for bi in range(len(m["body"])):
                yield ("body", mi, bi)
        for mi, m in enumerate(d["modules"]):
            for bi, it in enumerate(m["body"]):
                if it["t"] == "inst":
                    for ci in range(len(it["conns"])):
                        yield ("conn", mi, bi, ci)
        for mi, m in enumerate(d["modules"]):
            if m["attrs"] or m["params"]:
                yield ("meta", mi)
            for wi in range(len(m["wires"])):
                yield ("wire", mi, wi)
            for bi, it in enumerate(m["body"]):
                if it["t"] == "inst" and (it["attrs"] or it["params"]):
                    yield ("imeta", mi, bi)
        if d.get("timescale"):
            yield ("timescale",)

    def apply(d, c):
        d = copy.deepcopy(d)
        if c[0] == "body":
            del d["modules"][c[1]]["body"][c[2]]
            prune(d)
        elif c[0] == "conn":
            it = d["modules"][c[1]]["body"][c[2]]
            if it["map"] == "pos" and c[3] != len(it["conns"]) - 1:
                return None
            del it["conns"][c[3]]
        elif c[0] == "meta":
            d["modules"][c[1]]["attrs"] = []
            d["modules"][c[1]]["params"] = []
        elif c[0] == "imeta":
            d["modules"][c[1]]["body"][c[2]]["attrs"] = []
            d["modules"][c[1]]["body"][c[2]]["params"] = []
        elif c[0] == "wire":
            m = d["modules"][c[1]]
            name = m["wires"][c[2]]["name"]
            if name in json.dumps(m["body"]):
                return None
            del m["wires"][c[2]]
            m["decl_order"] = [x for x in m["decl_order"] if not (x[0] == "wire" and x[1] == c[2])]
            for x in m["decl_order"]:
                if x[0] == "wire" and x[1] > c[2]:
                    x[1] -= 1
        elif c[0] == "timescale":
            d["timescale"] = None
        return d
    progress = True
    while progress and steps < budget:
        progress = False
        for c in list(candidates(best)):
            if steps >= budget:
                break
            try:
                d1 = apply(best, c)
            except Exception:                                 # noqa: BLE001
                d1 = None
            if d1 is None or not valid_design(d1):
                continue
            steps += 1
            try:
                if still_fails(d1):
                    best = d1
                    progress = True
                    break
            except Exception:                                 # noqa: BLE001
                continue
    return best


def pack(design, text=None):
    d = G.strip_design(design)
    if text is None:
        text = G.render(d, None)
    return {"kind": "design", "design": d, "text": text}


def report_c06(res, impl, design, text, pr):
    """classify, shrink, report one failing C06 case"""
    sigs, resid, rpr = attribute(lambda d: c06_fails(impl, d, text if d is design else None), design, K.C06_KNOWN)
    if sigs:
        for s in sigs:
            sig = s

            def keeps(d, sig=sig):
                if not c06_fails(impl, d):
                    return False
                got, _, _ = attribute(lambda x: c06_fails(impl, x), d, K.C06_KNOWN)
                return sig in got
            seen = res.__dict__.setdefault("_seen", {})
            seen[s] = seen.get(s, 0) + 1
            small = shrink(design, keeps, budget=40) if seen[s] <= 1 else design
            res.spec_failure(s, pack(small), "; ".join("%s: %s" % p for p in c06_fails(impl, small)[:3]))
        return sigs
    what = rpr[0][0]

    def keeps2(d):
        p = c06_fails(impl, d)
        return bool(p) and p[0][0] == what and not any(t(d) for (_, t, _) in K.C06_KNOWN)
    small = shrink(resid, keeps2, budget=120) if not any(t(resid) for (_, t, _) in K.C06_KNOWN) else resid
    res.spec_failure("sdn.parse." + what, pack(small), "; ".join("%s: %s" % p for p in c06_fails(impl, small)[:3]) or str(rpr[:2]))
    return []


# ----------------------------------------------------------------------------------------------
# Lean correspondence helpers
# ----------------------------------------------------------------------------------------------
def env_of_view_def(D):
    return [[c["name"], c["lower"], c["width"]] for c in D["cables"]]


def model_atom(a):
    if a[0] == "const":
        return ["id", G.CONST_NAME[a[1]]]
    return a


def model_expr(e):
    if e is None:
        return None
    if isinstance(e, dict):
        return {"cat": [model_atom(a) for a in e["cat"]]}
    return model_atom(e)


def corr_c06_connections(res, drv, design, v, known_sig):
    """for every instance connection of the design: the Lean model's evalExpr + connectLowAligned on a
    port of the width the reader gave it, against the pins the reader built"""
    mods = {m["name"]: m for m in design["modules"]}
    reqs, meta = [], []
    for m in design["modules"]:
        if m["kind"] == "prim" or m["name"] not in v["defs"]:
            continue
        D = v["defs"][m["name"]]
        env = env_of_view_def(D)
        insts = {i["name"]: i for i in D["insts"]}
        for it in m["body"]:
            if it["t"] != "inst" or it["name"] not in insts:
                continue
            I = insts[it["name"]]
            rd = v["defs"].get(I["ref"])
            if rd is None:
                continue
            pnames = [p["name"] for p in rd["ports"]]
            tgt = mods.get(it["mod"])
            for idx, (pn, e) in enumerate(it["conns"]):
                if it["map"] == "pos":
                    if tgt is None or idx >= len(tgt["ports"]):
                        continue
                    pn = tgt["ports"][idx]["name"]
                if pn not in pnames:
                    continue
                got = I["pins"][pnames.index(pn)]
                reqs.append({"fn": "evalExpr", "env": env, "expr": model_expr(e)})
                meta.append((m["name"], it["name"], pn, got))
    if not reqs:
        return 0
    outs = drv.ask_many(reqs)
    n = 0
    for (mn, iname, pn, got), o in zip(meta, outs):
        ws = o.get("ws")
        if ws is None:
            res.corr_mismatch("C06.evalExpr defined on every generated connection", {"module": mn, "inst": iname, "port": pn},
                              got, o, signature=known_sig)
            continue
        W = len(got)
        if len(ws) > W:
            exp = None
        else:
            exp = list(reversed(ws)) + [None] * (W - len(ws))
        if exp != got:
            res.corr_mismatch("C06.connection: lowAligned(evalExpr) vs sdn.parse", pack(design), {"at": [mn, iname, pn], "pins": got},
                              {"pins": exp}, signature=known_sig)
        n += 1
    return n


def design_ast(design):
    """the abstract syntax tree the Lean elaboration reads (token order of the text)"""
    out = []
    for m in design["modules"]:
        header = []
        for p in m["ports"]:
            if p["alias"] is not None:
                e = {"cat": [["id", a] for a in p["alias"]]} if p.get("alias_braces", True) else ["id", p["alias"][0]]
                header.append({"n": p["name"], "dir": None, "rng": None, "alias": {"e": e}})
            elif m["style"] == "ansi":
                header.append({"n": p["name"], "dir": p["dir"],
                               "rng": [p.get("lsb", 0) + p["w"] - 1, p.get("lsb", 0)] if p["ranged"] else None, "alias": None})
            else:
                header.append({"n": p["name"], "dir": None, "rng": None, "alias": None})
        items = []
        for d in m["decl_order"]:
            if d[0] == "wire":
                w = m["wires"][d[1]]
                items.append({"t": "wire", "ty": w["type"], "rng": [w["msb"], w["lsb"]] if w["ranged"] else None,
                              "n": w["name"], "attrs": w["attrs"]})
            elif d[0] == "port":
                p = m["ports"][d[1]]
                items.append({"t": "port", "dir": p["dir"], "vt": p["vtype"],
                              "rng": [p.get("lsb", 0) + p["w"] - 1, p.get("lsb", 0)] if p["ranged"] else None, "n": p["name"],
                              "attrs": [] if m["kind"] == "prim" else (p.get("attrs") or [])})
            else:
                p = m["ports"][d[1]]
                items.append({"t": "port", "dir": p["dir"], "vt": None, "rng": None, "n": p["alias"][d[2]], "attrs": []})
        for it in m["body"]:
            if it["t"] == "assign":
                items.append({"t": "assign", "l": it["l"], "r": it["r"]})
            else:
                dp = bool(it.get("defparam")) and bool(it["params"])
                items.append({"t": "inst", "mod": it["mod"], "n": it["name"], "params": [] if dp else it["params"],
                              "attrs": it["attrs"], "named": it["map"] == "named" and bool(it["conns"]), "conns": it["conns"]})
                if dp:
                    for k, v in it["params"]:
                        items.append({"t": "defparam", "inst": it["name"], "key": k, "value": v})
        out.append({"name": m["name"], "prim": m["kind"] == "prim", "attrs": m["attrs"], "params": m["params"],
                    "header": header, "items": items})
    return out


def _canon_insts(insts, ref_ports):
    """assign instances: the pin order inside `o`/`i` is not part of C06 (the statement documents the joined bits,
    the unrepaired reader counts from the MSB, the repaired one from the LSB): compared as pairs (o bit, i bit)"""
    out = []
    for name, ref, params, attrs, pins in insts:
        if ref.startswith("SDN_VERILOG_ASSIGNMENT_") and len(pins) == 2 and ref_ports.get(ref) == ["i", "o"]:
            pins = ["assign-pairs", sorted(([o, i] for o, i in zip(pins[1], pins[0])), key=repr)]
        out.append([name, ref, params, attrs, pins])
    return out


def canon_impl_view(v):
    defs = []
    for name in sorted(v["defs"]):
        D = v["defs"][name]
        defs.append({
            "name": name, "lib": D["lib"], "primitive": bool(D["data"].get("VERILOG.primitive")),
            "params": D["data"].get("VERILOG.Parameters") or {}, "attrs": D["data"].get("VERILOG.InlineConstraints") or {},
            "ports": [[p["name"], p["dir"], p["lower"], p["width"], p["downto"], p["pins"],
                       p["data"].get("VERILOG.InlineConstraints") or {}] for p in D["ports"]],
            "cables": [[c["name"], c["lower"], c["width"], c["downto"], c["data"].get("VERILOG.CableType"),
                        c["data"].get("VERILOG.InlineConstraints")] for c in D["cables"]],
            "insts": _canon_insts([[i["name"], i["ref"], i["data"].get("VERILOG.Parameters") or {},
                                    i["data"].get("VERILOG.InlineConstraints"), i["pins"]] for i in D["insts"]],
                                  {n: [p["name"] for p in X["ports"]] for n, X in v["defs"].items()})})
    return {"top": v["top"], "defs": defs}


def canon_model_view(mv):
    defs = []
    for D in sorted(mv["defs"], key=lambda d: d["name"]):
        defs.append({
            "name": D["name"], "lib": D["lib"], "primitive": D["primitive"], "params": dict(D["params"]),
            "attrs": dict(D["attrs"]) if D["attrs"] else {},
            "ports": [[p["name"], p["dir"], p["lower"], p["width"], p["downto"], p["pins"],
                       dict(p["attrs"]) if p.get("attrs") else {}] for p in D["ports"]],
            "cables": [[c["name"], c["lower"], c["width"], c["downto"], c["ctype"],
                        None if c["attrs"] is None else dict(c["attrs"])] for c in D["cables"]],
            "insts": _canon_insts([[i["name"], i["ref"], dict(i["params"]), None if i["attrs"] is None else dict(i["attrs"]),
                                    i["pins"]] for i in D["insts"]],
                                  {X["name"]: [p["name"] for p in X["ports"]] for X in mv["defs"]})})
    return {"top": mv["top"], "defs": defs}


def ports_sorted(cv):
    """the canonical view with every definition's ports (and the pin rows of its instances) sorted by name"""
    order = {}
    for D in cv["defs"]:
        order[D["name"]] = sorted(range(len(D["ports"])), key=lambda i: repr(D["ports"][i][0]))
    out = {"top": cv["top"], "defs": []}
    for D in cv["defs"]:
        E2 = dict(D)
        E2["ports"] = [D["ports"][i] for i in order[D["name"]]]
        insts = []
        for name, ref, params, attrs, pins in D["insts"]:
            if isinstance(pins, list) and pins and pins[0] == "assign-pairs":
                insts.append([name, ref, params, attrs, pins])
            elif ref in order and len(pins) == len(order[ref]):
                insts.append([name, ref, params, attrs, [pins[i] for i in order[ref]]])
            else:
                insts.append([name, ref, params, attrs, pins])
        E2["insts"] = insts
        out["defs"].append(E2)
    return out


def first_diff(a, b, path=""):
    if type(a) != type(b):
        return path, a, b
    if isinstance(a, dict):
        for k in sorted(set(a) | set(b), key=str):
            if k not in a or k not in b:
                return path + "/" + str(k), a.get(k, "<absent>"), b.get(k, "<absent>")
            d = first_diff(a[k], b[k], path + "/" + str(k))
            if d:
                return d
        return None
    if isinstance(a, list):
        if len(a) != len(b):
            return path + "/len", len(a), len(b)
        for i, (x, y) in enumerate(zip(a, b)):
            d = first_diff(x, y, path + "/" + (str(x.get("name")) if isinstance(x, dict) and "name" in x else str(i)))
            if d:
                return d
        return None
    return None if a == b else (path, a, b)


def corr_c06_parse(res, drv, design, text):
    """characters -> tokens -> syntax tree in Lean (`parseV (lexV text)`) against the tree of the abstract design the
    text was rendered from: ties parseV to the engine's writer and to the tree `elabDesign` is given"""
    o = drv.ask({"fn": "parse", "text": text})
    want = json.loads(json.dumps(design_ast(design)))
    if not o.get("ok"):
        res.corr_mismatch("C06.parseV accepts every generated text", pack(design, text), "accepted by construction", o.get("raise", o))
        return
    d = first_diff(want, o["modules"])
    if d:
        res.corr_mismatch("C06.parseV (lexV text) = syntax tree of the design", pack(design, text), {"at": d[0], "design": d[1]},
                          {"at": d[0], "parseV": d[2]})


def corr_c06_read(res, drv, text, v, inp, order_may_differ, known_sig):
    """the whole reader from characters in Lean (`elabDesign (parseV (lexV text))`) against sdn.parse"""
    o = drv.ask({"fn": "read", "text": text})
    if not o.get("ok"):
        res.corr_mismatch("C06.readV vs sdn.parse (model rejects, reader accepts)", inp, "accepted", o.get("raise", o), signature=known_sig)
        return
    a, b = canon_impl_view(v), canon_model_view(o["view"])
    d = first_diff(a, b)
    if d:
        d2 = first_diff(ports_sorted(a), ports_sorted(b))
        if d2 is None:
            res.corr_mismatch("C06.readV vs sdn.parse (port order)", inp, {"at": d[0], "impl": d[1]}, {"at": d[0], "model": d[2]},
                              signature=K.SIG_POS_ORDER)
        else:
            res.corr_mismatch("C06.readV vs sdn.parse (view)", inp, {"at": d2[0], "impl": d2[1]}, {"at": d2[0], "model": d2[2]},
                              signature=known_sig)


def corr_c06_elab(res, drv, design, v, raised, known_sig):
    """the whole design: Lean `elabDesign` against sdn.parse (view or rejection)"""
    o = drv.ask({"fn": "elab", "modules": design_ast(design)})
    if "error" in o:
        res.corr_mismatch("C06.elabDesign: driver understood the design", pack(design), None, o, signature=known_sig)
        return
    if not o["ok"]:
        if raised is None:
            res.corr_mismatch("C06.elabDesign vs sdn.parse (model rejects, reader accepts)", pack(design), "accepted", o["raise"],
                              signature=known_sig)
        return
    if raised is not None:
        res.corr_mismatch("C06.elabDesign vs sdn.parse (reader rejects, model accepts)", pack(design), raised, "accepted",
                          signature=known_sig)
        return
    a, b = canon_impl_view(v), canon_model_view(o["view"])
    d = first_diff(a, b)
    if d:
        d2 = first_diff(ports_sorted(a), ports_sorted(b))
        if d2 is None:
            # nothing but the order of the ports differs: the (repaired) header-order finding
            res.corr_mismatch("C06.elabDesign vs sdn.parse (port order)", pack(design), {"at": d[0], "impl": d[1]},
                              {"at": d[0], "model": d[2]}, signature=K.SIG_POS_ORDER)
        else:
            res.corr_mismatch("C06.elabDesign vs sdn.parse (view)", pack(design), {"at": d2[0], "impl": d2[1]},
                              {"at": d2[0], "model": d2[2]}, signature=known_sig)


# ----------------------------------------------------------------------------------------------
# C06 shard
# ----------------------------------------------------------------------------------------------
def gen_case(rng, pid):
    size = rng.choice(["tiny", "small", "small", "medium"])
    # never-declared modules instantiated BY POSITION have unnamed ports: in the reader's domain (C06), not in the
    # writer's (a port without a name cannot be written: compose raises by design), so C04 does not generate them
    d = G.gen_design(rng, size, None if pid == "C06" else {"p_posbb": 0.0})
    # most cases avoid the sub-domains of the open findings so that everything else is exercised;
    # the rest keeps them (re-detection)
    keep = rng.random() < 0.12
    if pid == "C06":
        if not keep:
            d = K.neutralise_all(d, K.active(K.C06_KNOWN, "C06"))
    else:
        d = K.neutralise_all(d, K.active(K.C06_KNOWN, "C06"))
        if not keep:
            d = K.neutralise_all(d, K.active(K.C04_KNOWN, "C04"))
    text = G.render(d, rng, comments=rng.random() < 0.7)
    return d, text


def shard_c06(seed, idx, n_cases, deadline):
    res = VShard()
    rng = random.Random(stable_hash(["verilog", "C06", seed, idx]))
    impl = Impl()
    drv = lean.Driver("drv_verilog")
    try:
        for _ in range(n_cases):
            if time.time() > deadline:
                res.dist("stopped-at-deadline")
                break
            d, text = gen_case(rng, "C06")
            pr, v, nl = eval_c06(impl, d, text)
            feats = G.design_features(d)
            for f in feats:
                res.dist(f)
            res.case(stable_hash(text), nontrivial=("bus" in feats or "depth>=2" in feats))
            res.sample({"text": text[:400]})
            known = None
            if pr:
                sigs = report_c06(res, impl, d, text, pr)
                res.dist("P-failed")
                known = sigs[0] if sigs else None
            trig = [sig for (sig, t, _) in K.C06_KNOWN if t(d)]
            if v is not None:
                k = corr_c06_connections(res, drv, d, v, known or (trig[0] if trig else None))
                res.dist("connections-compared", k)
            raised = pr[0][0] if (pr and v is None) else None
            corr_c06_elab(res, drv, d, v, raised, known or (trig[0] if trig else None) or K.corr_sig_c06(d))
            res.dist("designs-elaborated-by-the-model")
            corr_lex(res, drv, text, "generated text", pack(d, text))
            corr_c06_parse(res, drv, d, text)
            reach(res, drv, {"fn": "fragment06", "text": text})
            res.dist("theorem_fragment:reader_structWF:in")      # holds for ANY text the reader accepts or refuses
    finally:
        drv.close()
        impl.close()
    return res


BLOCK = 32768      # VerilogTokenizer reads the file in blocks of this many characters


def straddle_texts(rng, text, n):
    """long sources: the generated text behind a leading block comment whose length puts a chosen two-character
    piece of the text (comment closer / opener, `//`, `(*`, `*)`, an escaped identifier, a string, `1'b`) - or the
    closer of the leading comment itself - exactly across a multiple of the tokenizer's read block (offsets -2..+2).
    A leading comment is white space: the design read must not change."""
    marks = ["*/", "/*", "//", "(*", "*)", "\\", '"', "'b", ");", "`c", "`e"]
    sites = []
    for m in marks:
        i = text.find(m)
        while i >= 0 and len(sites) < 400:
            sites.append((m, i))
            i = text.find(m, i + 1)
    out = []
    for _ in range(n):
        j = rng.choice([1, 1, 1, 2, 3, 5, 9])
        delta = rng.randint(-2, 2)
        if sites and rng.random() < 0.6:
            m, i = rng.choice(sites)
            # the boundary falls between character i and i+1 of the text (shifted by delta)
            pad = BLOCK * j - (i + 1) + delta
            what = "%s at %d*32768%+d" % (m, j, delta)
        else:
            # the closer of the leading comment itself: its `*` is the last character of a block (shifted by delta)
            pad = BLOCK * j + 1 + delta            # pad = len("/*" + filler + "*/"); '*' of the closer at index pad-2
            what = "closer of the leading comment at %d*32768%+d" % (j, delta)
            i = None
        while pad < 8:
            pad += BLOCK
        # many short comment / blank lines (a single huge comment makes the tokenizer quadratic), then one last block
        # comment of 8..100 characters that brings the length to `pad`
        tail_nl = "\n" if i is not None else ""
        last = 8 + (pad - 8) % 80 if pad >= 88 else pad
        lines = []
        left = pad - last
        while left > 0:
            k = 80 if left >= 80 else left
            r = rng.random()
            if k < 6 or r < 0.15:
                lines.append(" " * (k - 1) + "\n")
            elif r < 0.5:
                lines.append("//" + rng.choice(["x", "-", "=", "w"]) * (k - 3) + "\n")
            else:
                lines.append("/*" + rng.choice(["x", "-", "=", " ", "w"]) * (k - 5) + "*/\n")
            left -= k
        lead = "".join(lines) + "/*" + rng.choice(["x", "-", "w"]) * (last - 4 - len(tail_nl)) + "*/" + tail_nl
        assert len(lead) == pad, (len(lead), pad)
        out.append((what, lead + text))
    return out


def shard_long_c06(seed, idx, n_designs, deadline):
    """a few LONG sources per run (33-300 kB): the tokenizer reads in blocks of 32768 characters; whatever sits across a
    block boundary must be read as anywhere else.  P on the implementation against the denotation of the design; the
    Lean lexer (length-independent) against the real tokenizer on the sources of one block."""
    res = VShard()
    rng = random.Random(stable_hash(["verilog", "C06-long", seed, idx]))
    impl = Impl()
    drv = lean.Driver("drv_verilog")
    try:
        for _ in range(n_designs):
            if time.time() > deadline:
                res.dist("stopped-at-deadline")
                break
            d, text = gen_case(rng, "C06")
            pr0, _, _ = eval_c06(impl, d, text)
            if pr0:
                continue                                      # the short text is shard_c06's business
            for what, long_text in straddle_texts(rng, text, 6):
                if time.time() > deadline:
                    break
                pr, v, nl = eval_c06(impl, d, long_text)
                res.case(stable_hash(long_text), nontrivial=True)
                res.dist("long-source:" + what.split(" at ")[0].split(" of ")[0])
                res.dist("long-source:%d-kB" % (len(long_text) // 1024 // 32 * 32))
                if pr:
                    inp = {"kind": "design", "design": d, "text": long_text}
                    res.spec_failure("sdn.parse.long-source." + pr[0][0], inp,
                                     "the same design behind a leading comment of %d characters (%s): %s"
                                     % (len(long_text) - len(text), what, "; ".join("%s: %s" % p for p in pr[:3])))
                if len(long_text) < 2 * BLOCK + 4096:
                    corr_lex(res, drv, long_text, "long source", {"kind": "design", "design": d, "text": long_text})
    finally:
        drv.close()
        impl.close()
    return res


# ----------------------------------------------------------------------------------------------
# direct drives of the reader's building blocks (correspondence with the bit-level model)
# ----------------------------------------------------------------------------------------------
def shard_blocks_reader(seed, idx, n_cases, deadline):
    res = VShard()
    rng = random.Random(stable_hash(["verilog", "blocks-reader", seed, idx]))
    import spydrnet as sdn
    from spydrnet.parsers.verilog.parser import VerilogParser
    from spydrnet.parsers.verilog.tokenizer import VerilogTokenizerSimple
    drv = lean.Driver("drv_verilog")

    def ri(lo, hi):
        return rng.randint(lo, hi)
    try:
        for _ in range(n_cases):
            if time.time() > deadline:
                break
            # --- get_wires_from_cable -----------------------------------------------------
            vp = VerilogParser()
            lower, n = ri(-3, 6), ri(1, 7)
            c = sdn.Cable(name="c")
            c.create_wires(n)
            c.lower_index = lower
            l = rng.choice([None, ri(lower - 2, lower + n + 1)])
            r = rng.choice([None, ri(lower - 2, lower + n + 1)])
            try:
                ws = [c.wires.index(w) for w in vp.get_wires_from_cable(c, l, r)]
            except IndexError:
                ws = None
            o = drv.ask({"fn": "getWires", "lower": lower, "n": n, "l": l, "r": r})
            inr = all(x is None or lower <= x < lower + n for x in (l, r))
            res.case(("gw", lower, n, l, r), nontrivial=n > 1)
            res.dist("getWires:" + ("in-range" if inr else "out-of-range"))
            if o["ws"] != ws:
                res.corr_mismatch("C06.getWires vs get_wires_from_cable", {"lower": lower, "n": n, "l": l, "r": r}, ws, o["ws"])
            if inr and l is not None and r is not None:
                want = [i - lower for i in range(max(l, r), min(l, r) - 1, -1)]
                if ws != want:
                    res.spec_failure("get_wires_from_cable.not-msb-first", {"kind": "getWires", "lower": lower, "n": n, "l": l, "r": r},
                                     "%s expected %s" % (ws, want))
            # --- create_or_update_cable / port sequences -------------------------------------
            vp = VerilogParser()
            vp.current_definition = sdn.Definition(name="d")
            kind = rng.choice(["cable", "port"])
            name = "x"
            steps = []
            obj = None
            for _s in range(ri(1, 4)):
                lr = rng.choice([(None, None), (ri(-2, 8), None), (None, ri(-2, 8)), (ri(-2, 8), ri(-2, 8))])
                defining = rng.random() < 0.4
                before = None
                if obj is not None:
                    items = list(obj.wires) if kind == "cable" else list(obj.pins)
                    before = (obj.lower_index, items)
                if kind == "cable":
                    obj = vp.create_or_update_cable(name, left_index=lr[0], right_index=lr[1], defining=defining)
                    items = list(obj.wires)
                else:
                    obj = vp.create_or_update_port(name, left_index=lr[0], right_index=lr[1], defining=defining)
                    items = list(obj.pins)
                steps.append([lr[0], lr[1], defining])
                if before is None:
                    o = drv.ask({"fn": "populate", "l": lr[0], "r": lr[1]})
                    got = {"lower": obj.lower_index, "width": len(items), "downto": bool(obj.is_downto)}
                    if o != got:
                        res.corr_mismatch("C06.populateNew vs populate_new_" + kind, {"steps": steps}, got, o)
                else:
                    o = drv.ask({"fn": "resize", "kind": kind, "lower": before[0], "width": len(before[1]),
                                 "l": lr[0], "r": lr[1], "defining": defining})
                    pre, post = o["pre"], o["post"]
                    ok = (obj.lower_index == o["lower"] and len(items) == pre + len(before[1]) + post
                          and all(a is b for a, b in zip(items[pre:pre + len(before[1])], before[1])))
                    if not ok:
                        res.corr_mismatch("C06.resize%s vs create_or_update_%s" % (kind.capitalize(), kind),
                                          {"steps": steps, "before": [before[0], len(before[1])]},
                                          {"lower": obj.lower_index, "width": len(items)}, o)
                    res.dist("resize:%s:pre%d:post%d:%s" % (kind, min(pre, 1), min(post, 1), "def" if defining else "use"))
                res.case(("cu", kind, tuple(map(tuple, steps))), nontrivial=True)
            # --- the port-map loop: named (parse_port_map_single) and positional -------------
            W = ri(1, 5)
            nw = ri(0, W)
            named = rng.random() < 0.5
            nl = sdn.Netlist()
            lib = nl.create_library(name="work")
            leaf = lib.create_definition(name="leaf")
            port = leaf.create_port(name="p")
            port.create_pins(W)
            other = leaf.create_port(name="q")
            other.create_pins(1)
            topd = lib.create_definition(name="top")
            inst = topd.create_child(name="u", reference=leaf)
            cab = topd.create_cable(name="c")
            cab.create_wires(max(nw, 1) + 2)
            cab.lower_index = ri(0, 3)
            hi = cab.lower_index + len(cab.wires) - 1
            vp = VerilogParser()
            vp.netlist = nl
            vp.current_definition = topd
            vp.current_instance = inst
            vp.blackbox_holder.name_lookup["leaf"] = leaf
            if nw == 0:
                toks = []
            elif nw == 1 and rng.random() < 0.5:
                toks = ["c", "[", str(hi), "]"]
            else:
                toks = ["c", "[", str(hi), ":", str(hi - nw + 1), "]"]
            exp_ws = list(range(hi - cab.lower_index, hi - cab.lower_index - nw, -1))
            try:
                if named:
                    vp.tokenizer = VerilogTokenizerSimple([".", "p", "("] + toks + [")"])
                    vp.parse_port_map_single()
                else:
                    if nw == 0:
                        continue
                    vp.implicitly_mapped_ports[inst] = ["("] + toks + [")"]
                    vp.connect_implicitly_mapped_ports()
                got = [None if inst.pins[q].wire is None else cab.wires.index(inst.pins[q].wire) for q in port.pins]
            except Exception as e:                            # noqa: BLE001
                got = "raise:" + fam(e)
            o = drv.ask({"fn": "connect", "pins": [None] * W, "ws": exp_ws})
            res.case(("pm", W, nw, named), nontrivial=W > 1)
            res.dist("portmap:%s:%s" % ("named" if named else "positional", "full" if nw == W else ("empty" if nw == 0 else "partial")))
            if o["pins"] != got:
                res.corr_mismatch("C06.connectLowAligned vs " + ("parse_port_map_single" if named else "connect_implicitly_mapped_ports"),
                                  {"W": W, "ws": exp_ws, "named": named}, got, o["pins"])
            if o["spec"] != got:
                res.spec_failure(("parse_port_map_single" if named else "connect_implicitly_mapped_ports") + ".not-low-aligned",
                                 {"kind": "portmap", "W": W, "nw": nw, "named": named}, "%s expected %s" % (got, o["spec"]))
    finally:
        drv.close()
    return res


# ----------------------------------------------------------------------------------------------
# C04: one case
# ----------------------------------------------------------------------------------------------
OPTION_COMBOS = [(dl, wb, dp) for dl in ("none", "all", "subset") for wb in (True, False) for dp in (False, True)]


def definition_subset(v, rng):
    names = [n for n, D in v["defs"].items() if D["lib"] == "work"]
    keep = [n for n in names if n == v["top"] or rng.random() < 0.6]
    return keep


def eval_c04(impl, nl, v1, combo, rng, res=None):
    """compose with the option combination, re-parse, compare.  -> (problems, text2)"""
    import verilog_view as V
    dl, wb, dp = combo
    all_written = [n for n, D in v1["defs"].items() if D["lib"] != V.ASSIGN_LIB]
    if dl == "none":
        dlist = None
    elif dl == "all":
        dlist = list(all_written)
    else:
        dlist = definition_subset(v1, rng)
    written = set(all_written if dlist is None else dlist)
    if not wb:
        written = {n for n in written if v1["defs"][n]["lib"] != "hdi_primitives"}
    if res is not None:
        res["_last_opts"] = (dlist, wb, dp)
    try:
        text2 = impl.compose(nl, dlist, wb, dp)
    except Exception as e:                                    # noqa: BLE001
        return [("compose.raises." + fam(e), "%s: %s" % (type(e).__name__, str(e)[:160]))], None
    try:
        nl2 = impl.parse(text2)
    except Exception as e:                                    # noqa: BLE001
        return [("reparse.raises." + fam(e), "%s: %s" % (type(e).__name__, str(e)[:160]))], text2
    v2 = V.view(nl2)
    free = set(all_written) - written
    a = V.view04(v1, keep_defs=None, iface_free=free)
    b = V.view04(v2, keep_defs=None, iface_free=free)
    if free:
        # definitions that were not written come back as inferred black boxes: their own contents are gone
        for n in free:
            a["defs"].pop(V.vname(n), None)
            b["defs"].pop(V.vname(n), None)
        if v1["top"] in free:
            a["top"] = b["top"] = None
    pr = [("roundtrip." + w, d) for (w, d) in V.diff04(a, b, iface_free={V.vname(n) for n in free})]
    from common import canon
    wf = canon.wf_problems(nl2)
    if wf:
        pr.append(("roundtrip.well-formed", "; ".join(wf[:3])))
    return pr, text2


def transform(impl, nl, how):
    from spydrnet.uniquify import uniquify
    from spydrnet.flatten import flatten
    if how == "uniquify":
        uniquify(nl)
    elif how == "flatten":
        uniquify(nl)
        flatten(nl)
    elif how == "clone":
        nl = nl.clone()
    return nl


def top_external(nl):
    """the top instance references a definition that is not in this netlist (DESIGN §7 candidate 1, C07)"""
    t = nl.top_instance
    if t is None or t.reference is None:
        return False
    return not any(t.reference is d for lib in nl.libraries for d in lib.definitions)


def unwritable_names(nl):
    """cables / instances / ports / definitions whose name is neither a simple identifier nor escaped"""
    import verilog_view as V
    out = []
    for lib in nl.libraries:
        for d in lib.definitions:
            for e in [d] + list(d.ports) + list(d.cables) + list(d.children):
                n = e.name
                if n is not None and not n.startswith("\\") and not V.simple_identifier(n):
                    out.append(e)
    return out


def c04_run(impl, design, text, how, combo, rng_seed, escape_names=False, keep_undef=False):
    """-> problems (list).  Parsing the *input* is C06's business: a text the reader rejects is no C04 case."""
    import verilog_view as V
    try:
        nl = impl.parse(text)
    except Exception:                                         # noqa: BLE001
        return None
    try:
        nl = transform(impl, nl, how)
    except Exception as e:                                    # noqa: BLE001
        return [("transform.%s.raises.%s" % (how, fam(e)), str(e)[:120])]
    if escape_names:
        for e in unwritable_names(nl):
            try:
                e.name = "\\" + e.name
            except ValueError:
                return [("escaped-name-already-taken", str(e.name))]
    v1 = V.view(nl)
    pr, _ = eval_c04(impl, nl, v1, combo, random.Random(rng_seed))
    if not keep_undef:
        pr = [p for p in pr if p[0] != UNDEF_TAG]
    return pr


UNDEF_TAG = "roundtrip.port.direction.undefined-becomes-inout"


def report_c04(res, impl, design, text, how, combo, rng_seed, pr):
    """Attribute one failing C04 case.  A configuration is (design, transform, escape_names).  Each open
    finding has a neutraliser on configurations; a failure is attributed to a finding iff neutralising
    exactly that one makes the case pass; what still fails with every neutraliser applied is new."""
    def run(cfg, t=None):
        d, h, esc = cfg
        r = c04_run(impl, d, t if t is not None else G.render(d, None), h, combo, rng_seed, esc)
        return r or []

    def neutralisers(cfg):
        d, h, esc = cfg
        out = []
        for sig, trig, neut in K.C04_KNOWN:
            if trig(d):
                out.append((sig, lambda c, neut=neut: (neut(c[0]), c[1], c[2])))
        if h == "flatten" and not esc:
            out.append((K.SIG_C04_FLATNAME, lambda c: (c[0], c[1], True)))
        if h == "clone" and clone_defect(d):
            out.append((K.SIG_C04_CLONE, lambda c: (c[0], "none", c[2])))
        return out

    def clone_defect(d):
        """the clone's top instance references a definition outside the clone (the condition of that finding)"""
        try:
            return top_external(impl.parse(G.render(d, None)).clone())
        except Exception:                                     # noqa: BLE001
            return False

    def full(cfg):
        for _ in range(3):
            ns = neutralisers(cfg)
            if not ns:
                break
            for _, f in ns:
                cfg = f(cfg)
        return cfg

    def causes(cfg, t=None):
        """signatures of the findings that (alone or together) explain the failure of cfg; [] if it passes;
        None if it fails even when fully neutralised"""
        if not run(cfg, t):
            return []
        ns = neutralisers(cfg)
        single = [sig for sig, f in ns if not run(f(cfg))]
        if single:
            return single
        if ns and not run(full(cfg)):
            # several findings together: keep those without whose neutralisation the case still fails
            need = []
            for sig, f in ns:
                c2 = cfg
                for sig2, f2 in ns:
                    if sig2 != sig:
                        c2 = f2(c2)
                if run(full_except(c2, sig)):
                    need.append(sig)
            return need or [sig for sig, _ in ns]
        return None

    def full_except(cfg, skip):
        for _ in range(3):
            ns = [(s_, f) for (s_, f) in neutralisers(cfg) if s_ != skip]
            if not ns:
                break
            for _, f in ns:
                cfg = f(cfg)
        return cfg
    def shapes(cfg):
        import verilog_view as V
        d, h, esc = cfg
        try:
            nl = transform(impl, impl.parse(G.render(d, None)), h)
            return set(V.assign_shapes(V.view(nl)))
        except Exception:                                     # noqa: BLE001
            return set()

    def refine(cfg, cs):
        """the wide-assign sub-domain holds two findings, told apart by the shape of the assign pins"""
        if not cs or K.SIG_C04_ASSIGN not in cs:
            return cs
        sh = shapes(cfg)
        out = [c for c in cs if c != K.SIG_C04_ASSIGN]
        if "desc" in sh and cfg[1] != "flatten":
            out.append(K.SIG_C04_ASSIGN)
        if "split" in sh or "open" in sh or ("desc" in sh and cfg[1] == "flatten"):
            # after flatten: pins on several cables, with gaps, or in descending order (a reversed connection inside)
            out.append(K.SIG_C04_ASSIGN_SPLIT)
        return out or None
    _causes = causes

    def causes(cfg, t=None):                                  # noqa: F811
        return refine(cfg, _causes(cfg, t))
    cfg0 = (design, how, False)
    inp_extra = {"options": list(combo), "rng": rng_seed}
    cs = causes(cfg0, text)
    if cs == []:
        return []
    if cs:
        for s in cs:
            def keeps(d, s=s):
                try:
                    c = causes((d, how, False))
                except Exception:                             # noqa: BLE001
                    return False
                return bool(c) and s in c
            seen = res.__dict__.setdefault("_seen", {})
            seen[s] = seen.get(s, 0) + 1
            small = shrink(design, keeps, budget=25) if seen[s] <= 1 else design
            res.spec_failure(s, dict(pack(small), transform=how, **inp_extra),
                             "; ".join("%s: %s" % p for p in run((small, how, False))[:3]))
        return cs
    cfgN = full(cfg0)
    rpr = run(cfgN)
    what = rpr[0][0]

    def keeps2(d):
        try:
            c = full((d, cfgN[1], cfgN[2]))
            p = run(c)
        except Exception:                                     # noqa: BLE001
            return False
        return bool(p) and p[0][0] == what
    small = shrink(cfgN[0], keeps2, budget=80)
    cS = full((small, cfgN[1], cfgN[2]))
    p2 = run(cS)
    res.spec_failure(what, dict(pack(cS[0]), transform=cS[1], escape_names=cS[2], **inp_extra),
                     "; ".join("%s: %s" % p for p in p2[:3]) or str(rpr[:2]))
    return []


def corr_c04_writer(res, drv, impl, nl, v1, known_sig, inp):
    """the composer's own building blocks on the parsed netlist against the Lean writer model"""
    from spydrnet.composers.verilog.composer import Composer
    reqs, meta = [], []
    comp = Composer()
    for lib in nl.libraries:
        for d in lib.definitions:
            D = v1["defs"].get(d.name)
            if D is None or lib.name == "SDN_VERILOG_ASSIGNMENT":
                continue
            env = env_of_view_def(D)
            for k, I in zip(d.children, D["insts"]):
                r = k.reference
                if r is None:
                    continue
                if r.library is not None and r.library.name == "SDN_VERILOG_ASSIGNMENT":
                    pn = [p.name for p in r.ports]
                    if sorted(pn) != ["i", "o"]:
                        continue
                    comp.file = io.StringIO()
                    try:
                        comp._write_assignment(k)
                        got = "".join(comp.file.getvalue().split())
                    except Exception as e:                    # noqa: BLE001
                        got = "raise"
                    reqs.append({"fn": "assign", "env": env, "o": I["pins"][pn.index("o")], "i": I["pins"][pn.index("i")]})
                    meta.append(("assign", d.name, k.name, got, None))
                    continue
                for pi, p in enumerate(r.ports):
                    if not p.name or not len(p.pins):
                        continue
                    comp.file = io.StringIO()
                    try:
                        comp._write_instance_port(k, p)
                        got = "".join(comp.file.getvalue().split())
                    except Exception as e:                    # noqa: BLE001
                        got = "raise"
                    reqs.append({"fn": "emit", "env": env, "pins": I["pins"][pi]})
                    meta.append(("port", d.name, k.name, got, p.name))
            for p, P in zip(d.ports, D["ports"]):
                if not p.name or not len(p.pins):
                    continue
                comp.file = io.StringIO()
                try:
                    comp._write_module_header_port(p)
                    got = "".join(comp.file.getvalue().split())
                except Exception:                             # noqa: BLE001
                    got = "raise"
                reqs.append({"fn": "header", "env": env, "name": p.name, "pins": P["pins"]})
                meta.append(("header", d.name, p.name, got, None))
    if not reqs:
        return 0
    outs = drv.ask_many(reqs)
    n = 0
    import verilog_view as V

    def cmp(what, at, got, mk):
        """mk(namefn) renders the model's answer; the model follows the repaired writer (names that are not
        simple identifiers are written escaped); the unrepaired writer's raw names are the open finding"""
        exp = mk(V.vname)
        if exp == got:
            return
        raw = mk(lambda x: x)
        if raw == got and raw != exp:
            res.corr_mismatch(what, dict(inp, at=at), got, exp, signature=K.SIG_C04_FLATNAME)
        else:
            res.corr_mismatch(what, dict(inp, at=at), got, exp, signature=known_sig)
    for (kind, dn, nm, got, pn), o in zip(meta, outs):
        n += 1
        if kind == "port":
            res.dist("emit:" + expr_kind(o["expr"]))
            cmp("C04.emitPortExpr vs _write_instance_port", [dn, nm, pn], got,
                lambda f, o=o, pn=pn: "raise" if o["expr"] == "raise" else "." + f(pn) + "(" + flat_expr(o["expr"], f) + ")")
            if not o["shape"]:
                res.dist("emit:pin-vector-not-of-reader-shape")
                res.corr_mismatch("C04.ReaderShape holds for every instance port of a netlist in the domain", dict(inp, at=[dn, nm, pn]),
                                  None, o, signature=known_sig)
            elif not o["rt"]:
                res.corr_mismatch("C04.emit_eval on the implementation's pin vector", dict(inp, at=[dn, nm, pn]), None, o, signature=known_sig)
        elif kind == "assign":
            cmp("C04.emitAssign vs _write_assignment", [dn, nm], got,
                lambda f, o=o: "raise" if o.get("l") is None else "assign" + flat_atom(o["l"], f) + "=" + flat_atom(o["r"], f) + ";")
        else:
            res.dist("header:" + ("alias" if o.get("alias") is not None else "plain"))
            cmp("C04.emitHeaderPort vs _write_module_header_port", [dn, nm], got,
                lambda f, o=o, nm=nm: "raise" if not o["ok"] else (f(nm) if o["alias"] is None else
                                                                "." + f(nm) + "({" + ",".join(flat_atom(a, f) for a in o["alias"]) + "})"))
    return n


def flat_atom(a, f=lambda x: x):
    # whitespace is removed before comparing, so the escaped identifier's blank does not matter
    if a[0] == "id":
        return f(a[1])
    if a[0] == "bit":
        return "%s[%d]" % (f(a[1]), a[2])
    return "%s[%d:%d]" % (f(a[1]), a[2], a[3])


def flat_expr(e, f=lambda x: x):
    if e is None:
        return ""
    if isinstance(e, dict):
        return "{" + ",".join(flat_atom(a, f) for a in e["cat"]) + "}"
    return flat_atom(e, f)


def expr_kind(e):
    if e is None:
        return "empty"
    if e == "raise":
        return "raise"
    if isinstance(e, dict):
        return "concat"
    return {"id": "whole", "bit": "bit", "part": "slice"}[e[0]]


def wnet_of(nl):
    """the netlist as the Lean writer model reads it (library order, dictionaries in insertion order)"""
    import verilog_view as V

    def attrs(e):
        a = e._data.get("VERILOG.InlineConstraints")
        if a is None:
            return None
        return [[str(k), None if v is None else str(v)] for k, v in a.items()]
    defs = []
    for lib in nl._libraries:
        for d in lib._definitions:
            pr = d._data.get("VERILOG.Parameters")
            D = {"name": d.name, "lib": lib.name,
                 "params": None if pr is None else [[str(k), None if v is None else str(v)] for k, v in pr.items()],
                 "attrs": attrs(d), "ports": [], "cables": [], "insts": []}
            for p in d._ports:
                D["ports"].append({"name": p.name, "dir": V._dir(p), "lower": p._lower_index, "width": len(p._pins),
                                   "pins": [V._bit_of_wire(q._wire) for q in p._pins], "attrs": attrs(p)})
            for c in d._cables:
                D["cables"].append({"name": c.name, "lower": c._lower_index, "width": len(c._wires),
                                    "ctype": c._data.get("VERILOG.CableType"), "attrs": attrs(c)})
            for k in d._children:
                r = k._reference
                ip = k._data.get("VERILOG.Parameters")
                rows = []
                if r is not None:
                    for p in r._ports:
                        rows.append([V._bit_of_wire(k._pins[q]._wire) if q in k._pins else None for q in p._pins])
                D["insts"].append({"name": k.name, "ref": r.name if r is not None else "?",
                                   "params": None if ip is None else [[str(a), str(b)] for a, b in ip.items()],
                                   "attrs": attrs(k), "pins": rows})
            defs.append(D)
    t = nl._top_instance
    return {"name": nl.name, "top": t._reference.name if t is not None and t._reference is not None else None, "defs": defs}


def real_tokens(text):
    from spydrnet.parsers.verilog.tokenizer import VerilogTokenizer
    tk = VerilogTokenizer.from_string(text)
    return list(tk.generator)


def corr_lex(res, drv, text, what, inp):
    """the Lean TokenFactory automaton against the real tokenizer, comments and directives included"""
    try:
        real = real_tokens(text)
    except Exception as e:                                    # noqa: BLE001
        real = "raise:" + fam(e)
    o = drv.ask({"fn": "lex", "text": text})
    if o.get("tokens") != real:
        k = next((i for i, (a, b) in enumerate(zip(real, o.get("tokens", []))) if a != b), min(len(real), len(o.get("tokens", []))))
        res.corr_mismatch("lexV vs VerilogTokenizer (" + what + ")", inp, {"at": k, "tokens": real[k:k + 3] if isinstance(real, list) else real},
                          {"at": k, "tokens": o.get("tokens", [])[k:k + 3]})
    res.dist("lexed:" + what)


def reach(res, drv, req):
    """reach of the theorems (evidence only, no verdict depends on it): the driver evaluates the theorems' own decidable
    fragment predicates on this case; `in` = inside, otherwise the first failing clause"""
    try:
        o = drv.ask(req)
    except Exception:                                         # noqa: BLE001
        res.dist("theorem_fragment:driver-did-not-answer")
        return
    if "rejected" in o or "error" in o:
        res.dist("theorem_fragment:input-rejected-by-the-model's-parser")
        return
    for thm, v in o.items():
        inside, label = v
        res.dist("theorem_fragment:%s:%s" % (thm, "in" if inside else label))


def corr_c04_text(res, drv, nl, combo_opts, text2, known_sig, inp):
    """the whole written file, token by token: Lean composeV against the composer's output"""
    dlist, wb, dp = combo_opts
    o = drv.ask({"fn": "compose", "net": wnet_of(nl), "opts": {"defList": dlist, "writeBlackbox": wb, "defparam": dp},
                 "text": text2 if text2 is not None else ""})
    if "error" in o:
        res.corr_mismatch("C04.composeV: driver understood the netlist", inp, None, o, signature=known_sig)
        return
    if text2 is None:
        if o["ok"]:
            res.corr_mismatch("C04.composeV vs sdn.compose (writer raises, model writes)", inp, "raise", o["text"][:300], signature=known_sig)
        return
    if not o["ok"]:
        res.corr_mismatch("C04.composeV vs sdn.compose (model raises, writer writes)", inp, text2[:300], o["raise"], signature=known_sig)
        return
    if not o["finished"]:
        res.corr_mismatch("C04.write_order_defined: fuel sufficed (finished = true)", inp, None, o["finished"])
    if not o["same"]:
        import verilog_view as V
        sig = known_sig
        if sig is None and any(not V.simple_identifier(t) and not t.startswith("\\") and "/" in t for t in (o["firstDiff"] or [0, "", ""])[1:] if isinstance(t, str)):
            sig = K.SIG_C04_FLATNAME
        res.corr_mismatch("C04.composeV vs sdn.compose (token stream)", inp, {"firstDiff": o["firstDiff"]}, None, signature=sig)
    res.dist("files-compared-token-by-token")


def corr_c04_order(res, drv, nl, inp):
    from spydrnet.composers.verilog.composer import Composer
    defs = [d for lib in nl.libraries for d in lib.definitions]
    pos = {id(d): i for i, d in enumerate(defs)}
    children = [[pos[id(c.reference)] for c in d.children if c.reference is not None and id(c.reference) in pos] for d in defs]
    visited = []

    class Rec(Composer):
        def _write_module(self, definition):
            visited.append(pos.get(id(definition), -1))
    c = Rec()
    c.file = io.StringIO()
    try:
        c._compose(nl)
    except Exception:                                         # noqa: BLE001
        visited = "raise"
    top = nl.top_instance
    t = pos.get(id(top.reference)) if top is not None and top.reference is not None else None
    o = drv.ask({"fn": "order", "children": children, "top": t, "all": list(range(len(defs)))})
    if not o["finished"]:
        res.corr_mismatch("C04.write_order_defined: fuel sufficed (finished = true)", inp, None, o)
    if o["order"] != visited:
        res.corr_mismatch("C04.visitOrder vs Composer._compose order", inp, visited, o["order"])
    if visited != "raise" and (sorted(visited) != list(range(len(defs)))):
        res.spec_failure("compose.order.module-not-visited-exactly-once", inp, str(visited))


def shard_c04(seed, idx, n_cases, deadline, tier):
    import verilog_view as V
    res = VShard()
    rng = random.Random(stable_hash(["verilog", "C04", seed, idx]))
    impl = Impl()
    drv = lean.Driver("drv_verilog")
    try:
        for _ in range(n_cases):
            if time.time() > deadline:
                res.dist("stopped-at-deadline")
                break
            d, text = gen_case(rng, "C04")
            how = rng.choice(["none", "none", "none", "uniquify", "flatten", "clone"])
            try:
                nl = impl.parse(text)
            except Exception:                                 # noqa: BLE001
                res.dist("input-rejected-by-reader(C06)")
                continue
            try:
                nl = transform(impl, nl, how)
            except Exception as e:                            # noqa: BLE001
                res.spec_failure("transform.%s.raises.%s" % (how, fam(e)), dict(pack(d, text), transform=how), str(e)[:200])
                continue
            v1 = V.view(nl)
            feats = G.design_features(d)
            for f in feats:
                res.dist(f)
            res.dist("transform:" + how)
            res.case(stable_hash([text, how]), nontrivial=("bus" in feats or "depth>=2" in feats))
            res.sample({"text": text[:300], "transform": how})
            combos = OPTION_COMBOS if tier == "thorough" else rng.sample(OPTION_COMBOS, 3)
            known = None
            trig = [sig for (sig, t, _) in K.C04_KNOWN if t(d)]
            ext = how == "clone" and top_external(nl)
            if ext:
                trig = [K.SIG_C04_CLONE] + trig
                res.dist("clone:top-external")
            texts = []
            for combo in combos:
                rs = rng.randrange(1 << 30)
                hold = {}
                pr, text2 = eval_c04(impl, nl, v1, combo, random.Random(rs), hold)
                texts.append((hold.get("_last_opts"), text2, bool(pr) and pr[0][0].startswith("compose.raises")))
                res.dist("options:%s:%s:%s" % (combo[0], "bb" if combo[1] else "nobb", "defparam" if combo[2] else "inline"))
                und = [p for p in pr if p[0] == UNDEF_TAG]
                pr = [p for p in pr if p[0] != UNDEF_TAG]
                if und:
                    res.dist("undefined-direction-written-as-inout")
                    seen = res.__dict__.setdefault("_seen", {})
                    seen[K.SIG_C04_UNDEF] = seen.get(K.SIG_C04_UNDEF, 0) + 1
                    if seen[K.SIG_C04_UNDEF] <= 3:
                        res.spec_failure(K.SIG_C04_UNDEF, dict(pack(d, text), transform=how, options=list(combo), rng=rs), und[0][1])
                if pr:
                    res.dist("P-failed")
                    seen = res.__dict__.setdefault("_seen", {})
                    cheap = None
                    if pr[0][0] == "reparse.raises.assert":
                        # after one full attribution in this shard, the two transform-level findings are recognised
                        # by their exact conditions (no re-attribution, no shrinking)
                        if ext and seen.get(K.SIG_C04_CLONE):
                            cheap = K.SIG_C04_CLONE
                        elif how == "flatten" and seen.get(K.SIG_C04_FLATNAME) and unwritable_names(nl):
                            cheap = K.SIG_C04_FLATNAME
                    if cheap:
                        res.spec_failure(cheap, dict(pack(d, text), transform=how, options=list(combo), rng=rs),
                                         "; ".join("%s: %s" % p for p in pr[:2]))
                        known = cheap
                    else:
                        sigs = report_c04(res, impl, d, text, how, combo, rs, pr)
                        known = sigs[0] if sigs else known
                    break
            inp = dict(pack(d, text), transform=how)
            ksig = known or (trig[0] if trig else None)
            corr_c04_writer(res, drv, impl, nl, v1, ksig, inp)
            if not ext:
                reach(res, drv, {"fn": "fragment04", "net": wnet_of(nl)})
                corr_c04_order(res, drv, nl, inp)
                for opts, text2, raised in texts:
                    if opts is not None and (text2 is not None or raised):
                        corr_c04_text(res, drv, nl, opts, text2, ksig, dict(inp, options=[opts[0], opts[1], opts[2]]))
            corr_lex(res, drv, text, "generated text", inp)
            for opts, text2, raised in texts[:1]:
                if text2 is not None:
                    corr_lex(res, drv, text2, "written text", inp)
    finally:
        drv.close()
        impl.close()
    return res


# ----------------------------------------------------------------------------------------------
# bundled example files
# ----------------------------------------------------------------------------------------------
def bundled_texts(max_bytes):
    out = []
    base = os.path.join(REPO, "example_netlists", "verilog_netlists")
    for p in sorted(glob.glob(os.path.join(base, "*.v.zip"))):
        try:
            with zipfile.ZipFile(p) as z:
                names = z.namelist()
                if len(names) != 1:
                    continue
                info = z.getinfo(names[0])
                if info.file_size > max_bytes or info.file_size == 0:
                    continue
                out.append((os.path.basename(p), z.read(names[0]).decode("utf-8", "replace")))
        except Exception:                                     # noqa: BLE001
            continue      # emptied / unreadable archive in this sandbox
    return out


def shard_bundled_c04(seed, idx, files, deadline, tier):
    import verilog_view as V
    from common import canon
    res = VShard()
    rng = random.Random(stable_hash(["verilog", "bundled", seed, idx]))
    impl = Impl()
    drv = lean.Driver("drv_verilog")
    try:
        for name, text in files:
            if time.time() > deadline:
                res.dist("stopped-at-deadline")
                break
            inp = {"kind": "bundled", "file": name}
            try:
                nl = impl.parse(text)
            except Exception as e:                            # noqa: BLE001
                res.dist("bundled:rejected-by-reader(C06)")
                continue
            for how in (["none"] if tier == "quick" else ["none", "uniquify", "clone"]):
                nl_t = nl
                if how != "none":
                    try:
                        nl_t = transform(impl, impl.parse(text), how)
                    except Exception as e:                    # noqa: BLE001
                        res.spec_failure("transform.%s.raises.%s" % (how, fam(e)), dict(inp, transform=how), str(e)[:200])
                        continue
                v1 = V.view(nl_t)
                res.case("bundled:" + name + ":" + how, nontrivial=True)
                res.dist("bundled-file")
                res.dist("transform:" + how)
                combos = [("none", True, False), ("none", False, True)] if tier == "quick" else OPTION_COMBOS[:4] + [("subset", True, True)]
                for combo in combos:
                    rs = rng.randrange(1 << 30)
                    hold = {}
                    pr, text2 = eval_c04(impl, nl_t, v1, combo, random.Random(rs), hold)
                    if how == "none" and text2 is not None and len(text) < 400_000:
                        o3 = hold.get("_last_opts")
                        corr_c04_text(res, drv, nl_t, o3, text2, None, dict(inp, options=[o3[0], o3[1], o3[2]]))
                    und = [p for p in pr if p[0] == UNDEF_TAG]
                    pr = [p for p in pr if p[0] != UNDEF_TAG]
                    if und:
                        res.spec_failure(K.SIG_C04_UNDEF, dict(inp, transform=how, options=list(combo), rng=rs), und[0][1])
                    if pr:
                        sig = pr[0][0]
                        if how == "clone" and top_external(nl_t):
                            sig = K.SIG_C04_CLONE
                        elif sig == "compose.raises.assert" and "desc" in V.assign_shapes(v1):
                            # the writer asserts on every assign whose pins run MSB first (what the unrepaired reader builds)
                            sig = K.SIG_C04_ASSIGN
                        res.spec_failure(sig, dict(inp, transform=how, options=list(combo), rng=rs),
                                         "; ".join("%s: %s" % p for p in pr[:3]))
                        break
                if how == "none":
                    corr_c04_writer(res, drv, impl, nl_t, v1, None, inp)
                    corr_c04_order(res, drv, nl_t, inp)
                    if len(text) < 400_000:
                        corr_lex(res, drv, text, "bundled text", inp)
    finally:
        drv.close()
        impl.close()
    return res


def shard_bundled_c06(seed, idx, files, deadline, tier):
    """bundled files: the reader's netlist against the denotation obtained through the engine's independent
    reader (verilog_indep); files outside that reader's subset: acceptance and well-formedness only"""
    import verilog_view as V
    import verilog_indep as I
    from common import canon
    res = VShard()
    impl = Impl()
    drv = lean.Driver("drv_verilog")
    try:
        for name, text in files:
            if time.time() > deadline:
                res.dist("stopped-at-deadline")
                break
            inp = {"kind": "bundled", "file": name}
            try:
                nl = impl.parse(text)
            except Exception as e:                            # noqa: BLE001
                res.spec_failure("sdn.parse.bundled.raises." + fam(e), inp, "%s: %s" % (type(e).__name__, str(e)[:160]))
                continue
            res.case("bundled:" + name, nontrivial=True)
            res.dist("bundled-file")
            wf = canon.wf_problems(nl) + V.wire_pin_consistency(nl)
            if wf:
                res.spec_failure("sdn.parse.bundled.well-formed", inp, "; ".join(wf[:4]))
            try:
                design = I.parse_text(text)
                den = G.denote(design)
            except (I.Unsupported, AssertionError, KeyError) as e:
                res.dist("bundled:outside-the-independent-reader's-subset")
                continue
            res.dist("bundled:denotation-compared")
            v = V.view(nl)
            pr = V.check_c06(den, v)
            sig = None
            if pr:
                # counterfactual denotation per open finding: does the reader's netlist equal the denotation of the
                # neutralised design?  (same text; only the reading of the text differs)
                sigs = []
                cand = [(s_, neut) for s_, trig, neut in K.C06_KNOWN if s_ in (K.SIG_ASC, K.SIG_PORT_ATTRS, K.SIG_MULTI) and trig(design)]
                for s_, neut in cand:
                    if not V.check_c06(G.denote(neut(design)), v):
                        sigs = [s_]
                        break
                if not sigs and len(cand) > 1:
                    dd = design
                    for _, neut in cand:
                        dd = neut(dd)
                    if not V.check_c06(G.denote(dd), v):
                        sigs = [s_ for s_, _ in cand]
                sig = sigs[0] if sigs else None
                for s_ in sigs or ["sdn.parse.bundled." + pr[0][0]]:
                    res.spec_failure(s_, inp, "; ".join("%s: %s" % p for p in pr[:3]))
            if len(text) <= (150_000 if tier == "quick" else 1_200_000):
                trg = [s_ for s_, trig, _ in K.C06_KNOWN if s_ in (K.SIG_PORT_ATTRS, K.SIG_MULTI, K.SIG_ASC) and trig(design)]
                csig = sig or (trg[0] if trg else None) or K.corr_sig_c06(design)
                corr_c06_elab(res, drv, design, v, None, csig)
                res.dist("bundled:elaborated-by-the-model")
                corr_c06_read(res, drv, text, v, inp, K.order_differs(design), csig)
                res.dist("bundled:read-from-characters-by-the-model")
    finally:
        drv.close()
        impl.close()
    return res


# ----------------------------------------------------------------------------------------------
# replay / corpus
# ----------------------------------------------------------------------------------------------
def run_input(res, impl, pid, inp, drv=None):
    """re-run one recorded input (corpus entry or replay file's `input`): P and the correspondences"""
    import verilog_view as V
    kind = inp.get("kind")
    if kind == "design":
        design, text = inp["design"], inp.get("text")
        text = text or G.render(design, None)
        if pid == "C06":
            pr, v, nl = eval_c06(impl, design, text)
            res.case(stable_hash(inp), True)
            known = None
            if pr:
                sigs = report_c06(res, impl, design, text, pr)
                known = sigs[0] if sigs else None
            trig = [sig for (sig, t, _) in K.C06_KNOWN if t(design)]
            if v is not None and drv is not None:
                corr_c06_connections(res, drv, design, v, known or (trig[0] if trig else None))
            if drv is not None:
                corr_c06_elab(res, drv, design, v, pr[0][0] if (pr and v is None) else None,
                              known or (trig[0] if trig else None) or K.corr_sig_c06(design))
        else:
            how = inp.get("transform", "none")
            combos = [tuple(inp["options"])] if "options" in inp else OPTION_COMBOS
            known = None
            for combo in combos:
                rs = inp.get("rng", 1)
                pr = c04_run(impl, design, text, how, combo, rs, bool(inp.get("escape_names")), keep_undef=True)
                res.case(stable_hash([inp, combo]), True)
                und = [p for p in (pr or []) if p[0] == UNDEF_TAG]
                pr = [p for p in (pr or []) if p[0] != UNDEF_TAG]
                if und:
                    res.spec_failure(K.SIG_C04_UNDEF, dict(inp), und[0][1])
                if pr:
                    sigs = report_c04(res, impl, design, text, how, combo, rs, pr)
                    known = sigs[0] if sigs else None
                    break
            if drv is not None:
                try:
                    nl = transform(impl, impl.parse(text), how)
                except Exception:                             # noqa: BLE001
                    nl = None
                if nl is not None:
                    trig = [sig for (sig, t, _) in K.C04_KNOWN if t(design)]
                    ext = how == "clone" and top_external(nl)
                    if ext:
                        trig = [K.SIG_C04_CLONE] + trig
                    corr_c04_writer(res, drv, impl, nl, V.view(nl), known or (trig[0] if trig else None), dict(inp))
                    if not ext:
                        corr_c04_order(res, drv, nl, dict(inp))
    elif kind == "malformed":
        # a text that describes NO design (recorded reason: inp["why"]; the independent denotation refuses the design):
        # the reader has to reject it, and so has the model
        design, text, sig = inp["design"], inp["text"], inp.get("signature", K.SIG_POS_EXTRA)
        res.case(stable_hash(inp), True)
        res["obligations"].append(("corpus input %s lies outside the design domain (independent denotation refuses it)"
                                   % sig, not valid_design(design), inp.get("why", "")))
        try:
            nl = impl.parse(text)
            accepted = "; ".join("%s(%s)" % (d.name, ", ".join(str(p.name) for p in d.ports))
                                 for lib in nl.libraries for d in lib.definitions)
        except Exception:                                     # noqa: BLE001
            accepted = None
        if accepted is not None:
            res.spec_failure(sig, dict(inp), "accepted, built " + accepted + " -- " + inp.get("why", ""))
        if drv is not None:
            o1 = drv.ask({"fn": "read", "text": text})
            o2 = drv.ask({"fn": "elab", "modules": design_ast(design)})
            for what, o in (("readV", o1), ("elabDesign", o2)):
                if "error" in o:
                    res.corr_mismatch("C06.%s: driver understood the malformed input" % what, dict(inp), None, o)
                elif bool(o.get("ok")) != (accepted is not None):
                    res.corr_mismatch("C06.%s vs sdn.parse (acceptance of a text that describes no design)" % what, dict(inp),
                                      "accepted" if accepted is not None else "rejected",
                                      "accepted" if o.get("ok") else o.get("raise"), signature=sig)
                elif o.get("ok"):
                    res.corr_mismatch("C06.%s accepts a text that describes no design" % what, dict(inp), "accepted", "accepted")
    elif kind == "bundled":
        files = [f for f in bundled_texts(1 << 30) if f[0] == inp["file"]]
        if pid == "C06":
            r = shard_bundled_c06(0, 0, files, time.time() + 600, "thorough")
        else:
            r = shard_bundled_c04(0, 0, files, time.time() + 600, "thorough")
        for k in ("spec", "corr"):
            res[k].extend(r[k])
        res["evaluations"] += r["evaluations"]
    elif kind in ("getWires", "portmap", "blocks"):
        r = shard_blocks_reader(inp.get("seed", 0), 0, 600, time.time() + 120)
        res["spec"].extend(r["spec"])
        res["corr"].extend(r["corr"])
        res["evaluations"] += r["evaluations"]
    else:
        res["obligations"].append(("replay input understood", False, "unknown input kind %r" % kind))


def shard_corpus(pid, paths):
    res = VShard()
    impl = Impl()
    drv = lean.Driver("drv_verilog")
    try:
        for p in paths:
            try:
                with open(p) as f:
                    j = json.load(f)
            except Exception as e:                            # noqa: BLE001
                res["obligations"].append(("corpus file readable: " + os.path.basename(p), False, str(e)))
                continue
            inp = j.get("input", j)
            run_input(res, impl, pid, inp, drv)
            res.dist("corpus")
    finally:
        drv.close()
        impl.close()
    return res


# ----------------------------------------------------------------------------------------------
# entry point
# ----------------------------------------------------------------------------------------------
def run(ctx):
    pid = ctx.pid
    lean.check_obligations(ctx, "Spydr/Verilog", MODULES, ["drv_verilog"], "Spydr/Verilog/Audit.lean", THEOREMS[pid])
    ctx.level = "proof"
    if ctx.replay:
        with open(ctx.replay if os.path.isabs(ctx.replay) else os.path.join(ROOT, ctx.replay)) as f:
            j = json.load(f)
        res = VShard()
        impl = Impl()
        drv = lean.Driver("drv_verilog")
        try:
            if j.get("kind") == "obligation-no-longer-checks":
                blocks = False
                for c in j.get("broken_correspondence", [])[:5]:
                    if isinstance(c.get("input"), dict) and c["input"].get("kind"):
                        run_input(res, impl, pid, c["input"], drv)
                    else:
                        blocks = True
                if blocks:       # a divergence of a building block: re-run the block drives of that run
                    run_input(res, impl, pid, {"kind": "blocks", "seed": j.get("seed", 0)}, drv)
            else:
                run_input(res, impl, pid, j.get("input", j), drv)
        finally:
            drv.close()
            impl.close()
        ctx.merge_shard(res)
        _describe(ctx)
        ctx.rule = "replay of one recorded input (" + os.path.basename(ctx.replay) + "); normal runs: " + ctx.rule
        return
    deadline = time.time() + ctx.scale(70, 1000)
    corpus = sorted(glob.glob(os.path.join(ROOT, "corpus", pid, "*.json")))
    if corpus:
        run_shards(ctx, shard_corpus, [(pid, corpus)])
    nshards = 14
    args = []
    if pid == "C06":
        per = ctx.scale(200, 1500)
        for i in range(nshards):
            args.append((shard_c06, (ctx.seed, i, per, deadline)))
        args.append((shard_blocks_reader, (ctx.seed, 0, ctx.scale(400, 8000), deadline)))
        args.append((shard_long_c06, (ctx.seed, 0, ctx.scale(6, 60), deadline)))
        files = bundled_texts(ctx.scale(330_000, 4_000_000))
        args.append((shard_bundled_c06, (ctx.seed, 0, files[0::2], deadline, ctx.tier)))
        args.append((shard_bundled_c06, (ctx.seed, 1, files[1::2], deadline, ctx.tier)))
    else:
        per = ctx.scale(70, 500)
        for i in range(nshards):
            args.append((shard_c04, (ctx.seed, i, per, deadline, ctx.tier)))
        files = bundled_texts(ctx.scale(45_000, 1_500_000))
        half = len(files) // 2
        args.append((shard_bundled_c04, (ctx.seed, 0, files[:half], deadline, ctx.tier)))
        args.append((shard_bundled_c04, (ctx.seed, 1, files[half:], deadline, ctx.tier)))
    run_shards(ctx, _dispatch, args)
    if ctx.tier == "thorough":
        lean.leanchecker(ctx, ["Spydr.Verilog.Props." + pid])
    # contract step 3: a divergence (or a broken obligation) without a failing input -> search further
    from common import findings
    open_sigs = {k["signature"] for k in findings.load() if k["property"] == pid and k.get("status") == "open"}
    diverged = [c for c in ctx.corr if c.get("signature") not in open_sigs] or [o for o in ctx.obligations if not o[1]]
    new_spec = [x for x in ctx.spec if x["signature"] not in open_sigs]
    if diverged and not new_spec and ctx.time_left() > 25:
        dl2 = time.time() + min(ctx.time_left() - 15, ctx.scale(45, 500))
        before = ctx.evaluations
        extra = []
        for (fn, a) in args:
            if fn in (shard_c06, shard_blocks_reader, shard_long_c06):
                extra.append((fn, (a[0] + 7919, a[1], a[2] * 3, dl2)))
            elif fn is shard_c04:
                extra.append((fn, (a[0] + 7919, a[1], a[2] * 3, dl2, a[4])))
        run_shards(ctx, _dispatch, extra)
        ctx.partial_notes.append("a divergence without a failing input triggered the failing-input search: %d extra cases"
                                 % (ctx.evaluations - before))
    _describe(ctx)


def _dispatch(fn, a):
    return fn(*a)


def _describe(ctx):
    if ctx.pid == "C06":
        ctx.rule = ("abstract designs (1-7 modules in shuffled order incl. use before declaration, ANSI or header-only ports, "
                    "wire ranges [msb:lsb] with lsb 0..5, module ports based at 0, every connection expression shape and width "
                    "<= port width, named and positional maps, escaped identifiers, comments, `celldefine primitives (the directives indented, followed on their line by blanks / tabs / a `//` or a closed `/* */` comment, or on the line of the preceding `endmodule`), a few LONG sources per run (33-300 kB: the same text behind leading comment lines whose length puts a comment closer / opener, `//`, `(*`, `*)`, an escaped identifier, a string or the closer of the leading comment exactly across a multiple of the tokenizer's 32768-character read block, offsets -2..+2), "
                    "never-declared black boxes instantiated by name or (several times) by position, concatenations whose end bits are the two ends "
                    "of one part-select with other bits in between, parameters (#( ) or defparam), (* *) attributes in one or several groups "
                    "per object with flags after valued keys, assigns, alias header ports over scalar nets, "
                    "declarations with several names) "
                    "rendered by the engine's own writer; plus direct drives of the reader's building blocks and the bundled "
                    ".v files. distinct = distinct input text; non-trivial = a bus of width >= 2 or hierarchy depth >= 2")
        ctx.assumptions = [
            "never-declared modules are instantiated either by name or by position, not both; by position every position has one width in the whole file (the denotation is: one unnamed port per position, shared by all instances, expression k of every instance low-aligned on port k)",
            "alias header ports range over single-bit nets (documented limitation of the reader)",
            "ports are based at 0 and msb >= lsb (property's quantifier); every connection expression is at most as wide as the declared port; nets are declared before their first use, implicit nets are scalar; string literals contain no escaped quote",
            "bundled files: denotation through the engine's independent reader (verilog_indep: no macro defined, Verilog-2001 semantics incl. ascending ranges); a file outside its subset (alias ports over selects) is checked for acceptance and well-formedness only",
        ]
        ctx.partial_notes = ctx.partial_notes + [
            "module-level theorem verilog_reader_spec is not proved; proved: bit-level theorems for all inputs (getWires_spec, concat_spec, connect_low_aligned, resize_stable); the end-to-end statement is evaluated on the implementation for every generated design",
        ]
    else:
        ctx.rule = ("netlists obtained by sdn.parse of generated designs (as for C06, restricted to texts the reader accepts) and of the "
                    "bundled .v files, optionally transformed by uniquify / uniquify+flatten / clone; composed with definition_list in "
                    "{none, all, subset containing top} x write_blackbox x defparam; re-parsed. distinct = distinct (text, transform)")
        ctx.assumptions = [
            "a port without direction (inferred black box) is written `inout` and comes back INOUT: reported as the pinned finding compose-then-parse.port-without-direction-comes-back-inout, then compared as INOUT so that nothing else hides behind it",
            "two elements whose names are n and \\n (same Verilog identifier) are reported as a collision before anything is compared",
            "definitions that are not written (write_blackbox=False, definition_list subset) come back as inferred black boxes: only the connected pins of their instances are compared",
            "assign instances are compared as a multiset of (width, bits joined pin by pin); their generated names are not",
        ]
        ctx.partial_notes = ctx.partial_notes + [
            "module-level theorem verilog_roundtrip is not proved; proved for all inputs: emit_eval (instance-connection round trip for every reader-shaped pin vector), decl_range_roundtrip, alias_header_roundtrip, assign_regen, write_order_defined (under finished = true, checked on every netlist)",
        ]
