"""Verilog engine: abstract structural designs, an independent Verilog writer, and the designs'
denotation (the oracle P of C06).  Nothing in this file imports spydrnet.

design = {"modules": [module...] (textual order), "top": name, "timescale": str|None}
module = {"name", "kind": "module"|"prim", "attrs": [[k, v|None]], "params": [[key, value]],
          "style": "ansi"|"header",
          "ports": [{"name","dir","w","ranged","alias": None|[atom..], "vtype": None|"wire"|"reg"}],
          "wires": [{"name","msb","lsb","ranged","type","attrs"}],
          "decl_order": [["port", i] | ["wire", i]],         # body declarations, in this order
          "body": [{"t":"inst","mod","name","params","attrs","map":"named"|"pos","conns":[[port|None, expr]]}
                   | {"t":"assign","l":atom,"r":atom}],
          "junk": str (prim only)}
expr = None | atom | {"cat":[atom...]};  atom = ["id",n] | ["bit",n,i] | ["part",n,l,r] | ["const","0"|"1"]
Names are in spydrnet's internal form: plain identifiers, or escaped identifiers `\\xyz` without the
terminating blank.
"""
import copy

KEYWORDS = {"module", "endmodule", "input", "output", "inout", "wire", "reg", "assign", "parameter",
            "localparam", "primitive", "endprimitive", "function", "endfunction", "task", "endtask",
            "integer", "tri0", "tri1", "defparam", "tri", "supply0", "supply1", "begin", "end",
            "always", "initial", "if", "else", "case", "endcase", "for", "generate", "endgenerate"}
CONST_NAME = {c: "\\<const" + c + ">" for c in "01xXzZ"}
LETTERS = "abcdefghijklmnopqrstuvwxyzABCDEFGHIJKLMNOPQRSTUVWXYZ"
ESC_CHARS = LETTERS + "0123456789_[]().<>~^$#=+-/!%&|:;,{}@?'\"*"


# ----------------------------------------------------------------------------------------------
# names
# ----------------------------------------------------------------------------------------------
def fresh_name(rng, used, stem, p_esc=0.2):
    for _ in range(1000):
        if rng.random() < p_esc:
            n = "\\" + stem + "".join(rng.choice(ESC_CHARS) for _ in range(rng.randint(1, 4)))
            if "//" in n or "/*" in n or "*/" in n:
                continue
        else:
            n = stem + rng.choice(LETTERS + "_") + "".join(
                rng.choice(LETTERS + "0123456789_") for _ in range(rng.randint(0, 3)))
        if n in KEYWORDS or n in used or n.startswith("\\<const") or n.startswith("SDN_VERILOG"):
            continue
        used.add(n)
        return n
    raise RuntimeError("name space exhausted")


def tok_name(n):
    """the text of a name: escaped identifiers need their terminating blank"""
    return n + " " if n.startswith("\\") else n


# ----------------------------------------------------------------------------------------------
# generator
# ----------------------------------------------------------------------------------------------
def gen_value(rng):
    k = rng.randrange(5)
    if k == 0:
        return str(rng.randint(0, 99))
    if k == 1:
        return "%d'h%X" % (rng.choice([4, 8, 16]), rng.randint(0, 255))
    if k == 2:
        # string literals are stored verbatim: runs of blanks, tabs, comment openers and punctuation inside them
        return '"%s"' % rng.choice(["TRUE", "FALSE", "soft lut", "a,b", "x*y", "(p)", "RAM  A", "x \t y", "a   b", " lead",
                                    "trail  ", "core.v:12    core.v:40", "// no comment", "/* nor this */", "\t\ttabs", "[3:0] {a, b}",
                                    "`tick", "1'b0", "a\\b", ""])
    if k == 3:
        return "%d'b%s" % (rng.choice([1, 2, 4]), rng.choice(["0", "1", "10", "0110"]))
    return rng.choice(["ABC", "on", "x_1"])


def gen_attrs(rng, p=0.25):
    if rng.random() >= p:
        return []
    out, used = [], set()
    for _ in range(rng.randint(1, 3)):
        k = fresh_name(rng, used, "at", p_esc=0.0)
        v = None if rng.random() < 0.3 else rng.choice(['"yes"', "1", '"soft_lutpair0"', "val", '"a b"', '"a  b"', '"x \t y"',
                                                        '"core.v:12    core.v:40"', '" lead and trail  "', "4'hF", '"// x"'])
        out.append([k, v])
    return out


def gen_design(rng, size="small", opts=None):
    """opts: dict of feature probabilities (all optional)."""
    o = {"p_esc": 0.2, "p_ansi": 0.5, "p_pos": 0.3, "p_blackbox": 0.5, "p_prim": 0.5, "p_assign": 0.4,
         "p_alias": 0.12, "p_forward": 0.5, "p_params": 0.3, "p_attrs": 0.25, "p_const": 0.15,
         "p_implicit": 0.15, "max_w": 4, "p_portless_bb": 0.04, "p_wide_assign": 0.5, "p_unused_prim": 0.05}
    o.update(opts or {})
    n_mod = {"tiny": rng.randint(1, 2), "small": rng.randint(2, 4), "medium": rng.randint(3, 7)}[size]
    used_mod = set()
    mods = []
    for i in range(n_mod):
        mods.append(_gen_module_shell(rng, used_mod, "module", o, is_root=(i == 0)))
    prims = []
    if rng.random() < o["p_prim"]:
        for _ in range(rng.randint(1, 2)):
            prims.append(_gen_module_shell(rng, used_mod, "prim", o, is_root=False))
    bbs = []
    if rng.random() < o["p_blackbox"]:
        for _ in range(rng.randint(1, 2)):
            used_p = set()
            bb = {"name": fresh_name(rng, used_mod, "BB", o["p_esc"]), "kind": "blackbox",
                  "pnames": [fresh_name(rng, used_p, "q", o["p_esc"]) for _ in range(rng.randint(1, 3))]}
            if rng.random() < o["p_portless_bb"]:
                bb["pnames"] = []
            elif rng.random() < o.get("p_posbb", 0.35):
                # instantiated by position only: its (unnamed) ports are created by the first instance the reader
                # connects and must be shared by all further ones; every position has one width in the whole file
                bb["pos"] = True
                bb["pwidths"] = [rng.choice([1, 1, 2, 3]) for _ in range(rng.randint(1, 3))]
            bbs.append(bb)
    # instantiation structure: mods[0] is the root; mods[i] (i>0) is instanced by some mods[j], j<i
    must = {}  # module index -> list of callee shells that must be instanced there
    for i in range(1, n_mod):
        must.setdefault(rng.randrange(0, i), []).append(mods[i])
    for p in prims:
        if rng.random() >= o["p_unused_prim"]:
            must.setdefault(rng.randrange(0, n_mod), []).append(p)
    for b in bbs:
        for _ in range(rng.randint(2, 3) if b.get("pos") else 1):
            must.setdefault(rng.randrange(0, n_mod), []).append(b)
    for i, m in enumerate(mods):
        callees = list(must.get(i, []))
        pool = mods[i + 1:] + prims + bbs
        for _ in range(rng.randint(0, 2)):
            if pool:
                callees.append(rng.choice(pool))
        rng.shuffle(callees)
        _gen_body(rng, m, callees, o)
    root = mods[0]
    if rng.random() < o.get("p_hier_name", 0.1):
        # a net of the root that carries the hierarchical name flatten() will give to a net of a child
        for it in root["body"]:
            if it["t"] == "inst" and not it["name"].startswith("\\"):
                tgt = next((x for x in mods if x["name"] == it["mod"]), None)
                inner = [n for n in (_nets_of(tgt) if tgt else {}) if not n.startswith("\\")]
                if inner:
                    nm = "\\" + it["name"] + "/" + rng.choice(inner)
                    if nm not in _nets_full(root):
                        root["wires"].append({"name": nm, "msb": 0, "lsb": 0, "ranged": False, "type": "wire", "attrs": []})
                        root["decl_order"].append(["wire", len(root["wires"]) - 1])
                    break
    for p in prims:
        p.pop("_used", None)
        if p["style"] == "header":
            p["decl_order"] = [["port", i] for i in range(len(p["ports"]))]
            rng.shuffle(p["decl_order"])
    order = mods + prims
    if rng.random() < o["p_forward"]:
        rng.shuffle(order)
    else:
        order = list(reversed(mods)) + prims if rng.random() < 0.5 else prims + list(reversed(mods))
    d = {"modules": order, "top": mods[0]["name"],
         "timescale": rng.choice(["1 ps / 1 ps", "1ns/1ps", "1 ps  /  1 ps", "10 ns /\t1 ns"]) if rng.random() < 0.3 else None}
    return d


def _gen_module_shell(rng, used_mod, kind, o, is_root):
    used = set()
    m = {"name": fresh_name(rng, used_mod, "M" if kind == "module" else "P", o["p_esc"]), "kind": kind,
         "attrs": gen_attrs(rng, o["p_attrs"]), "params": [], "style": "ansi" if rng.random() < o["p_ansi"] else "header",
         "ports": [], "wires": [], "decl_order": [], "body": [], "junk": ""}
    if rng.random() < o["p_params"]:
        pu = set()
        for _ in range(rng.randint(1, 2)):
            k = fresh_name(rng, pu, "PR", 0.0)
            if rng.random() < 0.3:
                k = "[%d:0] %s" % (rng.randint(1, 7), k)
            m["params"].append([k, gen_value(rng)])
    lo = 0 if (is_root or kind == "prim") else 1
    n_ports = rng.randint(lo, 4)
    has_alias = False
    for _ in range(n_ports):
        ranged = rng.random() < 0.55
        w = rng.randint(1, o["max_w"]) if ranged else 1
        p = {"name": fresh_name(rng, used, "p", o["p_esc"]), "dir": rng.choice(["input", "output", "inout"]),
             "w": w, "ranged": ranged, "alias": None,
             "vtype": rng.choice([None, None, "wire", "reg"]), "attrs": []}
        if kind == "module" and m["style"] == "header" and rng.random() < o["p_alias"]:
            # alias port: .p({n1, n2, ...}) over scalar nets declared with a direction in the body
            k = rng.randint(1, 3)
            p["alias"] = [fresh_name(rng, used, "al", o["p_esc"]) for _ in range(k)]
            p["w"], p["ranged"], p["vtype"] = k, k > 1, None
            p["alias_braces"] = True if k > 1 else rng.random() < 0.5
            has_alias = True
        m["ports"].append(p)
    m["_used"] = used
    if kind == "prim":
        m["junk"] = rng.choice(["", "wire n1 ; ", "reg q ; initial q = 0 ; ", "assign n2 = 1'b1 ; "])
    return m


def _nets_of(m):
    """name -> (lsb, width) of every declared net of the module (ports, alias members, wires)"""
    nets = {}
    for p in m["ports"]:
        if p["alias"] is None:
            nets[p["name"]] = (p.get("lsb", 0), p["w"])
        else:
            for a in p["alias"]:
                nets[a] = (0, 1)
    for w in m["wires"]:
        nets[w["name"]] = (w["lsb"], w["msb"] - w["lsb"] + 1)
    return nets


def gen_atom(rng, nets, n, o, allow_const=True, implicit=None, used=None):
    """an atom of exactly n bits"""
    cands = []
    for name, (lsb, w) in nets.items():
        if w == n:
            cands.append(["id", name])
            if w > 1 or lsb != 0 or rng.random() < 0.3:
                cands.append(["part", name, lsb + w - 1, lsb])
        if w > n:
            s = rng.randint(lsb, lsb + w - n)
            if n == 1:
                cands.append(["bit", name, s])
                if rng.random() < 0.2:
                    cands.append(["part", name, s, s])
            else:
                cands.append(["part", name, s + n - 1, s])
        elif w == 1 and n == 1 and rng.random() < 0.2:
            cands.append(["bit", name, lsb])
    if n == 1 and allow_const and rng.random() < o["p_const"]:
        return ["const", rng.choice("0011xzXZ")]
    if n == 1 and implicit is not None and rng.random() < o["p_implicit"]:
        nm = fresh_name(rng, used, "im", o["p_esc"])
        implicit.append(nm)
        nets[nm] = (0, 1)
        return ["id", nm]
    if not cands:
        return None
    return rng.choice(cands)


def gen_fake_slice(rng, nets, n):
    """a genuine concatenation of n >= 3 single bits whose first and last bit are the two ends of the part-select
    name[s+n-1:s] while the bits in between are permuted, repeated from elsewhere in the cable or taken from
    another net: only a writer that looks at EVERY bit tells it from the part-select"""
    cands = [(name, lsb, w) for name, (lsb, w) in nets.items() if w >= n]
    if not cands:
        return None
    name, lsb, w = rng.choice(cands)
    s = rng.randint(lsb, lsb + w - n)
    mid = list(range(s + n - 2, s, -1))
    bits = [["bit", name, i] for i in mid]
    k = rng.randrange(3)
    if k == 0 and len(mid) >= 2:
        perm = mid[:]
        while perm == mid:
            rng.shuffle(perm)
        bits = [["bit", name, i] for i in perm]
    else:
        others = [(nm, l2 + j) for nm, (l2, w2) in nets.items() if nm != name for j in range(w2)]
        j = rng.randrange(len(bits))
        if others and k != 2:
            nm, i = rng.choice(others)
            bits[j] = ["bit", nm, i]
        else:
            alt = [i for i in range(lsb, lsb + w) if i != mid[j]]
            bits[j] = ["bit", name, rng.choice(alt)]
    return {"cat": [["bit", name, s + n - 1]] + bits + [["bit", name, s]]}


def gen_expr(rng, nets, n, o, implicit=None, used=None):
    """an expression of exactly n bits (n >= 1), or None if impossible"""
    if n >= 3 and rng.random() < o.get("p_fake_slice", 0.2):
        e = gen_fake_slice(rng, nets, n)
        if e is not None:
            return e
    if rng.random() < 0.35 or n > max([w for (_, w) in nets.values()] + [1]):
        # concatenation
        parts, left = [], n
        while left > 0:
            k = rng.randint(1, left)
            a = gen_atom(rng, nets, k, o, True, implicit, used)
            if a is None:
                k = 1
                a = gen_atom(rng, nets, 1, o, True, implicit, used)
                if a is None:
                    return None
            parts.append(a)
            left -= k
        return {"cat": parts}
    a = gen_atom(rng, nets, n, o, True, implicit, used)
    if a is None:
        return gen_expr_fallback(rng, nets, n, o, implicit, used)
    return a


def gen_expr_fallback(rng, nets, n, o, implicit, used):
    parts = []
    for _ in range(n):
        a = gen_atom(rng, nets, 1, o, True, implicit, used)
        if a is None:
            return None
        parts.append(a)
    return {"cat": parts} if len(parts) != 1 or rng.random() < 0.5 else parts[0]


def _gen_body(rng, m, callees, o):
    used = m.pop("_used")
    # declared wires
    for _ in range(rng.randint(0, 4)):
        ranged = rng.random() < 0.6
        lsb = rng.choice([0, 0, 0, 1, 2, 3, 5]) if ranged else 0
        w = rng.randint(1, o["max_w"] + 1) if ranged else 1
        m["wires"].append({"name": fresh_name(rng, used, "n", o["p_esc"]), "msb": lsb + w - 1, "lsb": lsb,
                           "ranged": ranged, "type": rng.choice(["wire", "wire", "wire", "reg", "tri0", "tri1"]),
                           "attrs": gen_attrs(rng, o["p_attrs"] * 0.6)})
    decl = [["wire", i] for i in range(len(m["wires"]))]
    if m["style"] == "header":
        pd = []
        for i, p in enumerate(m["ports"]):
            if p["alias"] is None:
                pd.append(["port", i])
            else:
                for j in range(len(p["alias"])):
                    pd.append(["aliasnet", i, j])
        if rng.random() < 0.5:
            decl = pd + decl
        else:
            decl = decl + pd
            rng.shuffle(decl)
    m["decl_order"] = decl
    if m["style"] == "header":
        for p in m["ports"]:
            if p["alias"] is None:
                p["attrs"] = gen_attrs(rng, o["p_attrs"] * 0.5)
    m["group_decls"] = rng.random() < 0.4
    nets = _nets_of(m)
    implicit = []
    inames = set()
    body = []
    for c in callees:
        inst = {"t": "inst", "mod": c["name"], "name": fresh_name(rng, inames, "u", o["p_esc"]),
                "params": [], "attrs": gen_attrs(rng, o["p_attrs"]), "map": "named", "conns": []}
        if rng.random() < o["p_params"]:
            pu = set()
            for _ in range(rng.randint(1, 2)):
                inst["params"].append([fresh_name(rng, pu, "K", 0.0), gen_value(rng)])
            inst["defparam"] = rng.random() < 0.3
        if c["kind"] == "blackbox" and c.get("pos"):
            inst["map"] = "pos"
            for wd in c["pwidths"][:rng.randint(1, len(c["pwidths"]))]:
                e = gen_expr(rng, nets, wd, o, implicit, used)
                if e is None:
                    e = {"cat": [["const", rng.choice("01")] for _ in range(wd)]} if wd > 1 else ["const", "0"]
                inst["conns"].append([None, e])
        elif c["kind"] == "blackbox":
            pn = list(c["pnames"])
            rng.shuffle(pn)
            pn = pn[:rng.randint(1, len(pn))] if pn else []
            for q in pn:
                n = rng.choice([0, 1, 1, 2, 3])
                e = gen_expr(rng, nets, n, o, implicit, used) if n else None
                inst["conns"].append([q, e])
        else:
            ports = c["ports"]
            pos = rng.random() < o["p_pos"] and len(ports) > 0
            if pos:
                inst["map"] = "pos"
                k = rng.randint(1, len(ports))
                for p in ports[:k]:
                    n = rng.randint(1, p["w"])
                    e = gen_expr(rng, nets, n, o, implicit, used)
                    if e is None:
                        e = ["const", "0"]
                    inst["conns"].append([None, e])
            else:
                ps = list(ports)
                rng.shuffle(ps)
                ps = ps[:rng.randint(0, len(ps))] if rng.random() < 0.3 else ps
                for p in ps:
                    n = rng.choice([0] + [p["w"]] * 4 + list(range(1, p["w"] + 1)))
                    e = gen_expr(rng, nets, n, o, implicit, used) if n else None
                    inst["conns"].append([p["name"], e])
        body.append(inst)
    if rng.random() < o["p_assign"]:
        for _ in range(rng.randint(1, 3)):
            wmax = max(w for (_, w) in nets.values()) if nets else 0
            if wmax == 0:
                break
            n = rng.randint(1, wmax) if rng.random() < o["p_wide_assign"] else 1
            l = gen_atom(rng, nets, n, o, allow_const=False)
            r = gen_atom(rng, nets, n, o, allow_const=(n == 1))
            if l is not None and r is not None:
                body.append({"t": "assign", "l": l, "r": r})
    rng.shuffle(body)
    m["body"] = body
    m["implicit"] = implicit


# ----------------------------------------------------------------------------------------------
# independent writer
# ----------------------------------------------------------------------------------------------
class Layout:
    """random but reader-irrelevant layout: blanks, newlines, comments"""

    def __init__(self, rng, comments=True):
        self.rng = rng
        self.comments = comments
        self.out = []

    def sp(self, must=False):
        if self.rng is None:        # plain layout: one blank between tokens, a new line after ';'
            if self.out and self.out[-1].endswith(";"):
                self.out.append("\n")
            elif self.out and not self.out[-1].endswith("\n"):
                self.out.append(" ")
            return
        r = self.rng.random()
        if self.comments and r < 0.04:
            self.out.append(" /* " + self.rng.choice(["c", "x y", "wire q;", "* star", "endmodule"]) + " */ ")
        elif self.comments and r < 0.07:
            self.out.append(" // " + self.rng.choice(["note", "module m;", "a /* b", "1'b0"]) + "\n")
        elif r < 0.25:
            self.out.append("\n" + " " * self.rng.randint(0, 4))
        elif r < 0.6 or must:
            self.out.append(" " * self.rng.randint(1, 2))
        elif r < 0.63:
            self.out.append("\t")

    def tok(self, t, word=False):
        """emit one token; `word` tokens (identifiers, keywords, numbers) need a separator between them"""
        if word and self.out and self._last_word:
            self.sp(must=True)
            if not self.out[-1] or self.out[-1][-1] not in " \t\n":
                self.out.append(" ")
        else:
            self.sp()
        self.out.append(t)
        self._last_word = word and not t.endswith(" ")

    _last_word = False

    def name(self, n):
        self.tok(tok_name(n), word=True)

    def kw(self, k):
        self.tok(k, word=True)

    def p(self, ch):
        self.tok(ch, word=False)

    def line(self, s, tail=False):
        """a directive: everything up to the end of the line belongs to its token.  `tail`: the directive takes no
        argument (`celldefine / `endcelldefine), so anything the language treats as white space may follow it on the
        line - blanks, tabs, a line comment, a closed block comment - and it may be indented or follow `endmodule`
        on the same line; the reader has to recognise the directive by its first word."""
        same_line = False
        if tail and self.rng is not None:
            r = self.rng.random()
            if r < 0.12 and len(self.out) >= 2 and self.out[-1] == "\n" and self.out[-2].endswith("endmodule"):
                self.out[-1] = self.rng.choice([" ", "  ", "\t"])          # `endmodule `endcelldefine` on one line
                same_line = True
            elif r < 0.3:
                if self.out and not self.out[-1].endswith("\n"):
                    self.out.append("\n")
                self.out.append(self.rng.choice([" ", "  ", "\t", "    "]))  # indented directive
                same_line = True
        if not same_line and self.out and not self.out[-1].endswith("\n"):
            self.out.append("\n")
        t = ""
        if tail and self.rng is not None:
            r = self.rng.random()
            if r < 0.2:
                t = self.rng.choice([" ", "  ", "\t", " \t "])
            elif self.comments and r < 0.45:
                t = self.rng.choice([" ", "  ", "\t"]) + "// " + self.rng.choice(
                    ["primitives", "simulation models", "module m;", "`endcelldefine", "end of the cells", "a /* b"])
            elif self.comments and r < 0.65:
                t = self.rng.choice([" ", "  ", "\t"]) + "/* " + self.rng.choice(["cells", "x y", "`celldefine", "module q;"]) + " */" + \
                    self.rng.choice(["", " ", "\t"])
        self.out.append(s + t + "\n")
        self._last_word = False

    def text(self):
        return "".join(self.out) + "\n"


def w_range(L, msb, lsb):
    L.p("["); L.tok(str(msb), True); L.p(":"); L.tok(str(lsb), True); L.p("]")


def w_atom(L, a):
    k = a[0]
    if k == "const":
        L.tok("1'b" + a[1], True)
    elif k == "id":
        L.name(a[1])
    elif k == "bit":
        L.name(a[1]); L.p("["); L.tok(str(a[2]), True); L.p("]")
    else:
        L.name(a[1]); w_range(L, a[2], a[3])


def w_expr(L, e):
    if e is None:
        return
    if isinstance(e, dict):
        L.p("{")
        for i, a in enumerate(e["cat"]):
            if i:
                L.p(",")
            w_atom(L, a)
        L.p("}")
    else:
        w_atom(L, e)


def attr_groups(attrs):
    """the (* *) groups the attributes of one object are written in: the reader merges consecutive groups, so the
    split is irrelevant for the design; it is decided by the key (not by the layout generator) so that a design
    always has the same text structure.  Both `(* a = 1, flag *)` and `(* a = 1 *) (* flag *)` occur."""
    groups = []
    for i, (k, v) in enumerate(attrs):
        if i and sum(ord(c) for c in k) % 5 < 2:
            groups.append([])
        if not groups:
            groups.append([])
        groups[-1].append((k, v))
    return groups


def w_attrs(L, attrs):
    for grp in attr_groups(attrs or []):
        L.p("("); L.out.append("*"); L._last_word = False
        for i, (k, v) in enumerate(grp):
            if i:
                L.p(",")
            L.name(k)
            if v is not None:
                L.p("="); L.tok(v, True)
        L.sp(must=True)
        L.out.append("*"); L.out.append(")"); L._last_word = False


def w_decl_range(L, m, name, msb, lsb):
    if name in m.get("asc", ()):
        w_range(L, lsb, msb)
    else:
        w_range(L, msb, lsb)


def _same_decl(m, a, b):
    if a[0] != b[0]:
        return False
    if a[0] == "wire":
        x, y = m["wires"][a[1]], m["wires"][b[1]]
        # the range and the attributes of `(* .. *) wire [3:0] a, b;` belong to both names
        return (x["type"], x["ranged"], x["msb"], x["lsb"], x["attrs"]) == (y["type"], y["ranged"], y["msb"], y["lsb"], y["attrs"]) \
            and (x["name"] in m.get("asc", ())) == (y["name"] in m.get("asc", ()))
    if a[0] == "port":
        x, y = m["ports"][a[1]], m["ports"][b[1]]
        return (x["dir"], x["vtype"], x["ranged"], x["w"], x.get("lsb", 0), x.get("attrs") or []) == \
            (y["dir"], y["vtype"], y["ranged"], y["w"], y.get("lsb", 0), y.get("attrs") or []) \
            and (x["name"] in m.get("asc", ())) == (y["name"] in m.get("asc", ()))
    return m["ports"][a[1]]["dir"] == m["ports"][b[1]]["dir"]


def w_module(L, m):
    w_attrs(L, m["attrs"])
    L.kw("module"); L.name(m["name"])
    if m["params"]:
        L.p("#"); L.p("(")
        for i, (k, v) in enumerate(m["params"]):
            if i:
                L.p(",")
            L.kw("parameter")
            if k.startswith("["):
                rng_txt, nm = k.split("] ")
                hi, lo = rng_txt[1:].split(":")
                w_range(L, int(hi), int(lo)); L.name(nm)
            else:
                L.name(k)
            L.p("="); L.tok(v, True)
        L.p(")")
    L.p("(")
    for i, p in enumerate(m["ports"]):
        if i:
            L.p(",")
        if p["alias"] is not None:
            L.p("."); L.name(p["name"]); L.p("(")
            if p.get("alias_braces", True):
                w_expr(L, {"cat": [["id", a] for a in p["alias"]]})
            else:
                w_atom(L, ["id", p["alias"][0]])
            L.p(")")
        elif m["style"] == "ansi":
            L.kw(p["dir"])
            if p["ranged"]:
                w_decl_range(L, m, p["name"], p.get("lsb", 0) + p["w"] - 1, p.get("lsb", 0))
            L.name(p["name"])
        else:
            L.name(p["name"])
    L.p(")"); L.p(";")
    order = m["decl_order"]
    i = 0
    while i < len(order):
        d = order[i]
        group = [d]
        if m.get("group_decls"):
            # `wire [3:0] a, b;` / `input a, b;`: following declarations of the same kind, type and range
            j = i + 1
            while j < len(order) and _same_decl(m, d, order[j]):
                group.append(order[j])
                j += 1
        i += len(group)
        if d[0] == "wire":
            w = m["wires"][d[1]]
            w_attrs(L, w["attrs"])
            L.kw(w["type"])
            if w["ranged"]:
                w_decl_range(L, m, w["name"], w["msb"], w["lsb"])
            for k, g in enumerate(group):
                if k:
                    L.p(",")
                L.name(m["wires"][g[1]]["name"])
            L.p(";")
        elif d[0] == "port":
            p = m["ports"][d[1]]
            w_attrs(L, p.get("attrs") or [])
            L.kw(p["dir"])
            if p["vtype"]:
                L.kw(p["vtype"])
            if p["ranged"]:
                w_decl_range(L, m, p["name"], p.get("lsb", 0) + p["w"] - 1, p.get("lsb", 0))
            for k, g in enumerate(group):
                if k:
                    L.p(",")
                L.name(m["ports"][g[1]]["name"])
            L.p(";")
        else:
            p = m["ports"][d[1]]
            L.kw(p["dir"])
            for k, g in enumerate(group):
                if k:
                    L.p(",")
                L.name(m["ports"][g[1]]["alias"][g[2]])
            L.p(";")
    if m["kind"] == "prim" and m["junk"]:
        L.sp(must=True)
        L.out.append(" " + m["junk"] + " ")
        L._last_word = False
    for it in m["body"]:
        if it["t"] == "assign":
            L.kw("assign"); w_atom(L, it["l"]); L.p("="); w_atom(L, it["r"]); L.p(";")
        else:
            w_attrs(L, it["attrs"])
            L.name(it["mod"])
            if it["params"] and not it.get("defparam"):
                L.p("#"); L.p("(")
                for i, (k, v) in enumerate(it["params"]):
                    if i:
                        L.p(",")
                    L.p("."); L.name(k); L.p("("); L.tok(v, True); L.p(")")
                L.p(")")
            L.name(it["name"]); L.p("(")
            for i, (pn, e) in enumerate(it["conns"]):
                if i:
                    L.p(",")
                if it["map"] == "named":
                    L.p("."); L.name(pn); L.p("("); w_expr(L, e); L.p(")")
                else:
                    w_expr(L, e)
            L.p(")"); L.p(";")
            if it["params"] and it.get("defparam"):
                for k, v in it["params"]:
                    L.kw("defparam"); L.name(it["name"]); L.p("."); L.name(k); L.p("="); L.tok(v, True); L.p(";")
    L.kw("endmodule")
    L._last_word = False


def render(design, rng, comments=True):
    """rng=None: plain deterministic layout"""
    L = Layout(rng, comments and rng is not None)
    if comments and rng is not None:
        L.out.append("// generated by the verilog engine's independent writer\n")
    if design.get("timescale"):
        L.line("`timescale " + design["timescale"])
    in_cell = False
    for m in design["modules"]:
        if m["kind"] == "prim" and not in_cell:
            L.line("`celldefine", tail=True)
            in_cell = True
        if m["kind"] != "prim" and in_cell:
            L.line("`endcelldefine", tail=True)
            in_cell = False
        w_module(L, m)
        L.out.append("\n")
    if in_cell:
        L.line("`endcelldefine", tail=True)
    return L.text()


# ----------------------------------------------------------------------------------------------
# denotation (what C06 says the reader must build)
# ----------------------------------------------------------------------------------------------
DIRMAP = {"input": "IN", "output": "OUT", "inout": "INOUT", None: "UNDEFINED"}


def eval_atom(a, nets, asc=()):
    """MSB-first list of (cable, index); `asc`: names of nets declared with an ascending range [lo:hi]
    (their most significant bit is the one with the lowest index)"""
    k = a[0]
    if k == "const":
        return [(CONST_NAME[a[1]], 0)]
    lsb, w = nets[a[1]]
    up = a[1] in asc
    if k == "id":
        idx = list(range(lsb + w - 1, lsb - 1, -1))
        return [(a[1], i) for i in (reversed(idx) if up else idx)]
    if k == "bit":
        assert lsb <= a[2] < lsb + w
        return [(a[1], a[2])]
    hi, lo = max(a[2], a[3]), min(a[2], a[3])
    assert lsb <= lo and hi < lsb + w
    if hi != lo:
        assert (a[2] < a[3]) == up, "part-select against the declared direction"
    idx = list(range(hi, lo - 1, -1))
    return [(a[1], i) for i in (reversed(idx) if up else idx)]


def eval_expr(e, nets, asc=()):
    if e is None:
        return []
    if isinstance(e, dict):
        out = []
        for a in e["cat"]:
            out.extend(eval_atom(a, nets, asc))
        return out
    return eval_atom(e, nets, asc)


def expr_consts(e):
    if e is None:
        return []
    atoms = e["cat"] if isinstance(e, dict) else [e]
    return [a[1] for a in atoms if a[0] == "const"]


def denote(design):
    """-> {"top": name, "defs": {name: {"lib", "primitive", "ports": {name: {dir,width,lower,pins:[bit|None]}},
            "port_order":[names], "cables": {name: [lower, width]}, "insts": {name: {"ref", "params", "attrs",
            "pins": {port: [bit|None]}}}, "assigns": [[w, [[obit, ibit]...]]], "params", "attrs"}}}
       a bit is (cable, index)."""
    mods = {m["name"]: m for m in design["modules"]}
    # black boxes: names used but never declared
    bb = {}
    bbpos = {}
    for m in design["modules"]:
        for it in m["body"]:
            if it["t"] == "inst" and it["mod"] not in mods:
                nets = _nets_full(m)
                if it["map"] == "pos":
                    # by position: port k is unnamed, as wide as the k-th expressions
                    assert it["mod"] not in bb, "named and positional maps on one never-declared module: outside the domain"
                    ws = bbpos.setdefault(it["mod"], [])
                    for idx, (pn, e) in enumerate(it["conns"]):
                        w = max(1, len(eval_expr(e, nets, set(m.get("asc", ())))))
                        if idx < len(ws):
                            ws[idx] = max(ws[idx], w)
                        else:
                            ws.append(w)
                    continue
                assert it["mod"] not in bbpos, "named and positional maps on one never-declared module: outside the domain"
                b = bb.setdefault(it["mod"], {})
                for pn, e in it["conns"]:
                    assert pn is not None
                    b[pn] = max(b.get(pn, 0), max(1, len(eval_expr(e, nets, set(m.get("asc", ()))))))
    out = {"top": design["top"], "defs": {}}
    for m in design["modules"]:
        nets = _nets_full(m)
        asc = set(m.get("asc", ()))
        D = {"timescale": design.get("timescale"),
             "lib": "hdi_primitives" if m["kind"] == "prim" else "work", "primitive": False,
             "ports": {}, "port_order": [p["name"] for p in m["ports"]], "cables": {}, "insts": {}, "assigns": [],
             "params": dict((k, v) for k, v in m["params"]), "attrs": dict((k, v) for k, v in m["attrs"]),
             "cable_attrs": {}, "cable_types": {}}
        for p in m["ports"]:
            if p["alias"] is None:
                pins = [(p["name"], p.get("lsb", 0) + k) for k in range(p["w"])]
            else:
                bits = []
                for a in p["alias"]:
                    bits.append((a, 0))
                pins = list(reversed(bits))
            D["ports"][p["name"]] = {"dir": DIRMAP[p["dir"]], "width": p["w"],
                                     "lower": p.get("lsb", 0) if p["alias"] is None else 0, "pins": pins}
            if m["style"] == "header" and p["alias"] is None and "attrs" in p and m["kind"] != "prim":
                D["ports"][p["name"]]["attrs"] = dict((k, v) for k, v in p["attrs"])
        for n, (lsb, w) in nets.items():
            D["cables"][n] = [lsb, w]
        for w in m["wires"]:
            D["cable_attrs"][w["name"]] = dict((k, v) for k, v in w["attrs"])
            D["cable_types"][w["name"]] = w["type"]
        for p in m["ports"]:
            if p["alias"] is None and p["vtype"] and m["style"] == "header":
                D["cable_types"][p["name"]] = p["vtype"]
        if m["kind"] == "prim":
            out["defs"][m["name"]] = D
            continue
        for it in m["body"]:
            if it["t"] == "assign":
                lb, rb = eval_atom(it["l"], nets, asc), eval_atom(it["r"], nets, asc)
                assert len(lb) == len(rb)
                D["assigns"].append([len(lb), sorted(zip(lb, rb), key=repr)])
                for c in expr_consts(it["r"]) + expr_consts(it["l"]):
                    D["cables"][CONST_NAME[c]] = [0, 1]
                continue
            tgt = mods.get(it["mod"])
            if tgt is not None:
                pw = {p["name"]: p["w"] for p in tgt["ports"]}
                porder = [p["name"] for p in tgt["ports"]]
                pasc = set(tgt.get("asc", ()))
            elif it["mod"] in bbpos:
                pw = dict(enumerate(bbpos[it["mod"]]))
                porder = list(range(len(bbpos[it["mod"]])))
                pasc = set()
            else:
                pw = bb[it["mod"]]
                porder = None
                pasc = set()
            pins = {pn: [None] * w for pn, w in pw.items()}
            for idx, (pn, e) in enumerate(it["conns"]):
                if it["map"] == "pos":
                    pn = porder[idx]
                bits = eval_expr(e, nets, asc)
                assert len(bits) <= pw[pn], "expression wider than the port"
                for k, b in enumerate(reversed(bits)):
                    # bit k from the least significant end of the port: pin k, or pin w-1-k of an ascending port
                    kk = pw[pn] - 1 - k if pn in pasc else k
                    assert pins[pn][kk] is None
                    pins[pn][kk] = b
                for c in expr_consts(e):
                    D["cables"][CONST_NAME[c]] = [0, 1]
            D["insts"][it["name"]] = {"ref": it["mod"], "params": dict((k, v) for k, v in it["params"]),
                                      "attrs": dict((k, v) for k, v in it["attrs"]), "pins": pins}
        out["defs"][m["name"]] = D
    for name, ports in bb.items():
        out["defs"][name] = {"lib": "hdi_primitives", "primitive": True,
                             "ports": {pn: {"dir": "UNDEFINED", "width": w, "lower": 0, "pins": [None] * w}
                                       for pn, w in ports.items()},
                             "port_order": None, "cables": {}, "insts": {}, "assigns": [], "params": {}, "attrs": {},
                             "cable_attrs": {}, "cable_types": {}}
    for name, ws in bbpos.items():
        out["defs"][name] = {"lib": "hdi_primitives", "primitive": True, "posports": list(ws),
                             "ports": {}, "port_order": None, "cables": {}, "insts": {}, "assigns": [], "params": {},
                             "attrs": {}, "cable_attrs": {}, "cable_types": {}}
    return out


def _nets_full(m):
    """declared nets plus the implicit ones: identifiers used in the body that are not declared (scalar)"""
    nets = _nets_of(m)
    for it in m["body"]:
        if it["t"] == "assign":
            atoms = [it["l"], it["r"]]
        else:
            atoms = []
            for _, e in it["conns"]:
                if e is not None:
                    atoms.extend(e["cat"] if isinstance(e, dict) else [e])
        for a in atoms:
            if a[0] != "const" and a[1] not in nets:
                nets[a[1]] = (0, 1)
    return nets


def design_features(design):
    """tags for the input-distribution histogram and the non-triviality rule"""
    f = set()
    mods = {m["name"]: m for m in design["modules"]}
    declared_so_far = set()
    maxw = 1
    for m in design["modules"]:
        if m["kind"] == "prim":
            f.add("celldefine")
        if m["style"] == "ansi":
            f.add("ansi")
        else:
            f.add("header")
        if m["params"]:
            f.add("params")
        if m["attrs"]:
            f.add("attrs")
        for p in m["ports"]:
            maxw = max(maxw, p["w"])
            if p["alias"] is not None:
                f.add("alias")
        for w in m["wires"]:
            maxw = max(maxw, w["msb"] - w["lsb"] + 1)
            if w["lsb"] != 0:
                f.add("base!=0")
        for it in m["body"]:
            if it["t"] == "assign":
                f.add("assign")
                continue
            if it["mod"] not in mods:
                f.add("blackbox")
                if it["map"] == "pos":
                    f.add("blackbox-by-position")
            elif it["mod"] not in declared_so_far:
                f.add("forward-ref")
            if it["map"] == "pos":
                f.add("positional")
            for pn, e in it["conns"]:
                if e is None:
                    f.add("expr:empty")
                elif isinstance(e, dict):
                    f.add("expr:concat")
                    a = e["cat"]
                    if len(a) >= 3 and all(x[0] == "bit" for x in a) and a[0][1] == a[-1][1] and a[0][2] - a[-1][2] == len(a) - 1 \
                            and [x[1:] for x in a] != [[a[0][1], a[0][2] - j] for j in range(len(a))]:
                        f.add("expr:concat-with-slice-ends")
                else:
                    f.add("expr:" + e[0])
        declared_so_far.add(m["name"])
    if maxw >= 2:
        f.add("bus")
    depth = _depth(design)
    if depth >= 2:
        f.add("depth>=2")
    return f


def _depth(design):
    mods = {m["name"]: m for m in design["modules"]}
    memo = {}

    def d(n):
        if n not in mods:
            return 0
        if n in memo:
            return memo[n]
        memo[n] = 0
        k = [d(it["mod"]) for it in mods[n]["body"] if it["t"] == "inst"]
        memo[n] = 1 + (max(k) if k else 0)
        return memo[n]
    return d(design["top"])


def strip_design(design):
    """JSON-able copy (drop generator-private keys)"""
    d = copy.deepcopy(design)
    for m in d["modules"]:
        m.pop("_used", None)
    return d
