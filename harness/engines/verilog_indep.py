"""Verilog engine: an independent reader of the structural subset (own tokenizer, own recursive descent),
used to obtain the abstract design — and through verilog_gen.denote its denotation — of third-party text
(the bundled example netlists).  Shares no code with spydrnet.  Raises Unsupported on anything outside
the structural subset (the file is then checked for acceptance and well-formedness only)."""
import re


class Unsupported(Exception):
    pass


_TOK = re.compile(r"""
    (?P<ws>\s+)
  | (?P<lc>//[^\n]*)
  | (?P<bc>/\*.*?\*/)
  | (?P<dir>`[^\n]*)
  | (?P<str>"(?:[^"\\]|\\.)*")
  | (?P<esc>\\\S+)(?=\s)
  | (?P<num>\d*'[sS]?[bBoOdDhH][0-9a-fA-FxXzZ_?]+ | \d+\.\d+ | \d+)
  | (?P<id>[A-Za-z_][A-Za-z0-9_$]*)
  | (?P<op>.)
""", re.X | re.S)


def tokenize(text):
    """tokens with conditional compilation resolved for "no macro is defined" (Verilog-2001 semantics)"""
    out = []
    stack = []          # True = the current branch is active
    for m in _TOK.finditer(text):
        k = m.lastgroup
        if k in ("ws", "lc", "bc"):
            continue
        v = m.group(k)
        if k == "dir":
            w = v.split()[0]
            if w == "`ifdef":
                stack.append(False)
                continue
            if w == "`ifndef":
                stack.append(True)
                continue
            if w == "`else":
                if not stack:
                    raise Unsupported("`else without `ifdef")
                stack[-1] = not stack[-1]
                continue
            if w == "`elsif":
                if not stack:
                    raise Unsupported("`elsif without `ifdef")
                stack[-1] = False
                continue
            if w == "`endif":
                if not stack:
                    raise Unsupported("`endif without `ifdef")
                stack.pop()
                continue
            if w == "`define":
                raise Unsupported("`define")
        if all(stack):
            out.append((k, v))
    return out


DIRS = ("input", "output", "inout")
NETS = ("wire", "reg", "tri0", "tri1")


class P:
    def __init__(self, toks):
        self.t = toks
        self.i = 0

    def peek(self, k=0):
        return self.t[self.i + k] if self.i + k < len(self.t) else ("eof", "")

    def next(self):
        x = self.peek()
        self.i += 1
        return x

    def accept(self, s):
        if self.peek()[1] == s and self.peek()[0] != "str":
            self.i += 1
            return True
        return False

    def expect(self, s):
        if not self.accept(s):
            raise Unsupported("expected %r got %r" % (s, self.peek()[1]))

    def name(self):
        k, v = self.next()
        if k not in ("id", "esc"):
            raise Unsupported("identifier expected, got %r" % v)
        return v

    def integer(self):
        neg = self.accept("-")
        k, v = self.next()
        if k != "num" or not v.isdigit():
            raise Unsupported("integer expected, got %r" % v)
        return -int(v) if neg else int(v)

    # ------------------------------------------------------------------ pieces
    def attrs(self):
        """(* k [= v] , ... *)  -> [[k, v|None]]   (caller saw '(' '*')"""
        self.expect("(")
        self.expect("*")
        out = []
        while not (self.peek()[1] == "*" and self.peek(1)[1] == ")"):
            k = self.name()
            v = None
            if self.accept("="):
                parts = []
                while self.peek()[1] not in (",",) and not (self.peek()[1] == "*" and self.peek(1)[1] == ")"):
                    parts.append(self.next()[1])
                v = "".join(parts)
            out.append([k, v])
            self.accept(",")
        self.expect("*")
        self.expect(")")
        return out

    def rng(self):
        """[msb:lsb] -> (msb, lsb) or None"""
        if not self.accept("["):
            return None
        a = self.integer()
        self.expect(":")
        b = self.integer()
        self.expect("]")
        return (a, b)

    def atom(self):
        k, v = self.peek()
        if k == "num":
            self.next()
            m = re.fullmatch(r"1'[bB]([01xXzZ])", v)
            if not m:
                raise Unsupported("constant %r" % v)
            return ["const", m.group(1)]
        n = self.name()
        if self.accept("["):
            a = self.integer()
            if self.accept(":"):
                b = self.integer()
                self.expect("]")
                return ["part", n, a, b]
            self.expect("]")
            return ["bit", n, a]
        return ["id", n]

    def expr(self):
        if self.accept("{"):
            parts = []
            while True:
                parts.append(self.atom())
                if self.accept("}"):
                    break
                self.expect(",")
            return {"cat": parts}
        return self.atom()

    # ------------------------------------------------------------------ module
    def module(self, prim, attrs):
        self.expect("module")
        m = {"name": self.name(), "kind": "prim" if prim else "module", "attrs": attrs, "params": [], "style": "header",
             "ports": [], "wires": [], "decl_order": [], "body": [], "junk": "", "implicit": []}
        if self.accept("#"):
            self.expect("(")
            while not self.accept(")"):
                self.expect("parameter")
                key = ""
                r = None
                if self.peek()[1] == "[":
                    self.next()
                    a = self.integer()
                    if self.accept(":"):
                        b = self.integer()
                        key = "[%d:%d] " % (a, b)
                    else:
                        key = "[%d] " % a
                    self.expect("]")
                key += self.name()
                if key == "integer":
                    key += " " + self.next()[1]
                self.expect("=")
                m["params"].append([key, self.next()[1]])
                self.accept(",")
        self.expect("(")
        hdr = []
        last_dir = None
        while not self.accept(")"):
            if self.accept("."):
                pn = self.name()
                self.expect("(")
                e = self.expr()
                self.expect(")")
                hdr.append({"name": pn, "alias": e})
            else:
                d = None
                if self.peek()[1] in DIRS and self.peek()[0] == "id":
                    d = self.next()[1]
                    last_dir = d
                    if self.peek()[1] in NETS and self.peek()[0] == "id":
                        raise Unsupported("net type in an ANSI header")
                r = self.rng()
                if d is None and r is None and last_dir is not None:
                    # `input a, b`: b inherits the direction in Verilog-2001
                    raise Unsupported("ANSI header port inheriting the previous direction")
                hdr.append({"name": self.name(), "dir": d, "rng": r})
                if d is not None:
                    m["style"] = "ansi"
            self.accept(",")
        self.expect(";")
        decls = {}      # name -> (dir, vtype, rng)
        wires = []
        body = []
        pend = []
        order = []
        while True:
            k, v = self.peek()
            if k == "eof":
                raise Unsupported("endmodule missing")
            if k == "id" and v == "endmodule":
                self.next()
                break
            if prim:
                if k == "id" and v in ("function", "task"):
                    end = "end" + v
                    while self.next()[1] != end:
                        if self.peek()[0] == "eof":
                            raise Unsupported("unterminated " + v)
                    continue
                if k == "id" and v in DIRS:
                    for n in self._port_decl(decls):
                        order.append(("port", n))
                    continue
                self.next()
                continue
            if v == "(" and self.peek(1)[1] == "*" and k == "op":
                pend = pend + self.attrs()
                continue
            if k == "id" and v in DIRS:
                for n in self._port_decl(decls, dict_list(pend)):
                    order.append(("port", n))
                pend = []
            elif k == "id" and v in NETS:
                ty = self.next()[1]
                r = self.rng()
                first = True
                while True:
                    wires.append({"name": self.name(), "rng": r, "type": ty, "attrs": pend if first else []})
                    order.append(("wire", len(wires) - 1))
                    first = False
                    if self.accept(";"):
                        break
                    self.expect(",")
                pend = []
            elif k == "id" and v == "assign":
                self.next()
                l = self.atom()
                self.expect("=")
                r = self.atom()
                self.expect(";")
                body.append({"t": "assign", "l": l, "r": r})
            elif k == "id" and v == "defparam":
                self.next()
                inst = self.name()
                self.expect(".")
                key = self.next()[1]
                self.expect("=")
                val = self.next()[1]
                self.expect(";")
                for it in body:
                    if it["t"] == "inst" and it["name"] == inst:
                        if not any(kk == key for kk, _ in it["params"]):
                            it["params"].append([key, val])
                        break
                else:
                    raise Unsupported("defparam on unknown instance")
            elif k in ("id", "esc"):
                mod = self.name()
                params = []
                if self.accept("#"):
                    self.expect("(")
                    while not self.accept(")"):
                        self.expect(".")
                        pk = self.name()
                        self.expect("(")
                        pv = self.next()[1]
                        self.expect(")")
                        params = [x for x in params if x[0] != pk] + [[pk, pv]]
                        self.accept(",")
                iname = self.name()
                self.expect("(")
                conns = []
                named = self.peek()[1] == "."
                while not self.accept(")"):
                    if named:
                        self.expect(".")
                        pn = self.name()
                        self.expect("(")
                        e = None if self.peek()[1] == ")" else self.expr()
                        self.expect(")")
                        conns.append([pn, e])
                    else:
                        conns.append([None, self.expr()])
                    self.accept(",")
                self.expect(";")
                body.append({"t": "inst", "mod": mod, "name": iname, "params": params, "attrs": dict_list(pend),
                             "map": "named" if named or not conns else "pos", "conns": conns})
                pend = []
            else:
                raise Unsupported("module item %r" % v)
        # assemble ports
        port_nets = set()
        for h in hdr:
            if "alias" in h:
                e = h["alias"]
                atoms = e["cat"] if isinstance(e, dict) else [e]
                if not all(a[0] == "id" for a in atoms):
                    raise Unsupported("alias port over selects")
                names = [a[1] for a in atoms]
                ds = {decls.get(n, (None,))[0] for n in names}
                if len(ds) != 1 or None in ds or any(decls[n][2] is not None for n in names):
                    raise Unsupported("alias port members")
                m["ports"].append({"name": h["name"], "dir": ds.pop(), "w": len(names), "ranged": len(names) > 1,
                                   "alias": names, "vtype": None, "alias_braces": isinstance(e, dict)})
                port_nets.update(names)
            else:
                d, vt, r, pat = h.get("dir"), None, h.get("rng"), None
                if d is None:
                    if h["name"] not in decls:
                        raise Unsupported("port %s has no declaration" % h["name"])
                    d, vt, r, pat = decls[h["name"]]
                    m["style"] = "header"
                if r is not None and (r[0] < r[1]):
                    m.setdefault("asc", []).append(h["name"])
                lsb = min(r) if r else 0
                w = (abs(r[0] - r[1]) + 1) if r else 1
                m["ports"].append({"name": h["name"], "dir": d, "w": w, "ranged": r is not None, "alias": None,
                                   "vtype": vt, "lsb": lsb, **({"attrs": pat} if pat is not None and not prim else {})})
                port_nets.add(h["name"])
        for n in decls:
            if n not in port_nets:
                raise Unsupported("direction declared for a net that is not a port")
        seen = {}
        widx = {}
        pranges = {p["name"]: (p.get("lsb", 0), p["w"]) for p in m["ports"] if p["alias"] is None}
        for k, w in enumerate(wires):
            r = w["rng"]
            rr = (min(r), abs(r[0] - r[1]) + 1) if r else (0, 1)
            if w["name"] in pranges and pranges[w["name"]] != rr:
                raise Unsupported("port net redeclared with another range")
            if w["name"] in seen:
                if seen[w["name"]] != rr:
                    raise Unsupported("net declared twice with different ranges")
                continue
            seen[w["name"]] = rr
            if r is not None and r[0] < r[1] and w["name"] not in m.get("asc", []):
                m.setdefault("asc", []).append(w["name"])
            widx[k] = len(m["wires"])
            m["wires"].append({"name": w["name"], "msb": max(r) if r else 0, "lsb": min(r) if r else 0, "ranged": r is not None,
                               "type": w["type"], "attrs": w["attrs"]})
        pidx = {p["name"]: i for i, p in enumerate(m["ports"])}
        for kind, x in order:
            if kind == "wire":
                if x in widx:
                    m["decl_order"].append(["wire", widx[x]])
            elif x in pidx and m["ports"][pidx[x]]["alias"] is None:
                if m["style"] == "header" or prim:
                    m["decl_order"].append(["port", pidx[x]])
            else:
                for i, p in enumerate(m["ports"]):
                    if p["alias"] is not None and x in p["alias"]:
                        m["decl_order"].append(["aliasnet", i, p["alias"].index(x)])
        if m["style"] == "ansi" and any(k == "port" for k, _ in order):
            raise Unsupported("ANSI header mixed with body port declarations")
        m["body"] = body
        return m

    def _port_decl(self, decls, attrs=()):
        d = self.next()[1]
        vt = None
        if self.peek()[0] == "id" and self.peek()[1] in ("wire", "reg"):
            vt = self.next()[1]
        r = self.rng()
        names = []
        while True:
            n = self.name()
            decls[n] = (d, vt, r, list(attrs))
            names.append(n)
            if self.accept(";"):
                break
            self.expect(",")
        return names


def dict_list(pairs):
    out = []
    for k, v in pairs:
        out = [x for x in out if x[0] != k] + [[k, v]]
    return out


def parse_text(text):
    """-> design (same shape as verilog_gen's) or raises Unsupported"""
    p = P(tokenize(text))
    mods = []
    prim = False
    pend = []
    while p.peek()[0] != "eof":
        k, v = p.peek()
        if k == "dir":
            p.next()
            w = v.split()[0]
            if w == "`celldefine":
                prim = True
            elif w == "`endcelldefine":
                prim = False
            elif w in ("`timescale", "`default_nettype", "`resetall"):
                pass
            else:
                raise Unsupported("directive " + w)
        elif v == "(" and k == "op":
            pend = pend + p.attrs()
        elif k == "id" and v == "module":
            mods.append(p.module(prim, dict_list(pend)))
            pend = []
        elif k == "id" and v == "primitive":
            while p.next()[1] != "endprimitive":
                if p.peek()[0] == "eof":
                    raise Unsupported("unterminated primitive")
            pend = []
        else:
            raise Unsupported("top-level token %r" % v)
    names = [m["name"] for m in mods]
    if len(set(names)) != len(names):
        raise Unsupported("module declared twice")
    used = set()
    for m in mods:
        for it in m["body"]:
            if it["t"] == "inst":
                used.add(it["mod"])
    roots = [m["name"] for m in mods if m["kind"] == "module" and m["name"] not in used]
    if len(roots) != 1:
        raise Unsupported("not exactly one root module: %s" % roots[:4])
    for m in mods:
        for it in m["body"]:
            if it["t"] == "inst" and it["map"] == "pos" and it["mod"] not in names:
                raise Unsupported("positional map on an undeclared module")
    return {"modules": mods, "top": roots[0], "timescale": None}
