"""Verilog engine: the documented sub-domains of the known (pinned or repaired) defects.

For each defect: `trigger(design)` says whether the design lies in the sub-domain in which the defect
can show, `neutralise(design)` rewrites the design into an equivalent one (same denotation up to the
renaming stated) outside that sub-domain.  A failure is attributed to a known defect only when the
design triggers it AND the failure disappears once exactly that trigger is neutralised; anything else
is reported as a new failure (on the neutralised, shrunk design).  Nothing here imports spydrnet."""
import copy

SIG_EMPTY_PRIM = "sdn.parse.rejects.celldefine-module-with-empty-body"
SIG_POS_ORDER = "sdn.parse.positional-map.uses-port-order-of-first-use"
SIG_TOP_CLIMB = "sdn.parse.top.climbs-one-level-only"
SIG_GLOB = "sdn.parse.rejects.glob-characters-in-escaped-identifier"

SIG_PORT_ATTRS = "sdn.parse.port-declaration-attributes-dropped"
SIG_MULTI = "sdn.parse.multi-name-wire-declaration.range-and-attributes-reach-first-name-only"
SIG_ASC = "sdn.parse.ascending-range.read-as-descending"
SIG_POS_EXTRA = "sdn.parse.accepts.positional-map-longer-than-declared-port-list"

SIG_C04_EMPTY_BB = "compose-then-parse.rejects.portless-primitive-written-as-empty-celldefine-module"
SIG_C04_ASSIGN = "compose.raises.assign-wider-than-one-bit"
SIG_C04_UNDEF = "compose-then-parse.port-without-direction-comes-back-inout"
SIG_C04_COLLIDE = "flatten-then-compose.hierarchical-name-equals-escaped-sibling.two-elements-one-identifier"
SIG_C04_ASSIGN_SPLIT = "compose.raises.assign-over-several-cables-after-flatten"
SIG_C04_FLATNAME = "compose-then-parse.rejects.hierarchical-name-written-unescaped"
SIG_C04_CLONE = "clone.top-instance-references-original-definition.modules-written-twice"


def _mods(design):
    return {m["name"]: m for m in design["modules"]}


# ---------------------------------------------------------------- empty primitive body
def empty_prims(design):
    out = []
    for m in design["modules"]:
        if m["kind"] == "prim" and not m["junk"].strip() and not m["decl_order"]:
            out.append(m["name"])
    return out


def neutralise_empty_prim(design):
    d = copy.deepcopy(design)
    for m in d["modules"]:
        if m["kind"] == "prim" and not m["junk"].strip() and not m["decl_order"]:
            m["junk"] = "wire n1 ; "
    return d


# ---------------------------------------------------------------- positional maps vs order of first use
def creation_order(design):
    """port order each declared module ends up with in the (unrepaired) reader: ports are created by the
    first named use before the declaration, the header only appends the missing ones"""
    mods = _mods(design)
    created = {}
    declared = set()
    for m in design["modules"]:
        lst = created.setdefault(m["name"], [])
        for p in m["ports"]:
            if p["name"] not in lst:
                lst.append(p["name"])
        declared.add(m["name"])
        if m["kind"] == "prim":
            continue
        for it in m["body"]:
            if it["t"] != "inst" or it["mod"] not in mods or it["mod"] in declared or it["map"] != "named":
                continue
            lst = created.setdefault(it["mod"], [])
            for pn, _ in it["conns"]:
                if pn not in lst:
                    lst.append(pn)
    return created


def pos_order_victims(design):
    mods = _mods(design)
    co = creation_order(design)
    bad = {n for n, m in mods.items() if co.get(n, []) != [p["name"] for p in m["ports"]]}
    out = []
    for m in design["modules"]:
        for it in m["body"]:
            if it["t"] == "inst" and it["map"] == "pos" and it["mod"] in bad:
                out.append((m["name"], it["name"]))
    return out


def order_differs(design):
    """some module's ports were created (by a forward named map) in an order other than the declared one: the
    unrepaired reader keeps that order (visible to positional maps only), the model the declared order"""
    mods = _mods(design)
    co = creation_order(design)
    return any(co.get(n, []) != [p["name"] for p in m["ports"]] for n, m in mods.items())


def corr_sig_c06(design):
    return SIG_POS_ORDER if order_differs(design) else None


def neutralise_pos_order(design):
    d = copy.deepcopy(design)
    mods = _mods(d)
    co = creation_order(d)
    bad = {n for n, m in mods.items() if co.get(n, []) != [p["name"] for p in m["ports"]]}
    for m in d["modules"]:
        for it in m["body"]:
            if it["t"] == "inst" and it["map"] == "pos" and it["mod"] in bad:
                ports = mods[it["mod"]]["ports"]
                it["map"] = "named"
                it["conns"] = [[ports[i]["name"], e] for i, (_, e) in enumerate(it["conns"])]
    return d


# ---------------------------------------------------------------- top election
def predicted_top(design, climb_all):
    """simulate the reader's top election (first module; re-elected when the current top is instanced)"""
    mods = _mods(design)
    parents = {}   # module name -> list of parent module names, in order of instantiation
    top = None
    for m in design["modules"]:
        if m["kind"] == "prim":
            continue
        if top is None:
            top = m["name"]
        for it in m["body"]:
            if it["t"] != "inst":
                continue
            if it["mod"] == top:
                new = m["name"]
                if climb_all:
                    seen = set()
                    while parents.get(new) and new not in seen:
                        seen.add(new)
                        new = parents[new][0]
                elif parents.get(new):
                    new = None      # one level up through an arbitrary reference (a set): ambiguous
                top = new
                if top is None:
                    return None
            parents.setdefault(it["mod"], []).append(m["name"])
    return top


def top_trigger(design):
    """the current top is instanced by a module that is itself already instanced"""
    parents = {}
    top = None
    hit = False
    for m in design["modules"]:
        if m["kind"] == "prim":
            continue
        if top is None:
            top = m["name"]
        for it in m["body"]:
            if it["t"] != "inst":
                continue
            if it["mod"] == top:
                if parents.get(m["name"]):
                    hit = True
                    return True
                top = m["name"]
            parents.setdefault(it["mod"], []).append(m["name"])
    return hit


def neutralise_top(design):
    d = copy.deepcopy(design)
    root = [m for m in d["modules"] if m["name"] == d["top"]]
    rest = [m for m in d["modules"] if m["name"] != d["top"]]
    d["modules"] = root + rest
    return d


# ---------------------------------------------------------------- glob characters
def _all_names(design):
    for m in design["modules"]:
        yield m["name"]
        for p in m["ports"]:
            yield p["name"]
            for a in (p["alias"] or []):
                yield a
        for w in m["wires"]:
            yield w["name"]
        for n in m.get("implicit", []):
            yield n
        for it in m["body"]:
            if it["t"] == "inst":
                yield it["name"]
                yield it["mod"]
                for pn, _ in it["conns"]:
                    if pn is not None:
                        yield pn


def glob_names(design):
    return sorted({n for n in _all_names(design) if "*" in n or "?" in n})


def rename_design(design, f):
    """apply the injective renaming f to every identifier"""
    d = copy.deepcopy(design)

    def ra(a):
        if a[0] == "const":
            return a
        return [a[0], f(a[1])] + a[2:]

    def re_(e):
        if e is None:
            return None
        if isinstance(e, dict):
            return {"cat": [ra(a) for a in e["cat"]]}
        return ra(e)
    d["top"] = f(d["top"])
    for m in d["modules"]:
        m["name"] = f(m["name"])
        for p in m["ports"]:
            p["name"] = f(p["name"])
            if p["alias"] is not None:
                p["alias"] = [f(a) for a in p["alias"]]
        for w in m["wires"]:
            w["name"] = f(w["name"])
        if "implicit" in m:
            m["implicit"] = [f(n) for n in m["implicit"]]
        for it in m["body"]:
            if it["t"] == "assign":
                it["l"], it["r"] = ra(it["l"]), ra(it["r"])
            else:
                it["name"], it["mod"] = f(it["name"]), f(it["mod"])
                it["conns"] = [[None if pn is None else f(pn), re_(e)] for pn, e in it["conns"]]
    return d


def neutralise_glob(design):
    names = set(_all_names(design))
    ren = {}
    for n in sorted(names):
        if "*" in n or "?" in n:
            k = 0
            while True:
                c = n.replace("*", "_s%d_" % k).replace("?", "_q%d_" % k)
                if c not in names and c not in ren.values():
                    break
                k += 1
            ren[n] = c
    return rename_design(design, lambda n: ren.get(n, n))


# ---------------------------------------------------------------- C04 sub-domains
def portless_blackboxes(design):
    mods = _mods(design)
    out = set()
    for m in design["modules"]:
        for it in m["body"]:
            if it["t"] == "inst" and it["mod"] not in mods and not it["conns"]:
                out.add(it["mod"])
    # a black box is port-less only if no instance anywhere gives it a port
    for m in design["modules"]:
        for it in m["body"]:
            if it["t"] == "inst" and it["mod"] in out and it["conns"]:
                out.discard(it["mod"])
    for m in design["modules"]:
        if m["kind"] == "prim" and not m["ports"]:
            out.add(m["name"])
    return sorted(out)


def neutralise_portless_bb(design):
    d = copy.deepcopy(design)
    bad = set(portless_blackboxes(d))
    for m in d["modules"]:
        if m["kind"] == "prim" and not m["ports"]:
            m["ports"].append({"name": "q", "dir": "input", "w": 1, "ranged": False, "alias": None, "vtype": None})
            if m["style"] == "header":
                m["decl_order"].append(["port", 0])
            bad.discard(m["name"])
    for m in d["modules"]:
        for it in m["body"]:
            if it["t"] == "inst" and it["mod"] in bad:
                it["conns"] = [["q", None]]
                it["map"] = "named"
    return d


def wide_assigns(design):
    n = 0
    for m in design["modules"]:
        nets = None
        for it in m["body"]:
            if it["t"] == "assign":
                a = it["l"]
                if a[0] == "part" and a[2] != a[3]:
                    n += 1
                elif a[0] == "id":
                    if nets is None:
                        from verilog_gen import _nets_full
                        nets = _nets_full(m)
                    if nets[a[1]][1] > 1:
                        n += 1
    return n


def neutralise_wide_assign(design):
    """split every assign of width w > 1 into w one-bit assigns (same bits joined)"""
    from verilog_gen import _nets_full, eval_atom
    d = copy.deepcopy(design)
    for m in d["modules"]:
        nets = _nets_full(m)
        body = []
        for it in m["body"]:
            if it["t"] == "assign":
                lb, rb = eval_atom(it["l"], nets), eval_atom(it["r"], nets)
                if len(lb) > 1:
                    for (lc, li), (rc, ri) in zip(lb, rb):
                        body.append({"t": "assign", "l": ["bit", lc, li] if nets[lc][1] > 1 or nets[lc][0] != 0 else ["id", lc],
                                     "r": ["bit", rc, ri] if nets[rc][1] > 1 or nets[rc][0] != 0 else ["id", rc]})
                    continue
            body.append(it)
        m["body"] = body
    return d


def has_asc(design):
    return any(m.get("asc") for m in design["modules"])


def neutralise_asc(design):
    """the design as the reader understands it: every range descending, indices unchanged"""
    d = copy.deepcopy(design)
    for m in d["modules"]:
        if m.get("asc"):
            m["asc"] = []
            def fix(a):
                if a[0] == "part" and a[2] < a[3]:
                    return ["part", a[1], a[3], a[2]]
                return a
            for it in m["body"]:
                if it["t"] == "assign":
                    it["l"], it["r"] = fix(it["l"]), fix(it["r"])
                else:
                    for c in it["conns"]:
                        e = c[1]
                        if isinstance(e, dict):
                            e["cat"] = [fix(a) for a in e["cat"]]
                        elif e is not None:
                            c[1] = fix(e)
    return d


def grouped_wires(design):
    """a wire declaration with several names whose range or attributes matter"""
    from verilog_gen import _same_decl
    for m in design["modules"]:
        if not m.get("group_decls") or m["kind"] == "prim":
            continue
        o = m["decl_order"]
        for a, b in zip(o, o[1:]):
            if a[0] == "wire" and _same_decl(m, a, b):
                w = m["wires"][a[1]]
                if w["ranged"] or w["attrs"]:
                    return True
    return False


def neutralise_grouped(design):
    d = copy.deepcopy(design)
    for m in d["modules"]:
        m["group_decls"] = False
    return d


def port_attrs(design):
    return any(p.get("attrs") for m in design["modules"] if m["kind"] != "prim" and m["style"] == "header" for p in m["ports"])


def neutralise_port_attrs(design):
    d = copy.deepcopy(design)
    for m in d["modules"]:
        for p in m["ports"]:
            if p.get("attrs"):
                p["attrs"] = []
    return d


def hier_alias_wires(design):
    """nets of the root named \\<instance>/<x>: the name flatten() gives (unescaped) to net x of that instance"""
    root = next((m for m in design["modules"] if m["name"] == design["top"]), None)
    if root is None:
        return []
    insts = {it["name"] for it in root["body"] if it["t"] == "inst"}
    return [w["name"] for w in root["wires"] if w["name"].startswith("\\") and "/" in w["name"]
            and w["name"][1:].split("/", 1)[0] in insts]


def neutralise_hier_alias(design):
    bad = set(hier_alias_wires(design))
    names = set(_all_names(design))
    ren = {}
    for n in bad:
        c = n.replace("/", "_")
        while c in names:
            c += "_"
        ren[n] = c
    return rename_design(design, lambda n: ren.get(n, n))


C06_KNOWN = [
    (SIG_PORT_ATTRS, port_attrs, neutralise_port_attrs),
    (SIG_MULTI, grouped_wires, neutralise_grouped),
    (SIG_ASC, has_asc, neutralise_asc),
    (SIG_EMPTY_PRIM, lambda d: bool(empty_prims(d)), neutralise_empty_prim),
    (SIG_GLOB, lambda d: bool(glob_names(d)), neutralise_glob),
    (SIG_POS_ORDER, lambda d: bool(pos_order_victims(d)), neutralise_pos_order),
    (SIG_TOP_CLIMB, top_trigger, neutralise_top),
]

C04_KNOWN = [
    (SIG_C04_COLLIDE, lambda d: bool(hier_alias_wires(d)), neutralise_hier_alias),
    (SIG_C04_EMPTY_BB, lambda d: bool(portless_blackboxes(d)), neutralise_portless_bb),
    (SIG_C04_ASSIGN, lambda d: wide_assigns(d) > 0, neutralise_wide_assign),
]


def active(table, pid):
    """the part of a table whose findings are still open: fixed findings are no longer kept out of the random
    stream (their sub-domains are ordinary inputs again); attribution keeps using the full table"""
    import json
    import os
    here = os.path.dirname(os.path.dirname(os.path.dirname(os.path.abspath(__file__))))
    try:
        with open(os.path.join(here, "known_findings.d", "verilog.json")) as f:
            fixed = {k["signature"] for k in json.load(f)["findings"] if k.get("status") == "fixed" and k["property"] == pid}
    except Exception:                                         # noqa: BLE001
        fixed = set()
    return [e for e in table if e[0] not in fixed]


def neutralise_all(design, table):
    d = design
    for _ in range(3):     # neutralising one trigger may expose another (module order)
        changed = False
        for sig, trig, neut in table:
            if trig(d):
                d = neut(d)
                changed = True
        if not changed:
            break
    return d
