"""Verilog engine: pin-centric view of a spydrnet netlist and the C06 / C04 oracles (Python side of P).
Reads private fields directly; never mutates the netlist."""
from spydrnet.ir.outerpin import OuterPin as _Outer

ASSIGN_LIB = "SDN_VERILOG_ASSIGNMENT"


def _dir(p):
    d = p.direction
    return d.name if hasattr(d, "name") else str(d)


def _bit_of_wire(w):
    if w is None:
        return None
    c = w._cable
    if c is None:
        return ["?", -1]
    return [c.name, c._lower_index + c._wires.index(w)]


def _jd(v):
    if isinstance(v, dict):
        return {str(k): _jd(x) for k, x in v.items()}
    if isinstance(v, (list, tuple)):
        return [_jd(x) for x in v]
    if v is None or isinstance(v, (bool, int, str)):
        return v
    return repr(v)


def view(nl):
    """{"name", "top", "libs":[names], "defs": {name: {...}}}; every list that comes from a set is sorted."""
    out = {"name": nl.name, "top": None, "libs": [l.name for l in nl._libraries], "defs": {}, "dups": []}
    t = nl._top_instance
    if t is not None and t._reference is not None:
        out["top"] = t._reference.name
        out["top_inst"] = t.name
    for lib in nl._libraries:
        for d in lib._definitions:
            if d.name in out["defs"]:
                out["dups"].append(d.name)
            D = {"lib": lib.name, "data": {k: _jd(v) for k, v in d._data.items() if k not in (".NS", ".NAME")},
                 "ports": [], "cables": [], "insts": []}
            for p in d._ports:
                D["ports"].append({"name": p.name, "dir": _dir(p), "width": len(p._pins), "lower": p._lower_index,
                                   "downto": bool(p._is_downto),
                                   "data": {k: _jd(v) for k, v in p._data.items() if k not in (".NS", ".NAME")},
                                   "pins": [_bit_of_wire(q._wire) for q in p._pins]})
            for c in d._cables:
                D["cables"].append({"name": c.name, "lower": c._lower_index, "width": len(c._wires),
                                    "downto": bool(c._is_downto),
                                    "data": {k: _jd(v) for k, v in c._data.items() if k not in (".NS", ".NAME")},
                                    "npins": [len(w._pins) for w in c._wires]})
            for k in d._children:
                r = k._reference
                I = {"name": k.name, "ref": r.name if r is not None else None,
                     "reflib": r._library.name if r is not None and r._library is not None else None,
                     "data": {kk: _jd(v) for kk, v in k._data.items() if kk not in (".NS", ".NAME")}, "pins": []}
                if r is not None:
                    for p in r._ports:
                        row = []
                        for q in p._pins:
                            o = k._pins.get(q)
                            row.append(_bit_of_wire(o._wire) if o is not None else ["!", -1])
                        I["pins"].append(row)
                D["insts"].append(I)
            out["defs"][d.name] = D
    return out


def wire_pin_consistency(nl):
    """every wire lists exactly the pins that report it (independent of canon.wf_problems)"""
    bad = []
    for lib in nl._libraries:
        for d in lib._definitions:
            listed = {}
            for c in d._cables:
                for w in c._wires:
                    for x in w._pins:
                        listed[id(x)] = w
            for p in d._ports:
                for q in p._pins:
                    if (q._wire is not None) != (id(q) in listed) or (q._wire is not None and listed[id(q)] is not q._wire):
                        bad.append("inner pin/wire disagree in " + str(d.name))
            for k in d._children:
                for q, o in k._pins.items():
                    if (o._wire is not None) != (id(o) in listed) or (o._wire is not None and listed[id(o)] is not o._wire):
                        bad.append("outer pin/wire disagree in " + str(d.name))
    return bad[:5]


# ----------------------------------------------------------------------------------------------
# C06: the view against the denotation of the abstract design
# ----------------------------------------------------------------------------------------------
def _t(b):
    return None if b is None else (b[0], b[1])


def check_c06(den, v):
    """-> list of (what, detail); `what` is a short stable tag naming the clause of C06 that fails."""
    pr = []

    def bad(what, detail):
        if len(pr) < 12:
            pr.append((what, detail))
    if v["dups"]:
        bad("definition.duplicate", v["dups"])
    if v["top"] != den["top"]:
        bad("top", "expected %s got %s" % (den["top"], v["top"]))
    want_defs = set(den["defs"])
    got_defs = {n for n, D in v["defs"].items() if D["lib"] != ASSIGN_LIB}
    if want_defs != got_defs:
        bad("definitions", "missing %s extra %s" % (sorted(want_defs - got_defs), sorted(got_defs - want_defs)))
    for name in sorted(want_defs & got_defs):
        E, D = den["defs"][name], v["defs"][name]
        if D["lib"] != E["lib"]:
            bad("library", "%s in %s expected %s" % (name, D["lib"], E["lib"]))
        if bool(D["data"].get("VERILOG.primitive")) != E["primitive"]:
            bad("primitive-flag", name)
        # ports
        if E.get("posports") is not None:
            # never declared, instantiated by position: one unnamed port per position, shared by all instances
            gotp = [(p["name"], p["dir"], p["width"], p["lower"]) for p in D["ports"]]
            if gotp != [(None, "UNDEFINED", w, 0) for w in E["posports"]]:
                bad("ports.by-position", "%s: %s expected unnamed ports of widths %s" % (name, gotp, E["posports"]))
        gp = {p["name"]: p for p in D["ports"]}
        if E.get("posports") is None and (len(gp) != len(D["ports"]) or set(gp) != set(E["ports"])):
            bad("ports.names", "%s: %s expected %s" % (name, [p["name"] for p in D["ports"]], sorted(E["ports"])))
            continue
        for pn, ep in E["ports"].items():
            p = gp[pn]
            if (p["dir"], p["width"], p["lower"]) != (ep["dir"], ep["width"], ep["lower"]):
                bad("port.dir-width-base", "%s.%s: %s expected %s" % (name, pn, (p["dir"], p["width"], p["lower"]),
                                                                   (ep["dir"], ep["width"], ep["lower"])))
            elif [_t(b) for b in p["pins"]] != [_t(b) for b in ep["pins"]]:
                bad("port.pins", "%s.%s: %s expected %s" % (name, pn, p["pins"], ep["pins"]))
            if "attrs" in ep and (p["data"].get("VERILOG.InlineConstraints") or {}) != ep["attrs"]:
                bad("port.attrs", "%s.%s: %s expected %s" % (name, pn, p["data"].get("VERILOG.InlineConstraints"), ep["attrs"]))
        # cables
        gc = {c["name"]: c for c in D["cables"]}
        if len(gc) != len(D["cables"]) or set(gc) != set(E["cables"]):
            bad("cables.names", "%s: missing %s extra %s" % (name, sorted(set(E["cables"]) - set(gc)),
                                                             sorted(set(gc) - set(E["cables"]))))
        for cn, (lo, w) in E["cables"].items():
            c = gc.get(cn)
            if c is not None and (c["lower"], c["width"]) != (lo, w):
                bad("cable.range", "%s.%s: %s expected %s" % (name, cn, (c["lower"], c["width"]), (lo, w)))
            if c is not None and cn in E["cable_attrs"]:
                if (c["data"].get("VERILOG.InlineConstraints") or {}) != E["cable_attrs"][cn]:
                    bad("cable.attrs", "%s.%s" % (name, cn))
            if c is not None and cn in E["cable_types"]:
                if c["data"].get("VERILOG.CableType") != E["cable_types"][cn]:
                    bad("cable.type", "%s.%s: %s" % (name, cn, c["data"].get("VERILOG.CableType")))
        # definition data
        if E.get("timescale") is not None and D["data"].get("VERILOG.TimeScale") != E["timescale"]:
            bad("definition.timescale", "%s: %r expected %r" % (name, D["data"].get("VERILOG.TimeScale"), E["timescale"]))
        if (D["data"].get("VERILOG.Parameters") or {}) != E["params"]:
            bad("definition.params", "%s: %s expected %s" % (name, D["data"].get("VERILOG.Parameters"), E["params"]))
        if (D["data"].get("VERILOG.InlineConstraints") or {}) != E["attrs"]:
            bad("definition.attrs", "%s: %s expected %s" % (name, D["data"].get("VERILOG.InlineConstraints"), E["attrs"]))
        # instances
        gi = {i["name"]: i for i in D["insts"] if i["reflib"] != ASSIGN_LIB}
        if set(gi) != set(E["insts"]) or len(gi) != len([i for i in D["insts"] if i["reflib"] != ASSIGN_LIB]):
            bad("instances.names", "%s: %s expected %s" % (name, sorted(gi), sorted(E["insts"])))
        for iname, ei in E["insts"].items():
            i = gi.get(iname)
            if i is None:
                continue
            if i["ref"] != ei["ref"]:
                bad("instance.module", "%s.%s: %s expected %s" % (name, iname, i["ref"], ei["ref"]))
                continue
            if (i["data"].get("VERILOG.Parameters") or {}) != ei["params"]:
                bad("instance.params", "%s.%s: %s expected %s" % (name, iname, i["data"].get("VERILOG.Parameters"), ei["params"]))
            if (i["data"].get("VERILOG.InlineConstraints") or {}) != ei["attrs"]:
                bad("instance.attrs", "%s.%s: %s expected %s" % (name, iname, i["data"].get("VERILOG.InlineConstraints"), ei["attrs"]))
            rd = v["defs"].get(i["ref"])
            if rd is None:
                bad("instance.reference-outside", "%s.%s" % (name, iname))
                continue
            got = {}
            bypos = den["defs"].get(i["ref"], {}).get("posports") is not None
            for pi, p in enumerate(rd["ports"]):
                got[pi if bypos else p["name"]] = [_t(b) for b in i["pins"][pi]] if pi < len(i["pins"]) else None
            for pn, ebits in ei["pins"].items():
                g = got.get(pn)
                if g != [_t(b) for b in ebits]:
                    bad("connection", "%s.%s.%s: %s expected %s" % (name, iname, pn, g, ebits))
        # assigns: instances of SDN_VERILOG_ASSIGNMENT_<w>: o pins on lhs bits, i pins on rhs bits, pairwise
        ga = []
        for i in D["insts"]:
            if i["reflib"] != ASSIGN_LIB:
                continue
            rd = v["defs"].get(i["ref"])
            if rd is None:
                bad("assign.definition-missing", i["ref"])
                continue
            pn = [p["name"] for p in rd["ports"]]
            pd = [p["dir"] for p in rd["ports"]]
            if sorted(pn) != ["i", "o"] or dict(zip(pn, pd)) != {"i": "IN", "o": "OUT"}:
                bad("assign.ports", "%s %s" % (pn, pd))
                continue
            o = i["pins"][pn.index("o")]
            ii = i["pins"][pn.index("i")]
            if i["ref"] != "%s_%d" % (ASSIGN_LIB, len(o)) or len(o) != len(ii):
                bad("assign.width-name", "%s width %d" % (i["ref"], len(o)))
            ga.append([len(o), sorted(((_t(a), _t(b)) for a, b in zip(o, ii)), key=repr)])
        if sorted(ga, key=repr) != sorted(E["assigns"], key=repr):
            bad("assign", "%s: %s expected %s" % (name, sorted(ga, key=repr), sorted(E["assigns"], key=repr)))
        # no pin of the definition's wires beyond the expected ones: count endpoints per cable bit
        want_n = {}
        for pn, ep in E["ports"].items():
            for b in ep["pins"]:
                if b is not None:
                    want_n[_t(b)] = want_n.get(_t(b), 0) + 1
        for ei in E["insts"].values():
            for bits in ei["pins"].values():
                for b in bits:
                    if b is not None:
                        want_n[_t(b)] = want_n.get(_t(b), 0) + 1
        for w, pairs in E["assigns"]:
            for a, b in pairs:
                want_n[a] = want_n.get(a, 0) + 1
                want_n[b] = want_n.get(b, 0) + 1
        for c in D["cables"]:
            for k, n in enumerate(c["npins"]):
                if n != want_n.get((c["name"], c["lower"] + k), 0):
                    bad("net.endpoints", "%s.%s[%d]: %d pins expected %d" % (name, c["name"], c["lower"] + k, n,
                                                                             want_n.get((c["name"], c["lower"] + k), 0)))
                    break
    return pr


# ----------------------------------------------------------------------------------------------
# C04: view before the round trip against view after it
# ----------------------------------------------------------------------------------------------
_L = set("abcdefghijklmnopqrstuvwxyzABCDEFGHIJKLMNOPQRSTUVWXYZ")
_D = set("0123456789")


def simple_identifier(n):
    return bool(n) and (n[0] in _L or n[0] == "_") and all(c in _L or c in _D or c == "_" for c in n)


def vname(n):
    """a name as a Verilog identifier: a string that is neither a simple identifier nor already escaped can
    only be written as the escaped identifier `\\<string>`; spydrnet keeps that backslash in the name"""
    if n is None or n.startswith("\\") or simple_identifier(n):
        return n
    return "\\" + n


def _tn(b):
    return None if b is None else (vname(b[0]), b[1])


def view04(v, keep_defs=None, iface_free=()):
    """The attributes C04 lists.  `keep_defs`: names of the definitions that were written (None = all);
    `iface_free`: definitions whose interface is re-inferred from use (not written): only the connected
    pins of their instances are compared."""
    out = {"top": vname(v["top"]), "defs": {}, "collisions": []}

    def put(table, key, val, what):
        if key in table:
            out["collisions"].append("%s %s" % (what, key))
        table[key] = val
    for name, D in v["defs"].items():
        if D["lib"] == ASSIGN_LIB:
            continue
        if keep_defs is not None and name not in keep_defs:
            continue
        X = {"ports": {}, "cables": {}, "insts": {}, "assigns": [], "params": D["data"].get("VERILOG.Parameters") or {},
             "attrs": D["data"].get("VERILOG.InlineConstraints") or {}}
        prim = D["lib"] == "hdi_primitives"
        for p in D["ports"]:
            d = p["dir"]
            put(X["ports"], vname(p["name"]), [d, p["width"], p["lower"], None if prim else [_tn(b) for b in p["pins"]],
                                               p["data"].get("VERILOG.InlineConstraints") or {}], "port of " + name)
        if not prim:
            # a port none of whose pins is wired and that has no same-named cable (inferred black box, husk left
            # by flatten) is not expressible in Verilog as such: every Verilog port has its implicit net.  Complete it.
            have = {c["name"] for c in D["cables"]}
            for p in D["ports"]:
                if p["name"] is not None and p["name"] not in have and all(b is None for b in p["pins"]) and p["width"]:
                    X["ports"][vname(p["name"])][3] = [(vname(p["name"]), p["lower"] + k) for k in range(p["width"])]
                    X["cables"][vname(p["name"])] = [p["lower"], p["width"], {}, "wire"]
        for c in D["cables"]:
            if prim:
                break       # the contents of a black box are not part of the view (interface only)
            put(X["cables"], vname(c["name"]), [c["lower"], c["width"], c["data"].get("VERILOG.InlineConstraints") or {},
                                                c["data"].get("VERILOG.CableType") or "wire"], "cable of " + name)
        for i in D["insts"]:
            rd = v["defs"].get(i["ref"])
            if i["reflib"] == ASSIGN_LIB:
                if rd is None:
                    continue
                pn = [p["name"] for p in rd["ports"]]
                if sorted(pn) != ["i", "o"]:
                    X["assigns"].append(["malformed", i["ref"]])
                    continue
                o, ii = i["pins"][pn.index("o")], i["pins"][pn.index("i")]
                X["assigns"].append([len(o), sorted(((_tn(a), _tn(b)) for a, b in zip(o, ii)), key=repr)])
                continue
            pins = {}
            if rd is not None:
                for pi, p in enumerate(rd["ports"]):
                    row = [_tn(b) for b in i["pins"][pi]]
                    if i["ref"] in iface_free:
                        while row and row[-1] is None:
                            row.pop()
                        if not row:
                            continue
                    pins[vname(p["name"])] = row
            put(X["insts"], vname(i["name"]), [vname(i["ref"]), i["data"].get("VERILOG.Parameters") or {},
                                               i["data"].get("VERILOG.InlineConstraints") or {}, pins], "instance of " + name)
        X["assigns"].sort(key=repr)
        put(out["defs"], vname(name), X, "definition")
    return out


def diff04(a, b, iface_free=()):
    """-> list of (what, detail) where the two C04 views differ"""
    pr = []

    def bad(what, detail):
        if len(pr) < 12:
            pr.append((what, detail))
    if a.get("collisions"):
        # two distinct elements of the netlist to be written have the same Verilog identifier (n and \\n):
        # no text can keep them apart
        bad("names.two-elements-one-verilog-identifier", "; ".join(a["collisions"][:4]))
    if a["top"] != b["top"]:
        bad("top", "%s -> %s" % (a["top"], b["top"]))
    # a port without direction has no Verilog spelling: the writer emits `inout` (documented); reported under its
    # own tag, then compared as INOUT so that nothing else hides behind it
    undef = []
    for n, A in a["defs"].items():
        for pn, pv in A["ports"].items():
            if pv[0] == "UNDEFINED":
                bp = b["defs"].get(n, {}).get("ports", {}).get(pn)
                if bp is not None and bp[0] == "INOUT":
                    undef.append("%s.%s" % (n, pn))
                    pv[0] = "INOUT"
    if undef:
        bad("port.direction.undefined-becomes-inout", ", ".join(undef[:6]))
    sa = {n for n in a["defs"] if n not in iface_free}
    sb = {n for n in b["defs"] if n not in iface_free}
    if sa != sb:
        bad("modules", "lost %s new %s" % (sorted(sa - sb), sorted(sb - sa)))
    for n in sorted(sa & sb):
        A, B = a["defs"][n], b["defs"][n]
        for key, what in (("ports", "port"), ("cables", "wires"), ("insts", "instance"), ("assigns", "assign"),
                          ("params", "module.params"), ("attrs", "module.attrs")):
            if A[key] != B[key]:
                if isinstance(A[key], dict):
                    ks = sorted(set(A[key]) | set(B[key]), key=repr)
                    dd = [(k, A[key].get(k), B[key].get(k)) for k in ks if A[key].get(k) != B[key].get(k)][:3]
                else:
                    dd = (A[key], B[key])
                sub = what
                if key == "insts" and dd:
                    k, x, y = dd[0]
                    if x is None or y is None:
                        sub = "instance.set"
                    elif x[0] != y[0]:
                        sub = "instance.module"
                    elif x[1] != y[1]:
                        sub = "instance.params"
                    elif x[2] != y[2]:
                        sub = "instance.attrs"
                    else:
                        sub = "connection"
                if key == "ports" and dd:
                    k, x, y = dd[0]
                    if x is None or y is None:
                        sub = "port.set"
                    elif x[:3] != y[:3]:
                        sub = "port.dir-width-base"
                    elif x[3] != y[3]:
                        sub = "port.pins"
                    else:
                        sub = "port.attrs"
                bad(sub, "%s: %s" % (n, dd))
    return pr


def assign_shapes(v):
    """shape of every assign instance: 'asc' (pin k on bit lo+k of one cable: what the writer can emit),
    'desc' (one cable, descending: the reader's pin order before the repair), 'split' (several cables or gaps:
    only flatten produces it), 'open' (an unconnected pin)"""
    out = []
    for name, D in v["defs"].items():
        for i in D["insts"]:
            if i["reflib"] != ASSIGN_LIB:
                continue
            worst = "asc"
            for row in i["pins"]:
                if any(b is None for b in row):
                    sh = "open"
                elif len({b[0] for b in row}) > 1:
                    sh = "split"
                else:
                    idx = [b[1] for b in row]
                    if all(idx[k + 1] == idx[k] + 1 for k in range(len(idx) - 1)):
                        sh = "asc"
                    elif all(idx[k + 1] == idx[k] - 1 for k in range(len(idx) - 1)):
                        sh = "desc"
                    else:
                        sh = "split"
                order = ["asc", "desc", "split", "open"]
                if order.index(sh) > order.index(worst):
                    worst = sh
            out.append(worst)
    return out
