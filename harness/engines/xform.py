"""Engine `xform`: C08 (uniquify) and C09 (flatten).

Per input (a replayable spec, see xform_gen.py):
  1. build the netlist through the public API, dump it (value-level `Design`) for the Lean driver,
  2. run the real `spydrnet.uniquify.uniquify` / `spydrnet.flatten.flatten`,
  3. correspondence: canonical positional dump of the post-state (common.canon.cnetlist), reference
     set sizes and the global name counter  ==  what the Lean model computes,
  4. P on the implementation, by Python oracles written independently of the model: union-find
     elaboration of hierarchical pins before/after, unfolding tree, uniqueness of non-leaf instances,
     `canon.wf_problems`, fresh names, idempotence (C08); leaf bijection by slash-joined path names,
     endpoint partition, no hierarchy left, `canon.wf_problems` (C09),
  5. failing inputs are shrunk on the spec before they are reported.
"""
import json
import os
import re
import sys
import time
import traceback

from common import canon, lean, shard
from common.ctx import stable_hash

ENGINE_DIR = "Spydr/Xform"
MODULES = ["Spydr.Xform.Props.C08", "Spydr.Xform.Props.C09"]
EXE = "drv_xform"
AUDIT = "Spydr/Xform/Audit.lean"
NAMING = (".NAME", "EDIF.identifier", ".NS")
UFUEL = 100000
MAX_UNFOLD = 350

SIG_CLASH = "uniquify.name_clash.raises_value"
SIG_EID = "uniquify.identifier_clash.raises_value"
SIG_FLAT_EID = "flatten.identifier_clash.raises_value"
SIG_FLAT_SHELL = "flatten.shell_name_collision.raises_value"
UNIQ_ID_RE = re.compile(r"^(.*)_sdn_unique_(\d+)$", re.S)
FLAT_ID_RE = re.compile(r"^(instance|cable)_sdn_flat_\d+$")


def eid_risk(design):
    """the identifier part of the uniquify repair can matter on this input: a definition with an
    identifier but no name, or an identifier of the form <other identifier>_sdn_unique_<n> (any case)"""
    by_lib = {}
    for D in design["defs"]:
        if D["eid"] is not None:
            if D["name"] is None:
                return True
            by_lib.setdefault(D["lib"], []).append(D["eid"].lower())
    for ids in by_lib.values():
        s = set(ids)
        for x in ids:
            m = UNIQ_ID_RE.match(x)
            if m and m.group(1) in s:
                return True
    return False


def theorems_of(pid):
    meta = json.load(open(os.path.join(os.path.dirname(os.path.abspath(__file__)), "xform.meta.json")))
    return meta["properties"][pid]["theorems"]


def exc_family(e):
    for cls, fam in ((AssertionError, "assert"), (ValueError, "value"), (KeyError, "key"), (TypeError, "type"),
                     (RecursionError, "runtime"), (RuntimeError, "runtime"), (IndexError, "index"), (AttributeError, "attr")):
        if isinstance(e, cls):
            return fam
    return "other"


# ------------------------------------------------------------------------------------------------
# live netlist -> Design for the driver (+ side information the model does not carry)
# ------------------------------------------------------------------------------------------------
def _data(e):
    return {k: canon.jval(v) for k, v in sorted(e._data.items()) if k not in NAMING}


def _eid(e):
    if "EDIF.identifier" not in e._data:
        return None
    v = e._data["EDIF.identifier"]
    if not isinstance(v, str):
        # the transformations concatenate strings onto the identifier: a non-string entry is outside
        # the modelled domain (the input is skipped, never silently mapped to "no identifier")
        raise ValueError("non-string EDIF.identifier")
    return v


def dump(nl, ctr):
    libs = list(nl._libraries)
    defs = [d for lib in libs for d in lib._definitions]
    didx = {id(d): i for i, d in enumerate(defs)}
    order, k = [], 0
    for lib in libs:
        order.append(list(range(k, k + len(lib._definitions))))
        k += len(lib._definitions)
    inside = [0] * len(defs)
    out = []
    iid = [0]
    cid = [0]
    for lib_i, lib in enumerate(libs):
        for d in lib._definitions:
            kids = list(d._children)
            kid_id = {}
            children = []
            for c in kids:
                kid_id[id(c)] = iid[0]
                r = c._reference
                if r is None or id(r) not in didx:
                    raise ValueError("instance without a reference inside the netlist")
                inside[didx[id(r)]] += 1
                children.append({"id": iid[0], "name": c.name, "eid": _eid(c), "ref": didx[id(r)],
                                 "data": json.dumps(_data(c), sort_keys=True)})
                iid[0] += 1
            ppos = {}
            for pi, p in enumerate(d._ports):
                for bi, q in enumerate(p._pins):
                    ppos[id(q)] = ["p", pi, bi]

            def pinref(x):
                if isinstance(x, canon._OuterPinBase):
                    inst, q = x._instance, x._inner_pin
                    port = q._port
                    return ["i", kid_id[id(inst)], inst._reference._ports.index(port), port._pins.index(q)]
                return ppos[id(x)]
            cables = []
            for c in d._cables:
                cables.append({"id": cid[0], "name": c.name, "eid": _eid(c),
                               "info": json.dumps({"scalar": bool(c.is_scalar), "lower": c._lower_index,
                                                   "downto": bool(c._is_downto), "data": _data(c)}, sort_keys=True),
                               "wires": [[pinref(x) for x in w._pins] for w in c._wires]})
                cid[0] += 1
            out.append({"lib": lib_i, "name": d.name, "eid": _eid(d),
                        "info": json.dumps({"data": _data(d)}, sort_keys=True),
                        "ports": [{"width": len(p._pins),
                                   "info": json.dumps({"name": p.name, "dir": canon.dir_name(p), "scalar": bool(p.is_scalar),
                                                       "lower": p._lower_index, "downto": bool(p._is_downto),
                                                       "data": canon.jdata(p)}, sort_keys=True)} for p in d._ports],
                        "cables": cables, "children": children})
    extra = [len(d._references) - inside[i] for i, d in enumerate(defs)]
    t = nl._top_instance
    design = {"defs": out, "order": order, "top": didx[id(t._reference)], "extra": extra, "ctr": ctr}
    side = {"name": nl.name, "data": canon.jdata(nl),
            "libs": [{"name": l.name, "data": canon.jdata(l)} for l in libs],
            "top": {"name": t.name, "data": canon.jdata(t),
                    "child_of_def": didx.get(id(t._parent)) if t._parent is not None else None}}
    return design, side


def rebuild(design, side):
    """Model output (Design) + side info -> the value common.canon.cnetlist would return."""
    pos = {}
    for li, ids in enumerate(design["order"]):
        for di, x in enumerate(ids):
            pos[x] = [li, di]

    def full(info_data, name, eid):
        d = dict(info_data)
        if name is not None:
            d[".NAME"] = name
        if eid is not None:
            d["EDIF.identifier"] = eid
        return dict(sorted(d.items()))
    libs = []
    for li, ids in enumerate(design["order"]):
        L = {"name": side["libs"][li]["name"], "data": side["libs"][li]["data"], "definitions": []}
        for x in ids:
            D = design["defs"][x]
            kpos = {c["id"]: i for i, c in enumerate(D["children"])}

            def pr(p):
                if p[0] == "p":
                    return ["p", p[1], p[2]]
                if p[0] == "i":
                    if p[1] not in kpos:
                        return ["x", "outer-foreign"]
                    return ["i", kpos[p[1]], p[2], p[3]]
                return ["x", "inner-foreign"]
            ports = []
            for P in D["ports"]:
                info = json.loads(P["info"])
                ports.append({"name": info["name"], "dir": info["dir"], "width": P["width"], "scalar": info["scalar"],
                              "lower": info["lower"], "downto": info["downto"], "data": info["data"]})
            cables = []
            for C in D["cables"]:
                info = json.loads(C["info"])
                cables.append({"name": C["name"], "scalar": info["scalar"], "lower": info["lower"], "downto": info["downto"],
                               "data": full(info["data"], C["name"], C["eid"]),
                               "wires": [[pr(p) for p in w] for w in C["wires"]]})
            insts = [{"name": c["name"], "ref": pos[c["ref"]], "data": full(json.loads(c["data"]), c["name"], c["eid"])}
                     for c in D["children"]]
            L["definitions"].append({"name": D["name"], "data": full(json.loads(D["info"])["data"], D["name"], D["eid"]),
                                     "ports": ports, "cables": cables, "instances": insts})
        libs.append(L)
    t = side["top"]
    return {"name": side["name"], "data": side["data"], "libraries": libs,
            "top": {"name": t["name"], "ref": pos[design["top"]], "data": t["data"],
                    "child_of": pos[t["child_of_def"]] if t["child_of_def"] is not None else None}}


def first_diff(a, b, path=""):
    if type(a) is not type(b):
        return "%s: %r vs %r" % (path, a, b)
    if isinstance(a, dict):
        for k in sorted(set(a) | set(b)):
            if k not in a or k not in b:
                return "%s.%s: only on one side" % (path, k)
            d = first_diff(a[k], b[k], path + "." + str(k))
            if d:
                return d
        return None
    if isinstance(a, list):
        if len(a) != len(b):
            return "%s: length %d vs %d" % (path, len(a), len(b))
        for i, (x, y) in enumerate(zip(a, b)):
            d = first_diff(x, y, "%s[%d]" % (path, i))
            if d:
                return d
        return None
    return None if a == b else "%s: %r vs %r" % (path, a, b)


# ------------------------------------------------------------------------------------------------
# independent oracles on the live netlist
# ------------------------------------------------------------------------------------------------
class UF:
    def __init__(self):
        self.p = {}

    def find(self, x):
        p = self.p
        if x not in p:
            p[x] = x
            return x
        r = x
        while p[r] != r:
            r = p[r]
        while p[x] != r:
            p[x], x = r, p[x]
        return r

    def union(self, a, b):
        ra, rb = self.find(a), self.find(b)
        if ra != rb:
            self.p[ra] = rb


def _is_leaf(d):
    return len(d._children) == 0 and len(d._cables) == 0


class IllFormed(Exception):
    pass


def elaborate(nl, bykey):
    """Unfold the design below the top instance.  Returns (tree, partition):
    tree: key path -> (instance name, is leaf, id(leaf definition) | None, data without naming keys)
    partition: endpoint -> smallest endpoint of its electrically connected class, endpoints being
    ("p", key path of a leaf instance, port index, bit) and ("t", port index, bit)."""
    uf = UF()
    tree = {}
    endpoints = []
    topdef = nl._top_instance._reference

    def rec(d, path, depth):
        if depth > 40:
            raise IllFormed("hierarchy too deep (cyclic?)")
        kids = list(d._children)
        kkey = {}
        for i, k in enumerate(kids):
            kkey[id(k)] = i if bykey == "pos" else k.name
        if len(set(kkey.values())) != len(kids):
            raise IllFormed("sibling keys not unique")
        ppos = {}
        for pi, p in enumerate(d._ports):
            for b, q in enumerate(p._pins):
                ppos[id(q)] = (pi, b)
        for ci, c in enumerate(d._cables):
            for wi, w in enumerate(c._wires):
                wn = ("w", path, ci, wi)
                uf.find(wn)
                for x in w._pins:
                    if isinstance(x, canon._OuterPinBase):
                        inst, q = x._instance, x._inner_pin
                        if inst is None or q is None or id(inst) not in kkey:
                            raise IllFormed("wire lists outer pin of a non-child")
                        port = q._port
                        r = inst._reference
                        if port is None or port not in r._ports:
                            raise IllFormed("outer pin without port in the reference")
                        node = ("p", path + (kkey[id(inst)],), r._ports.index(port), port._pins.index(q))
                    else:
                        if id(x) not in ppos:
                            raise IllFormed("wire lists inner pin of another definition")
                        pi, b = ppos[id(x)]
                        node = ("t", pi, b) if path == () else ("p", path, pi, b)
                    uf.union(wn, node)
        for i, k in enumerate(kids):
            kp = path + (kkey[id(k)],)
            r = k._reference
            if r is None:
                raise IllFormed("instance without reference")
            leaf = _is_leaf(r)
            tree[kp] = (k.name, leaf, id(r) if leaf else None, json.dumps(_data(k), sort_keys=True))
            if leaf:
                for pi, p in enumerate(r._ports):
                    for b in range(len(p._pins)):
                        endpoints.append(("p", kp, pi, b))
            else:
                rec(r, kp, depth + 1)
    rec(topdef, (), 0)
    for pi, p in enumerate(topdef._ports):
        for b in range(len(p._pins)):
            endpoints.append(("t", pi, b))
    groups = {}
    for e in endpoints:
        groups.setdefault(uf.find(e), []).append(e)
    part = {}
    for g in groups.values():
        m = min(g, key=repr)
        for e in g:
            part[e] = m
    return tree, part


def unique_problems(nl):
    """non-leaf instances below the top instance whose definition has another instance"""
    bad = []
    seen = set()
    stack = [nl._top_instance._reference]
    n = 0
    while stack:
        d = stack.pop()
        if id(d) in seen:
            continue
        seen.add(id(d))
        for k in d._children:
            r = k._reference
            if r is None or _is_leaf(r):
                continue
            if len(r._references) != 1:
                bad.append("%s/%s -> %s has %d references" % (d.name, k.name, r.name, len(r._references)))
            stack.append(r)
        n += 1
        if n > 100000:
            bad.append("reachable set did not close")
            break
    return bad


def unfold_size(spec, cap):
    """number of instance occurrences below top (None if above cap or cyclic)"""
    memo = {}

    def size(i, depth):
        if depth > 30:
            raise OverflowError
        if i in memo:
            return memo[i]
        s = 0
        for k in spec["defs"][i]["children"]:
            s += 1 + size(k["ref"], depth + 1)
            if s > cap:
                raise OverflowError
        memo[i] = s
        return s
    try:
        return size(spec["top"], 0)
    except OverflowError:
        return None


def spec_depth(spec):
    memo = {}

    def dep(i, lvl):
        if lvl > 30:
            return 30
        if i in memo:
            return memo[i]
        m = 0
        for k in spec["defs"][i]["children"]:
            m = max(m, 1 + dep(k["ref"], lvl + 1))
        memo[i] = m
        return m
    return dep(spec["top"], 0)


SUFFIX_RE = re.compile(r"^(.*)_sdn_unique_(\d+)$", re.S)


def fresh_name_problems(nl, pre_ids, pre_lib_of):
    """[(signature suffix, message)]: definition names unique per library; old definitions stay in
    their library; every new definition is named <original>_sdn_unique_<N> (unnamed if the original is),
    sits in the original's library behind the original with only other new definitions in between and
    has the original's port shape."""
    bad = []
    for lib in nl._libraries:
        names = [d.name for d in lib._definitions if d.name is not None]
        if len(set(names)) != len(names):
            bad.append(("duplicate", "duplicate definition name in library %s" % lib.name))
        ds = list(lib._definitions)
        for i, d in enumerate(ds):
            if id(d) in pre_ids:
                if pre_lib_of[id(d)] is not lib:
                    bad.append(("moved", "old definition %r changed library" % d.name))
                continue
            if d.name is None:
                j = i - 1
                while j >= 0 and id(ds[j]) not in pre_ids:
                    j -= 1
                if j < 0 or ds[j].name is not None:
                    bad.append(("position", "unnamed new definition is not behind an unnamed old definition of its library"))
                continue
            m = SUFFIX_RE.match(d.name)
            if not m:
                bad.append(("name", "new definition %r is not named <original>_sdn_unique_<N>" % d.name))
                continue
            cands = [k for k in range(i) if ds[k].name == m.group(1)]
            if not cands:
                bad.append(("library", "the original %r of new definition %r is not in front of it in its library" % (m.group(1), d.name)))
                continue
            k = cands[-1]
            if any(id(ds[x]) in pre_ids for x in range(k + 1, i)):
                bad.append(("position", "new definition %r does not sit right behind its original" % d.name))
            o = ds[k]
            if [len(p._pins) for p in d._ports] != [len(p._pins) for p in o._ports]:
                bad.append(("shape", "new definition %r differs in port shape from %r" % (d.name, o.name)))
    return bad


# ------------------------------------------------------------------------------------------------
# one input
# ------------------------------------------------------------------------------------------------
class Result:
    def __init__(self):
        self.spec = []      # (signature, detail)
        self.corr = []      # (what, impl, model, signature)
        self.tags = []
        self.nontrivial = False
        self.skipped = None
        self.materialized = None
        self.frag = None     # evidence only: theorem -> "in" | first failing hypothesis (Lean driver)


def _post_obs(nl, defs_in_order):
    return {"cnet": canon.cnetlist(nl), "refs": [len(d._references) for lib in nl._libraries for d in lib._definitions]}


def uniquify_round(nl, ctr, drv, R, rno):
    """One checked uniquify on the live netlist: correspondence with the model on the dump taken now,
    P before/after, idempotence.  Returns False when the history cannot go on (skip / raise)."""
    import spydrnet.uniquify as U
    tag = "" if rno == 0 else "@round%d" % rno
    if canon.wf_problems(nl):
        R.skipped = R.skipped or ("input-not-wf" if rno == 0 else None)
        R.tags.append("hist.stop:not-wf")
        return False
    try:
        design, side = dump(nl, ctr)
        tree0, part0 = elaborate(nl, "pos")
    except (IllFormed, ValueError, KeyError):
        R.skipped = R.skipped or ("input-not-elaborable" if rno == 0 else None)
        R.tags.append("hist.stop:not-elaborable")
        return False
    chk = drv.ask({"fn": "spec", "design": design})
    if rno == 0 and "fragments" in chk:
        R.frag = {t: v for t, v in chk["fragments"].items() if t.startswith("uniquify")}
    if "error" in chk or not chk["wf"]:
        R.skipped = R.skipped or ("input-out-of-domain" if rno == 0 else None)
        R.tags.append("hist.stop:out-of-domain")
        return False
    pre_ids = {id(d) for lib in nl._libraries for d in lib._definitions}
    pre_lib_of = {id(d): d._library for lib in nl._libraries for d in lib._definitions}
    n_pre = len(pre_ids)
    ans = drv.ask({"fn": "uniquify", "fuel": UFUEL, "design": design})
    if "error" in ans:
        R.corr.append(("driver answers uniquify" + tag, None, ans["error"], None))
        return False
    if not ans["finished"]:
        R.corr.append(("uniquify model finished within %d iterations (hypothesis `finished` of the theorems)" % UFUEL, None, False, None))
        return False
    mo = ans["design"]
    n_new_named = sum(1 for D in mo["defs"][n_pre:] if D["name"] is not None or D["eid"] is not None)
    skipped_ctr = ans["ok"] and (mo["ctr"] - ctr != n_new_named)
    erisk = eid_risk(design)
    if erisk:
        R.tags.append("uniq.identifier-clash-possible")
    R.tags.append("uniq.clones%s=%d" % ("" if rno == 0 else "@later", min(len(mo["defs"]) - n_pre, 20)))
    if skipped_ctr:
        R.tags.append("uniq.counter-skips-taken-name")
    R.nontrivial = R.nontrivial or len(mo["defs"]) > n_pre
    if not ans["ok"]:
        R.corr.append(("model found a free name (uniquify_never_stuck)", None, "ok=false", None))
    U.MOD_NAME_UID = ctr
    exc = None
    try:
        U.uniquify(nl)
    except Exception as e:  # noqa
        exc = e
    if exc is not None:
        fam = exc_family(exc)
        if fam == "value" and erisk:
            R.spec.append((SIG_EID, "uniquify raised ValueError: the copy's EDIF.identifier (identifier + _sdn_unique_N, or the unchanged identifier of an unnamed definition) clashes case-insensitively with a sibling's under the EDIF naming policy; the netlist is left half-transformed" + tag))
            R.corr.append(("uniquify post-state", "raises value", "returns", SIG_EID))
        elif fam == "value" and skipped_ctr:
            R.spec.append((SIG_CLASH, "uniquify raised ValueError: the name <definition>_sdn_unique_%d.. is already taken in the library; the netlist is left half-transformed" % ctr))
            R.corr.append(("uniquify post-state", "raises value", "returns", SIG_CLASH))
        else:
            R.spec.append(("uniquify.raises." + fam, "uniquify raised %s%s" % (type(exc).__name__, tag)))
        return False
    # ---- correspondence
    obs = _post_obs(nl, None)
    exp = rebuild(mo, side)
    dff = first_diff(obs["cnet"], exp)
    sig = SIG_EID if erisk else (SIG_CLASH if skipped_ctr else None)
    if dff:
        R.corr.append(("uniquify post-state dump" + tag, dff, None, sig))
    mrefs = [mo["refcount"][x] for ids in mo["order"] for x in ids]
    if obs["refs"] != mrefs:
        R.corr.append(("uniquify reference-set sizes" + tag, obs["refs"], mrefs, sig))
    if U.MOD_NAME_UID != mo["ctr"]:
        R.corr.append(("uniquify name counter" + tag, U.MOD_NAME_UID, mo["ctr"], sig))
    # ---- P on the implementation
    ok = True
    wf = canon.wf_problems(nl)
    if wf:
        R.spec.append(("uniquify.wf." + wf[0].replace(" ", "_")[:40], "; ".join(wf[:3]) + tag))
        ok = False
    up = unique_problems(nl)
    if up:
        R.spec.append(("uniquify.not_unique", "; ".join(up[:3]) + tag))
    try:
        tree1, part1 = elaborate(nl, "pos")
        if tree1 != tree0:
            ks = sorted(set(tree0) ^ set(tree1), key=repr) or [k for k in tree0 if tree0[k] != tree1[k]]
            R.spec.append(("uniquify.elab.tree_changed", "first differing path %r%s" % (ks[:1], tag)))
        elif part1 != part0:
            ks = [e for e in part0 if part0[e] != part1.get(e)]
            R.spec.append(("uniquify.elab.partition_changed", "endpoint %r: class %r -> %r%s" % (ks[0], part0[ks[0]], part1.get(ks[0]), tag)))
    except IllFormed as e:
        R.spec.append(("uniquify.elab.ill_formed", str(e) + tag))
        ok = False
    fp = fresh_name_problems(nl, pre_ids, pre_lib_of)
    if fp:
        R.spec.append(("uniquify.names." + fp[0][0], "; ".join(m for _, m in fp[:3]) + tag))
    # second run changes nothing
    c0 = U.MOD_NAME_UID
    try:
        U.uniquify(nl)
        obs2 = _post_obs(nl, None)
        if obs2 != obs or U.MOD_NAME_UID != c0:
            R.spec.append(("uniquify.not_idempotent", (first_diff(obs["cnet"], obs2["cnet"]) or "reference sets / counter changed") + tag))
    except Exception as e:  # noqa
        R.spec.append(("uniquify.second_run_raises." + exc_family(e), type(e).__name__ + tag))
        ok = False
    # model-side spec on the implementation's post-state (decidable WF from the Lean Spec)
    try:
        d2, _ = dump(nl, U.MOD_NAME_UID)
        a2 = drv.ask({"fn": "spec", "design": d2})
        if not a2.get("wf"):
            R.spec.append(("uniquify.wf.lean_wfCheck", "Spec.WF false on the post-state dump" + tag))
            ok = False
    except Exception as e:  # noqa
        R.spec.append(("uniquify.wf.undumpable", type(e).__name__ + tag))
        ok = False
    return ok and not R.spec


def history_rounds(spec):
    """[(explicit ops | None)] for the rounds after the first transform"""
    if spec.get("history") is not None:
        return [r.get("edits", []) for r in spec["history"]]
    return [None] * int(spec.get("hist_rounds", 0))


def eval_uniquify(spec, drv):
    from engines import xform_gen as G, xform_hist as H
    import spydrnet.uniquify as U
    import random
    R = Result()
    nl, defs, orphans = G.build(spec)
    rounds = history_rounds(spec)
    hrng = random.Random(stable_hash([spec.get("hist_seed", 0), "hist"]))
    applied = []
    go = uniquify_round(nl, spec["ctr"], drv, R, 0)
    for rno, ops in enumerate(rounds, 1):
        if not go:
            break
        if ops is None:
            ops = H.gen_ops(hrng, nl, str(rno), U.MOD_NAME_UID)
        done = H.apply_ops(nl, ops, str(rno))
        applied.append({"edits": done})
        if H.live_unfold_size(nl, MAX_UNFOLD) is None:
            R.tags.append("hist.stop:too-large-or-cyclic")
            break
        R.tags.append("hist.round")
        for op in done:
            R.tags.append("hist.op:" + op[0])
        go = uniquify_round(nl, U.MOD_NAME_UID, drv, R, rno)
    if rounds:
        m = {k: v for k, v in spec.items() if k not in ("hist_seed", "hist_rounds", "history")}
        m["history"] = applied
        R.materialized = m
    return R


def eval_flatten(spec, drv):
    from engines import xform_gen as G
    import spydrnet.uniquify as U
    import spydrnet.flatten as F
    R = Result()
    nl, defs, orphans = G.build(spec)
    rounds = history_rounds(spec)
    if spec.get("pre_uniquify") or rounds:
        # history on ONE netlist: uniquify, then per round public-API edits and uniquify again; the
        # flatten at the end is the transform under test
        from engines import xform_hist as H
        import random
        hrng = random.Random(stable_hash([spec.get("hist_seed", 0), "hist"]))
        applied = []
        U.MOD_NAME_UID = 0
        try:
            U.uniquify(nl)
            for rno, ops in enumerate(rounds, 1):
                if ops is None:
                    ops = H.gen_ops(hrng, nl, str(rno), U.MOD_NAME_UID)
                applied.append({"edits": H.apply_ops(nl, ops, str(rno))})
                if H.live_unfold_size(nl, MAX_UNFOLD) is None:
                    R.skipped = "history-too-large-or-cyclic"
                    return R
                U.uniquify(nl)
                R.tags.append("hist.round")
        except Exception:
            R.skipped = "pre-uniquify-raised"
            return R
        if rounds:
            m = {k: v for k, v in spec.items() if k not in ("hist_seed", "hist_rounds", "history")}
            m["history"] = applied
            m["pre_uniquify"] = True
            R.materialized = m
    go = flatten_round(nl, spec["ctr"], drv, R, 0)
    # history AFTER the flatten, on the same Netlist object: public-API edits that bring hierarchy back
    # (a new block of leaves and nets instantiated in the flat top, a new top around the old one, ...),
    # uniquify, and a second, fully checked flatten
    frounds = post_rounds(spec)
    if frounds:
        from engines import xform_hist as H
        import random
        prng = random.Random(stable_hash([spec.get("hist_seed", 0), "post"]))
        papplied = []
        for rno, ops in enumerate(frounds, 1):
            if not go:
                break
            if ops is None:
                ops = H.gen_ops(prng, nl, "p%d" % rno, U.MOD_NAME_UID, rehier=True)
            papplied.append({"edits": H.apply_ops(nl, ops, "p%d" % rno)})
            if H.live_unfold_size(nl, MAX_UNFOLD) is None:
                R.tags.append("hist.stop:too-large-or-cyclic")
                break
            try:
                U.uniquify(nl)
            except Exception:  # noqa
                R.tags.append("hist.stop:uniquify-raised")
                break
            R.tags.append("hist.post-round")
            for op in papplied[-1]["edits"]:
                R.tags.append("hist.op:" + op[0])
            go = flatten_round(nl, F.mod_name_uid, drv, R, rno)
        m = R.materialized if R.materialized is not None else dict(spec)
        m = {k: v for k, v in m.items() if k not in ("post_rounds", "post_history")}
        m.pop("hist_seed", None)
        m["post_history"] = papplied
        R.materialized = m
    return R


def post_rounds(spec):
    if spec.get("post_history") is not None:
        return [r.get("edits", []) for r in spec["post_history"]]
    return [None] * int(spec.get("post_rounds", 0))


def flatten_round(nl, ctr, drv, R, rno):
    """One checked flatten of the live netlist: domain checks, independent elaboration taken just
    before it, correspondence with the model on the dump taken now, the full C09 oracle after it.
    Returns False when the history cannot go on."""
    import spydrnet.flatten as F
    tag = "" if rno == 0 else "@round%d" % rno
    def stop(why):
        if rno == 0:
            R.skipped = why
        else:
            R.tags.append("hist.stop:" + why)
        return False
    if canon.wf_problems(nl):
        return stop("input-not-wf")
    if unique_problems(nl):
        return stop("input-not-uniquified")
    try:
        design, side = dump(nl, ctr)
    except ValueError:
        return stop("input-out-of-domain")
    n_inst = sum(len(D["children"]) for D in design["defs"])
    chk = drv.ask({"fn": "spec", "design": design, "flatFuel": n_inst + 5})
    if rno == 0 and "fragments" in chk:
        R.frag = {t: v for t, v in chk["fragments"].items() if not t.startswith("uniquify")}
    if "error" in chk or not (chk["wf"] and chk["idsUnique"] and chk["named"]):
        return stop("input-out-of-domain")
    try:
        tree0, part0 = elaborate(nl, "name")
    except IllFormed:
        return stop("input-not-elaborable")
    leaves0 = sorted(("/".join(k), v[2], v[3]) for k, v in tree0.items() if v[1])
    n_hier = sum(1 for v in tree0.values() if not v[1])
    depth = max([len(k) for k in tree0] or [0])
    R.tags.append("flat.depth%s=%d" % (tag and "@later", depth))
    R.tags.append("flat.hier%s=%d" % (tag and "@later", min(n_hier, 12)))
    R.nontrivial = R.nontrivial or n_hier > 0

    def ren(e):
        return ("p", ("/".join(e[1]),), e[2], e[3]) if e[0] == "p" else e
    part0n = {ren(e): ren(m) for e, m in part0.items()}
    n_inst = sum(len(D["children"]) for D in design["defs"])
    ans = drv.ask({"fn": "flatten", "fuel": n_inst + 5, "design": design})
    if "error" in ans:
        R.corr.append(("driver answers flatten" + tag, None, ans["error"], None))
        return False
    if not ans["finished"]:
        R.corr.append(("flatten model finished within |instances|+5 iterations" + tag, None, False, None))
        return False
    mo = ans["design"]
    final_coll, transient_coll = joined_name_collisions(nl)
    frisk = flat_identifier_risk(design)
    if final_coll:
        R.tags.append("flat.domain:joined-names-collide")
    if transient_coll:
        R.tags.append("flat.shell-name-collision-possible")
    if frisk:
        R.tags.append("flat.identifier-clash-possible")
    F.mod_name_uid = ctr
    try:
        F.flatten(nl)
    except Exception as e:  # noqa
        fam = exc_family(e)
        if fam == "value" and final_coll:
            # two leaf occurrences (or two cables) have the same slash-joined name: the property is
            # unsatisfiable for this input (sibling names are unique); add_child / add_cable refuses
            stop("domain:joined-names-collide(refused)")
        elif fam == "value" and transient_coll:
            R.spec.append((SIG_FLAT_SHELL, "flatten raised ValueError: a hierarchical instance is parked in the top definition under its path name %r, which another instance carries; all final (leaf) names are distinct, the netlist is left half-flattened" % transient_coll[0]))
        elif fam == "value" and frisk:
            R.spec.append((SIG_FLAT_EID, "flatten raised ValueError: the renewed EDIF.identifier instance_/cable_sdn_flat_N is already carried (case-insensitively) by a sibling under the EDIF naming policy; the netlist is left half-flattened"))
        else:
            R.spec.append(("flatten.raises." + fam, "flatten raised %s%s" % (type(e).__name__, tag)))
        return False
    if final_coll:
        return stop("domain:joined-names-collide")
    # ---- correspondence
    cn = canon.cnetlist(nl)
    exp = rebuild(mo, side)
    dff = first_diff(cn, exp)
    if dff:
        R.corr.append(("flatten post-state dump" + tag, dff, None, None))
    if F.mod_name_uid != mo["ctr"]:
        R.corr.append(("flatten name counter" + tag, F.mod_name_uid, mo["ctr"], None))
    refs = [len(d._references) for lib in nl._libraries for d in lib._definitions]
    mrefs = [mo["refcount"][x] for ids in mo["order"] for x in ids]
    if refs != mrefs:
        R.corr.append(("flatten reference-set sizes" + tag, refs, mrefs, None))
    # ---- P
    wf = canon.wf_problems(nl)
    if wf:
        R.spec.append(("flatten.wf." + wf[0].replace(" ", "_")[:40], "; ".join(wf[:3]) + tag))
    topdef = nl._top_instance._reference
    hier = [k.name for k in topdef._children if k._reference is None or not _is_leaf(k._reference)]
    if hier:
        R.spec.append(("flatten.hierarchy_remains", "non-leaf children of top after flatten: %r%s" % (hier[:3], tag)))
    leaves1 = sorted((k.name if k.name is not None else "<None>", id(k._reference), json.dumps(_data(k), sort_keys=True))
                     for k in topdef._children if k._reference is not None and _is_leaf(k._reference))
    if leaves1 != leaves0:
        a = [x for x in leaves0 if x not in leaves1]
        b = [x for x in leaves1 if x not in leaves0]
        R.spec.append(("flatten.leaves_differ", "expected-only %r / found-only %r" % ([x[0] for x in a[:3]], [x[0] for x in b[:3]]) + tag))
    elif not hier and not wf:
        try:
            tree1, part1 = elaborate(nl, "name")
            if part1 != part0n:
                ks = sorted(set(part0n) ^ set(part1), key=repr)
                if ks:
                    R.spec.append(("flatten.conn.endpoints_differ", repr(ks[:2]) + tag))
                else:
                    ks = [e for e in part0n if part0n[e] != part1[e]]
                    R.spec.append(("flatten.conn.partition_changed", "endpoint %r: class of %r -> class of %r%s" % (ks[0], part0n[ks[0]], part1[ks[0]], tag)))
        except IllFormed as e:
            R.spec.append(("flatten.elab.ill_formed", str(e) + tag))
    try:
        d2, _ = dump(nl, 0)
        a2 = drv.ask({"fn": "spec", "design": d2})
        if not a2.get("wf"):
            R.spec.append(("flatten.wf.lean_wfCheck", "Spec.WF false on the post-state dump" + tag))
    except Exception as e:  # noqa
        R.spec.append(("flatten.wf.undumpable", type(e).__name__ + tag))
    return not R.spec




EVAL = {"C08": eval_uniquify, "C09": eval_flatten}


class BuildRefused(Exception):
    pass


def evaluate(pid, spec, drv):
    from engines import xform_gen as G
    spec = json.loads(json.dumps(spec))
    # a spec the API refuses to build (e.g. sibling identifiers that collide under the EDIF policy) is
    # not an input of the transformation
    try:
        G.build(spec)
    except RecursionError:
        R = Result()
        R.skipped = "recursion"
        return R
    except Exception:  # noqa
        R = Result()
        R.skipped = "build-refused"
        return R
    try:
        return EVAL[pid](spec, drv)
    except RecursionError:
        R = Result()
        R.skipped = "recursion"
        return R


# ------------------------------------------------------------------------------------------------
# shrinking (on the spec)
# ------------------------------------------------------------------------------------------------
def _drop_child(spec, di, ki):
    s = json.loads(json.dumps(spec))
    D = s["defs"][di]
    del D["children"][ki]
    for C in D["cables"]:
        for w in C["wires"]:
            w[:] = [([p[0], p[1] - 1, p[2], p[3]] if p[0] == "i" and p[1] > ki else p) for p in w if not (p[0] == "i" and p[1] == ki)]
    return s


def _drop_port(spec, di, pi):
    s = json.loads(json.dumps(spec))
    del s["defs"][di]["ports"][pi]
    for xi, D in enumerate(s["defs"]):
        for C in D["cables"]:
            for w in C["wires"]:
                nw = []
                for p in w:
                    if p[0] == "p" and xi == di:
                        if p[1] == pi:
                            continue
                        nw.append(["p", p[1] - 1 if p[1] > pi else p[1], p[2]])
                    elif p[0] == "i" and D["children"][p[1]]["ref"] == di:
                        if p[2] == pi:
                            continue
                        nw.append(["i", p[1], p[2] - 1 if p[2] > pi else p[2], p[3]])
                    else:
                        nw.append(p)
                w[:] = nw
    return s


def _drop_def(spec, di):
    """remove an unreferenced, non-top definition"""
    if di == spec["top"] or di in spec.get("orphans", []):
        return None
    for D in spec["defs"]:
        for k in D["children"]:
            if k["ref"] == di:
                return None
    s = json.loads(json.dumps(spec))
    del s["defs"][di]
    for D in s["defs"]:
        for k in D["children"]:
            if k["ref"] > di:
                k["ref"] -= 1
    if s["top"] > di:
        s["top"] -= 1
    s["orphans"] = [o - 1 if o > di else o for o in s.get("orphans", [])]
    return s


def candidates(spec):
    nd = len(spec["defs"])
    for key in ("post_history",):
        ph = spec.get(key)
        if ph:
            s = json.loads(json.dumps(spec))
            s[key] = s[key][:-1]
            yield s
            for ri in range(len(ph) - 1, -1, -1):
                for oi in range(len(ph[ri]["edits"]) - 1, -1, -1):
                    s = json.loads(json.dumps(spec))
                    del s[key][ri]["edits"][oi]
                    yield s
    hist = spec.get("history")
    if hist:
        s = json.loads(json.dumps(spec))
        s["history"] = s["history"][:-1]
        yield s
        for ri in range(len(hist) - 1, -1, -1):
            for oi in range(len(hist[ri]["edits"]) - 1, -1, -1):
                s = json.loads(json.dumps(spec))
                del s["history"][ri]["edits"][oi]
                yield s
    for di in range(nd - 1, -1, -1):
        s = _drop_def(spec, di)
        if s is not None:
            yield s
    if spec.get("orphans"):
        for i in range(len(spec["orphans"])):
            s = json.loads(json.dumps(spec))
            del s["orphans"][i]
            yield s
    for di in range(nd):
        D = spec["defs"][di]
        for ki in range(len(D["children"]) - 1, -1, -1):
            yield _drop_child(spec, di, ki)
        for ci in range(len(D["cables"]) - 1, -1, -1):
            s = json.loads(json.dumps(spec))
            del s["defs"][di]["cables"][ci]
            yield s
    for di in range(nd):
        D = spec["defs"][di]
        for ci, C in enumerate(D["cables"]):
            for wi in range(len(C["wires"]) - 1, -1, -1):
                if len(C["wires"][wi]) == 0 or len(C["wires"]) > 1:
                    s = json.loads(json.dumps(spec))
                    del s["defs"][di]["cables"][ci]["wires"][wi]
                    yield s
                for pj in range(len(C["wires"][wi]) - 1, -1, -1):
                    s = json.loads(json.dumps(spec))
                    del s["defs"][di]["cables"][ci]["wires"][wi][pj]
                    yield s
        for pi in range(len(D["ports"]) - 1, -1, -1):
            yield _drop_port(spec, di, pi)
            if D["ports"][pi]["width"] > 1:
                pass
    for di in range(nd):
        D = spec["defs"][di]
        if D.get("data"):
            s = json.loads(json.dumps(spec))
            s["defs"][di]["data"] = {}
            yield s
        for ki, K in enumerate(D["children"]):
            if K.get("data"):
                s = json.loads(json.dumps(spec))
                s["defs"][di]["children"][ki]["data"] = {}
                yield s
        for ci, C in enumerate(D["cables"]):
            if C.get("data"):
                s = json.loads(json.dumps(spec))
                s["defs"][di]["cables"][ci]["data"] = {}
                yield s
    if len(spec["libs"]) > 1:
        s = json.loads(json.dumps(spec))
        s["libs"] = s["libs"][:1]
        for D in s["defs"]:
            D["lib"] = 0
        yield s
    if spec.get("ctr"):
        s = json.loads(json.dumps(spec))
        s["ctr"] = 0
        yield s


def shrink(pid, spec, signature, drv, deadline):
    def fails(s):
        try:
            r = evaluate(pid, s, drv)
        except Exception:
            return False
        return any(sig == signature for sig, _ in r.spec)
    cur = spec
    progress = True
    while progress and time.time() < deadline:
        progress = False
        for cand in candidates(cur):
            if time.time() > deadline:
                break
            if fails(cand):
                cur = cand
                progress = True
                break
    return cur


# ------------------------------------------------------------------------------------------------
# shards
# ------------------------------------------------------------------------------------------------
def edif_policy_variant(rng, s, kind):
    """Run the same design under the EDIF naming policy: every definition / instance / cable gets a
    legal identifier; half of the time one definition's identifier equals
    <another's>_sdn_unique_<ctr..ctr+2> in another letter case, or a shared definition loses its name."""
    s["policy"] = "EDIF"
    n = [0]

    def ident(stem):
        n[0] += 1
        return "%s%d" % (stem, n[0])
    for D in s["defs"]:
        D["data"]["EDIF.identifier"] = ident("Dx")
        for K in D["children"]:
            if rng.random() < 0.6 or "EDIF.identifier" in K["data"]:
                K["data"]["EDIF.identifier"] = ident("Ix")
        for C in D["cables"]:
            if rng.random() < 0.6 or "EDIF.identifier" in C["data"]:
                C["data"]["EDIF.identifier"] = ident("Cx")
        for P in D["ports"]:
            P["data"].pop("EDIF.identifier", None)
    kind += "+edif"
    r = rng.random()
    shared = [D for D in s["defs"] if D["children"] or D["cables"]]
    if r < 0.35 and shared:
        D = rng.choice(shared)
        k = s["ctr"] + rng.randrange(3)
        clash = "%s_sdn_unique_%d" % (D["data"]["EDIF.identifier"], k)
        clash = rng.choice([clash.upper(), clash.swapcase(), clash])
        s["defs"].append({"lib": D["lib"] if rng.random() < 0.85 else 0, "name": "clash%d" % k, "data": {"EDIF.identifier": clash},
                          "ports": [], "children": [], "cables": []})
        kind += "+taken-identifier"
    elif r < 0.5 and shared:
        rng.choice(shared)["name"] = None
        kind += "+unnamed-with-identifier"
    return kind


def joined_name_collisions(nl):
    """(final, transient): slash-joined path names that two leaf occurrences / two cables would share in
    the flattened top definition (the property is then unsatisfiable: sibling names are unique), and
    names a dissolved shell shares only transiently with another instance."""
    top = nl._top_instance._reference
    inst_names = {}
    cable_names = {}
    for c in top._cables:
        cable_names.setdefault(c.name, []).append("top")

    def rec(d, prefix, depth):
        if depth > 40:
            return
        for k in d._children:
            nm = k.name if prefix == "" else prefix + "/" + (k.name or "")
            leaf = _is_leaf(k._reference)
            inst_names.setdefault(nm, []).append(leaf)
            if not leaf:
                for c in k._reference._cables:
                    cable_names.setdefault((nm or "") + "/" + (c.name or ""), []).append("sub")
                rec(k._reference, nm or "", depth + 1)
    rec(top, "", 0)
    final = [n for n, v in inst_names.items() if sum(1 for x in v if x) > 1] + [n for n, v in cable_names.items() if len(v) > 1]
    transient = [n for n, v in inst_names.items() if len(v) > 1 and sum(1 for x in v if x) <= 1]
    return final, transient


def flat_identifier_risk(design):
    for D in design["defs"]:
        for X in D["children"] + D["cables"]:
            if X["eid"] is not None and FLAT_ID_RE.match(X["eid"].lower()):
                return True
    return False


def gen_input(pid, rng, tier):
    kind, s = gen_input0(pid, rng, tier)
    if pid == "C09" and rng.random() < 0.12:
        s["post_rounds"] = rng.choice([1, 1, 2])
        s.setdefault("hist_seed", rng.randrange(1 << 30))
        kind += "+reflatten"
    return kind, s


def gen_input0(pid, rng, tier):
    from engines import xform_gen as G
    size = 1.0 if tier == "quick" else rng.choice([1.0, 1.0, 1.5, 2.0])
    if pid == "C08":
        r = rng.random()
        if r < 0.08:
            s = G.gen_chain(rng)
            # share the shells: instantiate the core twice
            T = s["defs"][s["top"]]
            T["children"].append({"name": "core2", "ref": T["children"][0]["ref"], "data": {}})
            kind = "chain+share"
        elif r < 0.2:
            s = G.gen_spec(rng, "tree", size=size)
            kind = "tree"
        else:
            s = G.gen_spec(rng, "dag", named_insts=rng.random() < 0.8, size=size)
            kind = "dag"
            if rng.random() < 0.12:
                # a definition name of the form <name>_sdn_unique_<k> near the counter (taken name)
                named = [D for D in s["defs"] if D["name"]]
                if named:
                    D = rng.choice(named)
                    k = s["ctr"] + rng.randrange(3)
                    nm = "%s_sdn_unique_%d" % (D["name"], k)
                    if all(X["name"] != nm for X in s["defs"]):
                        s["defs"].append({"lib": D["lib"] if rng.random() < 0.8 else 0, "name": nm, "data": {}, "ports": [],
                                          "children": [], "cables": []})
                        kind = "dag+taken-name"
        if kind.startswith("dag") and rng.random() < 0.15:
            kind = edif_policy_variant(rng, s, kind)
        if rng.random() < 0.35:
            s["hist_rounds"] = rng.choice([1, 1, 2, 3])
            s["hist_seed"] = rng.randrange(1 << 30)
            kind += "+history"
        return kind, s
    r = rng.random()
    if r < 0.3:
        return "chain", G.gen_chain(rng)
    if r < 0.7:
        return "tree", G.gen_spec(rng, "tree", max_depth=rng.choice([2, 3, 4, 5]), size=size)
    if r < 0.76:
        s = G.gen_spec(rng, "tree", max_depth=rng.choice([2, 3, 4]), size=size)
        r2 = rng.random()
        if r2 < 0.5:
            return "tree+slash-names", G.slashify(rng, s)
        kind = edif_policy_variant(rng, s, "tree").replace("+taken-identifier", "").replace("+unnamed-with-identifier", "")
        s["defs"] = [D for D in s["defs"] if not (D["name"] or "").startswith("clash")]
        for D in s["defs"]:
            if D["name"] is None:
                D["name"] = "renamed%d" % s["defs"].index(D)
        if rng.random() < 0.5:
            T = s["defs"][s["top"]]
            k = s["ctr"] + rng.randrange(4)
            if rng.random() < 0.5 and T["children"]:
                rng.choice(T["children"])["data"]["EDIF.identifier"] = rng.choice(["INSTANCE_SDN_FLAT_%d", "instance_sdn_flat_%d", "Instance_Sdn_Flat_%d"]) % k
            elif T["cables"]:
                rng.choice(T["cables"])["data"]["EDIF.identifier"] = rng.choice(["CABLE_SDN_FLAT_%d", "cable_sdn_flat_%d"]) % k
            kind += "+flat-identifier-taken"
        return kind, s
    if r < 0.8:
        s = G.gen_spec(rng, "tree", max_depth=rng.choice([2, 3, 4]), size=size)
        s["hist_rounds"] = rng.choice([1, 1, 2])
        s["hist_seed"] = rng.randrange(1 << 30)
        return "tree+history", s
    s = G.gen_spec(rng, "dag", named_insts=True, size=min(size, 1.0))
    s["pre_uniquify"] = True
    k = 0
    for D in s["defs"]:
        for C in D["cables"]:
            if C["name"] is None:
                C["name"] = "ZZ%d" % k
                k += 1
    return "dag+uniquify", s


FRAG_THEOREMS = {
    "C08": ["uniquify_correct", "uniquify_wf", "uniquify_unique", "uniquify_preserves_elab", "uniquify_fresh_names"],
    "C09": ["flatten_wf", "flatten_leaves", "flatten_preserves_conn", "flatten_preserves_elab_conn", "flatten_leftovers",
            "connU_eq_conn"],
}


def record_fragments(res, pid, frag, why_not):
    """evidence only (no verdict depends on it): for every generated case, whether it lies inside the
    fragment each headline theorem is proved for, as evaluated by the Lean driver on that case"""
    for t in FRAG_THEOREMS[pid]:
        v = (frag or {}).get(t)
        if v is None:
            res.dist("theorem_fragment:%s:out:not-evaluated(%s)" % (t, why_not or "no-dump"))
        elif v == "in":
            res.dist("theorem_fragment:%s:in" % t)
        else:
            res.dist("theorem_fragment:%s:out:%s" % (t, v))


def shard_worker(pid, tier, seed, shard_no, n_cases, budget_s):
    import random
    res = shard.ShardResult()
    rng = random.Random(stable_hash([seed, pid, "shard", shard_no]))
    drv = lean.Driver(EXE)
    t_end = time.time() + budget_s
    failing = {}
    try:
        for i in range(n_cases):
            if time.time() > t_end:
                break
            kind, spec = gen_input(pid, rng, tier)
            us = unfold_size(spec, MAX_UNFOLD)
            if us is None:
                res.dist("skipped:too-large")
                record_fragments(res, pid, None, "unfolding>%d" % MAX_UNFOLD)
                continue
            R = evaluate(pid, spec, drv)
            record_fragments(res, pid, R.frag, R.skipped)
            if R.skipped:
                res.dist("skipped:" + R.skipped)
                continue
            res.case(stable_hash(spec), R.nontrivial)
            res.dist("gen:" + kind)
            res.dist("depth=%d" % spec_depth(spec))
            for t in R.tags:
                res.dist(t)
            if i < 2:
                res.sample({"kind": kind, "defs": len(spec["defs"]), "unfolded_instances": us, "tags": R.tags})
            for what, impl, model, sig in R.corr:
                res.corr_mismatch(what, spec, impl, model, signature=sig)
            fspec = R.materialized if R.materialized is not None else spec
            for sig, detail in R.spec:
                if sig not in failing or len(json.dumps(fspec)) < len(json.dumps(failing[sig][0])):
                    failing[sig] = (fspec, detail)
        for sig, (spec, detail) in failing.items():
            small = shrink(pid, spec, sig, drv, time.time() + (20 if tier == "quick" else 90))
            R = evaluate(pid, small, drv)
            det = [d for s, d in R.spec if s == sig]
            res.spec_failure(sig, small, det[0] if det else detail)
    finally:
        drv.close()
    return res


def run_corpus(ctx, pid, files):
    drv = lean.Driver(EXE)
    try:
        for path in files:
            try:
                obj = json.load(open(path))
            except Exception as e:  # noqa
                ctx.obligation("corpus file readable: " + path, False, str(e))
                continue
            spec = obj.get("input", obj)
            R = evaluate(pid, spec, drv)
            ctx.dist("corpus")
            if R.skipped:
                ctx.dist("corpus-skipped:" + R.skipped)
                continue
            ctx.case(stable_hash(spec), R.nontrivial)
            for what, impl, model, sig in R.corr:
                ctx.corr_mismatch(what, spec, impl, model, signature=sig)
            for sig, detail in R.spec:
                ctx.spec_failure(sig, spec, detail)
    finally:
        drv.close()


def run(ctx):
    pid = ctx.pid
    ok = lean.check_obligations(ctx, ENGINE_DIR, MODULES, [EXE], AUDIT, theorems_of(pid))
    if pid == "C08":
        ctx.rule = ("specs of hierarchical netlists built through the API: sharing DAGs (definitions instanced many times, at several depths, "
                    "across 1-3 libraries, also by definitions outside the top hierarchy and by parent-less instances), pass-through and wire-only "
                    "cells, unconnected pins, bus ports/cables, unnamed definitions/instances/ports/cables, EDIF.identifier entries, taken _sdn_unique_ names; "
                    "35% with a history on the same live netlist (uniquify, then 1-3 rounds of public-API edits incl. bulk removers, re-pointing, "
                    "leaf<->non-leaf changes, each followed by a fully checked uniquify); distinct = distinct spec; non-trivial = uniquify creates at least one definition")
        ctx.assumptions = ["leaf = Definition.is_leaf() as coded: no children AND no cables",
                           "DEFAULT and EDIF naming policies; EDIF.identifier entries are ASCII strings of moderate length (the 255-character limit of EDIF identifiers is not modelled)", "netlist self-contained (every reference inside it), acyclic",
                           "'instance reachable from top' = strictly below the top instance (the top instance itself is never re-pointed; docs: 'below the top instance')",
                           "data values are JSON-like (deepcopy modelled as identity)"]
    else:
        ctx.rule = ("specs of uniquified hierarchical netlists (tree-shaped by construction, feed-through chains of 2-5 levels, or sharing DAGs passed "
                    "through the real uniquify first): depth <= 5, pass-through and wire-only cells, inner nets tied to several ports, ports unconnected "
                    "inside/outside, buses, EDIF.identifier entries, definitions outside the hierarchy; distinct = distinct spec; non-trivial = at least "
                    "one hierarchical instance is dissolved")
        ctx.assumptions = ["leaf = Definition.is_leaf() as coded: no children AND no cables (pass-through / wire-only / cable-only cells are hierarchy that flatten dissolves)",
                           "input well-formed, uniquified (every non-leaf instance below top is the only member of its definition's reference set), acyclic",
                           "instances and cables named, names non-empty; slash-joined path names of all instance occurrences and of all cables pairwise distinct (always true without '/'; two leaf occurrences with one joined name make the property unsatisfiable; a collision that involves only a dissolved shell is the open finding flatten.shell_name_collision.raises_value)",
                           "DEFAULT and EDIF naming policies; EDIF.identifier entries are ASCII strings",
                           "'data' of a leaf instance = its dictionary without the naming keys .NAME / EDIF.identifier (flatten renews the identifier by design)"]
    if not ok:
        ctx.partial_notes.append("Lean build failed: correspondence not run against a driver")
    elif ctx.tier == "thorough":
        lean.leanchecker(ctx, ["Spydr.Xform.Props." + pid])
    if not os.path.exists(os.path.join(lean.LEAN, ".lake", "build", "bin", EXE)):
        return
    if ctx.replay:
        run_corpus(ctx, pid, [ctx.replay])
        return
    cdir = os.path.join(os.environ.get("VERIF_ROOT", "."), "corpus", pid)
    files = sorted(os.path.join(cdir, f) for f in os.listdir(cdir) if f.endswith(".json")) if os.path.isdir(cdir) else []
    run_corpus(ctx, pid, files)
    nshards = 16
    per = ctx.scale(250, 7000) if pid == "C08" else ctx.scale(300, 8000)
    budget = ctx.scale(45, 900)
    args = [(pid, ctx.tier, ctx.seed, s, per, budget) for s in range(nshards)]
    shard.run_shards(ctx, shard_worker, args)
    # a broken obligation / correspondence without failing input: extra search budget
    live_corr = [c for c in ctx.corr if not c.get("signature")]
    broken = [o for o in ctx.obligations if not o[1]]
    if (live_corr or broken) and not ctx.spec and ctx.time_left() > 20:
        extra = min(ctx.time_left() - 10, ctx.scale(40, 600))
        args = [(pid, ctx.tier, ctx.seed + 7919, 100 + s, per * 10, extra) for s in range(nshards)]
        shard.run_shards(ctx, shard_worker, args)
