"""Input side of engine `xform` (C08 uniquify, C09 flatten).

An input is a *spec*: a pure-data description of a netlist from which `build(spec)` constructs the
spydrnet netlist through the public API (so every input is replayable and can be shrunk), plus the
value the transformation's global name counter is set to before the call.

spec = {"libs": [name...],
        "defs": [{"lib": li, "name": str|None, "data": {..},
                  "ports": [{"name","dir","width","scalar","lower","downto","data"}],
                  "children": [{"name": str|None, "ref": defidx, "data": {..}}],
                  "cables": [{"name","scalar","lower","downto","data","wires": [[pin..]..]}]}],
        "top": defidx, "top_name": str|None, "orphans": [defidx..], "ctr": int,
        "pre_uniquify": bool   (C09 only: run the real uniquify before flatten)}
pin  = ["p", port index, bit] | ["i", child position, port index, bit]
Definitions are created in list order (the order inside a library is the list order).
"""
import spydrnet as sdn

DIRS = {"IN": sdn.IN, "OUT": sdn.OUT, "INOUT": sdn.INOUT, "UNDEFINED": sdn.UNDEFINED}
LETTERS = "abcdefghkmnpqrstuvwxyz"


# ----------------------------------------------------------------------------------------------
# spec -> live netlist
# ----------------------------------------------------------------------------------------------
def build(spec):
    """Build under the naming policy named by spec["policy"] (DEFAULT when absent); the process-wide
    default policy is restored afterwards (elements keep the policy they were created under)."""
    from spydrnet.plugins import namespace_manager as NM
    old = NM.default
    if spec.get("policy"):
        NM.default = spec["policy"]
    try:
        return _build(spec)
    finally:
        NM.default = old


def _build(spec):
    nl = sdn.Netlist(name="nl")
    libs = [nl.create_library(name=n) for n in spec["libs"]]
    defs = []
    for D in spec["defs"]:
        d = libs[D["lib"]].create_definition(name=D.get("name"))
        for k, v in (D.get("data") or {}).items():
            d[k] = v
        for P in D["ports"]:
            p = d.create_port(name=P.get("name"))
            p.direction = DIRS[P.get("dir", "UNDEFINED")]
            if P["width"]:
                p.create_pins(P["width"])
            if P.get("scalar") is False and P["width"] <= 1:
                p.is_scalar = False
            if P.get("lower"):
                p.lower_index = P["lower"]
            if P.get("downto") is False:
                p.is_downto = False
            for k, v in (P.get("data") or {}).items():
                p[k] = v
        defs.append(d)
    for D, d in zip(spec["defs"], defs):
        kids = []
        for K in D["children"]:
            k = d.create_child(name=K.get("name"), reference=defs[K["ref"]])
            for kk, v in (K.get("data") or {}).items():
                k[kk] = v
            kids.append(k)
        for C in D["cables"]:
            c = d.create_cable(name=C.get("name"))
            n = len(C["wires"])
            if n:
                c.create_wires(n)
            if C.get("scalar") is False and n <= 1:
                c.is_scalar = False
            if C.get("lower"):
                c.lower_index = C["lower"]
            if C.get("downto") is False:
                c.is_downto = False
            for kk, v in (C.get("data") or {}).items():
                c[kk] = v
            for w, pins in zip(c.wires, C["wires"]):
                for pr in pins:
                    if pr[0] == "p":
                        w.connect_pin(d.ports[pr[1]].pins[pr[2]])
                    else:
                        k = kids[pr[1]]
                        w.connect_pin(k.pins[k.reference.ports[pr[2]].pins[pr[3]]])
    top = sdn.Instance(name=spec.get("top_name"))
    top.reference = defs[spec["top"]]
    nl.top_instance = top
    orphans = []
    for oi in spec.get("orphans", []):
        o = sdn.Instance(name="orphan")
        o.reference = defs[oi]
        orphans.append(o)
    return nl, defs, orphans


def spec_of(nl, ctr=0, orphans=()):
    """Spec of a live netlist (used to make foreign generators' outputs replayable)."""
    from common import canon
    libs = list(nl.libraries)
    defs = [d for lib in libs for d in lib.definitions]
    didx = {id(d): i for i, d in enumerate(defs)}
    out = {"libs": [l.name for l in libs], "defs": [], "top": didx[id(nl.top_instance.reference)],
           "top_name": nl.top_instance.name, "orphans": [didx[id(o.reference)] for o in orphans], "ctr": ctr}
    for d in defs:
        ppos = {}
        for pi, p in enumerate(d.ports):
            for bi, q in enumerate(p.pins):
                ppos[id(q)] = ["p", pi, bi]
        kids = list(d.children)
        kpos = {id(k): i for i, k in enumerate(kids)}

        def pr(x):
            if isinstance(x, sdn.OuterPin):
                port = x.inner_pin.port
                return ["i", kpos[id(x.instance)], x.instance.reference.ports.index(port), port.pins.index(x.inner_pin)]
            return ppos[id(x)]

        def dat(e):
            return {k: v for k, v in e._data.items() if k not in (".NAME", ".NS")}
        out["defs"].append({
            "lib": libs.index(d.library), "name": d.name, "data": dat(d),
            "ports": [{"name": p.name, "dir": canon.dir_name(p), "width": len(p.pins), "scalar": bool(p.is_scalar),
                       "lower": p.lower_index, "downto": bool(p.is_downto), "data": dat(p)} for p in d.ports],
            "children": [{"name": k.name, "ref": didx[id(k.reference)], "data": dat(k)} for k in kids],
            "cables": [{"name": c.name, "scalar": bool(c.is_scalar), "lower": c.lower_index, "downto": bool(c.is_downto),
                        "data": dat(c), "wires": [[pr(x) for x in w.pins] for w in c.wires]} for c in d.cables]})
    return out


# ----------------------------------------------------------------------------------------------
# random specs
# ----------------------------------------------------------------------------------------------
class Namer:
    def __init__(self, rng):
        self.rng = rng
        self.used = set()

    def fresh(self, stem):
        while True:
            n = stem + self.rng.choice(LETTERS) + (str(self.rng.randrange(10)) if self.rng.random() < 0.5 else "")
            if n.lower() not in self.used:
                self.used.add(n.lower())
                return n


def _ports(rng, lo, hi, max_width, data):
    nm = Namer(rng)
    out = []
    p_unnamed = rng.choice([0.0, 0.0, 0.0, 0.5, 1.0])   # port names are optional in the API
    for _ in range(rng.randint(lo, hi)):
        w = 1 if rng.random() < 0.55 else rng.randint(1, max_width)
        P = {"name": None if rng.random() < p_unnamed else nm.fresh("P"), "dir": rng.choice(["IN", "OUT", "INOUT"]), "width": w, "scalar": True, "lower": 0,
             "downto": True, "data": {}}
        if w > 1:
            P["scalar"] = False
        elif rng.random() < 0.15:
            P["scalar"] = False
        if not P["scalar"]:
            if rng.random() < 0.3:
                P["lower"] = rng.randint(1, 4)
            if rng.random() < 0.2:
                P["downto"] = False
        if data and rng.random() < 0.15:
            P["data"]["pk"] = rng.choice([1, "v", True])
        out.append(P)
    return out


def _edata(rng, data, key, p_eid, eid_stem):
    d = {}
    if data and rng.random() < 0.3:
        d[key] = rng.choice([7, "s", False, [1, 2], {"a": 1}])
    if rng.random() < p_eid:
        d["EDIF.identifier"] = eid_stem
    return d


def _wire_up(rng, D, defs, namer, p_unconnected, max_width, named_cables, data, p_eid, p_tie=0.0):
    """Distribute the pins of definition D (own port pins + children's pins) over wires."""
    free = [["p", pi, b] for pi, P in enumerate(D["ports"]) for b in range(P["width"])]
    for ki, K in enumerate(D["children"]):
        for pi, P in enumerate(defs[K["ref"]]["ports"]):
            for b in range(P["width"]):
                free.append(["i", ki, pi, b])
    rng.shuffle(free)
    free = [q for q in free if rng.random() >= p_unconnected]
    # optionally tie several own port pins together (inner net tied to several ports)
    while free:
        wdt = 1 if rng.random() < 0.6 else rng.randint(1, max_width)
        nm = namer.fresh("N") if named_cables or rng.random() < 0.8 else None
        C = {"name": nm, "scalar": wdt == 1, "lower": 0, "downto": True, "wires": [],
             "data": _edata(rng, data, "ck", p_eid, "id_" + (nm or "c"))}
        if wdt == 1 and rng.random() < 0.15:
            C["scalar"] = False
        if not C["scalar"] and rng.random() < 0.3:
            C["lower"] = rng.randint(1, 5)
        for _ in range(wdt):
            w = []
            for _ in range(rng.choice([0, 1, 2, 2, 3, 4]) if free else 0):
                if free:
                    w.append(free.pop())
            C["wires"].append(w)
        D["cables"].append(C)
        if rng.random() < 0.08:
            break
    if rng.random() < 0.12:
        nm = namer.fresh("N")
        D["cables"].append({"name": nm, "scalar": True, "lower": 0, "downto": True, "wires": [[] for _ in range(rng.randint(0, 2))],
                            "data": {}})


def slashify(rng, spec):
    """Put '/' into instance and cable names, including the patterns whose slash-joined path names
    coincide: a sibling named like the path of a nested instance / cable."""
    defs = spec["defs"]
    for D in defs:
        for K in D["children"]:
            sub = defs[K["ref"]]
            if K["name"] and rng.random() < 0.5:
                cand = [k["name"] for k in sub["children"] if k["name"]] + [c["name"] for c in sub["cables"] if c["name"]]
                if cand and rng.random() < 0.6:
                    nm = K["name"] + "/" + rng.choice(cand)     # looks like a path into the sibling K
                    if rng.random() < 0.5 and all(k["name"] != nm for k in D["children"]):
                        D["children"].append({"name": nm, "ref": rng.choice([i for i, X in enumerate(defs) if not X["children"] and not X["cables"]] or [K["ref"]]), "data": {}})
                    elif all(c["name"] != nm for c in D["cables"]):
                        D["cables"].append({"name": nm, "scalar": True, "lower": 0, "downto": True, "wires": [[]], "data": {}})
        for K in D["children"]:
            if K["name"] and "/" not in K["name"] and rng.random() < 0.15:
                nm = K["name"] + "/" + rng.choice(LETTERS)
                if all(k["name"] != nm for k in D["children"]):
                    K["name"] = nm
        for C in D["cables"]:
            if C["name"] and "/" not in C["name"] and rng.random() < 0.15:
                nm = C["name"] + "/" + rng.choice(LETTERS)
                if all(c["name"] != nm for c in D["cables"]):
                    C["name"] = nm
    return spec


def gen_spec(rng, mode, max_depth=4, max_children=4, max_ports=4, max_width=3, named_insts=True, data=True,
             p_eid=0.1, size=1.0):
    """mode 'dag': sharing DAG (C08); 'tree': every non-leaf definition instantiated once (C09)."""
    nlibs = rng.randint(1, 3)
    libs = ["lib%d" % i for i in range(nlibs)]
    defs = []
    dn = Namer(rng)
    p_unconn = rng.choice([0.0, 0.15, 0.3, 0.5])
    unnamed_defs = mode == "dag" and rng.random() < 0.2

    def new_def(kind, lo_ports=1):
        nm = None if (unnamed_defs and rng.random() < 0.3) else dn.fresh(kind + "_")
        D = {"lib": rng.randrange(nlibs), "name": nm, "data": _edata(rng, data, "dk", p_eid if nm else 0.0, "id_" + (nm or "")),
             "ports": _ports(rng, lo_ports, max_ports, max_width, data), "children": [], "cables": [], "kind": kind}
        defs.append(D)
        return len(defs) - 1

    n_leaf = rng.randint(1, 3)
    leaves = [new_def("leaf") for _ in range(n_leaf)]
    if rng.random() < 0.2:  # a port-less leaf
        i = new_def("leaf")
        defs[i]["ports"] = []
        leaves.append(i)
    nonleaf = []

    def fill(di, pool, depth_left):
        D = defs[di]
        namer = Namer(rng)
        kind = D["kind"]
        if kind == "pass":
            # pass-through: ports tied to ports, no children
            pins = [["p", pi, b] for pi, P in enumerate(D["ports"]) for b in range(P["width"])]
            rng.shuffle(pins)
            while pins:
                nm = namer.fresh("N")
                w = [pins.pop() for _ in range(min(len(pins), rng.choice([1, 2, 2, 3])))]
                D["cables"].append({"name": nm, "scalar": True, "lower": 0, "downto": True, "wires": [w],
                                    "data": _edata(rng, data, "ck", p_eid, "id_" + nm)})
                if rng.random() < 0.25:
                    break
            if not D["cables"]:
                D["cables"].append({"name": namer.fresh("N"), "scalar": True, "lower": 0, "downto": True, "wires": [[]], "data": {}})
            return
        if kind == "wires":
            # wire-only cell: cables, possibly touching some ports, no children
            _wire_up(rng, D, defs, namer, 0.6, max_width, True, data, p_eid)
            if not D["cables"]:
                D["cables"].append({"name": namer.fresh("N"), "scalar": True, "lower": 0, "downto": True, "wires": [[]], "data": {}})
            return
        for _ in range(rng.randint(1, max_children)):
            ref = pool(depth_left)
            nm = namer.fresh("I") if (named_insts or rng.random() < 0.7) else None
            D["children"].append({"name": nm, "ref": ref, "data": _edata(rng, data, "ik", p_eid if nm else 0.0, "id_" + (nm or ""))})
        _wire_up(rng, D, defs, namer, p_unconn, max_width, mode == "tree", data, p_eid)

    def kind_pick():
        r = rng.random()
        return "pass" if r < 0.18 else ("wires" if r < 0.28 else "mod")

    if mode == "dag":
        n_mid = max(1, int(rng.randint(1, 6) * size))
        for mi in range(n_mid):
            last = mi == n_mid - 1
            kind = "mod" if last else kind_pick()
            di = new_def(kind, lo_ports=0 if last else 1)

            def pool(_d, di=di):
                cands = [x for x in range(di)]
                if nonleaf and rng.random() < 0.6:
                    return rng.choice(nonleaf)
                return rng.choice(cands)
            fill(di, pool, 0)
            nonleaf.append(di)
        top = len(defs) - 1
        # definitions outside the top hierarchy that instantiate shared ones
        for _ in range(rng.choice([0, 0, 1, 2])):
            di = new_def("mod")

            def pool2(_d, di=di):
                return rng.randrange(di)
            fill(di, pool2, 0)
            if defs[di]["children"] and all(k["ref"] != top for k in defs[di]["children"]) and rng.random() < 0.3:
                pass
        # avoid instantiating top from outside only rarely (kept: allowed, top is never cloned)
        orphans = [rng.randrange(len(defs)) for _ in range(rng.choice([0, 0, 1, 2, 3]))]
    else:
        # tree: create top-down; every non-leaf definition gets exactly one instance
        budget = [max(3, int(rng.randint(3, 14) * size))]

        def make(depth_left, lo_ports=1, force_mod=False):
            kind = "mod" if force_mod else kind_pick()
            di = new_def(kind, lo_ports)
            D = defs[di]
            namer = Namer(rng)
            if kind != "mod":
                fill(di, None, depth_left)
                return di
            for _ in range(rng.randint(1, max_children)):
                if depth_left > 0 and budget[0] > 0 and rng.random() < 0.6:
                    budget[0] -= 1
                    ref = make(depth_left - 1)
                else:
                    ref = rng.choice(leaves)
                nm = namer.fresh("I")
                D["children"].append({"name": nm, "ref": ref, "data": _edata(rng, data, "ik", p_eid, "id_" + nm)})
            _wire_up(rng, D, defs, namer, p_unconn, max_width, True, data, p_eid)
            return di
        top = make(rng.randint(1, max_depth), lo_ports=0, force_mod=True)
        # garbage outside the hierarchy: leaf users only (a non-leaf reachable definition must stay unique)
        for _ in range(rng.choice([0, 0, 1])):
            di = new_def("mod")
            namer = Namer(rng)
            for _ in range(rng.randint(1, 3)):
                nm = namer.fresh("I")
                defs[di]["children"].append({"name": nm, "ref": rng.choice(leaves), "data": {}})
            _wire_up(rng, defs[di], defs, namer, p_unconn, max_width, True, data, p_eid)
        orphans = [rng.choice(leaves) for _ in range(rng.choice([0, 0, 1, 2]))]
    for D in defs:
        D.pop("kind", None)
    return {"libs": libs, "defs": defs, "top": top, "top_name": "top", "orphans": orphans, "ctr": rng.choice([0, 0, 1, 7, 12345])}


def gen_chain(rng, depth=None, width=None):
    """Feed-through across several levels: nested pass-through shells around a leaf (or around nothing),
    every level ties its ports straight to the ports of the level below; top connects leaf pins to
    both ends.  Variants: a level leaves a port unconnected inside or outside, a level ties two ports
    together, the innermost level is a pure pass-through."""
    depth = depth or rng.randint(2, 5)
    nports = rng.randint(1, 3)
    widths = [1 if rng.random() < 0.6 else rng.randint(2, 3) for _ in range(nports)]
    defs = []

    def ports():
        return [{"name": "P%d" % i, "dir": "INOUT", "width": w, "scalar": w == 1, "lower": 0, "downto": True, "data": {}}
                for i, w in enumerate(widths)]
    leaf = {"lib": 0, "name": "leaf", "data": {}, "ports": ports(), "children": [], "cables": []}
    defs.append(leaf)
    inner_kind = rng.choice(["leaf", "pass", "open"])
    prev = 0
    for lvl in range(depth):
        D = {"lib": 0, "name": "lvl%d" % lvl, "data": {}, "ports": ports(), "children": [], "cables": []}
        if lvl == 0 and inner_kind != "leaf":
            # innermost: pure pass-through (ports tied pairwise / all together) or open (dangling wires)
            allp = [["p", pi, b] for pi, w in enumerate(widths) for b in range(w)]
            if inner_kind == "pass":
                rng.shuffle(allp)
                k = 0
                while allp:
                    grp = [allp.pop() for _ in range(min(len(allp), rng.choice([2, 2, 3])))]
                    D["cables"].append({"name": "t%d" % k, "scalar": True, "lower": 0, "downto": True, "wires": [grp], "data": {}})
                    k += 1
            else:
                for k, p in enumerate(allp):
                    if rng.random() < 0.6:
                        D["cables"].append({"name": "t%d" % k, "scalar": True, "lower": 0, "downto": True, "wires": [[p]], "data": {}})
                if not D["cables"]:
                    D["cables"].append({"name": "t", "scalar": True, "lower": 0, "downto": True, "wires": [[]], "data": {}})
        else:
            D["children"].append({"name": "u%d" % lvl, "ref": prev, "data": {}})
            if rng.random() < 0.3:
                D["children"].append({"name": "x%d" % lvl, "ref": 0, "data": {}})
            for pi, w in enumerate(widths):
                wires = []
                for b in range(w):
                    pins = []
                    r = rng.random()
                    if r < 0.75:
                        pins = [["p", pi, b], ["i", 0, pi, b]]
                    elif r < 0.85:
                        pins = [["p", pi, b]]          # unconnected towards the inside
                    elif r < 0.95:
                        pins = [["i", 0, pi, b]]       # unconnected towards the outside
                    if len(D["children"]) > 1 and rng.random() < 0.5:
                        pins.append(["i", 1, pi, b])
                    if rng.random() < 0.5:
                        rng.shuffle(pins)
                    wires.append(pins)
                D["cables"].append({"name": "n%d" % pi, "scalar": w == 1, "lower": 0, "downto": True, "wires": wires, "data": {}})
            if nports >= 2 and rng.random() < 0.2:
                # tie two ports of this level together as well: merge wire lists of bit 0
                a, b = D["cables"][0]["wires"][0], D["cables"][1]["wires"][0]
                D["cables"][0]["wires"][0] = a + b
                D["cables"][1]["wires"][0] = []
        defs.append(D)
        prev = len(defs) - 1
    T = {"lib": 0, "name": "top", "data": {}, "ports": ports() if rng.random() < 0.7 else [], "children": [], "cables": []}
    T["children"].append({"name": "core", "ref": prev, "data": {}})
    nside = rng.randint(1, 3)
    for s in range(nside):
        T["children"].append({"name": "s%d" % s, "ref": 0, "data": {}})
    for pi, w in enumerate(widths):
        wires = []
        for b in range(w):
            pins = [["i", 0, pi, b]] if rng.random() < 0.9 else []
            for s in range(nside):
                if rng.random() < 0.5:
                    pins.append(["i", 1 + s, rng.choice([i for i, ww in enumerate(widths) if ww > b]), b])
            if T["ports"] and rng.random() < 0.5:
                pins.append(["p", pi, b])
            # a pin may be chosen twice across wires: filter later
            wires.append(pins)
        T["cables"].append({"name": "w%d" % pi, "scalar": w == 1, "lower": 0, "downto": True, "wires": wires, "data": {}})
    seen = set()
    for C in T["cables"]:
        for w in C["wires"]:
            keep = []
            for p in w:
                if tuple(p) not in seen:
                    seen.add(tuple(p))
                    keep.append(p)
            w[:] = keep
    defs.append(T)
    return {"libs": ["work"], "defs": defs, "top": len(defs) - 1, "top_name": "top", "orphans": [], "ctr": 0}
