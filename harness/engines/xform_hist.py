"""Edit histories for engine `xform`: public-API edits applied to a live netlist BETWEEN transforms
(edit -> uniquify -> edit -> uniquify ... on ONE netlist).

An op is explicit data; definitions are addressed by their index in library order at the time the op
is applied, children / cables / ports by position:

  ["strip", di, what]            what in all|children|cables: disconnect, then the BULK removers
                                 remove_children_from / remove_cables_from (a block becomes a black box)
  ["bulk_children", di, [ki..]]  remove_children_from a subset (pins disconnected first)
  ["bulk_cables", di, [ci..]]    remove_cables_from a subset (pins disconnected first)
  ["remove_child", di, ki]       disconnect, remove_child
  ["remove_cable", di, ci]       disconnect, remove_cable
  ["add_child", pi, ri, name, k] create_child(name, reference) in definition pi; connect up to k of its
                                 pins to new wires shared with free pins of the parent
  ["repoint", di, ki, ri]        child.reference = definition ri (the setter refuses other shapes)
  ["add_cable", di, k, name]     create_cable + wire joining up to k unconnected pins (leaf -> non-leaf)
  ["create_port", di, w, name]   create_port(name) with w pins (instances get outer pins)
  ["ask_leaf"]                   call is_leaf() on every definition and instance (a read-only query)
  ["add_def", li, name]          create_definition(name) in library li (e.g. a name of uniquify's own form)
  ["rename_def", di, name]       definition.name = name
  ["repoint_all", di, ri]        re-share: every instance of definition di is re-pointed to definition ri
  ["remove_def", di]             remove an unreferenced definition (its children are un-referenced first)
  ["reorder_ports", di, perm]    definition.ports = permutation (instances keep the pin tables they were built with)
  ["port_front", di, w, name, k] create_port + w pins, moved to position 0 of the port list; in up to k instances
                                 the new outer pins are put on new wires with a free pin of the parent
  ["reorder_pins", di, pi, perm] port.pins = permutation
  ["new_block", li, name, leaf_di, nleaf, nports, ninst, seed]
                                 bring hierarchy (back): a new definition in library li with nports one-bit
                                 ports, nleaf instances of definition leaf_di and cables joining their pins and
                                 the ports; instantiated ninst times in the top definition, its pins put on
                                 existing wires of top (or new ones)
  ["wrap_top", li, name]         a new top: a definition with the old top's port shape holding one instance of
                                 the old top definition, ports wired straight through; netlist.top_instance
                                 becomes a new instance of it (the old top instance is un-referenced)

Ops are applied leniently (an op that does not fit the current netlist is skipped), so a materialised
history replays on any tree.  `gen_ops` draws ops that keep the netlist well-formed and acyclic.
"""
import spydrnet as sdn


def all_defs(nl):
    return [d for lib in nl.libraries for d in lib.definitions]


def _reaches(src, dst, limit=20000):
    seen, stack, n = set(), [src], 0
    while stack:
        d = stack.pop()
        if d is dst:
            return True
        if id(d) in seen:
            continue
        seen.add(id(d))
        for k in d.children:
            if k.reference is not None:
                stack.append(k.reference)
        n += 1
        if n > limit:
            return True
    return False


def _disconnect_wire(w):
    for p in list(w.pins):
        w.disconnect_pin(p)


def _disconnect_child(k):
    for p in list(k.pins):
        if p.wire is not None:
            p.wire.disconnect_pin(p)


def _free_pins(d, exclude_child=None):
    out = [q for p in d.ports for q in p.pins if q.wire is None]
    for k in d.children:
        if k is exclude_child:
            continue
        out.extend(p for p in k.pins if p.wire is None)
    return out


def apply_op(nl, op, fresh):
    defs = all_defs(nl)
    kind = op[0]
    if kind == "ask_leaf":
        for d in defs:
            d.is_leaf()
            for k in d.children:
                k.is_leaf()
        return True
    if kind == "add_def":
        nl.libraries[op[1]].create_definition(name=op[2])
        return True
    if kind == "new_block":
        import random
        r = random.Random(op[7])
        leaf = defs[op[3]]
        top = nl.top_instance.reference
        b = nl.libraries[op[1]].create_definition(name=op[2])
        ports = []
        for i in range(op[5]):
            p = b.create_port(name="bp%d" % i)
            p.direction = sdn.INOUT
            p.create_pins(1)
            ports.append(p)
        kids = [b.create_child(name="bk%d" % i, reference=leaf) for i in range(op[4])]
        free = [q for p in ports for q in p.pins] + [q for k in kids for q in k.pins]
        r.shuffle(free)
        ci = 0
        while free:
            c = b.create_cable(name="bn%d" % ci)
            ci += 1
            w = c.create_wire()
            for _ in range(r.choice([1, 2, 2, 3])):
                if free:
                    w.connect_pin(free.pop())
            if r.random() < 0.15:
                break
        wires = [w for c in top.cables for w in c.wires]
        for i in range(op[6]):
            k = top.create_child(name="%s_i%d" % (op[2], i), reference=b)
            for pin in k.pins:
                x = r.random()
                if wires and x < 0.6:
                    r.choice(wires).connect_pin(pin)
                elif x < 0.85:
                    w = top.create_cable(name=fresh()).create_wire()
                    w.connect_pin(pin)
                    wires.append(w)
        return True
    if kind == "wrap_top":
        old_inst = nl.top_instance
        old = old_inst.reference
        nt = nl.libraries[op[1]].create_definition(name=op[2])
        k = nt.create_child(name=op[2] + "_core", reference=old)
        for pi, p in enumerate(old.ports):
            np_ = nt.create_port(name=p.name if p.name is not None else None)
            np_.direction = p.direction
            if len(p.pins):
                np_.create_pins(len(p.pins))
            for bi, q in enumerate(p.pins):
                if (pi + bi) % 5 == 4:
                    continue                       # leave some port bits unconnected inside
                w = nt.create_cable(name=fresh()).create_wire()
                w.connect_pin(np_.pins[bi])
                w.connect_pin(k.pins[q])
        new_inst = sdn.Instance(name=op[2] + "_top")
        new_inst.reference = nt
        nl.top_instance = new_inst
        old_inst.reference = None
        return True
    d = defs[op[1]]
    if kind == "rename_def":
        d.name = op[2]
        return True
    if kind == "repoint_all":
        r = defs[op[2]]
        if r is d:
            return False
        n = 0
        for P in defs:
            for k in list(P.children):
                if k.reference is d and not _reaches(r, P):
                    k.reference = r
                    n += 1
        return n > 0
    if kind == "remove_def":
        if d is nl.top_instance.reference or len(d.references) > 0:
            return False
        for k in list(d.children):
            _disconnect_child(k)
            d.remove_child(k)
            k.reference = None
        d.library.remove_definition(d)
        return True
    if kind == "reorder_ports":
        ps = list(d.ports)
        if sorted(op[2]) != list(range(len(ps))):
            return False
        d.ports = [ps[i] for i in op[2]]
        return True
    if kind == "reorder_pins":
        port = d.ports[op[2]]
        qs = list(port.pins)
        if sorted(op[3]) != list(range(len(qs))):
            return False
        port.pins = [qs[i] for i in op[3]]
        return True
    if kind == "port_front":
        port = d.create_port(name=op[3])
        port.direction = sdn.INOUT
        port.create_pins(op[2])
        others = [x for x in d.ports if x is not port]
        d.ports = [port] + others
        n = 0
        for inst in list(d.references):
            par = inst.parent
            if par is None or n >= op[4]:
                continue
            n += 1
            free = [q for q in _free_pins(par) if not (isinstance(q, sdn.OuterPin) and q.instance is inst)]
            for q in port.pins:
                w = par.create_cable(name=fresh()).create_wire()
                w.connect_pin(inst.pins[q])
                if free:
                    w.connect_pin(free.pop())
        return True
    if kind == "strip":
        what = op[2]
        if what in ("all", "cables"):
            for c in d.cables:
                for w in c.wires:
                    _disconnect_wire(w)
            d.remove_cables_from(list(d.cables))
        if what in ("all", "children"):
            for k in d.children:
                _disconnect_child(k)
            d.remove_children_from(list(d.children))
    elif kind == "bulk_children":
        ks = [d.children[i] for i in op[2]]
        for k in ks:
            _disconnect_child(k)
        d.remove_children_from(ks)
    elif kind == "bulk_cables":
        cs = [d.cables[i] for i in op[2]]
        for c in cs:
            for w in c.wires:
                _disconnect_wire(w)
        d.remove_cables_from(set(cs))
    elif kind == "remove_child":
        k = d.children[op[2]]
        _disconnect_child(k)
        d.remove_child(k)
    elif kind == "remove_cable":
        c = d.cables[op[2]]
        for w in c.wires:
            _disconnect_wire(w)
        d.remove_cable(c)
    elif kind == "add_child":
        r = defs[op[2]]
        if _reaches(r, d):
            return False
        k = d.create_child(name=op[3], reference=r)
        free = _free_pins(d, exclude_child=k)
        n = 0
        for p in list(k.pins)[:op[4]]:
            c = d.create_cable(name=fresh())
            w = c.create_wire()
            w.connect_pin(p)
            if free and n % 2 == 0:
                w.connect_pin(free.pop())
            n += 1
    elif kind == "repoint":
        k = d.children[op[2]]
        r = defs[op[3]]
        if _reaches(r, d):
            return False
        k.reference = r
    elif kind == "add_cable":
        free = _free_pins(d)
        c = d.create_cable(name=op[3])
        w = c.create_wire()
        for p in free[:op[2]]:
            w.connect_pin(p)
    elif kind == "create_port":
        p = d.create_port(name=op[3])
        p.create_pins(op[2])
    else:
        return False
    return True


class Fresh:
    def __init__(self, tag):
        self.n = 0
        self.tag = tag

    def __call__(self):
        self.n += 1
        return "h%s_%d" % (self.tag, self.n)


def apply_ops(nl, ops, tag):
    """returns the list of ops that were actually applied"""
    fresh = Fresh(tag)
    done = []
    for op in ops:
        try:
            if apply_op(nl, op, fresh):
                done.append(op)
        except Exception:  # noqa  (refused / does not fit this tree: skipped)
            pass
    return done


import re as _re
_UNIQ = _re.compile(r"^(.*)_sdn_unique_(\d+)$", _re.S)


def gen_ops(rng, nl, tag, ctr=0, rehier=False):
    """a short edit script for the current state of `nl` (explicit ops); `ctr`: current value of the
    transformation's name counter (names of uniquify's own form are drawn around it); `rehier`: the
    netlist has just been flattened — start with edits that bring hierarchy back"""
    defs = all_defs(nl)
    pre = []
    true_leaves = [i for i, d in enumerate(defs) if not len(d.children) and not len(d.cables) and len(d.references)]
    if (rehier or rng.random() < 0.12) and true_leaves:
        nlibs = len(list(nl.libraries))
        for j in range(rng.choice([1, 1, 2]) if rehier else 1):
            if rehier and rng.random() < 0.25:
                pre.append(["wrap_top", rng.randrange(nlibs), "wrap%s_%d" % (tag, j)])
            else:
                pre.append(["new_block", rng.randrange(nlibs), "blk%s_%d" % (tag, j), rng.choice(true_leaves),
                            rng.randint(1, 3), rng.randint(0, 3), rng.choice([1, 1, 2, 2, 3]), rng.randrange(1 << 30)])
        if rehier and rng.random() < 0.6:
            return pre
    # reorder the port interface of definitions that are already instantiated (the instances' pin
    # tables keep their build order), then use the definition again
    if rng.random() < 0.3:
        cand = [i for i, d in enumerate(defs) if (len(d.ports) >= 2 or any(len(p.pins) >= 2 for p in d.ports)) and len(d.references)]
        anyd = [i for i, d in enumerate(defs) if len(d.references)]
        par = [i for i, d in enumerate(defs) if len(d.children) or d is nl.top_instance.reference]
        for _ in range(rng.choice([1, 1, 2])):
            r = rng.random()
            x = None
            if r < 0.45 and cand:
                x = rng.choice(cand)
                d = defs[x]
                if len(d.ports) >= 2 and rng.random() < 0.7:
                    perm = list(range(len(d.ports)))
                    while perm == list(range(len(d.ports))):
                        rng.shuffle(perm)
                    pre.append(["reorder_ports", x, perm])
                else:
                    wide = [pi for pi, p in enumerate(d.ports) if len(p.pins) >= 2]
                    if wide:
                        pi = rng.choice(wide)
                        perm = list(range(len(d.ports[pi].pins)))
                        while perm == list(range(len(d.ports[pi].pins))):
                            rng.shuffle(perm)
                        pre.append(["reorder_pins", x, pi, perm])
            elif anyd:
                x = rng.choice(anyd)
                pre.append(["port_front", x, rng.randint(1, 2), "pf%s_%d" % (tag, len(pre)) if rng.random() < 0.7 else None, rng.randint(0, 2)])
            if x is not None and par and rng.random() < 0.6:
                for _ in range(2):
                    pre.append(["add_child", rng.choice(par), x, "rp%s_%d" % (tag, len(pre)), rng.randint(0, 3)])
    ops = _gen_ops(rng, nl, tag, ctr)
    return pre + ops


def _gen_ops(rng, nl, tag, ctr=0):
    defs = all_defs(nl)
    top = nl.top_instance.reference
    ti = defs.index(top)
    ops = []
    names = Fresh("n" + tag)
    nonleaf = [i for i, d in enumerate(defs) if (len(d.children) or len(d.cables)) and i != ti]
    parents = [i for i, d in enumerate(defs) if len(d.children) or i == ti]

    def shape(d):
        return [len(p.pins) for p in d.ports]

    if rng.random() < 0.25:
        ops.append(["ask_leaf"])
    libs = list(nl.libraries)
    byname = {}
    for i, d in enumerate(defs):
        if d.name is not None:
            byname[(id(d.library), d.name)] = i
    # undo / collide with what an earlier uniquify produced
    copies = []
    for i, d in enumerate(defs):
        m = _UNIQ.match(d.name or "")
        if m and (id(d.library), m.group(1)) in byname and i != ti:
            copies.append((i, byname[(id(d.library), m.group(1))]))
    if copies and rng.random() < 0.35:
        for ci, bi in rng.sample(copies, min(len(copies), rng.choice([1, 2, 3]))):
            ops.append(["repoint_all", ci, bi])          # share the original again
            if rng.random() < 0.5:
                ops.append(["remove_def", ci])           # ... and free the copy's name
    named = [i for i, d in enumerate(defs) if d.name is not None and i != ti]
    if named and rng.random() < 0.3:
        bi = rng.choice(named)
        b = defs[bi]
        nm = "%s_sdn_unique_%d" % (b.name, max(0, ctr + rng.choice([-1, 0, 0, 1, 2])))
        li = libs.index(b.library)
        if rng.random() < 0.7:
            ops.append(["add_def", li if rng.random() < 0.85 else rng.randrange(len(libs)), nm])
        else:
            others = [i for i in named if i != bi]
            if others:
                ops.append(["rename_def", rng.choice(others), nm])
        for _ in range(rng.choice([0, 2, 2, 3])):
            ops.append(["add_child", rng.choice(parents), bi, names() if rng.random() < 0.85 else None, rng.randint(0, 2)])
    for _ in range(rng.choice([1, 1, 2, 3])):
        r = rng.random()
        if r < 0.35 and nonleaf:
            # make a block a black box (bulk removers) and use it again in several places
            x = rng.choice(nonleaf)
            ops.append(["strip", x, rng.choice(["all", "all", "all", "children", "cables"])])
            for _ in range(rng.choice([0, 1, 2, 2, 3])):
                ops.append(["add_child", rng.choice(parents), x, names() if rng.random() < 0.85 else None, rng.randint(0, 3)])
        elif r < 0.55:
            ops.append(["add_child", rng.choice(parents), rng.randrange(len(defs)), names() if rng.random() < 0.85 else None,
                        rng.randint(0, 3)])
        elif r < 0.65 and parents:
            di = rng.choice(parents)
            n = len(defs[di].children)
            if n:
                ops.append(rng.choice([["remove_child", di, rng.randrange(n)],
                                       ["bulk_children", di, sorted(rng.sample(range(n), rng.randint(1, n)))]]))
        elif r < 0.75:
            cand = [i for i, d in enumerate(defs) if len(d.cables)]
            if cand:
                di = rng.choice(cand)
                n = len(defs[di].cables)
                ops.append(rng.choice([["remove_cable", di, rng.randrange(n)],
                                       ["bulk_cables", di, sorted(rng.sample(range(n), rng.randint(1, n)))]]))
        elif r < 0.85 and parents:
            di = rng.choice(parents)
            n = len(defs[di].children)
            if n:
                ki = rng.randrange(n)
                cur = defs[di].children[ki].reference
                same = [i for i, d in enumerate(defs) if d is not cur and cur is not None and shape(d) == shape(cur)]
                if same:
                    ops.append(["repoint", di, ki, rng.choice(same)])
        elif r < 0.93:
            ops.append(["add_cable", rng.randrange(len(defs)), rng.randint(0, 3), names() if rng.random() < 0.85 else None])
        else:
            ops.append(["create_port", rng.randrange(len(defs)), rng.randint(1, 2), names() if rng.random() < 0.6 else None])
    return ops


def live_unfold_size(nl, cap):
    memo = {}

    def size(d, depth):
        if depth > 30:
            raise OverflowError
        if id(d) in memo:
            return memo[id(d)]
        s = 0
        for k in d.children:
            if k.reference is None:
                raise OverflowError
            s += 1 + size(k.reference, depth + 1)
            if s > cap:
                raise OverflowError
        memo[id(d)] = s
        return s
    try:
        return size(nl.top_instance.reference, 0)
    except OverflowError:
        return None
