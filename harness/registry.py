"""property id -> engine module under harness/engines/, collected from harness/engines/*.meta.json
(each: {"engine": "<module>", "properties": {"C17": {...manifest fields...}}})."""
import glob
import json
import os

HERE = os.path.dirname(os.path.abspath(__file__))
ENGINE_OF = {}
META = {}
for _p in sorted(glob.glob(os.path.join(HERE, "engines", "*.meta.json"))):
    try:
        _m = json.load(open(_p))
    except Exception:
        continue
    for _pid, _info in _m.get("properties", {}).items():
        if _info.get("claimed", True):
            ENGINE_OF[_pid] = _m["engine"]
            META[_pid] = dict(_info, engine=_m["engine"])
