"""./check <PID> [--tier quick|thorough] [--replay FILE]"""
import importlib
import os
import signal
import sys
import traceback

sys.path.insert(0, os.path.dirname(os.path.abspath(__file__)))
from common.ctx import Ctx  # noqa: E402
from registry import ENGINE_OF  # noqa: E402


def main():
    args = sys.argv[1:]
    if not args:
        print("usage: check <PID> [--tier quick|thorough] [--replay F]")
        return 2
    pid = args[0]
    tier = os.environ.get("VERIF_TIER", "quick")
    replay = None
    i = 1
    while i < len(args):
        if args[i] == "--tier":
            tier = args[i + 1]; i += 2
        elif args[i] == "--replay":
            replay = args[i + 1]; i += 2
        else:
            i += 1
    if tier not in ("quick", "thorough"):
        tier = "quick"
    try:
        seed = int(os.environ.get("VERIF_SEED", "0"))
    except ValueError:
        seed = 0
    if pid not in ENGINE_OF:
        print("unknown or unclaimed property", pid)
        return 2
    # every temp file of every engine / shard process of this run lives under one scratch dir, removed on exit
    import shutil, tempfile
    scratch = tempfile.mkdtemp(prefix="verif-run-%s-" % pid)
    os.environ["TMPDIR"] = scratch
    tempfile.tempdir = scratch

    def cleanup():
        shutil.rmtree(scratch, ignore_errors=True)
    import atexit
    atexit.register(cleanup)
    ctx = Ctx(pid, tier, seed, replay)
    hard = {"quick": 900, "thorough": 5400}[tier]

    def on_alarm(signum, frame):
        print("[%s] hard timeout after %ds" % (pid, hard))
        sys.stdout.flush()
        cleanup()
        os._exit(2)
    signal.signal(signal.SIGALRM, on_alarm)
    signal.alarm(hard)
    try:
        mod = importlib.import_module("engines." + ENGINE_OF[pid])
        mod.run(ctx)
    except Exception:
        traceback.print_exc()
        print("[%s] internal error in the check (infrastructure), not a verdict" % pid)
        return 2
    return ctx.finish()


if __name__ == "__main__":
    sys.exit(main())
