/-
  drv_compare — line-protocol driver for the C20 engine.

  request  {"fn":"compare","a":<CNetlist JSON>,"b":<CNetlist JSON>}
  answer   {"fixed":"ok"|fam, "unrepaired":"ok"|fam,            -- model of the repaired / pinned comparer
            "noDrcFix","noNameFix","noDrcNoNameFix":"ok"|fam,    -- the proposed repairs individually left out
            "examinedEq":bool,                                   -- Spec: examined a a = examined a b
            "examinedNEq":bool, "identsEq":bool,                 -- Spec: examinedN a a = examinedN a b; idents a = idents b
            "fragments":{theorem: "in" | first failing hypothesis}, -- reach of the headline theorems on this pair
            "hyp":{"wfA","wfB","namedA","namedB","uniqueA","uniqueB","noAssignA","noAssignB","propKeysA"}}
  request  {"fn":"ping"}  ->  {"pong":true}

  The CNetlist JSON is the value of harness/common/canon.py:cnetlist, optionally with the engine's
  additive fields: instance "props" (EDIF.properties with dict insertion order kept, as
  [[ [key, value], ...], ...] or null) and external references ["ext", defname, libname].
-/
import Spydr.Common.Proto
import Spydr.Compare.Model
import Spydr.Compare.Spec

open Lean Spydr.Proto Spydr.Compare

namespace Spydr.CompareDrv

def optStr (j : Json) (k : String) : Except String (Option String) :=
  match j.getObjVal? k with
  | .error _ => .ok none
  | .ok .null => .ok none
  | .ok (.str s) => .ok (some s)
  | .ok v => .ok (some (Json.compress v))     -- a non-string name: keep its text

/-- data["EDIF.original_identifier"] as compact JSON text -/
def origOf (j : Json) : Option String :=
  match j.getObjVal? "data" with
  | .error _ => none
  | .ok d =>
    match d.getObjVal? "EDIF.original_identifier" with
    | .error _ => none
    | .ok v => some (Json.compress v)

def dictOfPairs (j : Json) : Except String Dict := do
  let a ← j.getArr?
  a.toList.mapM fun kv => do
    let p ← kv.getArr?
    if p.size != 2 then throw "props: pair expected"
    let k ← p[0]!.getStr?
    pure (k, Json.compress p[1]!)

def dictOfObj (j : Json) : Except String Dict := do
  let o ← j.getObj?
  pure (o.toList.map fun (k, v) => (k, Json.compress v))

def propsOf (j : Json) : Except String (Option (List Dict)) :=
  match j.getObjVal? "props" with
  | .ok .null => .ok none
  | .ok v => do
    let a ← v.getArr?
    let l ← a.toList.mapM dictOfPairs
    pure (some l)
  | .error _ =>
    match j.getObjVal? "data" with
    | .error _ => .ok none
    | .ok d =>
      match d.getObjVal? "EDIF.properties" with
      | .error _ => .ok none
      | .ok v => do
        let a ← v.getArr?
        let l ← a.toList.mapM dictOfObj
        pure (some l)

def refOf (j : Json) : Except String CRef :=
  match j.getObjVal? "ref" with
  | .error _ => .ok .none
  | .ok .null => .ok .none
  | .ok v => do
    let a ← v.getArr?
    match a.toList with
    | [Json.str "ext", dn] =>
      pure (.ext (match dn with | .str s => some s | _ => none) none)
    | [Json.str "ext", dn, ln] =>
      pure (.ext (match dn with | .str s => some s | _ => none) (match ln with | .str s => some s | _ => none))
    | [li, di] => do
      let l ← li.getNat?
      let d ← di.getNat?
      pure (.idx l d)
    | _ => throw "ref: unknown shape"

def pinOf (j : Json) : Except String CPin := do
  let a ← j.getArr?
  match a.toList with
  | [Json.str "p", pi, bi] => do pure (.port (← pi.getNat?) (← bi.getNat?))
  | [Json.str "i", ii, pi, bi] => do pure (.inst (← ii.getNat?) (← pi.getNat?) (← bi.getNat?))
  | _ => pure .bad

def portOf (j : Json) : Except String CPort := do
  pure { name := ← optStr j "name", origId := origOf j, dir := ← getStr j "dir",
         width := ← getNat j "width", scalar := ← getBool j "scalar" }

def cableOf (j : Json) : Except String CCable := do
  let ws ← getArr j "wires"
  let wires ← ws.toList.mapM fun w => do
    let ps ← w.getArr?
    ps.toList.mapM pinOf
  pure { name := ← optStr j "name", origId := origOf j, wires := wires }

def instOf (j : Json) : Except String CInst := do
  pure { name := ← optStr j "name", origId := origOf j, ref := ← refOf j, props := ← propsOf j }

def defOf (j : Json) : Except String CDef := do
  pure { name := ← optStr j "name", origId := origOf j,
         ports := ← (← getArr j "ports").toList.mapM portOf,
         cables := ← (← getArr j "cables").toList.mapM cableOf,
         insts := ← (← getArr j "instances").toList.mapM instOf }

def libOf (j : Json) : Except String CLib := do
  pure { name := ← optStr j "name", origId := origOf j,
         defs := ← (← getArr j "definitions").toList.mapM defOf }

def netOf (j : Json) : Except String CNetlist := do
  let top ← match j.getObjVal? "top" with
    | .error _ => pure none
    | .ok .null => pure none
    | .ok t => do pure (some (← instOf t))
  pure { name := ← optStr j "name", origId := origOf j,
         libs := ← (← getArr j "libraries").toList.mapM libOf, top := top }

def resStr : Res → String
  | .ok _ => "ok"
  | .error e => e

/-- first failing hypothesis of a theorem on this very pair, or "in" -/
def firstFailing (hs : List (String × Bool)) : String :=
  match hs.find? (fun h => !h.2) with
  | none => "in"
  | some h => h.1

/-- reach of the headline theorems of Props/C20 on the pair (a, b): evaluated hypotheses only, the
    harness counts them in the evidence and no verdict depends on them -/
def fragments (a b : CNetlist) : Json :=
  Json.mkObj [
    ("compare_refl", Json.str (firstFailing [
      ("WF a", wfB a), ("UniqueNames a", decide (UniqueNames a)), ("AssignOK a", assignOkB a),
      ("copy has the same CNetlist", decide (a = b))])),
    ("compare_complete", Json.str (firstFailing [
      ("Named a", namedB a), ("UniqueNames a", decide (UniqueNames a)), ("NoAssign a", noAssignB a),
      ("WF a", wfB a), ("WF b", wfB b), ("UniqueNames b", decide (UniqueNames b)),
      ("examined a a = examined a b", examinedEqB a a b), ("idents a = idents b", identsEqB a b)])),
    ("compare_sound", Json.str (firstFailing [
      ("Named a", namedB a), ("UniqueNames a", decide (UniqueNames a)), ("NoAssign a", noAssignB a),
      ("PropKeys a", propKeysB a)])),
    ("compare_sound_named", Json.str (firstFailing [
      ("UniqueNames a", decide (UniqueNames a)), ("NoAssign a", noAssignB a), ("PropKeys a", propKeysB a)]))]

def handle (st : Unit) (j : Json) : Except String (Unit × Json) := do
  let fn ← getStr j "fn"
  if fn == "ping" then return (st, Json.mkObj [("pong", Json.bool true)])
  if fn == "compare" then
    let a ← netOf (← j.getObjVal? "a")
    let b ← netOf (← j.getObjVal? "b")
    let hyp := Json.mkObj [
      ("wfA", Json.bool (wfB a)), ("wfB", Json.bool (wfB b)),
      ("namedA", Json.bool (namedB a)), ("namedB", Json.bool (namedB b)),
      ("uniqueA", Json.bool (decide (UniqueNames a))), ("uniqueB", Json.bool (decide (UniqueNames b))),
      ("noAssignA", Json.bool (noAssignB a)), ("noAssignB", Json.bool (noAssignB b)),
      ("assignOkA", Json.bool (assignOkB a)),
      ("propKeysA", Json.bool (propKeysB a))]
    return (st, Json.mkObj [
      ("fixed", Json.str (resStr (compare a b))),
      ("unrepaired", Json.str (resStr (compareUnrepaired a b))),
      -- the landed repairs in, one or both of the proposed ones out
      ("noDrcFix", Json.str (resStr (compareWith ⟨true, false, true⟩ a b))),
      ("noNameFix", Json.str (resStr (compareWith ⟨true, true, false⟩ a b))),
      ("noDrcNoNameFix", Json.str (resStr (compareWith ⟨true, false, false⟩ a b))),
      ("examinedEq", Json.bool (examinedEqB a a b)),
      ("examinedNEq", Json.bool (examinedNEqB a a b)),
      ("identsEq", Json.bool (identsEqB a b)),
      ("fragments", fragments a b),
      ("hyp", hyp)])
  throw s!"unknown fn {fn}"

end Spydr.CompareDrv

def main : IO Unit := Spydr.Proto.run Spydr.CompareDrv.handle ()
