/-
  drv_eblif: JSON line protocol over the EBLIF model.
    {"fn":"lex","text":s}                      -> {"toks":[word|null(newline)...]}
    {"fn":"read","text":s}                     -> {"ok":net} | {"err":family}
    {"fn":"compose","net":net,"wb":b,"wc":b}   -> {"toks":[...]}
    {"fn":"lexcompose","text":s}               -> tokens of `lexB text` (to compare with compose)
    {"fn":"roundtrip","text":s,"wb":b,"wc":b}  -> read, composeB, printB, read again: {"ok":net}|{"err":..}
    {"fn":"frag","text":s,"wb":b,"wc":b}       -> which round-trip theorems cover the netlist read from `text`:
                                                  {"full":"in"|"out:<first failing hypothesis>","any":...,"subckt":...}
-/
import Spydr.Common.Proto
import Spydr.Eblif.ModelCompose
import Spydr.Eblif.FragCheck

open Lean Spydr.Eblif Spydr.Proto

namespace Spydr.EblifDrv

def jn (n : Nat) : Json := Json.num (JsonNumber.fromNat n)
def jopt (o : Option String) : Json := match o with | some s => Json.str s | none => Json.null
def jstrs (l : List String) : Json := Json.arr (l.map Json.str).toArray
def jpairs (l : List (String × String)) : Json := Json.arr (l.map (fun p => jstrs [p.1, p.2])).toArray

def tokJ : Tok → Json
  | Tok.word s => Json.str s
  | Tok.nl => Json.null

def dirS : Dir → String
  | Dir.inp => "IN" | Dir.out => "OUT" | Dir.inout => "INOUT" | Dir.undef => "UNDEFINED"

def dirOf (s : String) : Dir :=
  if s = "IN" then Dir.inp else if s = "OUT" then Dir.out else if s = "INOUT" then Dir.inout else Dir.undef

def localIdx (n : BNet) (idx : Nat) : Nat :=
  match n.insts[idx]? with
  | some me => ((n.insts.take idx).filter (fun i => i.parent = me.parent)).length
  | none => idx

def pinJ (n : BNet) : Pin → Json
  | Pin.top o p b => Json.arr #[Json.str "t", Json.str o, Json.str p, jn b]
  | Pin.inst i p b => Json.arr #[Json.str "i", jn (localIdx n i), Json.str p, jn b]

def netJ (n : BNet) : Json :=
  Json.mkObj [
    ("name", jopt n.name), ("top", jopt n.top), ("comments", jstrs n.comments),
    ("defs", Json.arr (n.defs.map (fun d => Json.mkObj [
        ("name", Json.str d.name), ("lib", Json.str (if d.inWork then "work" else "prim")),
        ("ports", Json.arr (d.ports.map (fun p => Json.arr #[Json.str p.name, Json.str (dirS p.dir), jn p.width])).toArray),
        ("clock", match d.clock with | some c => jstrs c | none => Json.null)])).toArray),
    ("insts", Json.arr (n.insts.map (fun i => Json.mkObj [
        ("parent", Json.str i.parent), ("name", Json.str i.name), ("model", Json.str i.model), ("typ", Json.str i.typ),
        ("covers", match i.covers with | some c => jstrs c | none => Json.null),
        ("unconn", jstrs i.unconn), ("cname", jopt i.cname),
        ("attrs", jpairs i.attrs), ("params", jpairs i.params),
        ("pins", Json.arr (i.pins.map (fun p => Json.arr #[Json.str p.1, jn p.2])).toArray)])).toArray),
    ("cables", Json.arr (n.cables.map (fun c => Json.mkObj [
        ("owner", Json.str c.1.1), ("name", Json.str c.1.2),
        ("wires", Json.arr (c.2.map (fun w => Json.arr (w.map (pinJ n)).toArray)).toArray)])).toArray)]

def errS : Err → String
  | Err.syntax w => "syntax:" ++ w
  | Err.value w => "value:" ++ w
  | Err.key w => "key:" ++ w
  | Err.index w => "index:" ++ w

def optStr (j : Json) (k : String) : Option String :=
  match j.getObjVal? k with
  | .ok (Json.str s) => some s
  | _ => none

def optStrs (j : Json) (k : String) : Except String (Option (List String)) :=
  match j.getObjVal? k with
  | .ok (Json.arr a) => do let l ← strList a; pure (some l)
  | _ => pure none

def pairsOf (a : Array Json) : Except String (List (String × String)) :=
  a.toList.mapM (fun j => do
    let x ← j.getArr?
    match x.toList with
    | [k, v] => do pure ((← k.getStr?), (← v.getStr?))
    | _ => throw "pair expected")

def pinOf (j : Json) : Except String Pin := do
  let a ← j.getArr?
  match a.toList with
  | [t, x, p, b] => do
      let t ← t.getStr?
      if t = "t" then pure (Pin.top (← x.getStr?) (← p.getStr?) (← b.getNat?))
      else pure (Pin.inst (← x.getNat?) (← p.getStr?) (← b.getNat?))
  | _ => throw "pin expected"

def netOf (j : Json) : Except String BNet := do
  let defs ← (← getArr j "defs").toList.mapM (fun d => do
    let ports ← (← getArr d "ports").toList.mapM (fun p => do
      let a ← p.getArr?
      match a.toList with
      | [n, dd, w] => pure ({ name := (← n.getStr?), dir := dirOf (← dd.getStr?), width := (← w.getNat?) } : PortD)
      | _ => throw "port expected")
    let lib ← getStr d "lib"
    pure ({ name := (← getStr d "name"), ports := ports, declared := lib = "work", blackbox := lib ≠ "work",
            clock := (← optStrs d "clock") } : DefD))
  let insts ← (← getArr j "insts").toList.mapM (fun i => do
    let pins ← (← getArr i "pins").toList.mapM (fun p => do
      let a ← p.getArr?
      match a.toList with
      | [n, b] => pure ((← n.getStr?), (← b.getNat?))
      | _ => throw "pin name expected")
    pure ({ parent := (← getStr i "parent"), name := (← getStr i "name"), model := (← getStr i "model"),
            typ := (← getStr i "typ"), covers := (← optStrs i "covers"),
            unconn := (← strList (← getArr i "unconn")), cname := optStr i "cname",
            attrs := (← pairsOf (← getArr i "attrs")), params := (← pairsOf (← getArr i "params")), pins := pins } : Inst))
  let cables ← (← getArr j "cables").toList.mapM (fun c => do
    let wires ← (← getArr c "wires").toList.mapM (fun w => do
      let a ← w.getArr?
      a.toList.mapM pinOf)
    pure (((← getStr c "owner"), (← getStr c "name")), wires))
  pure { name := optStr j "name", top := optStr j "top", comments := (← strList (← getArr j "comments")),
         defs := defs, insts := insts, cables := cables }

def optsOf (j : Json) : Opts :=
  { writeBlackbox := (getBool j "wb").toOption.getD true, writeCname := (getBool j "wc").toOption.getD true }

def resJ : Except Err BNet → Json
  | .ok n => Json.mkObj [("ok", netJ n)]
  | .error e => Json.mkObj [("err", Json.str (errS e))]

def handle (_ : Unit) (j : Json) : Except String (Unit × Json) := do
  let fn ← getStr j "fn"
  if fn = "lex" then
    let t ← getStr j "text"
    pure ((), Json.mkObj [("toks", Json.arr ((lexB t.toList).map tokJ).toArray)])
  else if fn = "read" then
    let t ← getStr j "text"
    pure ((), resJ (readB t.toList))
  else if fn = "compose" then
    let n ← netOf (← j.getObjVal? "net")
    pure ((), Json.mkObj [("toks", Json.arr ((composeB (optsOf j) n).map tokJ).toArray)])
  else if fn = "roundtrip" then
    let t ← getStr j "text"
    match readB t.toList with
    | .error e => pure ((), Json.mkObj [("err", Json.str (errS e))])
    | .ok n =>
      let txt := composeText (optsOf j) n
      pure ((), Json.mkObj [("first", netJ n), ("text", Json.str (String.ofList txt)),
                            ("second", resJ (readB txt))])
  else if fn = "frag" then
    let t ← getStr j "text"
    match readB t.toList with
    | .error _ => pure ((), Json.mkObj [("full", Json.str "out:model-read-fails"), ("any", Json.str "out:model-read-fails"),
                                        ("subckt", Json.str "out:model-read-fails")])
    | .ok n =>
      pure ((), Json.mkObj [("full", Json.str (fragFull (optsOf j) n)), ("any", Json.str (fragAny (optsOf j) n)),
                            ("leaf", Json.str (fragLeaf (optsOf j) n)),
                            ("subckt", Json.str (fragSubckt (optsOf j) n))])
  else throw s!"unknown fn {fn}"

end Spydr.EblifDrv

def main : IO Unit := Spydr.Proto.run Spydr.EblifDrv.handle ()
