/-
  drv_edif: JSON line protocol over the EDIF model (lexer, s-expression reader, netlist reader,
  writer).  Only conversion code lives here; every function answering a request is a definition the
  theorems in Spydr/Edif/Props are about.
-/
import Spydr.Common.Proto
import Spydr.Edif.ModelRead
import Spydr.Edif.ModelWrite
import Spydr.Edif.Fragment
import Spydr.Edif.Unrender

open Lean Spydr.Edif

namespace Spydr.Edif.Drv

def jstr (s : Str) : Json := Json.str (String.ofList s)
def jnat (n : Nat) : Json := Json.num (JsonNumber.fromNat n)
def jint (i : Int) : Json := Json.num (JsonNumber.fromInt i)

mutual
partial def valToJson : Val → Json
  | .null => Json.null
  | .bool b => Json.bool b
  | .int i => jint i
  | .str s => jstr s
  | .list xs => Json.arr (xs.map valToJson).toArray
  | .obj kv => Json.mkObj (kv.map fun (k, v) => (String.ofList k, valToJson v))
end

def dataToJson (d : Data) : Json := Json.mkObj (d.map fun (k, v) => (String.ofList k, valToJson v))

def nameJson (d : Data) : Json :=
  match d.get? kNAME with
  | some v => valToJson v
  | none => Json.null

def dirJson : Dir → Json
  | .undefined => "UNDEFINED" | .inout => "INOUT" | .inp => "IN" | .out => "OUT"

def pinJson : CPin → Json
  | .port p b => Json.arr #["p", jnat p, jnat b]
  | .inst i p b => Json.arr #["i", jnat i, jnat p, jnat b]

def refJson : Option (Nat × Nat) → Json
  | none => Json.null
  | some (l, d) => Json.arr #[jnat l, jnat d]

def portJson (p : CPort) : Json := Json.mkObj [
  ("name", nameJson p.data), ("dir", dirJson p.dir), ("width", jnat p.width), ("scalar", Json.bool p.isScalar),
  ("lower", jnat p.lower), ("downto", Json.bool true), ("data", dataToJson p.data)]

def cableJson (c : CCable) : Json := Json.mkObj [
  ("name", nameJson c.data), ("scalar", Json.bool c.isScalar), ("lower", jnat c.lower), ("downto", Json.bool true),
  ("data", dataToJson c.data),
  ("wires", Json.arr (c.wires.map fun w => Json.arr (w.map pinJson).toArray).toArray)]

def instJson (i : CInst) : Json := Json.mkObj [
  ("name", nameJson i.data), ("ref", refJson i.ref), ("data", dataToJson i.data)]

def defJson (d : CDef) : Json := Json.mkObj [
  ("name", nameJson d.data), ("data", dataToJson d.data),
  ("ports", Json.arr (d.ports.map portJson).toArray),
  ("cables", Json.arr (d.cables.map cableJson).toArray),
  ("instances", Json.arr (d.insts.map instJson).toArray)]

def libJson (l : CLib) : Json := Json.mkObj [
  ("name", nameJson l.data), ("data", dataToJson l.data),
  ("definitions", Json.arr (l.defs.map defJson).toArray)]

def netlistJson (n : CNetlist) : Json := Json.mkObj [
  ("name", nameJson n.data), ("data", dataToJson n.data),
  ("libraries", Json.arr (n.libs.map libJson).toArray),
  ("top", match n.top with
    | none => Json.null
    | some t => Json.mkObj [("name", nameJson t.data), ("ref", refJson t.ref), ("data", dataToJson t.data),
                            ("child_of", Json.null)])]

def errJson : Err → Json
  | .syntax w => Json.mkObj [("err", "syntax"), ("what", w)]
  | .notImpl w => Json.mkObj [("err", "notimpl"), ("what", w)]
  | .assert w => Json.mkObj [("err", "assert"), ("what", w)]
  | .value w => Json.mkObj [("err", "value"), ("what", w)]
  | .index w => Json.mkObj [("err", "index"), ("what", w)]
  | .unsupported w => Json.mkObj [("err", "unsupported"), ("what", w)]

def tokJson : Tok → Json
  | .lp => "(" | .rp => ")" | .atom s => jstr s

/-! decoding of canon JSON (for the writer) -/

partial def valOfJson : Json → Except String Val
  | .null => pure .null
  | .bool b => pure (.bool b)
  | .num n => if n.exponent == 0 then pure (.int n.mantissa) else throw "non-integer number"
  | .str s => pure (.str s.toList)
  | .arr a => do let xs ← a.toList.mapM valOfJson; pure (.list xs)
  | .obj kv => do
      let xs ← (kv.toList).mapM fun (k, v) => do let v' ← valOfJson v; pure (k.toList, v')
      pure (.obj xs)

def dataOfJson (j : Json) : Except String Data := do
  match ← valOfJson j with
  | .obj kv => pure kv
  | _ => throw "data: expecting object"

def dirOfJson (j : Json) : Except String Dir := do
  match ← j.getStr? with
  | "UNDEFINED" => pure .undefined | "INOUT" => pure .inout | "IN" => pure .inp | "OUT" => pure .out
  | s => throw s!"direction {s}"

def natOf (j : Json) : Except String Nat := j.getNat?

def pinOfJson (j : Json) : Except String CPin := do
  let a ← j.getArr?
  match a.toList with
  | [Json.str "p", p, b] => pure (.port (← natOf p) (← natOf b))
  | [Json.str "i", i, p, b] => pure (.inst (← natOf i) (← natOf p) (← natOf b))
  | _ => throw "pin: foreign or malformed"

def refOfJson (j : Json) : Except String (Option (Nat × Nat)) :=
  match j with
  | .null => pure none
  | _ => do
    let a ← j.getArr?
    match a.toList with
    | [l, d] => do
        match l with
        | .str _ => throw "external reference"
        | _ => pure (some (← natOf l, ← natOf d))
    | _ => throw "ref"

def portOfJson (j : Json) : Except String CPort := do
  let d ← dataOfJson (← j.getObjVal? "data")
  let w ← Spydr.Proto.getNat j "width"
  let sc ← Spydr.Proto.getBool j "scalar"
  pure { data := d, dir := ← dirOfJson (← j.getObjVal? "dir"), width := w, scalarFlag := sc,
         lower := (← Spydr.Proto.getNat j "lower") }

def cableOfJson (j : Json) : Except String CCable := do
  let d ← dataOfJson (← j.getObjVal? "data")
  let ws ← (← Spydr.Proto.getArr j "wires").toList.mapM fun w => do
    (← w.getArr?).toList.mapM pinOfJson
  pure { data := d, scalarFlag := ← Spydr.Proto.getBool j "scalar", lower := ← Spydr.Proto.getNat j "lower", wires := ws }

def instOfJson (j : Json) : Except String CInst := do
  pure { data := ← dataOfJson (← j.getObjVal? "data"), ref := ← refOfJson (← j.getObjVal? "ref") }

def defOfJson (j : Json) : Except String CDef := do
  pure { data := ← dataOfJson (← j.getObjVal? "data"),
         ports := ← (← Spydr.Proto.getArr j "ports").toList.mapM portOfJson,
         cables := ← (← Spydr.Proto.getArr j "cables").toList.mapM cableOfJson,
         insts := ← (← Spydr.Proto.getArr j "instances").toList.mapM instOfJson }

def libOfJson (j : Json) : Except String CLib := do
  pure { data := ← dataOfJson (← j.getObjVal? "data"),
         defs := ← (← Spydr.Proto.getArr j "definitions").toList.mapM defOfJson }

def netlistOfJson (j : Json) : Except String CNetlist := do
  let top ← match j.getObjVal? "top" with
    | .ok .null => pure none
    | .ok t => do let i ← instOfJson t; pure (some i)
    | .error _ => pure none
  pure { data := ← dataOfJson (← j.getObjVal? "data"),
         libs := ← (← Spydr.Proto.getArr j "libraries").toList.mapM libOfJson, top := top }

/-! decoding of abstract designs (for the fragment report of C05) -/

def strOf (j : Json) : Except String Str := do pure (← j.getStr?).toList

def anameOfJson (j : Json) : Except String AName := do
  let a ← j.getArr?
  match a.toList with
  | [i, .null] => pure { ident := ← strOf i, orig := none }
  | [i, o] => pure { ident := ← strOf i, orig := some (← strOf o) }
  | _ => throw "name"

def optNat (j : Json) : Except String (Option Nat) :=
  match j with
  | .null => pure none
  | _ => do pure (some (← j.getNat?))

def apropOfJson (j : Json) : Except String AProp := do
  let nm ← anameOfJson (← j.getObjVal? "name")
  let v ← j.getObjVal? "v"
  match ← Spydr.Proto.getStr j "t" with
  | "s" => pure ⟨nm, .str (← strOf v)⟩
  | "b" => pure ⟨nm, .bool (← v.getBool?)⟩
  | "i" => match v with
    | .num n => if n.exponent == 0 then pure ⟨nm, .int n.mantissa⟩ else throw "non-integer"
    | _ => throw "integer"
  | t => throw s!"property type {t}"

def apinOfJson (j : Json) : Except String APin := do
  match (← j.getArr?).toList with
  | [Json.str "p", pi, b, sp] => pure (.port (← pi.getNat?) (← optNat b) (← strOf sp))
  | [Json.str "i", ii, pi, b, sp, isp] => pure (.inst (← ii.getNat?) (← pi.getNat?) (← optNat b) (← strOf sp) (← strOf isp))
  | _ => throw "pin"

def anetOfJson (j : Json) : Except String ANet := do
  let pins ← (← Spydr.Proto.getArr j "pins").toList.mapM apinOfJson
  match ← Spydr.Proto.getStr j "kind" with
  | "scalar" => pure ⟨.scalar (← anameOfJson (← j.getObjVal? "name")), pins⟩
  | "bit" =>
      let idx ← Spydr.Proto.getNat j "idx"
      let iidx := match j.getObjVal? "iidx" with
        | .ok v => (v.getNat?.toOption).getD idx
        | .error _ => idx
      pure ⟨.bit (← strOf (← j.getObjVal? "bid")) (← strOf (← j.getObjVal? "bname")) idx iidx, pins⟩
  | k => throw s!"net kind {k}"

def acellOfJson (j : Json) : Except String ACell := do
  let ports ← (← Spydr.Proto.getArr j "ports").toList.mapM fun p => do
    pure ({ name := ← anameOfJson (← p.getObjVal? "name"), dir := ← dirOfJson (← p.getObjVal? "dir"),
            array := ← optNat (← p.getObjVal? "array") } : APort)
  let insts ← (← Spydr.Proto.getArr j "insts").toList.mapM fun i => do
    pure ({ name := ← anameOfJson (← i.getObjVal? "name"), li := ← Spydr.Proto.getNat i "li", di := ← Spydr.Proto.getNat i "di",
            viewSp := ← strOf (← i.getObjVal? "vsp"), cellSp := ← strOf (← i.getObjVal? "csp"),
            libSp := ← strOf (← i.getObjVal? "lsp"),
            props := ← (← Spydr.Proto.getArr i "props").toList.mapM apropOfJson,
            libOmit := (match i.getObjVal? "lomit" with | .ok (.bool b) => b | _ => false) } : AInst)
  pure { name := ← anameOfJson (← j.getObjVal? "name"), view := ← strOf (← j.getObjVal? "view"), ports := ports, insts := insts,
         nets := ← (← Spydr.Proto.getArr j "nets").toList.mapM anetOfJson }

def adesignOfJson (j : Json) : Except String ADesign := do
  let libs ← (← Spydr.Proto.getArr j "libs").toList.mapM fun l => do
    pure ({ name := ← anameOfJson (← l.getObjVal? "name"),
            cells := ← (← Spydr.Proto.getArr l "cells").toList.mapM acellOfJson,
            external := (match l.getObjVal? "ext" with | .ok (.bool b) => b | _ => false) } : ALib)
  pure { name := ← anameOfJson (← j.getObjVal? "name"), libs := libs, top := ← anameOfJson (← j.getObjVal? "top"),
         topLi := ← Spydr.Proto.getNat j "tli", topDi := ← Spydr.Proto.getNat j "tdi",
         topCellSp := ← strOf (← j.getObjVal? "tcsp"), topLibSp := ← strOf (← j.getObjVal? "tlsp") }

/-! the view of C05 as JSON (the shape of the harness's view05, without the properties of ports / cells / nets) -/

def optStrJson : Option Str → Json
  | none => Json.null
  | some s => jstr s

def pairJson (n i : Option Str) : Json := Json.arr #[optStrJson n, optStrJson i]

def v05Json (v : V05) : Json := Json.mkObj [
  ("name", pairJson v.name v.ident),
  ("libs", Json.arr (v.libs.map fun l => Json.mkObj [
    ("name", pairJson l.name l.ident), ("external", Json.bool l.external),
    ("cells", Json.arr (l.cells.map fun c => Json.mkObj [
      ("name", pairJson c.name c.ident), ("view", optStrJson c.view),
      ("ports", Json.arr (c.ports.map fun p => Json.mkObj [
        ("name", pairJson p.name p.ident), ("dir", dirJson p.dir), ("width", jnat p.width), ("array", Json.bool p.array)]).toArray),
      ("insts", Json.arr (c.insts.map fun i => Json.mkObj [
        ("name", pairJson i.name i.ident), ("ref", refJson i.ref), ("props", Json.arr (i.props.map valToJson).toArray)]).toArray),
      ("cables", Json.arr (c.cables.map fun cb => Json.mkObj [
        ("name", pairJson cb.name cb.ident), ("array", Json.bool cb.array), ("lower", jnat cb.lower),
        ("wires", Json.arr (cb.wires.map fun w => Json.arr (w.map pinJson).toArray).toArray)]).toArray)]).toArray)]).toArray),
  ("top", match v.top with
    | none => Json.null
    | some t => Json.mkObj [("name", pairJson t.name t.ident), ("ref", refJson t.ref)])]

def clauseJson : Option String → Json
  | none => Json.mkObj [("in", Json.bool true)]
  | some c => Json.mkObj [("in", Json.bool false), ("clause", Json.str c)]

def handle (st : Unit) (j : Json) : Except String (Unit × Json) := do
  let fn ← Spydr.Proto.getStr j "fn"
  match fn with
  | "lex" =>
      let t ← Spydr.Proto.getStr j "text"
      pure (st, Json.arr ((lexE t.toList).map tokJson).toArray)
  | "parse" =>
      let t ← Spydr.Proto.getStr j "text"
      match readEdif t.toList with
      | .ok n => pure (st, Json.mkObj [("ok", netlistJson n)])
      | .error e => pure (st, errJson e)
  | "compose" =>
      let n ← netlistOfJson (← j.getObjVal? "net")
      let ts ← Spydr.Proto.getArr j "ts"
      let tsn ← Spydr.Proto.natList ts
      match toSExp tsn n with
      | .ok e => pure (st, Json.mkObj [("ok", Json.str (String.ofList (layoutE e))), ("clean", Json.bool e.cleanB)])
      | .error e => pure (st, Json.mkObj [("err", Json.str e)])
  | "roundtrip" =>
      -- model reader applied to the model writer's text
      let n ← netlistOfJson (← j.getObjVal? "net")
      match composeE [0,0,0,0,0,0] n with
      | .error e => pure (st, Json.mkObj [("err", Json.str e)])
      | .ok cs =>
        match readEdif cs with
        | .ok n' => pure (st, Json.mkObj [("ok", netlistJson n')])
        | .error e => pure (st, errJson e)
  | "wf03" =>
      -- decidable hypotheses of C03.edif_roundtrip / parse_compose_parse (wfNetClause_sound): first failing clause
      let n ← netlistOfJson (← j.getObjVal? "net")
      pure (st, clauseJson (wfNetClause n))
  | "wf05" =>
      -- decidable hypothesis of C05.edif_reader_spec / _kwcase (wfClause_sound): first failing clause
      let d ← adesignOfJson (← j.getObjVal? "d")
      pure (st, clauseJson (wfClause d))
  | "denote05" =>
      -- the spec side of C05.edif_reader_spec on one abstract design: the text of Lean's own writer, what the design
      -- denotes, and the view of the model reader's result on that text (the theorem says: equal when `wf`)
      let d ← adesignOfJson (← j.getObjVal? "d")
      let text := renderText d
      let model := match readEdif text with
        | .ok n => v05Json (view05 n)
        | .error e => errJson e
      pure (st, Json.mkObj [("wf", Json.bool d.wf), ("text", Json.str (String.ofList text)), ("denote", v05Json (denote d)),
                            ("model", model)])
  | "inside05" =>
      -- is this text inside C05.edif_reader_spec_erased?  `Unr.insideClause` checks the hypotheses of the theorem
      -- (inside_check_sound); when inside: what the abstract design found denotes, and the model's view of the text
      let t ← Spydr.Proto.getStr j "text"
      match readS (lexE t.toList) with
      | none => pure (st, Json.mkObj [("in", Json.bool false), ("clause", Json.str "unbalanced")])
      | some (e, _) =>
        match Unr.insideClause e with
        | some c => pure (st, Json.mkObj [("in", Json.bool false), ("clause", Json.str c)])
        | none =>
          match Unr.unrender (strip e), ofSExp e with
          | .ok d, .ok n =>
            pure (st, Json.mkObj [("in", Json.bool true), ("denote", v05Json (denote d)), ("model", v05Json (view05 n))])
          | _, _ => pure (st, Json.mkObj [("in", Json.bool false), ("clause", Json.str "internal")])
  | _ => throw s!"unknown fn {fn}"

end Spydr.Edif.Drv

def main : IO Unit := Spydr.Proto.run Spydr.Edif.Drv.handle ()
