/-
  drv_hier — JSON line driver over the Hier model (C11, C12).
  Requests:
    {"load": <design>}                         -> {"ok":true,"wf":b,"wfnet":b,"sorted":b}
    {"q": [ <query>, ... ]}                    -> {"r": [ <answer>, ... ]}
  Queries (against the loaded design):
    {"f":"hinst"|"hport"|"hpin"|"hcable"|"hwire","root":R,"rec":b,"sel":"I"|"O"|"B"|"A"} -> {"v":[[..]..],"fin":b}
    {"f":"hrefs","root":R}      -> {"v":[[..]..],"fin":b}
    {"f":"valid","h":[..]}      -> {"v":b}
    {"f":"unique","h":[..]}     -> {"v":b,"fin":b}
    {"f":"name","h":[..]}       -> {"v":"..."}
    {"f":"succ","h":[..]}       -> {"v":[[..]..]}            (traceSucc)
    {"f":"intern","hs":[[..]..]}-> {"v":[n,...]}             (flyweight model, fresh table)
    {"f":"eq","a":[..],"b":[..]}-> {"v":b}
    {"f":"frag","q":"hinst"|..,"root":R,"sel":..} -> {"v":[[theorem,"in"|"out:<hyp>"],..]}   (reach of theorems)
    {"f":"fragref","h":[..]}                      -> {"v":[[theorem,verdict],..]}
-/
import Spydr.Common.Proto
import Spydr.Hier.Model
import Spydr.Hier.Spec
import Spydr.Hier.Frag

open Lean Spydr.Proto Spydr.Hier

namespace Spydr.Hier.Drv

def getInt (j : Json) (k : String) : Except String Int := do
  let v ← j.getObjVal? k
  v.getInt?

def decPinRef (j : Json) : Except String PinRef := do
  let a ← j.getArr?
  match a.toList with
  | [t, q] =>
    let _ ← t.getStr?
    pure (.inner (← q.getNat?))
  | [_, c, q] => pure (.outer (← c.getNat?) (← q.getNat?))
  | _ => throw "bad pinref"

def decPort (j : Json) : Except String Port := do
  pure { id := ← getNat j "id", name := ← getStr j "name", isArray := ← getBool j "arr",
         lower := ← getInt j "lower", pins := ← natList (← getArr j "pins") }

def decWire (j : Json) : Except String Wire := do
  pure { id := ← getNat j "id", pins := ← (← getArr j "pins").toList.mapM decPinRef }

def decCable (j : Json) : Except String Cable := do
  pure { id := ← getNat j "id", name := ← getStr j "name", isArray := ← getBool j "arr",
         lower := ← getInt j "lower", wires := ← (← getArr j "wires").toList.mapM decWire }

def decInst (j : Json) : Except String Inst := do
  pure { id := ← getNat j "id", name := ← getStr j "name", ref := ← getOptNat j "ref" }

def decDefn (j : Json) : Except String Defn := do
  pure { ports := ← (← getArr j "ports").toList.mapM decPort,
         cables := ← (← getArr j "cables").toList.mapM decCable,
         children := ← (← getArr j "children").toList.mapM decInst,
         inNl := ← getBool j "inNl" }

def decDesign (j : Json) : Except String Design := do
  let defs ← (← getArr j "defs").toList.mapM decDefn
  let top ← match j.getObjVal? "top" with
    | .ok .null => pure none
    | .ok t => do pure (some (← decInst t))
    | .error _ => pure none
  pure { defs := defs, top := top }

def decRoot (j : Json) : Except String Root := do
  let k ← getStr j "k"
  match k with
  | "netlist" => pure .netlist
  | "lib" => pure (.library (← natList (← getArr j "defs")))
  | "def" => pure (.definition (← getNat j "d"))
  | "inst" => pure (.instance (← getNat j "id"))
  | "port" => pure (.port (← getNat j "id"))
  | "cable" => pure (.cable (← getNat j "id"))
  | "ipin" => pure (.innerPin (← getNat j "id"))
  | "opin" => pure (.outerPin (← getNat j "inst") (← getNat j "pin"))
  | "wire" => pure (.wire (← getNat j "id"))
  | "href" => pure (.href (← natList (← getArr j "h")))
  | _ => throw s!"bad root kind {k}"

def decSel (j : Json) : Sel :=
  match j.getObjVal? "sel" with
  | .ok (.str "O") => .outside
  | .ok (.str "B") => .both
  | .ok (.str "A") => .all
  | _ => .inside

def ofPaths (l : List HRef) : Json := Json.arr (l.map ofNatList).toArray

def answer (d : Design) (q : Json) : Except String Json := do
  let f ← getStr q "f"
  let pathsFin (r : List HRef × Bool) : Json := Json.mkObj [("v", ofPaths r.1), ("fin", Json.bool r.2)]
  match f with
  | "hinst" => pure (pathsFin (getHInstances d (← decRoot (← q.getObjVal? "root")) (← getBool q "rec")))
  | "hport" => pure (pathsFin (getHPorts d (← decRoot (← q.getObjVal? "root")) (← getBool q "rec")))
  | "hpin" => pure (pathsFin (getHPins d (← decRoot (← q.getObjVal? "root")) (← getBool q "rec")))
  | "hcable" => pure (pathsFin (getHCables d (← decRoot (← q.getObjVal? "root")) (← getBool q "rec") (decSel q)))
  | "hwire" => pure (pathsFin (getHWires d (← decRoot (← q.getObjVal? "root")) (← getBool q "rec") (decSel q)))
  | "hrefs" => pure (pathsFin (hrefsOfItem d (← decRoot (← q.getObjVal? "root"))))
  | "valid" => pure (Json.mkObj [("v", Json.bool (isValid d (← natList (← getArr q "h"))))])
  | "unique" =>
    let r := isUnique d (← natList (← getArr q "h"))
    pure (Json.mkObj [("v", Json.bool r.1), ("fin", Json.bool r.2)])
  | "name" => pure (Json.mkObj [("v", Json.str (hrefName d (← natList (← getArr q "h"))))])
  | "succ" => pure (Json.mkObj [("v", ofPaths (traceSucc d (← natList (← getArr q "h"))))])
  | "intern" =>
    let hs ← (← getArr q "hs").toList.mapM (fun j => do natList (← j.getArr?))
    let step (acc : Fly × List Nat) (h : HRef) : Fly × List Nat :=
      let r := acc.1.intern h
      (r.1, r.2 :: acc.2)
    let r := hs.foldl step (Fly.empty, [])
    pure (Json.mkObj [("v", ofNatList r.2.reverse)])
  | "eq" => pure (Json.mkObj [("v", Json.bool (hrefEq (← natList (← getArr q "a")) (← natList (← getArr q "b"))))])
  | _ => throw s!"unknown query {f}"

def ofPairs (l : List (String × String)) : Json :=
  Json.arr (l.map (fun p => Json.arr #[Json.str p.1, Json.str p.2])).toArray

/-- reach bookkeeping: which theorems speak about this case, and is the case inside their fragment -/
def answerSt (st : Design × Flags) (q : Json) : Except String Json := do
  let f ← getStr q "f"
  match f with
  | "frag" =>
    pure (Json.mkObj [("v", ofPairs (fragOfQuery st.1 st.2 (← getStr q "q") (← decRoot (← q.getObjVal? "root")) (decSel q)))])
  | "fragref" => pure (Json.mkObj [("v", ofPairs (fragOfRef st.1 st.2 (← natList (← getArr q "h"))))])
  | _ => answer st.1 q

def handle (st : Design × Flags) (j : Json) : Except String ((Design × Flags) × Json) :=
  match j.getObjVal? "load" with
  | .ok dj => do
    let d ← decDesign dj
    let fl := Flags.of d
    pure ((d, fl), Json.mkObj [("ok", Json.bool true), ("wf", Json.bool fl.wf), ("wfnet", Json.bool fl.wfnet), ("sorted", Json.bool fl.sorted)])
  | .error _ => do
    let qs ← getArr j "q"
    let rs ← qs.toList.mapM (answerSt st)
    pure (st, Json.mkObj [("r", Json.arr rs.toArray)])

end Spydr.Hier.Drv

def main : IO Unit :=
  Spydr.Proto.run Spydr.Hier.Drv.handle ((({ defs := [], top := none } : Spydr.Hier.Design)), (⟨true, true, true⟩ : Spydr.Hier.Flags))
