/-
  drv_io — JSON line driver over the io engine's models (C15, C16).
  Requests:
    {"fn":"traj","policy0":"DEFAULT"|"EDIF","unrepaired":bool,
     "ops":[{"op":"parse","fmt":"edif"|"verilog"|"eblif","fails":bool}|{"op":"create"}|{"op":"set","policy":..}]}
      -> {"traj":[policy after each op],"created":[policy seen by each create],"clean":bool}
-/
import Spydr.Common.Proto
import Spydr.IO.ModelRead
import Spydr.IO.SpecRead
import Spydr.IO.ModelTopo
import Spydr.IO.SpecTopo
import Spydr.IO.ModelEdifify
import Spydr.IO.SpecEdifify
import Spydr.IO.ModelResolve
import Spydr.IO.SpecResolve
open Lean Spydr.Proto Spydr.IO

namespace DrvIO

def polOfStr : String → Except String Policy
  | "DEFAULT" => .ok .default
  | "EDIF" => .ok .edif
  | s => .error s!"bad policy {s}"

def strOfPol : Policy → String
  | .default => "DEFAULT"
  | .edif => "EDIF"

def fmtOfStr : String → Except String Fmt
  | "edif" => .ok .edif
  | "verilog" => .ok .verilog
  | "eblif" => .ok .eblif
  | s => .error s!"bad fmt {s}"

def decodeOp (j : Json) : Except String (Op Bool) := do
  let k ← getStr j "op"
  match k with
  | "parse" => do
      let f ← fmtOfStr (← getStr j "fmt")
      let b ← getBool j "fails"
      pure (.parse f b)
  | "create" => pure .create
  | "set" => do pure (.setPolicy (← polOfStr (← getStr j "policy")))
  | s => .error s!"bad op {s}"

/-- the parse body the driver runs: counts calls in `rest`, fails when told to -/
def body : Fmt → Bool → Call Nat String Policy := fun _ fails s =>
  ({ s with rest := s.rest + 1 }, if fails then .error "rejected" else .ok s.policy)

def handleTraj (j : Json) : Except String Json := do
  let p0 ← polOfStr (← getStr j "policy0")
  let unrep := (getBool j "unrepaired").toOption.getD false
  let ops ← (← getArr j "ops").toList.mapM decodeOp
  let rd : Fmt → Call Nat String Policy → Call Nat String Policy := if unrep then readUnrepaired else read
  let s0 : Proc Nat := ⟨p0, 0⟩
  let tr := trajectory rd body s0 ops
  let obs := (run rd body s0 ops).2
  let clean := trajectoryClean p0 (ops.zip tr)
  pure (Json.mkObj [("traj", ofStrList (tr.map strOfPol)),
                    ("created", ofStrList ((createdOf obs).map strOfPol)),
                    ("clean", Json.bool clean)])

/-- index of the first call after which the observed policy is not what the Spec allows -/
def firstBad : Policy → List (Op Bool × Policy) → Nat → Option Nat
  | _, [], _ => none
  | p, (o, q) :: r, k =>
    let ok := match o with
      | .parse _ _ => p == q
      | .create => p == q
      | .setPolicy x => x == q
    if ok then firstBad q r (k + 1) else some k

def handleClean (j : Json) : Except String Json := do
  let p0 ← polOfStr (← getStr j "policy0")
  let ops ← (← getArr j "ops").toList.mapM decodeOp
  let tr ← (← strList (← getArr j "traj")).mapM polOfStr
  if tr.length != ops.length then .error "traj/ops length mismatch" else
  let z := ops.zip tr
  pure (Json.mkObj [("clean", Json.bool (trajectoryClean p0 z)), ("first_bad", ofOptNat (firstBad p0 z 0))])

/-! ## C16 -/

/-- `[[id,[dep,...]],...]` -> lookup function (absent id: no dependencies) -/
def decodeDeps (a : Array Json) : Except String (Nat → List Nat) := do
  let tbl ← a.toList.mapM (fun e => do
    let p ← e.getArr?
    if p.size != 2 then throw "deps entry must be [id,[..]]"
    let k ← p[0]!.getNat?
    let v ← natList (← p[1]!.getArr?)
    pure (k, v))
  pure (fun x => ((tbl.find? (fun kv => kv.1 == x)).map (·.2)).getD [])

def handleTopo (j : Json) : Except String Json := do
  let input ← natList (← getArr j "input")
  let deps ← decodeDeps (← getArr j "deps")
  let fuel := (← getOptNat j "fuel").getD (Topo.fuelFor deps input)
  let r := Topo.toposort deps fuel input
  pure (Json.mkObj [("out", ofNatList r.1), ("finished", Json.bool r.2), ("fuel", Json.num (JsonNumber.fromNat fuel))])

def handleTopoOrder (j : Json) : Except String Json := do
  let input ← natList (← getArr j "input")
  let deps ← decodeDeps (← getArr j "deps")
  let order ← natList (← getArr j "order")
  pure (Json.mkObj [("ok", Json.bool (Topo.topoOrderB deps input order)),
                    ("perm", Json.bool (order.isPerm input)),
                    ("depOrdered", Json.bool (Topo.depOrderedB deps order))])

def decodeData (j : Json) : Except String Data := do
  (← j.getArr?).toList.mapM (fun e => do
    let p ← e.getArr?
    if p.size != 2 then throw "data entry must be [k,v]"
    pure (← p[0]!.getStr?, ← p[1]!.getStr?))

def decodeElem (j : Json) : Except String Elem := do
  pure ⟨← getStr j "name", ← decodeData (← j.getObjVal? "data"), ← getStr j "extra"⟩

def decodeElems (j : Json) (k : String) : Except String (List Elem) := do
  (← getArr j k).toList.mapM decodeElem

def decodeDef (j : Json) : Except String EDef := do
  pure ⟨← getNat j "id", ← decodeElem (← j.getObjVal? "self"), ← decodeElems j "ports",
        ← decodeElems j "cables", ← decodeElems j "insts"⟩

def decodeLib (j : Json) : Except String ELib := do
  pure ⟨← getNat j "id", ← decodeElem (← j.getObjVal? "self"), ← (← getArr j "defs").toList.mapM decodeDef⟩

def decodeNet (j : Json) : Except String ENet := do
  let name := match j.getObjVal? "name" with
    | .ok (.str s) => some s
    | _ => none
  pure ⟨name, ← decodeData (← j.getObjVal? "data"), ← decodeElem (← j.getObjVal? "top"),
        ← (← getArr j "libs").toList.mapM decodeLib⟩

def encData (d : Data) : Json := Json.arr (d.map (fun kv => Json.arr #[Json.str kv.1, Json.str kv.2])).toArray
def encElem (e : Elem) : Json := Json.mkObj [("name", Json.str e.name), ("data", encData e.data), ("extra", Json.str e.extra)]
def encElems (l : List Elem) : Json := Json.arr (l.map encElem).toArray
def encDef (d : EDef) : Json :=
  Json.mkObj [("id", Json.num (JsonNumber.fromNat d.id)), ("self", encElem d.self), ("ports", encElems d.ports),
              ("cables", encElems d.cables), ("insts", encElems d.insts)]
def encLib (l : ELib) : Json :=
  Json.mkObj [("id", Json.num (JsonNumber.fromNat l.id)), ("self", encElem l.self), ("defs", Json.arr (l.defs.map encDef).toArray)]
def encNet (n : ENet) : Json :=
  Json.mkObj [("name", match n.name with | some s => Json.str s | none => Json.null), ("data", encData n.data),
              ("top", encElem n.top), ("libs", Json.arr (n.libs.map encLib).toArray)]

/-- P for EDIF on the implementation: `DocEq after before` (executable form, proved sound) -/
def handleDocEq (j : Json) : Except String Json := do
  let a ← decodeNet (← j.getObjVal? "a")
  let b ← decodeNet (← j.getObjVal? "b")
  pure (Json.mkObj [("ok", Json.bool (docEqB a b)), ("equal", Json.bool (a == b))])

/-- the identifier oracle: the harness labels every element in the first field of `extra`
    (`label|...`) and sends the identifiers the implementation chose as `[[label, ident],...]` -/
def labelOf (extra : String) : String := (extra.splitOn "|").headD ""

/-- the decidable hypotheses of `edifify_documented_only` / `edifify_idem` / `compose_repeatable`
    evaluated on this very netlist and these oracles: "in" or the name of the first one that fails.
    (`NoSelf` is checked on the identities that occur; the oracle tables are empty elsewhere.) -/
def firstFailingHyp (depL : Nat → List Nat) (depD : Nat → Nat → List Nat) (fuel : Nat) (n : ENet) (fin : Bool) : String :=
  let ids := n.libs.map (·.id)
  let closed (deps : Nat → List Nat) (input : List Nat) : Bool := input.all (fun x => (deps x).all (fun d => input.contains d))
  let noSelf (deps : Nat → List Nat) (input : List Nat) : Bool := input.all (fun x => !(deps x).contains x)
  let nodup (l : List Nat) : Bool := l.eraseDups.length == l.length
  if !nodup ids then "EdifHyp.libIds"
  else if !noSelf depL ids then "EdifHyp.libNoSelf"
  else if !closed depL ids then "EdifHyp.libClosed"
  else if !n.libs.all (fun l => nodup (l.defs.map (·.id))) then "EdifHyp.defIds"
  else if !n.libs.all (fun l => noSelf (depD l.id) (l.defs.map (·.id))) then "EdifHyp.defNoSelf"
  else if !n.libs.all (fun l => closed (depD l.id) (l.defs.map (·.id))) then "EdifHyp.defClosed"
  else if !fin then "hfin"
  else if !(2 * n.libs.length ≤ fuel) then "hfuelL"
  else if !n.libs.all (fun l => 2 * l.defs.length ≤ fuel) then "hfuelD"
  else "in"

def handleEdifify (j : Json) : Except String Json := do
  let n ← decodeNet (← j.getObjVal? "net")
  let depL ← decodeDeps (← getArr j "depL")
  let dd ← (← getArr j "depD").toList.mapM (fun e => do
    let p ← e.getArr?
    if p.size != 2 then throw "depD entry must be [libid, deps]"
    pure (← p[0]!.getNat?, ← decodeDeps (← p[1]!.getArr?)))
  let depD : Nat → Nat → List Nat := fun l => ((dd.find? (fun kv => kv.1 == l)).map (·.2)).getD (fun _ => [])
  let ids ← (← getArr j "ids").toList.mapM (fun e => do
    let p ← e.getArr?
    if p.size != 2 then throw "ids entry must be [label, ident]"
    pure (← p[0]!.getStr?, ← p[1]!.getStr?))
  let mkId : MkId := fun e _ => ((ids.find? (fun kv => kv.1 == labelOf e.extra)).map (·.2)).getD "?"
  let szD := (n.libs.map (fun l => Topo.fuelFor (depD l.id) (l.defs.map (·.id)))).foldl max 0
  let fuel := (← getOptNat j "fuel").getD (max (Topo.fuelFor depL (n.libs.map (·.id))) szD)
  let r := edifify depL depD mkId fuel n
  -- second pre-pass on the result (repeatability in the model)
  let r2 := edifify depL depD mkId fuel r.1
  pure (Json.mkObj [("net", encNet r.1), ("finished", Json.bool r.2), ("second_identity", Json.bool (r2.1 == r.1 && r2.2)),
                    ("docEq", Json.bool (docEqB r.1 n)), ("hyp", Json.str (firstFailingHyp depL depD fuel n r.2))])

/-! ## C15: EDIF reference resolution -/

def optStr (j : Json) (k : String) : Option String :=
  match j.getObjVal? k with
  | .ok (.str s) => some s
  | _ => none

def decodeEv (j : Json) : Except String Resolve.Ev := do
  let k ← getStr j "e"
  match k with
  | "lib" => do pure (.lib (← getStr j "id"))
  | "endLib" => pure .endLib
  | "cell" => do
      let ps ← (← getArr j "ports").toList.mapM (fun e => do
        let p ← e.getArr?
        if p.size != 2 then throw "port must be [ident,width]"
        pure (⟨← p[0]!.getStr?, ← p[1]!.getNat?⟩ : Resolve.PortDecl))
      pure (.cell (← getStr j "id") (← getStr j "view") ps)
  | "endCell" => pure .endCell
  | "inst" => do pure (.inst (← getStr j "id") (← getStr j "view") (optStr j "cell") (optStr j "lib"))
  | "portRef" => do pure (.portRef (← getStr j "port") (← getOptNat j "member") (optStr j "inst"))
  | "design" => do pure (.design (← getStr j "cell") (← getStr j "lib"))
  | s => .error s!"bad event {s}"

def encRRef : Resolve.RRef → Json
  | .cell d => Json.mkObj [("k", Json.str "cell"), ("at", Json.num (JsonNumber.fromNat d))]
  | .pin c p b ia => Json.mkObj [("k", Json.str "pin"), ("cell", Json.num (JsonNumber.fromNat c)),
      ("port", Json.num (JsonNumber.fromNat p)), ("bit", Json.num (JsonNumber.fromNat b)), ("inst", ofOptNat ia)]
  | .top d => Json.mkObj [("k", Json.str "top"), ("at", Json.num (JsonNumber.fromNat d))]

def handleResolve (j : Json) : Except String Json := do
  let evs ← (← getArr j "events").toList.mapM decodeEv
  let und := Resolve.hasUndeclared evs
  match Resolve.resolve evs with
  | .error e => pure (Json.mkObj [("ok", Json.bool false), ("err", Json.str (reprStr e)), ("undeclared", Json.bool und)])
  | .ok rs => pure (Json.mkObj [("ok", Json.bool true), ("undeclared", Json.bool und),
      ("refs", Json.arr (rs.map (fun kr => Json.arr #[Json.num (JsonNumber.fromNat kr.1), encRRef kr.2])).toArray)])

def handle (st : Unit) (j : Json) : Except String (Unit × Json) := do
  let fn ← getStr j "fn"
  match fn with
  | "traj" => do pure (st, ← handleTraj j)
  | "clean" => do pure (st, ← handleClean j)
  | "resolve" => do pure (st, ← handleResolve j)
  | "topo" => do pure (st, ← handleTopo j)
  | "topoOrder" => do pure (st, ← handleTopoOrder j)
  | "docEq" => do pure (st, ← handleDocEq j)
  | "edifify" => do pure (st, ← handleEdifify j)
  | "ping" => pure (st, Json.mkObj [("pong", Json.bool true)])
  | s => .error s!"unknown fn {s}"

end DrvIO

def main : IO Unit := Spydr.Proto.run DrvIO.handle ()
