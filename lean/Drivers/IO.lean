/-
  drv_io — JSON line driver over the io engine's models (C15, C16).
  Requests:
    {"fn":"traj","policy0":"DEFAULT"|"EDIF","unrepaired":bool,
     "ops":[{"op":"parse","fmt":"edif"|"verilog"|"eblif","fails":bool}|{"op":"create"}|{"op":"set","policy":..}]}
      -> {"traj":[policy after each op],"created":[policy seen by each create],"clean":bool}
-/
import Spydr.Common.Proto
import Spydr.IO.ModelRead
import Spydr.IO.SpecRead
open Lean Spydr.Proto Spydr.IO

namespace DrvIO

def polOfStr : String → Except String Policy
  | "DEFAULT" => .ok .default
  | "EDIF" => .ok .edif
  | s => .error s!"bad policy {s}"

def strOfPol : Policy → String
  | .default => "DEFAULT"
  | .edif => "EDIF"

def fmtOfStr : String → Except String Fmt
  | "edif" => .ok .edif
  | "verilog" => .ok .verilog
  | "eblif" => .ok .eblif
  | s => .error s!"bad fmt {s}"

def decodeOp (j : Json) : Except String (Op Bool) := do
  let k ← getStr j "op"
  match k with
  | "parse" => do
      let f ← fmtOfStr (← getStr j "fmt")
      let b ← getBool j "fails"
      pure (.parse f b)
  | "create" => pure .create
  | "set" => do pure (.setPolicy (← polOfStr (← getStr j "policy")))
  | s => .error s!"bad op {s}"

/-- the parse body the driver runs: counts calls in `rest`, fails when told to -/
def body : Fmt → Bool → Call Nat String Policy := fun _ fails s =>
  ({ s with rest := s.rest + 1 }, if fails then .error "rejected" else .ok s.policy)

def handleTraj (j : Json) : Except String Json := do
  let p0 ← polOfStr (← getStr j "policy0")
  let unrep := (getBool j "unrepaired").toOption.getD false
  let ops ← (← getArr j "ops").toList.mapM decodeOp
  let rd : Fmt → Call Nat String Policy → Call Nat String Policy := if unrep then readUnrepaired else read
  let s0 : Proc Nat := ⟨p0, 0⟩
  let tr := trajectory rd body s0 ops
  let obs := (run rd body s0 ops).2
  let clean := trajectoryClean p0 (ops.zip tr)
  pure (Json.mkObj [("traj", ofStrList (tr.map strOfPol)),
                    ("created", ofStrList ((createdOf obs).map strOfPol)),
                    ("clean", Json.bool clean)])

/-- index of the first call after which the observed policy is not what the Spec allows -/
def firstBad : Policy → List (Op Bool × Policy) → Nat → Option Nat
  | _, [], _ => none
  | p, (o, q) :: r, k =>
    let ok := match o with
      | .parse _ _ => p == q
      | .create => p == q
      | .setPolicy x => x == q
    if ok then firstBad q r (k + 1) else some k

def handleClean (j : Json) : Except String Json := do
  let p0 ← polOfStr (← getStr j "policy0")
  let ops ← (← getArr j "ops").toList.mapM decodeOp
  let tr ← (← strList (← getArr j "traj")).mapM polOfStr
  if tr.length != ops.length then .error "traj/ops length mismatch" else
  let z := ops.zip tr
  pure (Json.mkObj [("clean", Json.bool (trajectoryClean p0 z)), ("first_bad", ofOptNat (firstBad p0 z 0))])

def handle (st : Unit) (j : Json) : Except String (Unit × Json) := do
  let fn ← getStr j "fn"
  match fn with
  | "traj" => do pure (st, ← handleTraj j)
  | "clean" => do pure (st, ← handleClean j)
  | "ping" => pure (st, Json.mkObj [("pong", Json.bool true)])
  | s => .error s!"unknown fn {s}"

end DrvIO

def main : IO Unit := Spydr.Proto.run DrvIO.handle ()
