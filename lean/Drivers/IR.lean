import Spydr.Common.Proto
import Spydr.IR.Model
import Spydr.IR.NamesModel
import Spydr.IR.Events
import Spydr.IR.Clone
import Spydr.IR.CloneElem
open Lean Spydr.Proto Spydr.IR

def getOptInt (j : Json) (k : String) : Except String (Option Int) :=
  match j.getObjVal? k with
  | .error _ => .ok none
  | .ok .null => .ok none
  | .ok v => do let n ← v.getInt?; pure (some n)

def pinRefOf (j : Json) : Except String PinRef := do
  let a ← j.getArr?
  let tag ← (a[0]?.getD Json.null).getStr?
  if tag == "i" then
    let q ← (a[1]?.getD Json.null).getNat?
    pure (.inner q)
  else if tag == "o" then
    let i ← (a[1]?.getD Json.null).getNat?
    let q ← (a[2]?.getD Json.null).getNat?
    pure (.outer i q)
  else throw "bad pinref"

def pinRefs (j : Json) (k : String) : Except String (List PinRef) := do
  let a ← getArr j k
  a.toList.mapM pinRefOf

def nats (j : Json) (k : String) : Except String (List Nat) := do
  let a ← getArr j k
  natList a

def getVeto (j : Json) : Bool :=
  match j.getObjVal? "veto" with
  | .ok (.bool b) => b
  | _ => false

def opOf (j : Json) : Except String Op := do
  let t ← getStr j "t"
  match t with
  | "addLibrary" => pure (.addLibrary (← getNat j "n") (← getNat j "l") (← getOptInt j "pos") (getVeto j))
  | "removeLibrary" => pure (.removeLibrary (← getNat j "n") (← getNat j "l"))
  | "removeLibrariesFrom" => pure (.removeLibrariesFrom (← getNat j "n") (← nats j "xs"))
  | "setLibraries" => pure (.setLibraries (← getNat j "n") (← nats j "xs"))
  | "addDefinition" => pure (.addDefinition (← getNat j "l") (← getNat j "d") (← getOptInt j "pos") (getVeto j))
  | "removeDefinition" => pure (.removeDefinition (← getNat j "l") (← getNat j "d"))
  | "removeDefinitionsFrom" => pure (.removeDefinitionsFrom (← getNat j "l") (← nats j "xs"))
  | "setDefinitions" => pure (.setDefinitions (← getNat j "l") (← nats j "xs"))
  | "addPort" => pure (.addPort (← getNat j "d") (← getNat j "p") (← getOptInt j "pos") (getVeto j))
  | "removePort" => pure (.removePort (← getNat j "d") (← getNat j "p"))
  | "removePortsFrom" => pure (.removePortsFrom (← getNat j "d") (← nats j "xs"))
  | "setPorts" => pure (.setPorts (← getNat j "d") (← nats j "xs"))
  | "addCable" => pure (.addCable (← getNat j "d") (← getNat j "c") (← getOptInt j "pos") (getVeto j))
  | "removeCable" => pure (.removeCable (← getNat j "d") (← getNat j "c"))
  | "removeCablesFrom" => pure (.removeCablesFrom (← getNat j "d") (← nats j "xs"))
  | "setCables" => pure (.setCables (← getNat j "d") (← nats j "xs"))
  | "addChild" => pure (.addChild (← getNat j "d") (← getNat j "i") (← getOptInt j "pos") (getVeto j))
  | "removeChild" => pure (.removeChild (← getNat j "d") (← getNat j "i"))
  | "removeChildrenFrom" => pure (.removeChildrenFrom (← getNat j "d") (← nats j "xs"))
  | "setChildren" => pure (.setChildren (← getNat j "d") (← nats j "xs"))
  | "createChild" => pure (.createChild (← getNat j "d") (← getNat j "i") (← getOptNat j "ref") (getVeto j))
  | "addPin" => pure (.addPin (← getNat j "p") (← getNat j "q") (← getOptInt j "pos"))
  | "removePin" => pure (.removePin (← getNat j "p") (← getNat j "q"))
  | "removePinsFrom" => pure (.removePinsFrom (← getNat j "p") (← nats j "xs"))
  | "setPins" => pure (.setPins (← getNat j "p") (← nats j "xs"))
  | "addWire" => pure (.addWire (← getNat j "c") (← getNat j "w") (← getOptInt j "pos"))
  | "removeWire" => pure (.removeWire (← getNat j "c") (← getNat j "w"))
  | "removeWiresFrom" => pure (.removeWiresFrom (← getNat j "c") (← nats j "xs"))
  | "setWires" => pure (.setWires (← getNat j "c") (← nats j "xs"))
  | "connectInner" => pure (.connectInner (← getNat j "w") (← getNat j "q") (← getOptInt j "pos"))
  | "connectOuter" => pure (.connectOuter (← getNat j "w") (← getNat j "i") (← getNat j "q") (← getOptInt j "pos"))
  | "disconnect" => pure (.disconnect (← getNat j "w") (← pinRefOf (← j.getObjVal? "r")))
  | "disconnectFrom" => pure (.disconnectFrom (← getNat j "w") (← pinRefs j "rs"))
  | "setWirePins" => pure (.setWirePins (← getNat j "w") (← pinRefs j "rs"))
  | "setRef" => pure (.setRef (← getNat j "i") (← getOptNat j "d"))
  | "setTop" => pure (.setTop (← getNat j "n") (← getOptNat j "i"))
  | "setTopDef" => pure (.setTopDef (← getNat j "n") (← getNat j "d") (← getNat j "i"))
  | _ => throw s!"unknown op {t}"

def resStr : Res → String
  | .ok => "ok" | .assert => "assert" | .value => "value"

def jn (n : Nat) : Json := Json.num (JsonNumber.fromNat n)
def jPin : PinRef → Json
  | .inner q => Json.arr #[Json.str "i", jn q]
  | .outer i q => Json.arr #[Json.str "o", jn i, jn q]

def tab (n : Nat) (f : Nat → Json) : Json := Json.arr ((List.range n).map f).toArray

def countOf (j : Json) (k : String) : Nat :=
  match getNat j k with
  | .ok n => n
  | .error _ => 0

/-- Full dump of the model state for ids below the given per-class counts. -/
def dump (s : S) (c : Json) : Json :=
  let nN := countOf c "netlist"; let nL := countOf c "library"; let nD := countOf c "definition"
  let nP := countOf c "port"; let nC := countOf c "cable"; let nI := countOf c "instance"
  let nQ := countOf c "pin"; let nW := countOf c "wire"
  Json.mkObj [
    ("netlist", tab nN fun n => Json.mkObj [("libs", ofNatList (s.libs n)), ("top", ofOptNat (s.top n))]),
    ("library", tab nL fun l => Json.mkObj [("nl", ofOptNat (s.libNl l)), ("defs", ofNatList (s.defs l))]),
    ("definition", tab nD fun d => Json.mkObj [("lib", ofOptNat (s.defLib d)), ("ports", ofNatList (s.ports d)),
        ("cables", ofNatList (s.cables d)), ("children", ofNatList (s.children d)),
        ("refs", ofNatList ((List.range nI).filter (fun i => s.refs d i)))]),
    ("port", tab nP fun p => Json.mkObj [("def", ofOptNat (s.portDef p)), ("pins", ofNatList (s.pins p))]),
    ("cable", tab nC fun c => Json.mkObj [("def", ofOptNat (s.cableDef c)), ("wires", ofNatList (s.wires c))]),
    ("instance", tab nI fun i => Json.mkObj [("parent", ofOptNat (s.instParent i)), ("ref", ofOptNat (s.instRef i)),
        ("pins", Json.arr ((s.instPins i).map (fun q => Json.arr #[jn q, ofOptNat (s.opWire i q)])).toArray)]),
    ("pin", tab nQ fun q => Json.mkObj [("port", ofOptNat (s.pinPort q)), ("wire", ofOptNat (s.pinWire q))]),
    ("wire", tab nW fun w => Json.mkObj [("cable", ofOptNat (s.wireCable w)), ("pins", Json.arr ((s.wirePins w).map jPin).toArray)])]

namespace NamesDrv
open Spydr.Names

def kindOf : String → Except String Kind
  | "netlist" => pure .netlist | "library" => pure .library | "definition" => pure .definition
  | "port" => pure .port | "cable" => pure .cable | "instance" => pure .instance
  | k => throw s!"bad kind {k}"

def kindStr : Kind → String
  | .netlist => "netlist" | .library => "library" | .definition => "definition"
  | .port => "port" | .cable => "cable" | .instance => "instance"

def elOf (j : Json) : Except String El := do
  let a ← j.getArr?
  let k ← kindOf (← (a[0]?.getD Json.null).getStr?)
  let n ← (a[1]?.getD Json.null).getNat?
  pure ⟨k, n⟩

def jEl (e : El) : Json := Json.arr #[Json.str (kindStr e.kind), jn e.id]
def jOptEl : Option El → Json
  | none => Json.null
  | some e => jEl e
def jOptStr : Option String → Json
  | none => Json.null
  | some s => Json.str s

def polOf : String → Except String Policy
  | "DEFAULT" => pure .default | "EDIF" => pure .edif | p => throw s!"bad policy {p}"
def polStr : Policy → String
  | .default => "DEFAULT" | .edif => "EDIF"
def keyOf : String → Except String Key
  | "name" => pure .name | "ident" => pure .ident | k => throw s!"bad key {k}"

def nopOf (j : Json) : Except String Spydr.Names.Op := do
  let t ← getStr j "t"
  match t with
  | "create" => pure (.create (← elOf (← j.getObjVal? "e")))
  | "attach" => pure (.attach (← elOf (← j.getObjVal? "p")) (← elOf (← j.getObjVal? "c")))
  | "detach" => pure (.detach (← elOf (← j.getObjVal? "p")) (← elOf (← j.getObjVal? "c")))
  | "setKey" => pure (.setKey (← elOf (← j.getObjVal? "e")) (← keyOf (← getStr j "k")) (← getStr j "v"))
  | "delKey" => pure (.delKey (← elOf (← j.getObjVal? "e")) (← keyOf (← getStr j "k")))
  | "popKey" => pure (.popKey (← elOf (← j.getObjVal? "e")) (← keyOf (← getStr j "k")))
  | "delNameProp" => pure (.delNameProp (← elOf (← j.getObjVal? "e")))
  | "setNs" => pure (.setNs (← elOf (← j.getObjVal? "e")) (← polOf (← getStr j "pol")))
  | "delNs" => pure (.delNs (← elOf (← j.getObjVal? "e")))
  | "setDefault" => pure (.setDefault (← polOf (← getStr j "pol")))
  | "createIn" =>
    let nm := match j.getObjVal? "name" with | .ok (.str v) => some v | _ => none
    let idt := match j.getObjVal? "ident" with | .ok (.str v) => some v | _ => none
    pure (.createIn (← elOf (← j.getObjVal? "p")) (← elOf (← j.getObjVal? "c")) nm idt)
  | "clone" => pure (.clone (← elOf (← j.getObjVal? "e")) (← getNat j "off"))
  | _ => throw s!"unknown names op {t}"

def nresStr : Spydr.Names.Res → String
  | .ok => "ok" | .assert => "assert" | .value => "value" | .key => "key"

def ndump (s : N) (els : List El) : Json :=
  Json.arr (els.map (fun e => Json.mkObj [
    ("e", jEl e), ("name", jOptStr (s.info e).name), ("ident", jOptStr (s.info e).ident),
    ("ns", match (s.info e).ns with | none => Json.null | some p => Json.str (polStr p)),
    ("parent", jOptEl (s.parent e)), ("kids", Json.arr ((s.kids e).map jEl).toArray),
    ("tbl", if s.hasTbl e then Json.str (polStr (s.tpol e)) else Json.null)])).toArray

end NamesDrv

def jEvent : Event → Json
  | .addLibrary n l => Json.arr #["netlist_add_library", jn n, jn l]
  | .removeLibrary n l => Json.arr #["netlist_remove_library", jn n, jn l]
  | .addDefinition l d => Json.arr #["library_add_definition", jn l, jn d]
  | .removeDefinition l d => Json.arr #["library_remove_definition", jn l, jn d]
  | .addPort d p => Json.arr #["definition_add_port", jn d, jn p]
  | .removePort d p => Json.arr #["definition_remove_port", jn d, jn p]
  | .addCable d c => Json.arr #["definition_add_cable", jn d, jn c]
  | .removeCable d c => Json.arr #["definition_remove_cable", jn d, jn c]
  | .addChild d i => Json.arr #["definition_add_child", jn d, jn i]
  | .removeChild d i => Json.arr #["definition_remove_child", jn d, jn i]
  | .addPin p q => Json.arr #["port_add_pin", jn p, jn q]
  | .removePin p q => Json.arr #["port_remove_pin", jn p, jn q]
  | .addWire c w => Json.arr #["cable_add_wire", jn c, jn w]
  | .removeWire c w => Json.arr #["cable_remove_wire", jn c, jn w]
  | .connect w r => Json.arr #["wire_connect_pin", jn w, jPin r]
  | .disconnect w r => Json.arr #["wire_disconnect_pin", jn w, jPin r]
  | .reference i d => Json.arr #["instance_reference", jn i, ofOptNat d]
  | .topInstance n i => Json.arr #["netlist_top_instance", jn n, Json.arr #["i", ofOptNat i]]
  | .topDefinition n d => Json.arr #["netlist_top_instance", jn n, Json.arr #["d", jn d]]
  | .createInstance i => Json.arr #["create_instance", jn i]

structure DState where
  s : S
  n : Spydr.Names.N
  d : D

def jDEvent : DEvent → Json
  | .set e k v => Json.arr #["dictionary_set", jn e, Json.str k, Json.str v]
  | .delete e k => Json.arr #["dictionary_delete", jn e, Json.str k]
  | .pop e k => Json.arr #["dictionary_pop", jn e, Json.str k]

def dopOf (j : Json) : Except String DOp := do
  let t ← getStr j "t"
  match t with
  | "set" => pure (.set (← getNat j "e") (← getStr j "k") (← getStr j "v"))
  | "del" => pure (.del (← getNat j "e") (← getStr j "k"))
  | "pop" => pure (.pop (← getNat j "e") (← getStr j "k"))
  | _ => throw s!"unknown data op {t}"

def handle (st : DState) (j : Json) : Except String (DState × Json) := do
  let s := st.s
  let cmd ← getStr j "cmd"
  match cmd with
  | "reset" => pure ({ st with s := S.init, d := D.init }, Json.mkObj [("ok", Json.bool true)])
  | "double" =>
    let off ← getNat j "off"
    pure ({ st with s := s.double off }, Json.mkObj [("ok", Json.bool true)])
  | "cloneElem" =>
    let off ← getNat j "off"
    let x ← getNat j "x"
    let k ← match (← getStr j "kind") with
      | "netlist" => pure CKind.netlist
      | "library" => pure CKind.library
      | "definition" => pure CKind.definition
      | "instance" => pure CKind.«instance»
      | "port" => pure CKind.port
      | "cable" => pure CKind.cable
      | "wire" => pure CKind.wire
      | "pin" => pure CKind.pin
      | o => throw s!"bad kind {o}"
    let rs := s.cloneElemRes off k x
    pure ({ st with s := s.cloneElem off k x }, Json.mkObj [("ok", Json.bool true),
      ("script_len", Json.num (JsonNumber.fromNat rs.length)),
      ("res", Json.arr ((rs.map (fun r => Json.str (resStr r))).toArray))])
  | "dop" =>
    let op ← dopOf (← j.getObjVal? "op")
    let (d', ok) := dstep st.d op
    pure ({ st with d := d' }, Json.mkObj [("ok", Json.bool ok),
      ("events", Json.arr ((devents st.d op).map jDEvent).toArray)])
  | "dget" =>
    pure (st, NamesDrv.jOptStr (st.d.val (← getNat j "e") (← getStr j "k")))
  | "op" =>
    let op ← opOf (← j.getObjVal? "op")
    let (s', r) := step s op
    let nI := countOf j "nI"
    pure ({ st with s := s' }, Json.mkObj [("res", Json.str (resStr r)),
      ("events", Json.arr ((eventsOf s nI op).map jEvent).toArray)])
  | "dump" => pure (st, dump s (← j.getObjVal? "n"))
  | "nreset" => pure ({ st with n := Spydr.Names.N.init }, Json.mkObj [("ok", Json.bool true)])
  | "nop" =>
    let op ← NamesDrv.nopOf (← j.getObjVal? "op")
    let (n', r) := Spydr.Names.step st.n op
    pure ({ st with n := n' }, Json.mkObj [("res", Json.str (NamesDrv.nresStr r))])
  | "ndump" =>
    let els ← (← getArr j "els").toList.mapM NamesDrv.elOf
    pure (st, NamesDrv.ndump st.n els)
  | "nlookup" =>
    let p ← NamesDrv.elOf (← j.getObjVal? "p")
    let kd ← NamesDrv.kindOf (← getStr j "kd")
    let k ← NamesDrv.keyOf (← getStr j "k")
    let v ← getStr j "v"
    pure (st, Json.mkObj [("lookup", Json.arr ((st.n.lookup p kd k v).map NamesDrv.jEl).toArray),
                          ("scan", Json.arr ((st.n.scanAll p kd k v).map NamesDrv.jEl).toArray),
                          ("scanCI", Json.arr ((st.n.scanAllCI p kd v).map NamesDrv.jEl).toArray)])
  | _ => throw s!"unknown cmd {cmd}"

def main : IO Unit := run handle { s := S.init, n := Spydr.Names.N.init, d := D.init }
