import Spydr.Common.Proto
import Spydr.IR.Model
open Lean Spydr.Proto Spydr.IR

def getOptInt (j : Json) (k : String) : Except String (Option Int) :=
  match j.getObjVal? k with
  | .error _ => .ok none
  | .ok .null => .ok none
  | .ok v => do let n ← v.getInt?; pure (some n)

def pinRefOf (j : Json) : Except String PinRef := do
  let a ← j.getArr?
  let tag ← (a[0]?.getD Json.null).getStr?
  if tag == "i" then
    let q ← (a[1]?.getD Json.null).getNat?
    pure (.inner q)
  else if tag == "o" then
    let i ← (a[1]?.getD Json.null).getNat?
    let q ← (a[2]?.getD Json.null).getNat?
    pure (.outer i q)
  else throw "bad pinref"

def pinRefs (j : Json) (k : String) : Except String (List PinRef) := do
  let a ← getArr j k
  a.toList.mapM pinRefOf

def nats (j : Json) (k : String) : Except String (List Nat) := do
  let a ← getArr j k
  natList a

def getVeto (j : Json) : Bool :=
  match j.getObjVal? "veto" with
  | .ok (.bool b) => b
  | _ => false

def opOf (j : Json) : Except String Op := do
  let t ← getStr j "t"
  match t with
  | "addLibrary" => pure (.addLibrary (← getNat j "n") (← getNat j "l") (← getOptInt j "pos") (getVeto j))
  | "removeLibrary" => pure (.removeLibrary (← getNat j "n") (← getNat j "l"))
  | "removeLibrariesFrom" => pure (.removeLibrariesFrom (← getNat j "n") (← nats j "xs"))
  | "setLibraries" => pure (.setLibraries (← getNat j "n") (← nats j "xs"))
  | "addDefinition" => pure (.addDefinition (← getNat j "l") (← getNat j "d") (← getOptInt j "pos") (getVeto j))
  | "removeDefinition" => pure (.removeDefinition (← getNat j "l") (← getNat j "d"))
  | "removeDefinitionsFrom" => pure (.removeDefinitionsFrom (← getNat j "l") (← nats j "xs"))
  | "setDefinitions" => pure (.setDefinitions (← getNat j "l") (← nats j "xs"))
  | "addPort" => pure (.addPort (← getNat j "d") (← getNat j "p") (← getOptInt j "pos") (getVeto j))
  | "removePort" => pure (.removePort (← getNat j "d") (← getNat j "p"))
  | "removePortsFrom" => pure (.removePortsFrom (← getNat j "d") (← nats j "xs"))
  | "setPorts" => pure (.setPorts (← getNat j "d") (← nats j "xs"))
  | "addCable" => pure (.addCable (← getNat j "d") (← getNat j "c") (← getOptInt j "pos") (getVeto j))
  | "removeCable" => pure (.removeCable (← getNat j "d") (← getNat j "c"))
  | "removeCablesFrom" => pure (.removeCablesFrom (← getNat j "d") (← nats j "xs"))
  | "setCables" => pure (.setCables (← getNat j "d") (← nats j "xs"))
  | "addChild" => pure (.addChild (← getNat j "d") (← getNat j "i") (← getOptInt j "pos") (getVeto j))
  | "removeChild" => pure (.removeChild (← getNat j "d") (← getNat j "i"))
  | "removeChildrenFrom" => pure (.removeChildrenFrom (← getNat j "d") (← nats j "xs"))
  | "setChildren" => pure (.setChildren (← getNat j "d") (← nats j "xs"))
  | "createChild" => pure (.createChild (← getNat j "d") (← getNat j "i") (← getOptNat j "ref") (getVeto j))
  | "addPin" => pure (.addPin (← getNat j "p") (← getNat j "q") (← getOptInt j "pos"))
  | "removePin" => pure (.removePin (← getNat j "p") (← getNat j "q"))
  | "removePinsFrom" => pure (.removePinsFrom (← getNat j "p") (← nats j "xs"))
  | "setPins" => pure (.setPins (← getNat j "p") (← nats j "xs"))
  | "addWire" => pure (.addWire (← getNat j "c") (← getNat j "w") (← getOptInt j "pos"))
  | "removeWire" => pure (.removeWire (← getNat j "c") (← getNat j "w"))
  | "removeWiresFrom" => pure (.removeWiresFrom (← getNat j "c") (← nats j "xs"))
  | "setWires" => pure (.setWires (← getNat j "c") (← nats j "xs"))
  | "connectInner" => pure (.connectInner (← getNat j "w") (← getNat j "q") (← getOptInt j "pos"))
  | "connectOuter" => pure (.connectOuter (← getNat j "w") (← getNat j "i") (← getNat j "q") (← getOptInt j "pos"))
  | "disconnect" => pure (.disconnect (← getNat j "w") (← pinRefOf (← j.getObjVal? "r")))
  | "disconnectFrom" => pure (.disconnectFrom (← getNat j "w") (← pinRefs j "rs"))
  | "setWirePins" => pure (.setWirePins (← getNat j "w") (← pinRefs j "rs"))
  | "setRef" => pure (.setRef (← getNat j "i") (← getOptNat j "d"))
  | "setTop" => pure (.setTop (← getNat j "n") (← getOptNat j "i"))
  | "setTopDef" => pure (.setTopDef (← getNat j "n") (← getNat j "d") (← getNat j "i"))
  | _ => throw s!"unknown op {t}"

def resStr : Res → String
  | .ok => "ok" | .assert => "assert" | .value => "value"

def jn (n : Nat) : Json := Json.num (JsonNumber.fromNat n)
def jPin : PinRef → Json
  | .inner q => Json.arr #[Json.str "i", jn q]
  | .outer i q => Json.arr #[Json.str "o", jn i, jn q]

def tab (n : Nat) (f : Nat → Json) : Json := Json.arr ((List.range n).map f).toArray

def countOf (j : Json) (k : String) : Nat :=
  match getNat j k with
  | .ok n => n
  | .error _ => 0

/-- Full dump of the model state for ids below the given per-class counts. -/
def dump (s : S) (c : Json) : Json :=
  let nN := countOf c "netlist"; let nL := countOf c "library"; let nD := countOf c "definition"
  let nP := countOf c "port"; let nC := countOf c "cable"; let nI := countOf c "instance"
  let nQ := countOf c "pin"; let nW := countOf c "wire"
  Json.mkObj [
    ("netlist", tab nN fun n => Json.mkObj [("libs", ofNatList (s.libs n)), ("top", ofOptNat (s.top n))]),
    ("library", tab nL fun l => Json.mkObj [("nl", ofOptNat (s.libNl l)), ("defs", ofNatList (s.defs l))]),
    ("definition", tab nD fun d => Json.mkObj [("lib", ofOptNat (s.defLib d)), ("ports", ofNatList (s.ports d)),
        ("cables", ofNatList (s.cables d)), ("children", ofNatList (s.children d)),
        ("refs", ofNatList ((List.range nI).filter (fun i => s.refs d i)))]),
    ("port", tab nP fun p => Json.mkObj [("def", ofOptNat (s.portDef p)), ("pins", ofNatList (s.pins p))]),
    ("cable", tab nC fun c => Json.mkObj [("def", ofOptNat (s.cableDef c)), ("wires", ofNatList (s.wires c))]),
    ("instance", tab nI fun i => Json.mkObj [("parent", ofOptNat (s.instParent i)), ("ref", ofOptNat (s.instRef i)),
        ("pins", Json.arr ((s.instPins i).map (fun q => Json.arr #[jn q, ofOptNat (s.opWire i q)])).toArray)]),
    ("pin", tab nQ fun q => Json.mkObj [("port", ofOptNat (s.pinPort q)), ("wire", ofOptNat (s.pinWire q))]),
    ("wire", tab nW fun w => Json.mkObj [("cable", ofOptNat (s.wireCable w)), ("pins", Json.arr ((s.wirePins w).map jPin).toArray)])]

def handle (s : S) (j : Json) : Except String (S × Json) := do
  let cmd ← getStr j "cmd"
  match cmd with
  | "reset" => pure (S.init, Json.mkObj [("ok", Json.bool true)])
  | "op" =>
    let op ← opOf (← j.getObjVal? "op")
    let (s', r) := step s op
    pure (s', Json.mkObj [("res", Json.str (resStr r))])
  | "dump" => pure (s, dump s (← j.getObjVal? "n"))
  | _ => throw s!"unknown cmd {cmd}"

def main : IO Unit := run handle S.init
