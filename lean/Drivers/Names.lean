/-
  drv_names — JSON line driver over Spydr.Names.{Model,ModelOld,Spec}.
  Requests (one JSON object per line):
    {"fn":"prepass","sibs":[{"name":s,"ident":s|null,"rename":b}], "rules":[b,b,b,b]?, "cables":b?}
        (answer also carries "fragments": theorem -> "in" | first failing hypothesis; reporting only)
        -> {"out":[{"ident":s,"rename":b,"assigned":b}], "finished":b, "scopeOk":b, "distinct":b, "repEq":b}
    {"fn":"makeValid","name":s,"others":[sib..], "rules":[..]?} -> {"id":s,"finished":b,"repEq":b}
    {"fn":"check","ids":[s..]} -> {"ok":[b..]}
    {"fn":"spec","obs":[{"name":s,"ident":s,"rename":b,"assigned":b}]} -> {"scopeOk":b,"distinct":b,"elem":[b..]}
  "rules" = [len255, underscore, foldCase, room, bitForms]; sib objects may carry "bits":[n..] selects Old.* with these rules; absent = the
  repaired model of Model.lean (the one the theorems are about).
-/
import Spydr.Common.Proto
import Spydr.Names.Model
import Spydr.Names.ModelOld
import Spydr.Names.Spec
import Spydr.Names.ModelObs
import Spydr.Names.ModelReach

open Lean Spydr.Proto Spydr.Names

namespace Spydr.Names.Drv

def getSib (j : Json) : Except String Sib := do
  let name ← getStr j "name"
  let ident ← match j.getObjVal? "ident" with
    | .error _ => pure none
    | .ok .null => pure none
    | .ok v => do let s ← v.getStr?; pure (some s.toList)
  let rename ← match j.getObjVal? "rename" with
    | .error _ => pure false
    | .ok v => v.getBool?
  let bits ← match j.getObjVal? "bits" with
    | .error _ => pure []
    | .ok .null => pure []
    | .ok v => do let a ← v.getArr?; natList a
  pure { name := name.toList, ident := ident, rename := rename, assigned := false, bits := bits }

def getSibs (j : Json) (k : String) : Except String (List Sib) := do
  let a ← getArr j k
  a.toList.mapM getSib

def getRules (j : Json) : Except String (Option Old.Rules) :=
  match j.getObjVal? "rules" with
  | .error _ => pure none
  | .ok .null => pure none
  | .ok v => do
      let a ← v.getArr?
      let bs ← a.toList.mapM (·.getBool?)
      match bs with
      | [a, b, c, d, e] => pure (some ⟨a, b, c, d, e⟩)
      | _ => throw "rules: expected 5 booleans"

def str (s : Str) : Json := Json.str (String.ofList s)


def sibOut (s : Sib) : Json :=
  Json.mkObj [("ident", match s.ident with | none => Json.null | some i => str i),
              ("rename", Json.bool s.rename), ("assigned", Json.bool s.assigned),
              ("token", match nameString s with
                        | none => Json.null
                        | some (b, t) => Json.arr #[Json.bool b, str t])]

def getObs (j : Json) : Except String Spec.Obs := do
  let name ← getStr j "name"
  let ident ← getStr j "ident"
  let rename ← getBool j "rename"
  let assigned ← getBool j "assigned"
  let bits ← match j.getObjVal? "bits" with
    | .error _ => pure []
    | .ok .null => pure []
    | .ok v => do let a ← v.getArr?; natList a
  pure { name := name.toList, ident := ident.toList, rename := rename, assigned := assigned, bits := bits }

def handle (st : Unit) (j : Json) : Except String (Unit × Json) := do
  let fn ← getStr j "fn"
  match fn with
  | "prepass" =>
      let sibs ← getSibs j "sibs"
      let rules ← getRules j
      let rep := assignAll sibs
      let out := match rules with
        | none => rep
        | some R => Old.assignAll R sibs
      let fin := match rules with
        | none => assignGoFinished [] sibs
        | some _ => true
      let obs := observe out
      pure (st, Json.mkObj [
        ("out", Json.arr (out.map sibOut).toArray),
        ("finished", Json.bool fin),
        ("scopeOk", Json.bool (Spec.scopeOk obs)),
        ("distinct", Json.bool (Spec.identsDistinct obs)),
        ("nets", Json.arr ((emittedNetIdents out).map str).toArray),
        ("fragments", Json.mkObj ((Reach.fragments ((j.getObjVal? "cables").toOption == some (Json.bool true)) sibs rep).map
          fun (t, r) => (t, Json.str r))),
        ("netsDistinct", Json.bool (Spec.allDistinct (Spec.netIdents obs))),
        ("repEq", Json.bool (decide (Old.assignAll Old.Rules.repaired sibs = rep)))])
  | "makeValid" =>
      let name ← getStr j "name"
      let others ← getSibs j "others"
      let rules ← getRules j
      let bits ← match j.getObjVal? "bits" with
        | .error _ => pure []
        | .ok .null => pure []
        | .ok v => do let a ← v.getArr?; natList a
      let rep := makeValidF bits name.toList others
      let r := match rules with
        | none => rep
        | some R => Old.makeValidF R bits name.toList others
      pure (st, Json.mkObj [
        ("id", str r.1), ("finished", Json.bool r.2),
        ("repEq", Json.bool (decide (Old.makeValidF Old.Rules.repaired bits name.toList others = rep)))])
  | "check" =>
      let a ← getArr j "ids"
      let ids ← strList a
      pure (st, Json.mkObj [("ok", Json.arr (ids.map (fun s => Json.bool (Spec.checkEdifIdentifier s.toList))).toArray)])
  | "spec" =>
      let a ← getArr j "obs"
      let obs ← a.toList.mapM getObs
      let elem := (Spec.splits obs).map fun (p, x, q) => Json.bool (!x.assigned || Spec.elemOk p x q)
      pure (st, Json.mkObj [
        ("scopeOk", Json.bool (Spec.scopeOk obs)),
        ("distinct", Json.bool (Spec.identsDistinct obs)),
        ("netsDistinct", Json.bool (Spec.allDistinct (Spec.netIdents obs))),
        ("elem", Json.arr elem.toArray)])
  | _ => throw s!"unknown fn {fn}"

end Spydr.Names.Drv

def main : IO Unit := Spydr.Proto.run Spydr.Names.Drv.handle ()
