/-
  drv_query: JSON line protocol over Spydr.Query.Model (and the decidable Spec).
  Requests:
   {"fn":"match","isCase":b,"isRe":b,"p":s,"v":s}
        -> {"abs":b,"match":b,"supported":b,"spec":b}
   {"fn":"stage","variant":"found"|"pipeline"|"h"|"none","cfg":{"isCase","isRe","indexed","ci"},
    "keyed":b,"groups":[[cand]],"others":[cand],"bypass":[cand],"pats":[s],"drop":[id]}
        cand = [id, key|null];  "drop" = ids the filter callback rejects
        "base" = ids of the implementation's unfiltered result (the property's base set)
        -> {"out":[id],"spec":[id],"hyp":b,"reach":{theorem: "in" | first failing hypothesis}}
           out  = model stage output (after the callback),
           spec = filterSpec over the de-duplicated candidates (after the callback),
           hyp  = the decidable hypotheses of the full-strength stage theorem hold for this input
                  (HypPipeline and CiConsistent / HypFound / no bypass elements)
-/
import Spydr.Common.Proto
import Spydr.Query.Model
import Spydr.Query.Spec
import Spydr.Query.Lemmas

open Lean Spydr.Proto Spydr.Query

namespace Spydr.Query.Drv

def getCand (j : Json) : Except String Cand := do
  let a ← j.getArr?
  if a.size != 2 then throw "cand: expected [id,key]"
  let i ← a[0]!.getNat?
  match a[1]! with
  | .null => pure ⟨i, none⟩
  | k => do let s ← k.getStr?; pure ⟨i, some s.toList⟩

def getCands (j : Json) (k : String) : Except String (List Cand) :=
  match j.getObjVal? k with
  | .error _ => pure []
  | .ok v => do let a ← v.getArr?; a.toList.mapM getCand

def getGroups (j : Json) : Except String (List (List Cand)) :=
  match j.getObjVal? "groups" with
  | .error _ => pure []
  | .ok v => do
      let a ← v.getArr?
      a.toList.mapM (fun g => do let b ← g.getArr?; b.toList.mapM getCand)

def getCfg (j : Json) : Except String Cfg := do
  let c ← j.getObjVal? "cfg"
  pure ⟨← getBool c "isCase", ← getBool c "isRe", ← getBool c "indexed", ← getBool c "ci"⟩

def ids (l : List Cand) : Json := ofNatList (l.map (·.id))

/-! Reach of the headline theorems on one query: "in", or the name of the first hypothesis that fails.
    Only counted in the evidence; no verdict depends on it. -/

def firstFail (checks : List (String × Bool)) : String :=
  match checks.find? (fun c => !c.2) with
  | some c => c.1
  | none => "in"

def hypDirectChecks (c : Cfg) (keyed : Bool) (groups : List (List Cand)) (pats : List Str) :
    List (String × Bool) :=
  [("a_visited_parent_lists_a_child_twice", decide (∀ g ∈ groups, g.Nodup)),
   ("sibling_keys_not_unique_under_the_index",
      decide (c.indexed = true → ∀ g ∈ groups, Spec.UniqueKeys c g)),
   ("child_without_key_and_empty_pattern",
      decide (keyed = true ∨ Spec.AllKeyed groups.flatten ∨ [] ∉ pats))]

def ciChecks (c : Cfg) (others : List Cand) : List (String × Bool) :=
  [("edif_identifier_without_index", decide (c.ci = true → c.indexed = true)),
   ("edif_identifier_reached_through_second_stage", decide (c.ci = true → others = []))]

def reach (variant : String) (c : Cfg) (keyed : Bool) (groups : List (List Cand))
    (others bypass : List Cand) (pats : List Str) : List (String × String) :=
  let matcher : List (String × String) :=
    [("matches_spec", firstFail [("regex_outside_modelled_sublanguage",
        !c.isRe || pats.all reSupported)]),
     ("absolute_match", firstFail [("no_absolute_pattern", pats.any (fun p => c.abs p))]),
     ("exact_glob_regex_agree", firstFail [("pattern_with_wildcard_or_regex_mode",
        !c.isRe && pats.all (fun p => p.all (fun ch => !isWild ch)))]),
     ("nocase_spec", firstFail [("is_case_true", !c.isCase)])]
  let stage : List (String × String) :=
    match variant with
    | "pipeline" =>
        let hd := hypDirectChecks c keyed groups pats
        let hdOn := hypDirectChecks { c with indexed := true } keyed groups pats
        [("stage_spec_direct", firstFail hd),
         ("stage_spec_pipeline_split", firstFail hd),
         ("stage_nodup", firstFail hd),
         ("stage_pattern_order", firstFail hd),
         ("stage_spec_pipeline", firstFail (hd ++ ciChecks c others)),
         ("stage_union", firstFail (hd ++ ciChecks c others)),
         ("stage_spec_pipeline_unindexed", firstFail (hd ++ [("index_answers", !c.indexed)])),
         ("fast_eq_scan", firstFail ([("edif_identifier_key", !c.ci)] ++ hdOn))]
    | "found" =>
        [("stage_spec_found", firstFail
            [("candidate_twice", decide others.Nodup),
             ("netlist_without_key_and_empty_pattern", decide (Spec.AllKeyed others ∨ [] ∉ pats))])]
    | "h" =>
        [("stage_spec_h", "in"),
         ("stage_spec_h_full", firstFail
            [("elements_returned_without_name_search", bypass.isEmpty),
             ("named_element_twice", decide others.Nodup)])]
    | "none" => [("stage_spec_none", "in")]
    | _ => []
  matcher ++ stage

def handle (st : Unit) (j : Json) : Except String (Unit × Json) := do
  let fn ← getStr j "fn"
  match fn with
  | "match" =>
      let ic ← getBool j "isCase"
      let ir ← getBool j "isRe"
      let p := (← getStr j "p").toList
      let v := (← getStr j "v").toList
      pure (st, Json.mkObj [
        ("abs", Json.bool (isAbsolute p ic ir)),
        ("match", Json.bool (valueMatches ic ir p v)),
        ("supported", Json.bool (!ir || reSupported p)),
        ("spec", Json.bool (decide (Spec.Matches ic ir p v)))])
  | "stage" =>
      let variant ← getStr j "variant"
      let c ← getCfg j
      let keyed := (getBool j "keyed").toOption.getD false
      let groups ← getGroups j
      let others ← getCands j "others"
      let bypass ← getCands j "bypass"
      let pats := (← strList (← getArr j "pats")).map String.toList
      let drop := match getArr j "drop" with
        | .ok a => (natList a).toOption.getD []
        | .error _ => []
      let f : Cand → Bool := fun e => !drop.contains e.id
      -- the property's base set: the ids of the implementation's own unfiltered result
      let inBase : Cand → Bool := match getArr j "base" with
        | .ok a => let b := (natList a).toOption.getD []; fun e => b.contains e.id
        | .error _ => fun _ => true
      let (out, base, hyp) ← match variant with
        | "found" => pure (stageFound c others pats, others, decide (Spec.HypFound others pats) && !c.ci)
        | "pipeline" =>
            pure (pipeline c keyed groups others pats, dedup (groups.flatten ++ others),
                  decide (Spec.HypPipeline c keyed groups others pats) && decide (Spec.CiConsistent c others))
        | "h" => pure (stageH c bypass others pats, dedup (bypass ++ others), bypass.isEmpty && !c.ci)
        | "none" => pure (stageNone others, dedup others, true)
        | _ => throw s!"unknown variant {variant}"
      let spec :=
        match variant with
        | "none" => base
        | "h" => Spec.filterSpec c base pats
        | _ => Spec.filterSpec c base pats
      let spec := spec.filter inBase
      let rj := Json.mkObj ((reach variant c keyed groups others bypass pats).map
                  (fun kv => (kv.1, Json.str kv.2)))
      pure (st, Json.mkObj [("out", ids (applyFilter f out)), ("spec", ids (applyFilter f spec)),
                            ("hyp", Json.bool hyp), ("reach", rj)])
  | _ => throw s!"unknown fn {fn}"

end Spydr.Query.Drv

def main : IO Unit := Spydr.Proto.run Spydr.Query.Drv.handle ()
