/-
  drv_verilog — line-protocol driver for the Verilog engine (C04, C06).

  Bit level (values are JSON ints; a bit is [cable, index]; a pin vector is a list of bit|null;
  an environment is [[name, lower, width], ...]):
    {"fn":"ping"}
    {"fn":"getWires","lower":i,"n":k,"l":i|null,"r":i|null}           -> {"ws":[positions]|null}
    {"fn":"resize","kind":"cable"|"port","lower":i,"width":k,"l":..,"r":..,"defining":b}
                                                                      -> {"lower":i,"pre":k,"post":k}
    {"fn":"populate","l":..,"r":..}                                   -> {"lower":i,"width":k,"downto":b}
    {"fn":"connect","pins":[id|null],"ws":[id]}                       -> {"pins":[..]|null,"spec":[..]|null}
    {"fn":"isConcat","pins":pv,"name":s|null}                         -> {"cat":b}
    {"fn":"emit","env":env,"pins":pv}     -> {"expr":e|null,"cat":b,"eval":[bit]|null,"rt":b,"shape":b}
    {"fn":"header","env":env,"name":s,"pins":pv}                      -> {"alias":null|[atoms],"ok":b,"eval":..}
    {"fn":"assign","env":env,"o":pv,"i":pv}                           -> {"l":atom,"r":atom,"back":[pv,pv]}|{"l":null}
    {"fn":"readAssign","env":env,"l":atom,"r":atom}                   -> {"o":pv,"i":pv}|null
    {"fn":"evalExpr","env":env,"expr":e}                              -> {"ws":[bit]|null}
    {"fn":"declRange","lower":i,"width":k}                            -> {"rng":[msb,lsb]|null,"new":[l,w],"stub":[l,w]}
    {"fn":"order","children":[[..]],"top":k|null,"all":[..]}          -> {"order":[..],"finished":b,"nodup":b}
  expressions: null (empty) | atom | {"cat":[atoms]};  atom: ["id",n] | ["bit",n,i] | ["part",n,l,r]
  Reach of the theorems (evidence only, no verdict depends on it):
    {"fn":"fragment04","net":wnet}   -> {"c04_text_struct":[in?,label],"c04_text_bb":[in?,label]}
    {"fn":"fragment06","text":s}     -> {"elabDesign_frag":[in?,label],"elabDesign_bb":[in?,label]} | {"rejected":..}
-/
import Spydr.Common.Proto
import Spydr.Verilog.Model
import Spydr.Verilog.Spec
import Spydr.Verilog.ModelElab
import Spydr.Verilog.ModelText
import Spydr.Verilog.ModelParse
import Spydr.Verilog.FragmentReport

open Lean Spydr.Proto Spydr.Verilog

namespace Spydr.VerilogDrv

def getInt (j : Json) (k : String) : Except String Int := do
  let v ← j.getObjVal? k
  v.getInt?

def getOptInt (j : Json) (k : String) : Except String (Option Int) :=
  match j.getObjVal? k with
  | .error _ => .ok none
  | .ok .null => .ok none
  | .ok v => do let n ← v.getInt?; pure (some n)

def getOptStr (j : Json) (k : String) : Except String (Option String) :=
  match j.getObjVal? k with
  | .error _ => .ok none
  | .ok .null => .ok none
  | .ok v => do let n ← v.getStr?; pure (some n)

def ofInt (i : Int) : Json := Json.num (JsonNumber.fromInt i)
def ofNat (n : Nat) : Json := Json.num (JsonNumber.fromNat n)
def ofOpt {α : Type} (f : α → Json) : Option α → Json
  | none => Json.null
  | some a => f a
def ofList {α : Type} (f : α → Json) (l : List α) : Json := Json.arr (l.map f).toArray

def bitOfJson (j : Json) : Except String Bit := do
  let a ← j.getArr?
  if a.size != 2 then throw "bit: [cable, idx] expected"
  let c ← a[0]!.getStr?
  let i ← a[1]!.getInt?
  pure ⟨c, i⟩

def optBitOfJson (j : Json) : Except String (Option Bit) :=
  match j with
  | .null => .ok none
  | v => do let b ← bitOfJson v; pure (some b)

def pvOfJson (j : Json) : Except String (List (Option Bit)) := do
  let a ← j.getArr?
  a.toList.mapM optBitOfJson

def ofBit (b : Bit) : Json := Json.arr #[Json.str b.cable, ofInt b.idx]
def ofPv (pv : List (Option Bit)) : Json := ofList (ofOpt ofBit) pv

def envOfJson (j : Json) : Except String CableEnv := do
  let a ← j.getArr?
  let l ← a.toList.mapM fun e => do
    let t ← e.getArr?
    if t.size != 3 then throw "env: [name, lower, width] expected"
    let n ← t[0]!.getStr?
    let lo ← t[1]!.getInt?
    let w ← t[2]!.getNat?
    pure (n, lo, w)
  pure (fun n => (l.find? (fun e => e.1 == n)).map (fun e => e.2))

def atomOfJson (j : Json) : Except String Atom := do
  let a ← j.getArr?
  let k ← (a[0]?.getD Json.null).getStr?
  match k, a.size with
  | "id", 2 => do let n ← a[1]!.getStr?; pure (.id n)
  | "bit", 3 => do let n ← a[1]!.getStr?; let i ← a[2]!.getInt?; pure (.bit n i)
  | "part", 4 => do let n ← a[1]!.getStr?; let l ← a[2]!.getInt?; let r ← a[3]!.getInt?; pure (.part n l r)
  | _, _ => throw "atom expected"

def ofAtom : Atom → Json
  | .id n => Json.arr #[Json.str "id", Json.str n]
  | .bit n i => Json.arr #[Json.str "bit", Json.str n, ofInt i]
  | .part n l r => Json.arr #[Json.str "part", Json.str n, ofInt l, ofInt r]

def exprOfJson (j : Json) : Except String PExpr :=
  match j with
  | .null => .ok .empty
  | .arr _ => do let a ← atomOfJson j; pure (.atom a)
  | v => do
    let c ← v.getObjVal? "cat"
    let a ← c.getArr?
    let as ← a.toList.mapM atomOfJson
    pure (.concat as)

def ofExpr : PExpr → Json
  | .empty => Json.null
  | .atom a => ofAtom a
  | .concat as => Json.mkObj [("cat", ofList ofAtom as)]

def optIdList (j : Json) : Except String (List (Option Nat)) := do
  let a ← j.getArr?
  a.toList.mapM fun v => match v with
    | .null => .ok none
    | v => do let n ← v.getNat?; pure (some n)

def handleBit (fn : String) (j : Json) : Except String Json := do
  match fn with
  | "ping" => pure (Json.mkObj [("pong", Json.bool true)])
  | "getWires" =>
    let lower ← getInt j "lower"
    let n ← getNat j "n"
    let l ← getOptInt j "l"
    let r ← getOptInt j "r"
    let c : Bundle Nat := ⟨lower, List.range n⟩
    pure (Json.mkObj [("ws", ofOpt ofNatList (getWires c l r))])
  | "resize" =>
    let kind ← getStr j "kind"
    let lower ← getInt j "lower"
    let w ← getNat j "width"
    let l ← getOptInt j "l"
    let r ← getOptInt j "r"
    let d ← getBool j "defining"
    let rz := if kind == "port" then resizePort lower w l r d else resizeCable lower w l r d
    pure (Json.mkObj [("lower", ofInt rz.lower), ("pre", ofNat rz.pre), ("post", ofNat rz.post)])
  | "populate" =>
    let l ← getOptInt j "l"
    let r ← getOptInt j "r"
    let p := populateNew l r
    pure (Json.mkObj [("lower", ofInt p.1), ("width", ofNat p.2.1), ("downto", Json.bool p.2.2)])
  | "connect" =>
    let pins ← optIdList (← j.getObjVal? "pins")
    let ws ← natList (← getArr j "ws")
    let r := connectLowAligned pins ws
    let free := pins.all (fun p => p.isNone)
    let spec : Option (List (Option Nat)) :=
      if free && decide (ws.length ≤ pins.length) then some (lowAligned pins.length ws) else none
    pure (Json.mkObj [("pins", ofOpt (ofList ofOptNat) r), ("spec", ofOpt (ofList ofOptNat) spec)])
  | "isConcat" =>
    let pins ← pvOfJson (← j.getObjVal? "pins")
    let name ← getOptStr j "name"
    pure (Json.mkObj [("cat", Json.bool (isConcatenated pins name))])
  | "emit" =>
    let env ← envOfJson (← j.getObjVal? "env")
    let pins ← pvOfJson (← j.getObjVal? "pins")
    let e := emitPortExpr env pins
    let cat := match pins with
      | [] => false
      | p0 :: _ => isConcatenated pins (p0.map (·.cable))
    let ev := e.bind (evalExpr env)
    pure (Json.mkObj [("expr", match e with | none => Json.str "raise" | some x => ofExpr x),
      ("cat", Json.bool cat), ("eval", ofOpt (ofList ofBit) ev),
      ("rt", Json.bool (portRoundTrip pins ev)), ("shape", Json.bool (readerShape env pins))])
  | "header" =>
    let env ← envOfJson (← j.getObjVal? "env")
    let name ← getStr j "name"
    let pins ← pvOfJson (← j.getObjVal? "pins")
    match emitHeaderPort env name pins with
    | none => pure (Json.mkObj [("ok", Json.bool false)])
    | some none => pure (Json.mkObj [("ok", Json.bool true), ("alias", Json.null)])
    | some (some as) =>
      let ev := evalConcat env as
      pure (Json.mkObj [("ok", Json.bool true), ("alias", ofList ofAtom as),
        ("eval", ofOpt (ofList ofBit) ev), ("back", ofOpt (fun ws => ofPv (connectAlias ws)) ev)])
  | "assign" =>
    let env ← envOfJson (← j.getObjVal? "env")
    let o ← pvOfJson (← j.getObjVal? "o")
    let i ← pvOfJson (← j.getObjVal? "i")
    match emitAssign env o i with
    | none => pure (Json.mkObj [("l", Json.null)])
    | some (l, r) =>
      let back := readAssign env l r
      pure (Json.mkObj [("l", ofAtom l), ("r", ofAtom r),
        ("back", ofOpt (fun (p : PinVec Bit × PinVec Bit) => Json.arr #[ofPv p.1, ofPv p.2]) back)])
  | "readAssign" =>
    let env ← envOfJson (← j.getObjVal? "env")
    let l ← atomOfJson (← j.getObjVal? "l")
    let r ← atomOfJson (← j.getObjVal? "r")
    pure (ofOpt (fun (p : PinVec Bit × PinVec Bit) => Json.mkObj [("o", ofPv p.1), ("i", ofPv p.2)]) (readAssign env l r))
  | "evalExpr" =>
    let env ← envOfJson (← j.getObjVal? "env")
    let e ← exprOfJson (← j.getObjVal? "expr")
    pure (Json.mkObj [("ws", ofOpt (ofList ofBit) (evalExpr env e))])
  | "declRange" =>
    let lower ← getInt j "lower"
    let w ← getNat j "width"
    let rng := emitDeclRange lower w
    let a := readDeclNew rng
    let b := readDeclStub rng
    pure (Json.mkObj [("rng", ofOpt (fun (p : Int × Int) => Json.arr #[ofInt p.1, ofInt p.2]) rng),
      ("new", Json.arr #[ofInt a.1, ofNat a.2]), ("stub", Json.arr #[ofInt b.1, ofNat b.2])])
  | "order" =>
    let ch ← getArr j "children"
    let chl ← ch.toList.mapM (fun c => do let a ← c.getArr?; natList a)
    let children : Nat → List Nat := fun n => chl.getD n []
    let top ← getOptNat j "top"
    let all ← natList (← getArr j "all")
    let fuel := 2 + chl.length + (chl.map List.length).sum
    let r := visitOrder children fuel top all
    pure (Json.mkObj [("order", ofNatList r.1), ("finished", Json.bool r.2), ("nodup", Json.bool (nodupB r.1))])
  | _ => throw s!"unknown fn {fn}"

/-! ### whole-design elaboration -/
open Spydr.Verilog.Elab in
def dirOfJson (j : Json) : Except String (Option Dir) :=
  match j with
  | .null => .ok none
  | .str "input" => .ok (some .inp)
  | .str "output" => .ok (some .out)
  | .str "inout" => .ok (some .inout)
  | _ => .error "direction expected"

def rngOfJson (j : Json) : Except String (Option (Int × Int)) :=
  match j with
  | .null => .ok none
  | v => do
    let a ← v.getArr?
    if a.size != 2 then throw "range: [msb, lsb]"
    let l ← a[0]!.getInt?
    let r ← a[1]!.getInt?
    pure (some (l, r))

open Spydr.Verilog.Elab in
def xatomOfJson (j : Json) : Except String XAtom := do
  let a ← j.getArr?
  let k ← (a[0]?.getD Json.null).getStr?
  match k, a.size with
  | "id", 2 => do let n ← a[1]!.getStr?; pure (.id n)
  | "bit", 3 => do let n ← a[1]!.getStr?; let i ← a[2]!.getInt?; pure (.bit n i)
  | "part", 4 => do let n ← a[1]!.getStr?; let l ← a[2]!.getInt?; let r ← a[3]!.getInt?; pure (.part n l r)
  | "const", 2 => do let c ← a[1]!.getStr?; pure (.const c)
  | _, _ => throw "atom expected"

open Spydr.Verilog.Elab in
def xexprOfJson (j : Json) : Except String XExpr :=
  match j with
  | .null => .ok .empty
  | .arr _ => do let a ← xatomOfJson j; pure (.atom a)
  | v => do
    let c ← v.getObjVal? "cat"
    let a ← c.getArr?
    let as ← a.toList.mapM xatomOfJson
    pure (.cat as)

def attrsOfJson (j : Json) : Except String (List (String × Option String)) := do
  let a ← j.getArr?
  a.toList.mapM fun kv => do
    let p ← kv.getArr?
    if p.size != 2 then throw "attr: [k, v]"
    let k ← p[0]!.getStr?
    match p[1]! with
    | .null => pure (k, none)
    | v => do let x ← v.getStr?; pure (k, some x)

def paramsOfJson (j : Json) : Except String (List (String × String)) := do
  let a ← j.getArr?
  a.toList.mapM fun kv => do
    let p ← kv.getArr?
    if p.size != 2 then throw "param: [k, v]"
    let k ← p[0]!.getStr?
    let v ← p[1]!.getStr?
    pure (k, v)

open Spydr.Verilog.Elab in
def itemOfJson (j : Json) : Except String Item := do
  let t ← getStr j "t"
  match t with
  | "port" =>
    let d ← dirOfJson (← j.getObjVal? "dir")
    let vt ← getOptStr j "vt"
    let rng ← rngOfJson (← j.getObjVal? "rng")
    let n ← getStr j "n"
    let ats ← match j.getObjVal? "attrs" with
      | .ok (.arr a) => attrsOfJson (.arr a)
      | _ => pure []
    match d with
    | some d => pure (.portDecl d vt rng n ats)
    | none => throw "port declaration needs a direction"
  | "wire" =>
    let ty ← getStr j "ty"
    let rng ← rngOfJson (← j.getObjVal? "rng")
    let n ← getStr j "n"
    let ats ← attrsOfJson (← j.getObjVal? "attrs")
    pure (.wireDecl ty rng n ats)
  | "inst" =>
    let m ← getStr j "mod"
    let n ← getStr j "n"
    let ps ← paramsOfJson (← j.getObjVal? "params")
    let ats ← attrsOfJson (← j.getObjVal? "attrs")
    let named ← getBool j "named"
    let cs ← (← getArr j "conns").toList.mapM fun c => do
      let p ← c.getArr?
      if p.size != 2 then throw "conn: [port, expr]"
      let pn ← match p[0]! with
        | .null => pure none
        | v => do let x ← v.getStr?; pure (some x)
      let e ← xexprOfJson p[1]!
      pure (pn, e)
    pure (.inst m n ps ats named cs)
  | "assign" =>
    let l ← xatomOfJson (← j.getObjVal? "l")
    let r ← xatomOfJson (← j.getObjVal? "r")
    pure (.assign l r)
  | "defparam" =>
    let i ← getStr j "inst"
    let k ← getStr j "key"
    let v ← getStr j "value"
    pure (.defparam i k v)
  | _ => throw "item kind"

open Spydr.Verilog.Elab in
def moduleOfJson (j : Json) : Except String Elab.Module := do
  let n ← getStr j "name"
  let prim ← getBool j "prim"
  let ats ← attrsOfJson (← j.getObjVal? "attrs")
  let ps ← paramsOfJson (← j.getObjVal? "params")
  let hs ← (← getArr j "header").toList.mapM fun h => do
    let hn ← getStr h "n"
    let d ← dirOfJson (← h.getObjVal? "dir")
    let rng ← rngOfJson (← h.getObjVal? "rng")
    let al ← match h.getObjVal? "alias" with
      | .ok .null => pure none
      | .ok v => do
        let e ← xexprOfJson (← v.getObjVal? "e")
        pure (some e)
      | .error _ => pure none
    pure (⟨hn, d, rng, al⟩ : HPort)
  let its ← (← getArr j "items").toList.mapM itemOfJson
  pure ⟨n, prim, ats, ps, hs, its⟩

def ofAttrs (a : List (String × Option String)) : Json :=
  ofList (fun (kv : String × Option String) => Json.arr #[Json.str kv.1, ofOpt Json.str kv.2]) a
def ofParams (a : List (String × String)) : Json :=
  ofList (fun (kv : String × String) => Json.arr #[Json.str kv.1, Json.str kv.2]) a

open Spydr.Verilog.Elab in
def dirName : Dir → String
  | .inp => "IN" | .out => "OUT" | .inout => "INOUT" | .undef => "UNDEFINED"

open Spydr.Verilog.Elab in
def viewOfSt (s : St) : Json :=
  let defJ (d : Def) : Json :=
    let pinJ (p : Option Nat) : Json := match p with
      | none => Json.null
      | some w => match bitOf d w with
        | some b => ofBit b
        | none => Json.arr #[Json.str "?", ofInt (-1)]
    Json.mkObj [("name", Json.str d.name), ("lib", ofOpt Json.str d.lib), ("primitive", Json.bool d.primitive),
      ("params", ofParams d.params), ("attrs", ofOpt ofAttrs d.attrs),
      ("ports", ofList (fun (p : Port) => Json.mkObj [("name", ofOpt Json.str p.name), ("dir", Json.str (dirName p.dir)),
          ("lower", ofInt p.lower), ("width", ofNat p.pins.length), ("downto", Json.bool p.downto),
          ("attrs", ofOpt ofAttrs p.attrs), ("pins", ofList pinJ p.pins)]) d.ports),
      ("cables", ofList (fun (c : Cable) => Json.mkObj [("name", Json.str c.name), ("lower", ofInt c.lower),
          ("width", ofNat c.wires.length), ("downto", Json.bool c.downto), ("ctype", ofOpt Json.str c.ctype),
          ("attrs", ofOpt ofAttrs c.attrs)]) d.cables),
      ("insts", ofList (fun (i : Inst) =>
          let rd := (s.find i.ref).getD default
          let rows := (List.range rd.ports.length).map (fun k =>
            let w := (rd.ports.getD k default).pins.length
            let row := i.pins.getD k []
            row ++ List.replicate (w - row.length) none)
          Json.mkObj [("name", Json.str i.name), ("ref", Json.str i.ref), ("params", ofParams i.params),
            ("attrs", ofOpt ofAttrs i.attrs), ("pins", ofList (ofList pinJ) rows)]) d.insts)]
  Json.mkObj [("top", ofOpt Json.str s.top), ("defs", ofList defJ s.defs)]

/-! ### AST -> JSON (what parseV read) -/
open Spydr.Verilog.Elab in
def ofXAtom : XAtom → Json
  | .id n => Json.arr #[Json.str "id", Json.str n]
  | .bit n i => Json.arr #[Json.str "bit", Json.str n, ofInt i]
  | .part n l r => Json.arr #[Json.str "part", Json.str n, ofInt l, ofInt r]
  | .const c => Json.arr #[Json.str "const", Json.str c]

open Spydr.Verilog.Elab in
def ofXExpr : XExpr → Json
  | .empty => Json.null
  | .atom a => ofXAtom a
  | .cat as => Json.mkObj [("cat", ofList ofXAtom as)]

open Spydr.Verilog.Elab in
def dirWord : Dir → Json
  | .inp => Json.str "input" | .out => Json.str "output" | .inout => Json.str "inout" | .undef => Json.null

def ofRng (r : Option (Int × Int)) : Json :=
  ofOpt (fun (p : Int × Int) => Json.arr #[ofInt p.1, ofInt p.2]) r

open Spydr.Verilog.Elab in
def ofItem : Item → Json
  | .portDecl d vt rng n a => Json.mkObj [("t", Json.str "port"), ("dir", dirWord d), ("vt", ofOpt Json.str vt), ("rng", ofRng rng), ("n", Json.str n), ("attrs", ofAttrs a)]
  | .wireDecl ty rng n a => Json.mkObj [("t", Json.str "wire"), ("ty", Json.str ty), ("rng", ofRng rng), ("n", Json.str n), ("attrs", ofAttrs a)]
  | .inst m n ps a named cs => Json.mkObj [("t", Json.str "inst"), ("mod", Json.str m), ("n", Json.str n), ("params", ofParams ps),
      ("attrs", ofAttrs a), ("named", Json.bool named),
      ("conns", ofList (fun (c : Option String × XExpr) => Json.arr #[ofOpt Json.str c.1, ofXExpr c.2]) cs)]
  | .assign l r => Json.mkObj [("t", Json.str "assign"), ("l", ofXAtom l), ("r", ofXAtom r)]
  | .defparam i k v => Json.mkObj [("t", Json.str "defparam"), ("inst", Json.str i), ("key", Json.str k), ("value", Json.str v)]

open Spydr.Verilog.Elab in
def ofModule (m : Elab.Module) : Json :=
  Json.mkObj [("name", Json.str m.name), ("prim", Json.bool m.prim), ("attrs", ofAttrs m.attrs), ("params", ofParams m.params),
    ("header", ofList (fun (h : HPort) => Json.mkObj [("n", Json.str h.name), ("dir", ofOpt dirWord h.dir), ("rng", ofRng h.rng),
        ("alias", match h.alias with | some e => Json.mkObj [("e", ofXExpr e)] | none => Json.null)]) m.header),
    ("items", ofList ofItem m.items)]

/-! ### text level -/
def optAttrs (j : Json) (k : String) : Except String (Option (List (String × Option String))) :=
  match j.getObjVal? k with
  | .error _ => .ok none
  | .ok .null => .ok none
  | .ok v => do let a ← attrsOfJson v; pure (some a)

open Spydr.Verilog.Text in
def wnetOfJson (j : Json) : Except String WNet := do
  let name ← getStr j "name"
  let top ← getOptStr j "top"
  let defs ← (← getArr j "defs").toList.mapM fun d => do
    let dn ← getStr d "name"
    let lib ← getStr d "lib"
    let params ← match d.getObjVal? "params" with
      | .ok .null => pure none
      | .error _ => pure none
      | .ok v => do let a ← attrsOfJson v; pure (some a)
    let attrs ← optAttrs d "attrs"
    let ports ← (← getArr d "ports").toList.mapM fun p => do
      let pn ← getOptStr p "name"
      let dir ← getStr p "dir"
      let lower ← getInt p "lower"
      let width ← getNat p "width"
      let pins ← pvOfJson (← p.getObjVal? "pins")
      let ats ← optAttrs p "attrs"
      pure (⟨pn, dir, lower, width, pins, ats⟩ : WPort)
    let cables ← (← getArr d "cables").toList.mapM fun c => do
      let cn ← getStr c "name"
      let lower ← getInt c "lower"
      let width ← getNat c "width"
      let ct ← getOptStr c "ctype"
      let ats ← optAttrs c "attrs"
      pure (⟨cn, lower, width, ct, ats⟩ : WCable)
    let insts ← (← getArr d "insts").toList.mapM fun i => do
      let iname ← getStr i "name"
      let ref ← getStr i "ref"
      let ps ← match i.getObjVal? "params" with
        | .ok .null => pure none
        | .error _ => pure none
        | .ok v => do let a ← paramsOfJson v; pure (some a)
      let ats ← optAttrs i "attrs"
      let rows ← (← getArr i "pins").toList.mapM pvOfJson
      pure (⟨iname, ref, ps, ats, rows⟩ : WInst)
    pure (⟨dn, lib, params, attrs, ports, cables, insts⟩ : WDef)
  pure ⟨name, top, defs⟩

open Spydr.Verilog.Text in
def handleText (fn : String) (j : Json) : Except String Json := do
  match fn with
  | "lex" =>
    let t ← getStr j "text"
    pure (Json.mkObj [("tokens", ofStrList (lexV t))])
  | "compose" =>
    let n ← wnetOfJson (← j.getObjVal? "net")
    let o ← j.getObjVal? "opts"
    let dl ← match o.getObjVal? "defList" with
      | .ok .null => pure none
      | .error _ => pure none
      | .ok v => do let a ← v.getArr?; let l ← strList a; pure (some l)
    let wb ← getBool o "writeBlackbox"
    let dp ← getBool o "defparam"
    match composeV n ⟨dl, wb, dp⟩ with
    | .error e => pure (Json.mkObj [("ok", Json.bool false), ("raise", Json.str e)])
    | .ok (txt, fin) =>
      let toks := (lexV txt).filter (fun t => !isCommentTok t)
      let want ← match j.getObjVal? "text" with
        | .ok (.str t) => pure (some ((lexV t).filter (fun t => !isCommentTok t)))
        | _ => pure none
      pure (Json.mkObj [("ok", Json.bool true), ("finished", Json.bool fin), ("text", Json.str txt),
        ("tokens", ofStrList toks),
        ("same", match want with | some w => Json.bool (w == toks) | none => Json.null),
        ("firstDiff", match want with
          | some w => (match (List.range (max w.length toks.length)).find? (fun i => w[i]? != toks[i]?) with
              | some i => Json.arr #[ofNat i, ofOpt Json.str w[i]?, ofOpt Json.str toks[i]?]
              | none => Json.null)
          | none => Json.null)])
  | _ => throw s!"unknown fn {fn}"

def handle (st : Unit) (j : Json) : Except String (Unit × Json) := do
  let fn ← getStr j "fn"
  if fn == "lex" || fn == "compose" then
    let r ← handleText fn j
    pure (st, r)
  else if fn == "parse" then
    let t ← getStr j "text"
    match Spydr.Verilog.Parse.parseV (Spydr.Verilog.Text.lexV t) with
    | .ok ms => pure (st, Json.mkObj [("ok", Json.bool true), ("modules", ofList ofModule ms)])
    | .error e => pure (st, Json.mkObj [("ok", Json.bool false), ("raise", Json.str e)])
  else if fn == "read" then
    let t ← getStr j "text"
    match Spydr.Verilog.Parse.readV t with
    | .ok s => pure (st, Json.mkObj [("ok", Json.bool true), ("view", viewOfSt s)])
    | .error e => pure (st, Json.mkObj [("ok", Json.bool false), ("raise", Json.str e)])
  else if fn == "fragment04" then
    let n ← wnetOfJson (← j.getObjVal? "net")
    let pr (r : Bool × String) : Json := Json.arr #[Json.bool r.1, Json.str r.2]
    pure (st, Json.mkObj [("c04_text_struct", pr (Spydr.Verilog.Elab.reportStruct n)),
      ("c04_text_bb", pr (Spydr.Verilog.Elab.reportBB n)), ("c04_full_bb", pr (Spydr.Verilog.Elab.reportFullBB n)),
      ("c04_ast_hier", pr (Spydr.Verilog.Elab.reportHier n)),
      ("c04_ast_hierA", pr (Spydr.Verilog.Elab.reportHierA n)),
      ("c04_text_hierA", pr (Spydr.Verilog.Elab.reportHierTextA n)),
      ("c04_text_hier", pr (Spydr.Verilog.Elab.reportHierText n))])
  else if fn == "fragment06" then
    let t ← getStr j "text"
    let pr (r : Bool × String) : Json := Json.arr #[Json.bool r.1, Json.str r.2]
    match Spydr.Verilog.Parse.parseV (Spydr.Verilog.Text.lexV t) with
    | .ok ms => pure (st, Json.mkObj [("elabDesign_frag", pr (Spydr.Verilog.Elab.reportFragDesign ms)),
        ("elabDesign_bb", pr (Spydr.Verilog.Elab.reportWriterShape ms)),
        ("elabDesign_hierA", pr (Spydr.Verilog.Elab.reportHierDesignA ms))])
    | .error e => pure (st, Json.mkObj [("rejected", Json.str e)])
  else if fn == "elab" then
    let ms ← (← getArr j "modules").toList.mapM moduleOfJson
    match Spydr.Verilog.Elab.elabDesign ms with
    | .ok s => pure (st, Json.mkObj [("ok", Json.bool true), ("view", viewOfSt s)])
    | .error e => pure (st, Json.mkObj [("ok", Json.bool false), ("raise", Json.str e)])
  else
    let r ← handleBit fn j
    pure (st, r)

end Spydr.VerilogDrv

def main : IO Unit := Spydr.Proto.run Spydr.VerilogDrv.handle ()
