/-
  Driver of engine `xform` (C08 uniquify, C09 flatten): JSON line protocol over the very definitions
  the theorems in Spydr/Xform/Props are about.

  requests   {"fn":"uniquify","fuel":N,"design":D}  -> {"design":D',"finished":b,"ok":b}
             {"fn":"flatten","fuel":N,"design":D}   -> {"design":D',"finished":b}
             {"fn":"spec","design":D}               -> the decidable spec predicates evaluated on D
  design     {"defs":[{"lib","name","eid","info","ports":[{"width","info"}],
                       "cables":[{"id","name","eid","info","wires":[[pin]]}],
                       "children":[{"id","name","eid","ref","data"}]}],
              "order":[[defIdx]],"top":n,"extra":[n],"ctr":n}
  pin        ["p",pi,bit] | ["i",iid,pi,bit] | ["n",iid,pi,bit]
-/
import Spydr.Common.Proto
import Spydr.Xform.ModelUniquify
import Spydr.Xform.ModelFlatten
import Spydr.Xform.Spec
import Spydr.Xform.SpecFrag

open Lean Spydr.Proto Spydr.Xform

namespace Spydr.XformDriver

def optStr (j : Json) (k : String) : Except String (Option String) :=
  match j.getObjVal? k with
  | .error _ => .ok none
  | .ok .null => .ok none
  | .ok v => do let s ← v.getStr?; pure (some s)

def ofOptStr : Option String → Json
  | none => Json.null
  | some s => Json.str s

def nat (n : Nat) : Json := Json.num (JsonNumber.fromNat n)

def decPin (j : Json) : Except String Pin := do
  let a ← j.getArr?
  let tag ← (a.getD 0 Json.null).getStr?
  let n (i : Nat) : Except String Nat := (a.getD i Json.null).getNat?
  match tag with
  | "p" => return .port (← n 1) (← n 2)
  | "i" => return .inst (← n 1) (← n 2) (← n 3)
  | "n" => return .inner (← n 1) (← n 2) (← n 3)
  | t => throw s!"bad pin tag {t}"

def encPin : Pin → Json
  | .port a b => Json.arr #[Json.str "p", nat a, nat b]
  | .inst i a b => Json.arr #[Json.str "i", nat i, nat a, nat b]
  | .inner i a b => Json.arr #[Json.str "n", nat i, nat a, nat b]

def decPort (j : Json) : Except String Port := do
  return { width := ← getNat j "width", info := ← getStr j "info" }

def decCable (j : Json) : Except String Cable := do
  let ws ← getArr j "wires"
  let wires ← ws.toList.mapM (fun w => do let a ← w.getArr?; a.toList.mapM decPin)
  return { id := ← getNat j "id", name := ← optStr j "name", eid := ← optStr j "eid",
           info := ← getStr j "info", wires := wires }

def decInst (j : Json) : Except String Inst := do
  return { id := ← getNat j "id", name := ← optStr j "name", eid := ← optStr j "eid",
           ref := ← getNat j "ref", data := ← getStr j "data" }

def decDefn (j : Json) : Except String Defn := do
  return { lib := ← getNat j "lib", name := ← optStr j "name", eid := ← optStr j "eid",
           info := ← getStr j "info",
           ports := ← (← getArr j "ports").toList.mapM decPort,
           cables := ← (← getArr j "cables").toList.mapM decCable,
           children := ← (← getArr j "children").toList.mapM decInst }

def decDesign (j : Json) : Except String Design := do
  let defs ← (← getArr j "defs").toList.mapM decDefn
  let order ← (← getArr j "order").toList.mapM (fun o => do natList (← o.getArr?))
  let extra ← natList (← getArr j "extra")
  let da := defs.toArray
  let ea := extra.toArray
  return { ndefs := defs.length, defs := fun i => da.getD i default, order := order,
           top := ← getNat j "top", extra := fun i => ea.getD i 0, ctr := ← getNat j "ctr" }

def encCable (c : Cable) : Json :=
  Json.mkObj [("id", nat c.id), ("name", ofOptStr c.name), ("eid", ofOptStr c.eid), ("info", Json.str c.info),
              ("wires", Json.arr (c.wires.map (fun w => Json.arr (w.map encPin).toArray)).toArray)]

def encInst (c : Inst) : Json :=
  Json.mkObj [("id", nat c.id), ("name", ofOptStr c.name), ("eid", ofOptStr c.eid), ("ref", nat c.ref),
              ("data", Json.str c.data)]

def encDefn (D : Defn) : Json :=
  Json.mkObj [("lib", nat D.lib), ("name", ofOptStr D.name), ("eid", ofOptStr D.eid), ("info", Json.str D.info),
              ("ports", Json.arr (D.ports.map (fun p => Json.mkObj [("width", nat p.width), ("info", Json.str p.info)])).toArray),
              ("cables", Json.arr (D.cables.map encCable).toArray),
              ("children", Json.arr (D.children.map encInst).toArray)]

def encDesign (d : Design) : Json :=
  let idx := List.range d.ndefs
  Json.mkObj [("defs", Json.arr (idx.map (fun i => encDefn (d.defs i))).toArray),
              ("order", Json.arr (d.order.map ofNatList).toArray),
              ("top", nat d.top),
              ("extra", ofNatList (idx.map d.extra)),
              ("refcount", ofNatList (idx.map d.refCount)),
              ("ctr", nat d.ctr)]

def handle (st : Unit) (j : Json) : Except String (Unit × Json) := do
  let fn ← getStr j "fn"
  let d ← decDesign (← j.getObjVal? "design")
  match fn with
  | "uniquify" =>
    let fuel ← getNat j "fuel"
    let r := uniquify fuel d
    return (st, Json.mkObj [("design", encDesign r.design), ("finished", Json.bool r.finished), ("ok", Json.bool r.ok)])
  | "flatten" =>
    let fuel ← getNat j "fuel"
    let r := flatten fuel d
    return (st, Json.mkObj [("design", encDesign r.design), ("finished", Json.bool r.finished)])
  | "spec" =>
    return (st, Json.mkObj [("wf", Json.bool (wfCheck d)), ("idsUnique", Json.bool (idsUniqueCheck d)),
                            ("named", Json.bool (namedCheck d)),
                            ("fragments", Json.mkObj ((fragments d ((getNat j "flatFuel").toOption.getD ((allInsts d).length + 5))).map
                              (fun (p : String × String) => (p.1, Json.str p.2)))),
                            ("refcount", ofNatList ((List.range d.ndefs).map d.refCount))])
  | f => throw s!"unknown fn {f}"

end Spydr.XformDriver

def main : IO Unit := Spydr.Proto.run Spydr.XformDriver.handle ()
