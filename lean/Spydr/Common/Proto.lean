/-
  Line protocol shared by every driver: one compact JSON request per line on stdin,
  one compact JSON answer per line on stdout.  No Mathlib (drivers are linked as lean_exe).
-/
import Lean.Data.Json

namespace Spydr.Proto
open Lean

/-- Run `handle` on every input line, threading a driver state. A line that is not JSON,
    or a handler error, is answered by `{"error": msg}` and never by a default value. -/
partial def loop {σ : Type} (h : IO.FS.Stream) (out : IO.FS.Stream)
    (handle : σ → Json → Except String (σ × Json)) (st : σ) : IO Unit := do
  let line ← h.getLine
  if line.isEmpty then return ()
  let t := line.trimAscii.toString
  if t.isEmpty then loop h out handle st else
  match Json.parse t with
  | .error e =>
      out.putStrLn (Json.compress (Json.mkObj [("error", Json.str s!"bad-json: {e}")]))
      out.flush
      loop h out handle st
  | .ok j =>
      match handle st j with
      | .error e =>
          out.putStrLn (Json.compress (Json.mkObj [("error", Json.str e)]))
          out.flush
          loop h out handle st
      | .ok (st', r) =>
          out.putStrLn (Json.compress r)
          out.flush
          loop h out handle st'

def run {σ : Type} (handle : σ → Json → Except String (σ × Json)) (init : σ) : IO Unit := do
  loop (← IO.getStdin) (← IO.getStdout) handle init

/-! Small decoding helpers (total, `Except`-valued). -/
def getNat (j : Json) (k : String) : Except String Nat := do
  let v ← j.getObjVal? k
  v.getNat?

def getStr (j : Json) (k : String) : Except String String := do
  let v ← j.getObjVal? k
  v.getStr?

def getArr (j : Json) (k : String) : Except String (Array Json) := do
  let v ← j.getObjVal? k
  v.getArr?

def getBool (j : Json) (k : String) : Except String Bool := do
  let v ← j.getObjVal? k
  v.getBool?

def getOptNat (j : Json) (k : String) : Except String (Option Nat) :=
  match j.getObjVal? k with
  | .error _ => .ok none
  | .ok .null => .ok none
  | .ok v => do let n ← v.getNat?; pure (some n)

def natList (a : Array Json) : Except String (List Nat) :=
  a.toList.mapM (·.getNat?)

def strList (a : Array Json) : Except String (List String) :=
  a.toList.mapM (·.getStr?)

def ofNatList (l : List Nat) : Json := Json.arr (l.map (fun (n : Nat) => (Json.num (JsonNumber.fromNat n)))).toArray
def ofStrList (l : List String) : Json := Json.arr (l.map Json.str).toArray
def ofOptNat : Option Nat → Json
  | none => Json.null
  | some n => Json.num (JsonNumber.fromNat n)

end Spydr.Proto
