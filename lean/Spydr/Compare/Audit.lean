import Spydr.Compare.Props.C20
#print axioms Spydr.Compare.C20.compare_refl
#print axioms Spydr.Compare.C20.compareUnrepaired_refl
#print axioms Spydr.Compare.C20.compare_sound
#print axioms Spydr.Compare.C20.compare_sound_contrapositive
#print axioms Spydr.Compare.C20.examinedEqB_iff
#print axioms Spydr.Compare.C20.unrepaired_accepts_moved_pin
