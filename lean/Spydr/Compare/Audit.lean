import Spydr.Compare.Props.C20
#print axioms Spydr.Compare.C20.compare_refl
#print axioms Spydr.Compare.C20.compareUnrepaired_refl
#print axioms Spydr.Compare.C20.compare_sound
#print axioms Spydr.Compare.C20.compare_sound_contrapositive
#print axioms Spydr.Compare.C20.examinedEqB_iff
#print axioms Spydr.Compare.C20.unrepaired_accepts_moved_pin
#print axioms Spydr.Compare.C20.mutation_port_raises
#print axioms Spydr.Compare.C20.mutation_cable_width_raises
#print axioms Spydr.Compare.C20.mutation_move_connection_raises
#print axioms Spydr.Compare.C20.mutation_repoint_raises
#print axioms Spydr.Compare.C20.mutation_property_raises
#print axioms Spydr.Compare.C20.mutation_element_count_raises
#print axioms Spydr.Compare.C20.mutation_definition_count_raises
#print axioms Spydr.Compare.C20.mutation_library_count_raises
