/-
  C20 — helper lemmas about the comparer model (`Model.lean`) and the view (`Spec.lean`).
  Part 1: combinators, look-ups, per-element clauses.
-/
import Spydr.Compare.Model
import Spydr.Compare.Spec
import Mathlib.Data.List.Perm.Subperm
import Mathlib.Data.List.Nodup

namespace Spydr.Compare

/-! ## Combinators -/

@[simp] theorem check_ok {b : Bool} : check b = .ok () ↔ b = true := by
  unfold check; cases b <;> simp

@[simp] theorem andThen_ok {x y : Res} : (x ;; y) = .ok () ↔ x = .ok () ∧ y = .ok () := by
  unfold Res.andThen
  cases x with
  | ok u => cases u; simp
  | error e => simp

theorem allM_ok {α : Type} {l : List α} {f : α → Res} :
    allM l f = .ok () ↔ ∀ x ∈ l, f x = .ok () := by
  induction l with
  | nil => simp [allM]
  | cons x xs ih => simp [allM, ih]

theorem allM2_map {α β γ : Type} {f : α → β → Res} {g : α → γ} {h : β → γ}
    (hf : ∀ x y, f x y = .ok () → g x = h y) :
    ∀ (l1 : List α) (l2 : List β), l1.length = l2.length → allM2 l1 l2 f = .ok () → l1.map g = l2.map h := by
  intro l1
  induction l1 with
  | nil => intro l2 hl _; cases l2 with
    | nil => rfl
    | cons _ _ => simp at hl
  | cons x xs ih =>
    intro l2 hl hok
    cases l2 with
    | nil => simp at hl
    | cons y ys =>
      simp only [allM2, andThen_ok] at hok
      simp only [List.length_cons, Nat.add_right_cancel_iff] at hl
      simp [hf x y hok.1, ih ys hl hok.2]

theorem allM2_self {α : Type} {f : α → α → Res} :
    ∀ (l : List α), (∀ x ∈ l, f x x = .ok ()) → allM2 l l f = .ok () := by
  intro l
  induction l with
  | nil => intro _; rfl
  | cons x xs ih =>
    intro h
    simp only [allM2, andThen_ok]
    exact ⟨h x (by simp), ih (fun y hy => h y (by simp [hy]))⟩

/-! ## Look-ups by name -/

theorem findNamed_eq_byName {α : Type} (name : α → Option String) (nm : String) (l : List α) :
    findNamed name nm l = byName name nm l := by
  induction l with
  | nil => rfl
  | cons x xs ih =>
    unfold findNamed at ih ⊢
    simp only [List.find?, byName]
    by_cases h : name x = some nm
    · simp [h]
    · have : (name x == some nm) = false := by simpa using h
      simp [this, h, ih]

theorem withFound_ok {α : Type} {name : α → Option String} {nm : String} {l : List α} {k : α → Res} :
    withFound name nm l k = .ok () ↔ ∃ y, byName name nm l = some y ∧ k y = .ok () := by
  unfold withFound
  rw [findNamed_eq_byName]
  cases byName name nm l <;> simp

theorem byName_some {α : Type} {name : α → Option String} {nm : String} {l : List α} {x : α}
    (h : byName name nm l = some x) : x ∈ l ∧ name x = some nm := by
  induction l with
  | nil => simp [byName] at h
  | cons y ys ih =>
    simp only [byName] at h
    by_cases hy : name y = some nm
    · simp only [hy, if_true, Option.some.injEq] at h
      subst h; exact ⟨by simp, hy⟩
    · simp only [hy, if_false] at h
      exact ⟨by simp [(ih h).1], (ih h).2⟩

theorem byName_none {α : Type} {name : α → Option String} {nm : String} {l : List α} :
    byName name nm l = none ↔ nm ∉ namesOf name l := by
  induction l with
  | nil => simp [byName, namesOf]
  | cons y ys ih =>
    simp only [byName, namesOf, List.filterMap_cons] at ih ⊢
    by_cases hy : name y = some nm
    · simp [hy]
    · simp only [hy, if_false]
      cases hn : name y with
      | none => simpa using ih
      | some n' =>
        have : n' ≠ nm := by intro e; apply hy; rw [hn, e]
        simp only [List.mem_cons, not_or]
        rw [ih]
        constructor
        · intro h; exact ⟨fun e => this e.symm, h⟩
        · intro h; exact h.2

theorem mem_namesOf {α : Type} {name : α → Option String} {nm : String} {l : List α} :
    nm ∈ namesOf name l ↔ ∃ x ∈ l, name x = some nm := by
  simp [namesOf, List.mem_filterMap]

theorem byName_of_mem_nodup {α : Type} {name : α → Option String} {nm : String} {l : List α} {x : α}
    (hnd : (namesOf name l).Nodup) (hx : x ∈ l) (hn : name x = some nm) : byName name nm l = some x := by
  induction l with
  | nil => simp at hx
  | cons y ys ih =>
    simp only [byName]
    rcases List.mem_cons.1 hx with rfl | hx'
    · simp [hn]
    · have hnd' : (namesOf name ys).Nodup := by
        simp only [namesOf, List.filterMap_cons] at hnd ⊢
        cases hy : name y with
        | none => simpa [hy] using hnd
        | some n' => rw [hy] at hnd; exact (List.nodup_cons.1 hnd).2
      by_cases hy : name y = some nm
      · exfalso
        simp only [namesOf, List.filterMap_cons, hy] at hnd
        have := (List.nodup_cons.1 hnd).1
        exact this (mem_namesOf.2 ⟨x, hx', hn⟩)
      · simp only [hy, if_false]; exact ih hnd' hx'

theorem namesOf_length_of_named {α : Type} {name : α → Option String} {l : List α}
    (h : allNamed name l = true) : (namesOf name l).length = l.length := by
  induction l with
  | nil => rfl
  | cons y ys ih =>
    simp only [allNamed, List.all_cons, Bool.and_eq_true] at h
    obtain ⟨n', hn⟩ := Option.isSome_iff_exists.1 h.1
    simp only [namesOf, List.filterMap_cons, hn, List.length_cons]
    congr 1
    exact ih (by simpa [allNamed] using h.2)

theorem namesOf_length_le {α : Type} (name : α → Option String) (l : List α) :
    (namesOf name l).length ≤ l.length := by
  unfold namesOf; exact List.length_filterMap_le _ _

/-- The pigeonhole step of the name-keyed comparison: every name of the original is found in the
    copy, the original's names are all present and distinct, the counts agree — then the two
    look-up functions agree at *every* name (also at names neither side uses, and the copy has no
    further names). -/
theorem keyed_agree {α β γ : Type} {na : α → Option String} {nb : β → Option String}
    {la : List α} {lb : List β} {va : String → α → γ} {vb : String → β → γ}
    (hnamed : allNamed na la = true) (hnd : (namesOf na la).Nodup) (hlen : la.length = lb.length)
    (hfound : ∀ nm x, byName na nm la = some x → ∃ y, byName nb nm lb = some y ∧ va nm x = vb nm y) :
    ∀ nm, (byName na nm la).map (va nm) = (byName nb nm lb).map (vb nm) := by
  intro nm
  cases hA : byName na nm la with
  | some x =>
    obtain ⟨y, hy, hv⟩ := hfound nm x hA
    simp [hy, hv]
  | none =>
    have hsub : namesOf na la ⊆ namesOf nb lb := by
      intro k hk
      cases hk' : byName na k la with
      | none => exact absurd hk (byName_none.1 hk')
      | some x =>
        obtain ⟨y, hy, _⟩ := hfound k x hk'
        exact mem_namesOf.2 ⟨y, (byName_some hy).1, (byName_some hy).2⟩
    have hsp : (namesOf na la).Subperm (namesOf nb lb) := List.subperm_of_subset hnd hsub
    have hle : (namesOf nb lb).length ≤ (namesOf na la).length := by
      rw [namesOf_length_of_named hnamed, hlen]; exact namesOf_length_le nb lb
    have hperm := hsp.perm_of_length_le hle
    have hB : byName nb nm lb = none := by
      rw [byName_none]
      intro hmem
      exact (byName_none.1 hA) (hperm.symm.subset hmem)
    simp [hB]

end Spydr.Compare
