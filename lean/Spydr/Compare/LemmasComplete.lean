/-
  C20 — completeness of the repaired comparer model: if the copy shows the same examined view and the
  same identifier fields as the original, the comparer returns.
-/
import Spydr.Compare.LemmasRefl

namespace Spydr.Compare

theorem allM2_of_map {α β γ : Type} {f : α → β → Res} {g : α → γ} {h : β → γ} :
    ∀ (l1 : List α) (l2 : List β), l1.map g = l2.map h →
      (∀ x ∈ l1, ∀ y ∈ l2, g x = h y → f x y = .ok ()) → allM2 l1 l2 f = .ok () := by
  intro l1
  induction l1 with
  | nil => intro l2 _ _; cases l2 <;> rfl
  | cons x xs ih =>
    intro l2 hm hf
    cases l2 with
    | nil => simp at hm
    | cons y ys =>
      simp only [List.map_cons, List.cons.injEq] at hm
      simp only [allM2, andThen_ok]
      exact ⟨hf x (by simp) y (by simp) hm.1,
        ih ys hm.2 (fun x' hx' y' hy' => hf x' (by simp [hx']) y' (by simp [hy']))⟩

theorem cmpPort_complete {dA lA dB lB : Option String} {p q : CPort}
    (hv : portView p = portView q) (hn : p.name = q.name) (ho : p.origId = q.origId)
    (hd : dA = dB) (hl : lA = lB) : cmpPort cfgFixed dA lA dB lB p q = .ok () := by
  simp only [portView, PortView.mk.injEq] at hv
  have hs : p.scalar = q.scalar := by simpa using hv.2.2
  simp [cmpPort, hv.1, hv.2.1, hs, hn, ho, hd, hl]

theorem cmpPropsL_complete : ∀ (po pc : List Dict), (∀ d ∈ po, (d.map (·.1)).Nodup) →
    slots po pc = slots po po → cmpPropsL po pc = .ok () := by
  intro po
  induction po with
  | nil => intro pc _ _; cases pc <;> rfl
  | cons d ds ih =>
    intro pc hnd h
    cases pc with
    | nil =>
      simp only [slots, List.cons.injEq] at h
      have hd : d = [] := by
        cases d with
        | nil => rfl
        | cons kv r =>
          exfalso
          have h1 := h.1
          simp only [List.map_cons, List.cons.injEq, Prod.mk.injEq, true_and] at h1
          have := valueOf_of_mem_nodup (hnd (kv :: r) (by simp)) (kv := kv) (by simp)
          rw [this] at h1
          exact absurd h1.1 (by simp)
      subst hd
      simp only [cmpPropsL, andThen_ok]
      exact ⟨by simp [cmpDict, allM], ih [] (fun e he => hnd e (by simp [he])) h.2⟩
    | cons c cs =>
      simp only [slots, List.cons.injEq] at h
      simp only [cmpPropsL, andThen_ok]
      refine ⟨?_, ih cs (fun e he => hnd e (by simp [he])) h.2⟩
      unfold cmpDict
      rw [allM_ok]
      intro kv hkv
      have h1 := (List.map_inj_left.1 h.1) kv hkv
      simp only [Prod.mk.injEq, true_and] at h1
      rw [valueOf_of_mem_nodup (hnd d (by simp)) hkv] at h1
      simp [lookupKey_eq_valueOf, h1]

theorem cmpInst_complete {a b : CNetlist} {i j : CInst} (hk : keysNodupB i.props = true)
    (hn : i.name = j.name) (ho : i.origId = j.origId)
    (hv : instView a i.props i = instView b i.props j) : cmpInst a b (some i) (some j) = .ok () := by
  simp only [instView, InstView.mk.injEq] at hv
  obtain ⟨href, hprops⟩ := hv
  simp only [cmpInst, optName, optOrig, Option.bind_some, hn, ho, beq_self_eq_true, check, if_true, andThen_ok, true_and]
  constructor
  · rw [refView_eq_resolve, refView_eq_resolve] at href
    cases ha : resolve a i.ref with
    | none =>
      cases hb : resolve b j.ref with
      | none => rfl
      | some r => simp [ha, hb] at href
    | some r1 =>
      cases hb : resolve b j.ref with
      | none => simp [ha, hb] at href
      | some r2 =>
        simp only [ha, hb, Option.map_some, Option.some.injEq, Prod.mk.injEq] at href
        simp [href.1, href.2]
  · cases hp : i.props with
    | none => rfl
    | some po =>
      simp only [hp, propsView] at hprops
      cases hq : j.props with
      | none => simp [hq] at hprops
      | some pc =>
        simp only [hq, Option.some.injEq] at hprops
        exact cmpPropsL_complete po pc (keysNodup_some (hp ▸ hk)) hprops.symm

/-- the repaired pin comparison accepts two resolved pins with the same view, provided the instances
    they belong to reference same-named definitions and are not `SDN_Assignment_` instances -/
theorem cmpPin_complete {dA lA dB lB : Option String} {x y : PinR} (hd : dA = dB) (hl : lA = lB)
    (hv : viewOfR x = viewOfR y)
    (hout : ∀ ia rd rl pn b ib rd' rl' pn' b', x = .outer ia rd rl pn b → y = .outer ib rd' rl' pn' b' →
      rd = rd' ∧ rl = rl' ∧ ∀ nm, ia = some nm → isAssign nm = false) :
    cmpPin cfgFixed dA lA dB lB (some x) (some y) = .ok () := by
  cases x with
  | inner pa ba =>
    cases y with
    | outer => simp [viewOfR] at hv
    | inner pb bb =>
      simp only [viewOfR, PinView.inner.injEq] at hv
      simp [cmpPin, innerEquiv, hv.1, hv.2, hd, hl]
  | outer ia rda rla pa ba =>
    cases y with
    | inner => simp [viewOfR] at hv
    | outer ib rdb rlb pb bb =>
      simp only [viewOfR, PinView.outer.injEq] at hv
      obtain ⟨h1, h2, h3⟩ := hout ia rda rla pa ba ib rdb rlb pb bb rfl rfl
      obtain ⟨hi, hp, hb⟩ := hv
      subst hi
      cases ia with
      | none => simp [cmpPin, instEquiv, innerEquiv, h1, h2, hd, hl, hp, hb]
      | some na => simp [cmpPin, instEquiv, innerEquiv, h3 na rfl, h1, h2, hd, hl, hp, hb]

theorem resolvePin_view_outer {n : CNetlist} {d : CDef} {p : CPin} {ia rd rl pn : Option String} {b : Nat}
    (h : resolvePin n d p = some (.outer ia rd rl pn b)) :
    ∃ i ∈ d.insts, i.name = ia ∧ refView n i.ref = some (rd, rl) := by
  cases p with
  | bad => simp [resolvePin] at h
  | port pi bit =>
    simp only [resolvePin] at h
    cases hp : d.ports[pi]? with
    | none => simp [hp] at h
    | some q => simp only [hp] at h; split at h <;> simp at h
  | inst ii pi bit =>
    simp only [resolvePin] at h
    cases hi : d.insts[ii]? with
    | none => simp [hi] at h
    | some i =>
      simp only [hi] at h
      cases hr : resolve n i.ref with
      | none => simp [hr] at h
      | some ri =>
        simp only [hr] at h
        cases hq : ri.ports[pi]? with
        | none => simp [hq] at h
        | some q =>
          simp only [hq] at h
          split at h
          · simp only [Option.some.injEq, PinR.outer.injEq] at h
            refine ⟨i, List.mem_of_getElem? hi, h.1, ?_⟩
            rw [refView_eq_resolve, hr]
            simp [h.2.1, h.2.2.1]
          · simp at h

theorem cmpCable_complete {a b : CNetlist} {lA lB : Option String} {dA dB : CDef} {ca cb : CCable}
    (hdn : dA.name = dB.name) (hl : lA = lB)
    (hcn : ca.name = cb.name) (hco : ca.origId = cb.origId)
    (hnamedI : allNamed (·.name) dA.insts = true)
    (hna : ∀ i ∈ dA.insts, ∀ nm, i.name = some nm → isAssign nm = false)
    (hndA : (namesOf (·.name) dA.insts).Nodup) (hndB : (namesOf (·.name) dB.insts).Nodup)
    (hrefs : ∀ nm, (byName (·.name) nm dA.insts).map (fun i => refView a i.ref)
                 = (byName (·.name) nm dB.insts).map (fun i => refView b i.ref))
    (hpa : ∀ w ∈ ca.wires, ∀ p ∈ w, pinOK a dA p = true)
    (hpb : ∀ w ∈ cb.wires, ∀ p ∈ w, pinOK b dB p = true)
    (hv : cableView a dA ca = cableView b dB cb) :
    cmpCable cfgFixed a b lA lB dA dB ca cb = .ok () := by
  unfold cableView at hv
  have hlen : ca.wires.length = cb.wires.length := by
    have := congrArg List.length hv; simpa using this
  simp only [cmpCable, andThen_ok, check_ok, beq_iff_eq]
  refine ⟨hcn, hco, hlen, ?_⟩
  refine allM2_of_map (g := fun w => w.map (pinView a dA)) (h := fun w => w.map (pinView b dB)) _ _ hv ?_
  intro wa hwa wb hwb hw
  have hwl : wa.length = wb.length := by
    have := congrArg List.length hw; simpa using this
  simp only [andThen_ok, check_ok, beq_iff_eq]
  refine ⟨hwl, ?_⟩
  refine allM2_of_map (g := pinView a dA) (h := pinView b dB) _ _ hw ?_
  intro pa hpa' pb hpb' hpv
  obtain ⟨x, hx⟩ := resolvePin_of_pinOK (hpa wa hwa pa hpa')
  obtain ⟨y, hy⟩ := resolvePin_of_pinOK (hpb wb hwb pb hpb')
  rw [hx, hy]
  rw [pinView_of_resolvePin hx, pinView_of_resolvePin hy] at hpv
  apply cmpPin_complete hdn hl hpv
  intro ia rd rl pn bt ib rd' rl' pn' bt' hxe hye
  subst hxe; subst hye
  simp only [viewOfR, PinView.outer.injEq] at hpv
  obtain ⟨i, hi, hin, hir⟩ := resolvePin_view_outer hx
  obtain ⟨j, hj, hjn, hjr⟩ := resolvePin_view_outer hy
  have hsome : (i.name).isSome := by
    simp only [allNamed, List.all_eq_true] at hnamedI; exact hnamedI i hi
  obtain ⟨nm, hnm⟩ := Option.isSome_iff_exists.1 hsome
  have hbi : byName (·.name) nm dA.insts = some i := byName_of_mem_nodup hndA hi hnm
  have hbj : byName (·.name) nm dB.insts = some j :=
    byName_of_mem_nodup hndB hj (by rw [hjn, ← hpv.1, ← hin, hnm])
  have := hrefs nm
  simp only [hbi, hbj, Option.map_some, Option.some.injEq, hir, hjr, Prod.mk.injEq] at this
  refine ⟨this.1, this.2, ?_⟩
  intro nm' hnm'
  exact hna i hi nm' (by rw [hin, hnm'])

theorem found_of_map_eq {α β γ : Type} {na : α → Option String} {nb : β → Option String} {nm : String}
    {la : List α} {lb : List β} {va : α → γ} {vb : β → γ} {x : α}
    (h : (byName na nm la).map va = (byName nb nm lb).map vb) (hx : byName na nm la = some x) :
    ∃ y, byName nb nm lb = some y ∧ va x = vb y := by
  rw [hx] at h
  cases hy : byName nb nm lb with
  | none => simp [hy] at h
  | some y => simp only [hy, Option.map_some, Option.some.injEq] at h; exact ⟨y, rfl, h⟩

theorem assignNames_nil {d : CDef} (hna : ∀ i ∈ d.insts, ∀ nm, i.name = some nm → isAssign nm = false) :
    assignNames d = [] := by
  unfold assignNames
  rw [List.filter_eq_nil_iff]
  intro nm hnm
  obtain ⟨i, hi, hin⟩ := List.mem_filterMap.1 hnm
  simp [hna i hi nm hin]

/-- unique sibling names inside one definition of the copy, and its pins placed -/
structure DefB (b : CNetlist) (d : CDef) : Prop where
  ndP : (namesOf (·.name) d.ports).Nodup
  ndC : (namesOf (·.name) d.cables).Nodup
  ndI : (namesOf (·.name) d.insts).Nodup
  pins : ∀ c ∈ d.cables, ∀ w ∈ c.wires, ∀ p ∈ w, pinOK b d p = true

theorem cmpDef_complete {a b : CNetlist} {lA lB : Option String} {dA dB : CDef}
    (hd : DefHyp dA) (hpa : ∀ c ∈ dA.cables, ∀ w ∈ c.wires, ∀ p ∈ w, pinOK a dA p = true) (hB : DefB b dB)
    (hn : dA.name = dB.name) (hl : lA = lB)
    (hv : defView a (some dA) dA = defView b (some dA) dB) (hi : defIds dA = defIds dB) :
    cmpDef cfgFixed a b lA lB dA dB = .ok () := by
  have hvP := congrArg DefView.port hv
  have hvC := congrArg DefView.cable hv
  have hvI := congrArg DefView.inst hv
  have hiP := congrArg DefIds.port hi
  have hiC := congrArg DefIds.cable hi
  have hiI := congrArg DefIds.inst hi
  have hiO : dA.origId = dB.origId := congrArg DefIds.origId hi
  have h1 : dA.ports.length = dB.ports.length := congrArg DefView.nPorts hv
  have h2 : dA.cables.length = dB.cables.length := congrArg DefView.nCables hv
  have h3 : dA.insts.length = dB.insts.length := congrArg DefView.nInsts hv
  simp only [defView] at hvP hvC hvI
  simp only [defIds] at hiP hiC hiI
  have hrefs : ∀ nm, (byName (·.name) nm dA.insts).map (fun i => refView a i.ref)
      = (byName (·.name) nm dB.insts).map (fun i => refView b i.ref) := by
    intro nm
    have := congrArg (Option.map InstView.ref) (congrFun hvI nm)
    simpa [Option.map_map, Function.comp_def, instView] using this
  have hnaB : ∀ j ∈ dB.insts, ∀ nm, j.name = some nm → isAssign nm = false := by
    intro j hj nm hjn
    have hmem : nm ∈ namesOf (·.name) dB.insts := mem_namesOf.2 ⟨j, hj, hjn⟩
    cases hx : byName (·.name) nm dA.insts with
    | none =>
      exfalso
      have := congrFun hvI nm
      rw [hx] at this
      have hnone : byName (·.name) nm dB.insts = none := by
        cases hy : byName (·.name) nm dB.insts with
        | none => rfl
        | some y => simp [hy] at this
      exact (byName_none.1 hnone) hmem
    | some x => exact hd.noAssign x (byName_some hx).1 nm (byName_some hx).2
  simp only [cmpDef, andThen_ok, check_ok, beq_iff_eq]
  refine ⟨hn, hiO, h1, ?_, h2, ?_, h3, ?_, ?_⟩
  · rw [allM_ok]
    intro p hp
    cases hpn : p.name with
    | none => rfl
    | some nm =>
      have hx := byName_of_mem_nodup hd.ndP hp hpn
      obtain ⟨q, hq, hvq⟩ := found_of_map_eq (congrFun hvP nm) hx
      obtain ⟨q', hq', hoq⟩ := found_of_map_eq (congrFun hiP nm) hx
      rw [hq] at hq'; cases hq'
      simp only [withFound_ok]
      exact ⟨q, hq, cmpPort_complete hvq (by rw [hpn, (byName_some hq).2]) hoq hn hl⟩
  · rw [allM_ok]
    intro c hc
    cases hcn : c.name with
    | none => rfl
    | some nm =>
      have hx := byName_of_mem_nodup hd.ndC hc hcn
      obtain ⟨c', hc', hvc⟩ := found_of_map_eq (congrFun hvC nm) hx
      obtain ⟨c'', hc'', hoc⟩ := found_of_map_eq (congrFun hiC nm) hx
      rw [hc'] at hc''; cases hc''
      simp only [withFound_ok]
      exact ⟨c', hc', cmpCable_complete hn hl (by rw [hcn, (byName_some hc').2]) hoc hd.namedI hd.noAssign
        hd.ndI hB.ndI hrefs (hpa c hc) (hB.pins c' (byName_some hc').1) hvc⟩
  · rw [allM_ok]
    intro i hi'
    cases hin : i.name with
    | none => rfl
    | some nm =>
      have hx := byName_of_mem_nodup hd.ndI hi' hin
      obtain ⟨j, hj, hvj⟩ := found_of_map_eq (congrFun hvI nm) hx
      obtain ⟨j', hj', hoj⟩ := found_of_map_eq (congrFun hiI nm) hx
      rw [hj] at hj'; cases hj'
      simp only [hd.noAssign i hi' nm hin, Bool.false_eq_true, if_false, withFound_ok]
      refine ⟨j, hj, cmpInst_complete (hd.keys i hi') (by rw [hin, (byName_some hj).2]) hoj ?_⟩
      have : origInstProps (some dA) nm = i.props := by simp [origInstProps, hx]
      rw [this] at hvj
      exact hvj
  · simp [assignCheck, assignNames_nil hd.noAssign, assignNames_nil hnaB, toks]

theorem cmpLib_complete {a b : CNetlist} {lA lB : CLib} (hl : LibHyp lA)
    (hpa : ∀ d ∈ lA.defs, ∀ c ∈ d.cables, ∀ w ∈ c.wires, ∀ p ∈ w, pinOK a d p = true)
    (hB : ∀ d ∈ lB.defs, DefB b d) (hn : lA.name = lB.name)
    (hv : libView a (some lA) lA = libView b (some lA) lB) (hi : libIds lA = libIds lB) :
    cmpLib cfgFixed a b lA lB = .ok () := by
  have hvD := congrArg LibView.defn hv
  have hiD := congrArg LibIds.defn hi
  have hiO : lA.origId = lB.origId := congrArg LibIds.origId hi
  have h1 : lA.defs.length = lB.defs.length := congrArg LibView.nDefs hv
  simp only [libView] at hvD
  simp only [libIds] at hiD
  simp only [cmpLib, andThen_ok, check_ok, beq_iff_eq]
  refine ⟨hn, hiO, h1, ?_⟩
  rw [allM_ok]
  intro d hd
  cases hdn : d.name with
  | none => rfl
  | some nm =>
    have hx := byName_of_mem_nodup hl.nd hd hdn
    obtain ⟨d', hd', hvd⟩ := found_of_map_eq (congrFun hvD nm) hx
    obtain ⟨d'', hd'', hod⟩ := found_of_map_eq (congrFun hiD nm) hx
    rw [hd'] at hd''; cases hd''
    simp only [withFound_ok]
    have hod' : origDef (some lA) nm = some d := by simp [origDef, hx]
    rw [hod'] at hvd
    exact ⟨d', hd', cmpDef_complete (hl.defs d hd) (hpa d hd) (hB d' (byName_some hd').1)
      (by rw [hdn, (byName_some hd').2]) hn hvd hod⟩

theorem compareWith_complete {a b : CNetlist} (ha : NetHyp a)
    (hpa : ∀ l ∈ a.libs, ∀ d ∈ l.defs, ∀ c ∈ d.cables, ∀ w ∈ c.wires, ∀ p ∈ w, pinOK a d p = true)
    (hB : ∀ l ∈ b.libs, ∀ d ∈ l.defs, DefB b d)
    (hv : examined a a = examined a b) (hi : idents a = idents b) :
    compareWith cfgFixed a b = .ok () := by
  have hvL := congrArg View.lib hv
  have hvT := congrArg View.top hv
  have hiL := congrArg Ids.lib hi
  have h1 : a.libs.length = b.libs.length := congrArg View.nLibs hv
  have hN : a.name = b.name := congrArg Ids.name hi
  have hO : a.origId = b.origId := congrArg Ids.origId hi
  have hTn := congrArg Ids.topName hi
  have hTo := congrArg Ids.topOrig hi
  simp only [examined] at hvL hvT
  simp only [idents] at hiL hTn hTo
  simp only [compareWith, andThen_ok, check_ok, beq_iff_eq]
  refine ⟨hN, hO, ?_, h1, ?_⟩
  · cases hta : a.top with
    | none =>
      cases htb : b.top with
      | none => simp
      | some t' => simp [hta, htb] at hvT
    | some t =>
      cases htb : b.top with
      | none => simp [hta, htb] at hvT
      | some t' =>
        simp only [hta, htb, Option.map_some, Option.bind_some, Option.some.injEq] at hvT hTn hTo
        simp only [Option.isSome_some, Bool.or_self, if_true]
        exact cmpInst_complete (ha.topKeys t hta) hTn hTo hvT
  · rw [allM_ok]
    intro l hl
    cases hln : l.name with
    | none => rfl
    | some nm =>
      have hx := byName_of_mem_nodup ha.nd hl hln
      obtain ⟨l', hl', hvl⟩ := found_of_map_eq (congrFun hvL nm) hx
      obtain ⟨l'', hl'', hol⟩ := found_of_map_eq (congrFun hiL nm) hx
      rw [hl'] at hl''; cases hl''
      simp only [withFound_ok]
      rw [hx] at hvl
      exact ⟨l', hl', cmpLib_complete (ha.libs l hl) (hpa l hl) (hB l' (byName_some hl').1)
        (by rw [hln, (byName_some hl').2]) hvl hol⟩

theorem pinsOK_of_WF {n : CNetlist} (h : WF n) :
    ∀ l ∈ n.libs, ∀ d ∈ l.defs, ∀ c ∈ d.cables, ∀ w ∈ c.wires, ∀ p ∈ w, pinOK n d p = true := by
  unfold WF wfB at h
  simp only [Bool.and_eq_true, List.all_eq_true] at h
  exact fun l hl d hd => (h.1 l hl d hd).2

theorem defB_of {b : CNetlist} (hW : WF b) (hU : UniqueNames b) : ∀ l ∈ b.libs, ∀ d ∈ l.defs, DefB b d := by
  intro l hl d hd
  have hUd := (hU.2 l hl).2 d hd
  exact ⟨hUd.1, hUd.2.1, hUd.2.2, pinsOK_of_WF hW l hl d hd⟩

end Spydr.Compare
