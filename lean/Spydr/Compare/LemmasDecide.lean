/-
  C20 — the Bool-valued `examinedEqB` (what the driver evaluates) decides the equation between views.
-/
import Spydr.Compare.LemmasSound2

namespace Spydr.Compare

/-- two name-keyed look-ups agree everywhere iff they agree at the names either side uses -/
theorem keyed_eq_iff {α β γ : Type} {na : α → Option String} {nb : β → Option String}
    {la : List α} {lb : List β} {va : String → α → γ} {vb : String → β → γ} :
    (∀ nm, (byName na nm la).map (va nm) = (byName nb nm lb).map (vb nm)) ↔
    (∀ nm ∈ namesOf na la ++ namesOf nb lb, (byName na nm la).map (va nm) = (byName nb nm lb).map (vb nm)) := by
  constructor
  · intro h nm _; exact h nm
  · intro h nm
    by_cases hm : nm ∈ namesOf na la ++ namesOf nb lb
    · exact h nm hm
    · simp only [List.mem_append, not_or] at hm
      rw [byName_none.2 hm.1, byName_none.2 hm.2]; rfl

theorem DefView.eq_iff {x y : DefView} : x = y ↔
    x.nPorts = y.nPorts ∧ x.nCables = y.nCables ∧ x.nInsts = y.nInsts ∧ (∀ nm, x.port nm = y.port nm) ∧
    (∀ nm, x.cable nm = y.cable nm) ∧ (∀ nm, x.inst nm = y.inst nm) := by
  constructor
  · intro h; subst h; simp
  · intro ⟨h1, h2, h3, h4, h5, h6⟩; exact DefView.ext' h1 h2 h3 h4 h5 h6

theorem LibView.eq_iff {x y : LibView} : x = y ↔ x.nDefs = y.nDefs ∧ (∀ nm, x.defn nm = y.defn nm) := by
  constructor
  · intro h; subst h; simp
  · intro ⟨h1, h2⟩; exact LibView.ext' h1 h2

theorem View.eq_iff {x y : View} : x = y ↔ x.nLibs = y.nLibs ∧ (∀ nm, x.lib nm = y.lib nm) ∧ x.top = y.top := by
  constructor
  · intro h; subst h; simp
  · intro ⟨h1, h2, h3⟩; exact View.ext' h1 h2 h3

theorem defAgreeB_spec (a b : CNetlist) (oda odb : Option CDef) (da db : CDef) :
    defAgreeB a b oda odb da db = true ↔ defView a oda da = defView b odb db := by
  rw [DefView.eq_iff]
  simp only [defAgreeB, defView, Bool.and_eq_true, beq_iff_eq, List.all_eq_true, decide_eq_true_eq]
  rw [keyed_eq_iff (va := fun _ => portView) (vb := fun _ => portView),
      keyed_eq_iff (va := fun _ => cableView a da) (vb := fun _ => cableView b db),
      keyed_eq_iff (va := fun k => instView a (origInstProps oda k)) (vb := fun k => instView b (origInstProps odb k))]
  tauto

theorem libAgreeB_spec (a b : CNetlist) (ola olb : Option CLib) (la lb : CLib) :
    libAgreeB a b ola olb la lb = true ↔ libView a ola la = libView b olb lb := by
  rw [LibView.eq_iff]
  simp only [libAgreeB, libView, Bool.and_eq_true, beq_iff_eq, List.all_eq_true]
  rw [keyed_eq_iff (va := fun k => defView a (origDef ola k)) (vb := fun k => defView b (origDef olb k))]
  constructor
  · intro ⟨h1, h2⟩
    refine ⟨h1, fun nm hnm => ?_⟩
    have := h2 nm hnm
    unfold optAgree at this
    cases hx : byName (·.name) nm la.defs <;> cases hy : byName (·.name) nm lb.defs <;> simp_all [defAgreeB_spec]
  · intro ⟨h1, h2⟩
    refine ⟨h1, fun nm hnm => ?_⟩
    have := h2 nm hnm
    unfold optAgree
    cases hx : byName (·.name) nm la.defs <;> cases hy : byName (·.name) nm lb.defs <;> simp_all [defAgreeB_spec]

theorem examinedEqB_spec (o a b : CNetlist) : examinedEqB o a b = true ↔ examined o a = examined o b := by
  rw [View.eq_iff]
  simp only [examinedEqB, examined, Bool.and_eq_true, beq_iff_eq, List.all_eq_true, decide_eq_true_eq]
  rw [keyed_eq_iff (va := fun k => libView a (byName (·.name) k o.libs)) (vb := fun k => libView b (byName (·.name) k o.libs))]
  constructor
  · intro ⟨⟨h1, h3⟩, h2⟩
    refine ⟨h1, fun nm hnm => ?_, h3⟩
    have := h2 nm hnm
    unfold optAgree at this
    cases hx : byName (·.name) nm a.libs <;> cases hy : byName (·.name) nm b.libs <;> simp_all [libAgreeB_spec]
  · intro ⟨h1, h2, h3⟩
    refine ⟨⟨h1, h3⟩, fun nm hnm => ?_⟩
    have := h2 nm hnm
    unfold optAgree
    cases hx : byName (·.name) nm a.libs <;> cases hy : byName (·.name) nm b.libs <;> simp_all [libAgreeB_spec]

/-! ## the restricted view and the identifier fields -/

theorem guard_eq_iff {α β : Type} {no : α → Option String} {lo : List α} {f g : String → Option β} :
    (∀ nm, guardBy (byName no nm lo) (f nm) = guardBy (byName no nm lo) (g nm)) ↔
    (∀ nm ∈ namesOf no lo, f nm = g nm) := by
  constructor
  · intro h nm hnm
    have := h nm
    cases hb : byName no nm lo with
    | none => exact absurd hnm (byName_none.1 hb)
    | some x => simpa [guardBy, hb] using this
  · intro h nm
    cases hb : byName no nm lo with
    | none => rfl
    | some x =>
      simp only [guardBy]
      exact h nm (mem_namesOf.2 ⟨x, (byName_some hb).1, (byName_some hb).2⟩)

theorem defAgreeNB_spec (a b : CNetlist) (od : Option CDef) (da db : CDef) :
    defAgreeNB a b od da db = true ↔ defViewN a od da = defViewN b od db := by
  rw [DefView.eq_iff]
  cases od with
  | none => simp [defAgreeNB, defViewN, guardBy]; tauto
  | some o =>
    simp only [defAgreeNB, defViewN, Option.bind_some, Bool.and_eq_true, beq_iff_eq, List.all_eq_true, decide_eq_true_eq]
    rw [guard_eq_iff, guard_eq_iff, guard_eq_iff]
    tauto

theorem libAgreeNB_spec (a b : CNetlist) (ol : Option CLib) (la lb : CLib) :
    libAgreeNB a b ol la lb = true ↔ libViewN a ol la = libViewN b ol lb := by
  rw [LibView.eq_iff]
  cases ol with
  | none => simp [libAgreeNB, libViewN, origDef, guardBy]
  | some o =>
    simp only [libAgreeNB, libViewN, Bool.and_eq_true, beq_iff_eq, List.all_eq_true]
    have hg : ∀ nm, guardBy (origDef (some o) nm) = guardBy (β := DefView) (byName (·.name) nm o.defs) := by
      intro nm; simp [origDef]
    simp only [hg]
    rw [guard_eq_iff]
    constructor
    · intro ⟨h1, h2⟩
      refine ⟨h1, fun nm hnm => ?_⟩
      have := h2 nm hnm
      unfold optAgree at this
      cases hx : byName (·.name) nm la.defs <;> cases hy : byName (·.name) nm lb.defs <;> simp_all [defAgreeNB_spec]
    · intro ⟨h1, h2⟩
      refine ⟨h1, fun nm hnm => ?_⟩
      have := h2 nm hnm
      unfold optAgree
      cases hx : byName (·.name) nm la.defs <;> cases hy : byName (·.name) nm lb.defs <;> simp_all [defAgreeNB_spec]

theorem examinedNEqB_spec (o a b : CNetlist) : examinedNEqB o a b = true ↔ examinedN o a = examinedN o b := by
  rw [View.eq_iff]
  simp only [examinedNEqB, examinedN, Bool.and_eq_true, beq_iff_eq, List.all_eq_true, decide_eq_true_eq]
  rw [guard_eq_iff]
  constructor
  · intro ⟨⟨h1, h3⟩, h2⟩
    refine ⟨h1, fun nm hnm => ?_, h3⟩
    have := h2 nm hnm
    unfold optAgree at this
    cases hx : byName (·.name) nm a.libs <;> cases hy : byName (·.name) nm b.libs <;> simp_all [libAgreeNB_spec]
  · intro ⟨h1, h2, h3⟩
    refine ⟨⟨h1, h3⟩, fun nm hnm => ?_⟩
    have := h2 nm hnm
    unfold optAgree
    cases hx : byName (·.name) nm a.libs <;> cases hy : byName (·.name) nm b.libs <;> simp_all [libAgreeNB_spec]

theorem DefIds.eq_iff {x y : DefIds} : x = y ↔
    x.origId = y.origId ∧ (∀ nm, x.port nm = y.port nm) ∧ (∀ nm, x.cable nm = y.cable nm) ∧ (∀ nm, x.inst nm = y.inst nm) := by
  constructor
  · intro h; subst h; simp
  · intro ⟨h1, h2, h3, h4⟩
    cases x; cases y
    simp only [DefIds.mk.injEq]
    exact ⟨h1, funext h2, funext h3, funext h4⟩

theorem LibIds.eq_iff {x y : LibIds} : x = y ↔ x.origId = y.origId ∧ (∀ nm, x.defn nm = y.defn nm) := by
  constructor
  · intro h; subst h; simp
  · intro ⟨h1, h2⟩
    cases x; cases y
    simp only [LibIds.mk.injEq]
    exact ⟨h1, funext h2⟩

theorem Ids.eq_iff {x y : Ids} : x = y ↔ x.name = y.name ∧ x.origId = y.origId ∧ x.topName = y.topName ∧
    x.topOrig = y.topOrig ∧ (∀ nm, x.lib nm = y.lib nm) := by
  constructor
  · intro h; subst h; simp
  · intro ⟨h1, h2, h3, h4, h5⟩
    cases x; cases y
    simp only [Ids.mk.injEq]
    exact ⟨h1, h2, h3, h4, funext h5⟩

theorem defIdsEqB_spec (da db : CDef) : defIdsEqB da db = true ↔ defIds da = defIds db := by
  rw [DefIds.eq_iff]
  simp only [defIdsEqB, defIds, Bool.and_eq_true, List.all_eq_true, decide_eq_true_eq]
  rw [keyed_eq_iff (va := fun _ (p : CPort) => p.origId) (vb := fun _ (p : CPort) => p.origId),
      keyed_eq_iff (va := fun _ (c : CCable) => c.origId) (vb := fun _ (c : CCable) => c.origId),
      keyed_eq_iff (va := fun _ (i : CInst) => i.origId) (vb := fun _ (i : CInst) => i.origId)]
  tauto

theorem libIdsEqB_spec (la lb : CLib) : libIdsEqB la lb = true ↔ libIds la = libIds lb := by
  rw [LibIds.eq_iff]
  simp only [libIdsEqB, libIds, Bool.and_eq_true, List.all_eq_true, decide_eq_true_eq]
  rw [keyed_eq_iff (va := fun _ => defIds) (vb := fun _ => defIds)]
  constructor
  · intro ⟨h1, h2⟩
    refine ⟨h1, fun nm hnm => ?_⟩
    have := h2 nm hnm
    unfold optAgree at this
    cases hx : byName (·.name) nm la.defs <;> cases hy : byName (·.name) nm lb.defs <;> simp_all [defIdsEqB_spec]
  · intro ⟨h1, h2⟩
    refine ⟨h1, fun nm hnm => ?_⟩
    have := h2 nm hnm
    unfold optAgree
    cases hx : byName (·.name) nm la.defs <;> cases hy : byName (·.name) nm lb.defs <;> simp_all [defIdsEqB_spec]

theorem identsEqB_spec (a b : CNetlist) : identsEqB a b = true ↔ idents a = idents b := by
  rw [Ids.eq_iff]
  simp only [identsEqB, idents, Bool.and_eq_true, List.all_eq_true, decide_eq_true_eq]
  rw [keyed_eq_iff (va := fun _ => libIds) (vb := fun _ => libIds)]
  constructor
  · intro ⟨⟨⟨⟨h1, h2⟩, h3⟩, h4⟩, h5⟩
    refine ⟨h1, h2, h3, h4, fun nm hnm => ?_⟩
    have := h5 nm hnm
    unfold optAgree at this
    cases hx : byName (·.name) nm a.libs <;> cases hy : byName (·.name) nm b.libs <;> simp_all [libIdsEqB_spec]
  · intro ⟨h1, h2, h3, h4, h5⟩
    refine ⟨⟨⟨⟨h1, h2⟩, h3⟩, h4⟩, fun nm hnm => ?_⟩
    have := h5 nm hnm
    unfold optAgree
    cases hx : byName (·.name) nm a.libs <;> cases hy : byName (·.name) nm b.libs <;> simp_all [libIdsEqB_spec]

end Spydr.Compare
