/-
  C20 — every single structural mutation from the statement's list changes the examined view, hence
  (by `compareWith_sound`) is rejected by the repaired comparer.
-/
import Spydr.Compare.LemmasRefl
import Spydr.Compare.SpecMut

namespace Spydr.Compare

theorem namesOf_set {α : Type} {name : α → Option String} :
    ∀ (l : List α) (i : Nat) (x y : α), l[i]? = some x → name y = name x →
      namesOf name (l.set i y) = namesOf name l := by
  intro l
  induction l with
  | nil => intro i x y h _; simp at h
  | cons z zs ih =>
    intro i x y h hn
    cases i with
    | zero =>
      simp only [List.getElem?_cons_zero, Option.some.injEq] at h
      subst h
      simp [namesOf, List.filterMap_cons, hn]
    | succ j =>
      simp only [List.getElem?_cons_succ] at h
      simp only [List.set_cons_succ, namesOf, List.filterMap_cons]
      have := ih j x y h hn
      simp only [namesOf] at this
      rw [this]

theorem getElem?_set_self' {α : Type} {l : List α} {i : Nat} {x y : α} (hi : l[i]? = some x) :
    (l.set i y)[i]? = some y := by
  have hlt : i < l.length := by
    rcases Nat.lt_or_ge i l.length with h | h
    · exact h
    · simp [List.getElem?_eq_none h] at hi
  simp [hlt]

theorem byName_set {α : Type} {name : α → Option String}
    {l : List α} {i : Nat} {x y : α} {nm : String} (hnd : (namesOf name l).Nodup)
    (hi : l[i]? = some x) (hn : name x = some nm) (hy : name y = name x) :
    byName name nm (l.set i y) = some y := by
  apply byName_of_mem_nodup
  · rw [namesOf_set l i x y hi hy]; exact hnd
  · exact List.mem_of_getElem? (getElem?_set_self' hi)
  · rw [hy, hn]

theorem byName_get {α : Type} {name : α → Option String}
    {l : List α} {i : Nat} {x : α} {nm : String} (hnd : (namesOf name l).Nodup)
    (hi : l[i]? = some x) (hn : name x = some nm) : byName name nm l = some x :=
  byName_of_mem_nodup hnd (List.mem_of_getElem? hi) hn

theorem atDef_examined {o n : CNetlist} {li di : Nat} {L : CLib} {D : CDef} {ln dn : String}
    (hndL : (namesOf (·.name) n.libs).Nodup) (hL : n.libs[li]? = some L) (hln : L.name = some ln)
    (hndD : (namesOf (·.name) L.defs).Nodup) (hD : L.defs[di]? = some D) (hdn : D.name = some dn) :
    atDef (examined o n) ln dn = some (defView n (origDef (byName (·.name) ln o.libs) dn) D) := by
  simp only [atDef, examined, byName_get hndL hL hln, Option.map_some, Option.bind_some, libView,
    byName_get hndD hD hdn]

theorem defView_eq_of_examined_eq {a : CNetlist} {li di : Nat} {L : CLib} {D D' : CDef}
    (hN : Named a) (hU : UniqueNames a) (hat : At a li di L D) (hname : D'.name = D.name)
    (h : examined a a = examined a (setDef a li di D')) :
    defView a (some D) D = defView (setDef a li di D') (some D) D' := by
  have hLm := List.mem_of_getElem? hat.lib
  have hDm := List.mem_of_getElem? hat.defn
  unfold Named namedB at hN
  simp only [Bool.and_eq_true, List.all_eq_true, allNamed] at hN
  obtain ⟨ln, hln⟩ := Option.isSome_iff_exists.1 (hN.1 L hLm)
  obtain ⟨dn, hdn⟩ := Option.isSome_iff_exists.1 ((hN.2 L hLm).1 D hDm)
  have hndL := hU.1
  have hndD := (hU.2 L hLm).1
  have h1 := atDef_examined (o := a) hndL hat.lib hln hndD hat.defn hdn
  -- the mutant
  let L' : CLib := { L with defs := L.defs.set di D' }
  have hb : setDef a li di D' = setLib a li L' := by simp [setDef, hat.lib, L']
  have hbl : (setLib a li L').libs[li]? = some L' := getElem?_set_self' hat.lib
  have hndL' : (namesOf (·.name) (setLib a li L').libs).Nodup := by
    simp only [setLib]; rw [namesOf_set a.libs li L L' hat.lib rfl]; exact hndL
  have hndD' : (namesOf (·.name) L'.defs).Nodup := by
    simp only [L']; rw [namesOf_set L.defs di D D' hat.defn hname]; exact hndD
  have hbd : L'.defs[di]? = some D' := getElem?_set_self' hat.defn
  have h2 := atDef_examined (o := a) (n := setLib a li L') hndL' hbl (show L'.name = some ln from hln)
    hndD' hbd (hname.trans hdn)
  have hod : origDef (byName (·.name) ln a.libs) dn = some D := by
    simp [origDef, byName_get hndL hat.lib hln, byName_get hndD hat.defn hdn]
  rw [hod] at h1 h2
  have := congrArg (fun v => atDef v ln dn) h
  simp only [h1, hb, h2, Option.some.injEq] at this
  rw [hb]; exact this


/-- **Any replacement of one definition (same name) whose examined view differs is rejected.** -/
theorem def_mutation_raises {a : CNetlist} {li di : Nat} {L : CLib} {D D' : CDef}
    (hN : Named a) (hU : UniqueNames a) (hA : NoAssign a) (hK : PropKeys a)
    (hat : At a li di L D) (hname : D'.name = D.name)
    (hdiff : defView a (some D) D ≠ defView (setDef a li di D') (some D) D') :
    ∃ fam, compare a (setDef a li di D') = .error fam := by
  cases h : compare a (setDef a li di D') with
  | error e => exact ⟨e, rfl⟩
  | ok u =>
    cases u
    exact absurd (defView_eq_of_examined_eq hN hU hat hname (compareWith_sound (netHyp_of hN hU hA hK) h)) hdiff

/-- facts about the definition at `(li, di)` extracted from `Named` / `UniqueNames` -/
theorem defFacts {a : CNetlist} {li di : Nat} {L : CLib} {D : CDef} (hN : Named a) (hU : UniqueNames a)
    (hat : At a li di L D) :
    (allNamed (·.name) D.ports = true ∧ allNamed (·.name) D.cables = true ∧ allNamed (·.name) D.insts = true) ∧
    ((namesOf (·.name) D.ports).Nodup ∧ (namesOf (·.name) D.cables).Nodup ∧ (namesOf (·.name) D.insts).Nodup) := by
  have hLm := List.mem_of_getElem? hat.lib
  have hDm := List.mem_of_getElem? hat.defn
  unfold Named namedB at hN
  simp only [Bool.and_eq_true, List.all_eq_true] at hN
  have h1 := (hN.2 L hLm).2 D hDm
  exact ⟨⟨h1.1.1, h1.1.2, h1.2⟩, (hU.2 L hLm).2 D hDm⟩

theorem named_get {α : Type} {name : α → Option String} {l : List α} {i : Nat} {x : α}
    (h : allNamed name l = true) (hi : l[i]? = some x) : ∃ nm, name x = some nm := by
  simp only [allNamed, List.all_eq_true] at h
  exact Option.isSome_iff_exists.1 (h x (List.mem_of_getElem? hi))

/-- change a port's direction, width or array-ness -/
theorem port_mutation_raises {a : CNetlist} {li di pi : Nat} {L : CLib} {D : CDef} {P P' : CPort}
    (hN : Named a) (hU : UniqueNames a) (hA : NoAssign a) (hK : PropKeys a)
    (hat : At a li di L D) (hP : D.ports[pi]? = some P) (hname : P'.name = P.name)
    (hdiff : portView P' ≠ portView P) :
    ∃ fam, compare a (setDef a li di { D with ports := D.ports.set pi P' }) = .error fam := by
  apply def_mutation_raises (D' := { D with ports := D.ports.set pi P' }) hN hU hA hK hat rfl
  intro h
  obtain ⟨⟨hnp, _, _⟩, ⟨hndp, _, _⟩⟩ := defFacts hN hU hat
  obtain ⟨pn, hpn⟩ := named_get hnp hP
  have := congrArg (fun v : DefView => v.port pn) h
  simp only [defView, byName_get hndp hP hpn, byName_set hndp hP hpn hname, Option.map_some, Option.some.injEq] at this
  exact hdiff this.symm

/-- drop or add one port, cable or instance (any change of one of the three counts of a definition) -/
theorem def_count_raises {a : CNetlist} {li di : Nat} {L : CLib} {D D' : CDef}
    (hN : Named a) (hU : UniqueNames a) (hA : NoAssign a) (hK : PropKeys a)
    (hat : At a li di L D) (hname : D'.name = D.name)
    (hdiff : D'.ports.length ≠ D.ports.length ∨ D'.cables.length ≠ D.cables.length ∨ D'.insts.length ≠ D.insts.length) :
    ∃ fam, compare a (setDef a li di D') = .error fam := by
  apply def_mutation_raises hN hU hA hK hat hname
  intro h
  have h1 := congrArg DefView.nPorts h
  have h2 := congrArg DefView.nCables h
  have h3 := congrArg DefView.nInsts h
  simp only [defView] at h1 h2 h3
  rcases hdiff with hd | hd | hd
  · exact hd h1.symm
  · exact hd h2.symm
  · exact hd h3.symm

/-- change a cable's width -/
theorem cable_width_raises {a : CNetlist} {li di ci : Nat} {L : CLib} {D : CDef} {C C' : CCable}
    (hN : Named a) (hU : UniqueNames a) (hA : NoAssign a) (hK : PropKeys a)
    (hat : At a li di L D) (hC : D.cables[ci]? = some C) (hname : C'.name = C.name)
    (hdiff : C'.wires.length ≠ C.wires.length) :
    ∃ fam, compare a (setDef a li di { D with cables := D.cables.set ci C' }) = .error fam := by
  apply def_mutation_raises (D' := { D with cables := D.cables.set ci C' }) hN hU hA hK hat rfl
  intro h
  obtain ⟨⟨_, hnc, _⟩, ⟨_, hndc, _⟩⟩ := defFacts hN hU hat
  obtain ⟨cn, hcn⟩ := named_get hnc hC
  have := congrArg (fun v : DefView => (v.cable cn).map List.length) h
  simp only [defView, byName_get hndc hC hcn, byName_set hndc hC hcn hname, Option.map_some, Option.some.injEq,
    cableView, List.length_map] at this
  exact hdiff this.symm


/-! replacing a definition by one with the same name (and the same ports) does not change what
    references and pins elsewhere resolve to -/

theorem lookup_setDef {a : CNetlist} {li di : Nat} {L : CLib} {D D' : CDef} (hat : At a li di L D)
    {γ : Type} (f : CLib → CDef → γ) (hf : f { L with defs := L.defs.set di D' } D' = f L D)
    (hf' : ∀ X, f { L with defs := L.defs.set di D' } X = f L X) (lj dj : Nat) :
    (match (setDef a li di D').libs[lj]? with
      | none => none
      | some K => match K.defs[dj]? with
        | none => none
        | some X => some (f K X)) =
    (match a.libs[lj]? with
      | none => none
      | some K => match K.defs[dj]? with
        | none => none
        | some X => some (f K X)) := by
  have hl0 := hat.lib
  have hd0 := hat.defn
  have hlt : li < a.libs.length := by
    rcases Nat.lt_or_ge li a.libs.length with h | h
    · exact h
    · simp [List.getElem?_eq_none h] at hl0
  have hdlt : di < L.defs.length := by
    rcases Nat.lt_or_ge di L.defs.length with h | h
    · exact h
    · simp [List.getElem?_eq_none h] at hd0
  simp only [setDef, hat.lib, setLib]
  by_cases hl : li = lj
  · subst hl
    simp only [List.getElem?_set_self hlt, hat.lib]
    by_cases hd : di = dj
    · subst hd
      simp only [List.getElem?_set_self hdlt, hat.defn, hf]
    · simp only [List.getElem?_set_ne hd]
      cases L.defs[dj]? <;> simp [hf']
  · simp only [List.getElem?_set_ne hl]

theorem refView_setDef {a : CNetlist} {li di : Nat} {L : CLib} {D D' : CDef} (hat : At a li di L D)
    (hname : D'.name = D.name) (r : CRef) : refView (setDef a li di D') r = refView a r := by
  cases r with
  | none => rfl
  | ext dn ln => rfl
  | idx lj dj =>
    have := lookup_setDef (D' := D') hat (fun K X => (X.name, K.name)) (by simp [hname]) (by intro X; rfl) lj dj
    simp only [refView]
    cases h1 : (setDef a li di D').libs[lj]? with
    | none =>
      simp only [h1] at this
      cases h2 : a.libs[lj]? with
      | none => rfl
      | some K => simp only [h2] at this ⊢; cases h3 : K.defs[dj]? <;> simp_all
    | some K' =>
      simp only [h1] at this
      cases h2 : a.libs[lj]? with
      | none => simp only [h2] at this ⊢; cases h3 : K'.defs[dj]? <;> simp_all
      | some K =>
        simp only [h2] at this ⊢
        cases h3 : K'.defs[dj]? <;> cases h4 : K.defs[dj]? <;> simp_all

theorem refPorts_setDef {a : CNetlist} {li di : Nat} {L : CLib} {D D' : CDef} (hat : At a li di L D)
    (hports : D'.ports = D.ports) (r : CRef) : refPorts (setDef a li di D') r = refPorts a r := by
  cases r with
  | none => rfl
  | ext dn ln => rfl
  | idx lj dj =>
    have := lookup_setDef (D' := D') hat (fun _ X => X.ports) (by simp [hports]) (by intro X; rfl) lj dj
    simp only [refPorts]
    cases h1 : (setDef a li di D').libs[lj]? with
    | none =>
      simp only [h1] at this
      cases h2 : a.libs[lj]? with
      | none => rfl
      | some K => simp only [h2] at this ⊢; cases h3 : K.defs[dj]? <;> simp_all
    | some K' =>
      simp only [h1] at this
      cases h2 : a.libs[lj]? with
      | none => simp only [h2] at this ⊢; cases h3 : K'.defs[dj]? <;> simp_all
      | some K =>
        simp only [h2] at this ⊢
        cases h3 : K'.defs[dj]? <;> cases h4 : K.defs[dj]? <;> simp_all

theorem pinView_setDef {a : CNetlist} {li di : Nat} {L : CLib} {D D' : CDef} (hat : At a li di L D)
    (hports : D'.ports = D.ports) (hinsts : D'.insts = D.insts) (p : CPin) :
    pinView (setDef a li di D') D' p = pinView a D p := by
  cases p with
  | bad => rfl
  | port pi bit => simp only [pinView, hports]
  | inst ii pi bit => simp only [pinView, hinsts, refPorts_setDef hat hports]

/-- re-point an instance, or change / drop one of its properties: anything that changes the
    instance's view (reference names, values in the original's property slots) -/
theorem inst_mutation_raises {a : CNetlist} {li di ki : Nat} {L : CLib} {D : CDef} {I I' : CInst}
    (hN : Named a) (hU : UniqueNames a) (hA : NoAssign a) (hK : PropKeys a)
    (hat : At a li di L D) (hI : D.insts[ki]? = some I) (hname : I'.name = I.name)
    (hdiff : refView a I'.ref ≠ refView a I.ref ∨ propsView I.props I'.props ≠ propsView I.props I.props) :
    ∃ fam, compare a (setDef a li di { D with insts := D.insts.set ki I' }) = .error fam := by
  apply def_mutation_raises (D' := { D with insts := D.insts.set ki I' }) hN hU hA hK hat rfl
  intro h
  obtain ⟨⟨_, _, hni⟩, ⟨_, _, hndi⟩⟩ := defFacts hN hU hat
  obtain ⟨inm, hinm⟩ := named_get hni hI
  have := congrArg (fun v : DefView => v.inst inm) h
  simp only [defView, byName_get hndi hI hinm, byName_set hndi hI hinm hname, Option.map_some, Option.some.injEq,
    origInstProps, instView, InstView.mk.injEq] at this
  rw [refView_setDef (D' := { D with insts := D.insts.set ki I' }) hat rfl] at this
  rcases hdiff with hd | hd
  · exact hd this.1.symm
  · exact hd this.2.symm

theorem set_map_ne {α β : Type} {f : α → β} {l : List α} {i : Nat} {x y : α} (hi : l[i]? = some x)
    (hne : f y ≠ f x) : (l.set i y).map f ≠ l.map f := by
  intro h
  have h1 : ((l.set i y).map f)[i]? = some (f y) := by
    rw [List.getElem?_map, getElem?_set_self' hi]; rfl
  have h2 : (l.map f)[i]? = some (f x) := by simp [hi]
  rw [h] at h1
  rw [h1] at h2
  exact hne (Option.some.inj h2)

/-- move one connection: the pin at position `k` of wire `wi` of cable `ci` is replaced by a pin that is
    another instance, another port or another bit -/
theorem pin_move_raises {a : CNetlist} {li di ci wi k : Nat} {L : CLib} {D : CDef} {C : CCable}
    {w : List CPin} {p p' : CPin}
    (hN : Named a) (hU : UniqueNames a) (hA : NoAssign a) (hK : PropKeys a)
    (hat : At a li di L D) (hC : D.cables[ci]? = some C) (hw : C.wires[wi]? = some w) (hp : w[k]? = some p)
    (hdiff : pinView a D p' ≠ pinView a D p) :
    ∃ fam, compare a (setDef a li di { D with cables := D.cables.set ci { C with wires := C.wires.set wi (w.set k p') } }) = .error fam := by
  apply def_mutation_raises (D' := { D with cables := D.cables.set ci { C with wires := C.wires.set wi (w.set k p') } })
    hN hU hA hK hat rfl
  intro h
  obtain ⟨⟨_, hnc, _⟩, ⟨_, hndc, _⟩⟩ := defFacts hN hU hat
  obtain ⟨cn, hcn⟩ := named_get hnc hC
  have := congrArg (fun v : DefView => v.cable cn) h
  simp only [defView, byName_get hndc hC hcn,
    byName_set (y := { C with wires := C.wires.set wi (w.set k p') }) hndc hC hcn rfl, Option.map_some,
    Option.some.injEq, cableView] at this
  have hpv : ∀ q, pinView (setDef a li di { D with cables := D.cables.set ci { C with wires := C.wires.set wi (w.set k p') } })
      { D with cables := D.cables.set ci { C with wires := C.wires.set wi (w.set k p') } } q = pinView a D q :=
    fun q => pinView_setDef (D' := { D with cables := D.cables.set ci { C with wires := C.wires.set wi (w.set k p') } }) hat rfl rfl q
  rw [funext hpv] at this
  exact set_map_ne (f := fun w => w.map (pinView a D)) hw (set_map_ne hp hdiff) this.symm


/-! ## different positions have different names -/

theorem idx_inj {α : Type} {name : α → Option String} {nm : String} :
    ∀ (l : List α) (i j : Nat) (x y : α), (namesOf name l).Nodup → l[i]? = some x → l[j]? = some y →
      name x = some nm → name y = some nm → i = j := by
  intro l
  induction l with
  | nil => intro i j x y _ h; simp at h
  | cons z zs ih =>
    intro i j x y hnd hi hj hx hy
    have hnd' : (namesOf name zs).Nodup := by
      simp only [namesOf, List.filterMap_cons] at hnd ⊢
      cases hz : name z with
      | none => simpa [hz] using hnd
      | some n' => rw [hz] at hnd; exact (List.nodup_cons.1 hnd).2
    cases i with
    | zero =>
      cases j with
      | zero => rfl
      | succ j' =>
        exfalso
        simp only [List.getElem?_cons_zero, Option.some.injEq] at hi
        simp only [List.getElem?_cons_succ] at hj
        subst hi
        simp only [namesOf, List.filterMap_cons, hx] at hnd
        exact (List.nodup_cons.1 hnd).1 (mem_namesOf.2 ⟨y, List.mem_of_getElem? hj, hy⟩)
    | succ i' =>
      cases j with
      | zero =>
        exfalso
        simp only [List.getElem?_cons_zero, Option.some.injEq] at hj
        simp only [List.getElem?_cons_succ] at hi
        subst hj
        simp only [namesOf, List.filterMap_cons, hy] at hnd
        exact (List.nodup_cons.1 hnd).1 (mem_namesOf.2 ⟨x, List.mem_of_getElem? hi, hx⟩)
      | succ j' =>
        simp only [List.getElem?_cons_succ] at hi hj
        rw [ih i' j' x y hnd' hi hj hx hy]

/-- two different definitions of a named netlist with unique sibling names have different
    (definition name, library name) pairs -/
theorem refView_idx_ne {a : CNetlist} {li di lj dj : Nat} {L K : CLib} {D E : CDef}
    (hN : Named a) (hU : UniqueNames a) (h1 : At a li di L D) (h2 : At a lj dj K E)
    (hne : (li, di) ≠ (lj, dj)) : refView a (.idx li di) ≠ refView a (.idx lj dj) := by
  intro h
  simp only [refView, h1.lib, h1.defn, h2.lib, h2.defn, Option.some.injEq, Prod.mk.injEq] at h
  have hLm := List.mem_of_getElem? h1.lib
  unfold Named namedB at hN
  simp only [Bool.and_eq_true, List.all_eq_true, allNamed] at hN
  obtain ⟨ln, hln⟩ := Option.isSome_iff_exists.1 (hN.1 L hLm)
  obtain ⟨dn, hdn⟩ := Option.isSome_iff_exists.1 ((hN.2 L hLm).1 D (List.mem_of_getElem? h1.defn))
  have hl : li = lj := idx_inj a.libs li lj L K hU.1 h1.lib h2.lib hln (by rw [← h.2, hln])
  subst hl
  have hLK : L = K := by have := h1.lib; rw [h2.lib] at this; exact (Option.some.inj this).symm
  subst hLK
  have hd : di = dj := idx_inj L.defs di dj D E (hU.2 L hLm).1 h1.defn h2.defn hdn (by rw [← h.1, hdn])
  subst hd
  exact hne rfl

/-- hypotheses under which placed pins are told apart by their view: ports and instances of the
    definition, and ports of every referenced definition, are named with unique names -/
structure PinCtx (a : CNetlist) (D : CDef) : Prop where
  namedP : allNamed (·.name) D.ports = true
  ndP : (namesOf (·.name) D.ports).Nodup
  namedI : allNamed (·.name) D.insts = true
  ndI : (namesOf (·.name) D.insts).Nodup
  refNamed : ∀ i ∈ D.insts, allNamed (·.name) (refPorts a i.ref) = true
  refNd : ∀ i ∈ D.insts, (namesOf (·.name) (refPorts a i.ref)).Nodup

theorem pinView_ne {a : CNetlist} {D : CDef} (hc : PinCtx a D) {p q : CPin}
    (hp : pinOK a D p = true) (hq : pinOK a D q = true) (hne : p ≠ q) : pinView a D p ≠ pinView a D q := by
  intro h
  cases p with
  | bad => simp [pinOK] at hp
  | port pi bit =>
    cases q with
    | bad => simp [pinOK] at hq
    | port qi qbit =>
      simp only [pinOK, pinView] at hp hq h
      cases hP : D.ports[pi]? with
      | none => simp [hP] at hp
      | some P =>
        cases hQ : D.ports[qi]? with
        | none => simp [hQ] at hq
        | some Q =>
          simp only [hP, hQ, PinView.inner.injEq] at h
          obtain ⟨nm, hnm⟩ := named_get hc.namedP hP
          have : pi = qi := idx_inj D.ports pi qi P Q hc.ndP hP hQ hnm (by rw [← h.1, hnm])
          exact hne (by rw [this, h.2])
    | inst qi qp qbit =>
      simp only [pinOK, pinView] at hp hq h
      cases hP : D.ports[pi]? with
      | none => simp [hP] at hp
      | some P =>
        cases hI : D.insts[qi]? with
        | none => simp [hI] at hq
        | some I =>
          simp only [hI] at hq
          cases hQ : (refPorts a I.ref)[qp]? with
          | none => simp [hQ] at hq
          | some Q => simp [hP, hI, hQ] at h
  | inst ii pi bit =>
    cases q with
    | bad => simp [pinOK] at hq
    | port qi qbit =>
      simp only [pinOK, pinView] at hp hq h
      cases hQ : D.ports[qi]? with
      | none => simp [hQ] at hq
      | some Q =>
        cases hI : D.insts[ii]? with
        | none => simp [hI] at hp
        | some I =>
          simp only [hI] at hp
          cases hP : (refPorts a I.ref)[pi]? with
          | none => simp [hP] at hp
          | some P => simp [hQ, hI, hP] at h
    | inst qi qp qbit =>
      simp only [pinOK, pinView] at hp hq h
      cases hI : D.insts[ii]? with
      | none => simp [hI] at hp
      | some I =>
        cases hJ : D.insts[qi]? with
        | none => simp [hJ] at hq
        | some J =>
          simp only [hI, hJ] at hp hq h
          cases hP : (refPorts a I.ref)[pi]? with
          | none => simp [hP] at hp
          | some P =>
            cases hQ : (refPorts a J.ref)[qp]? with
            | none => simp [hQ] at hq
            | some Q =>
              simp only [hP, hQ, PinView.outer.injEq] at h
              obtain ⟨inm, hinm⟩ := named_get hc.namedI hI
              have hij : ii = qi := idx_inj D.insts ii qi I J hc.ndI hI hJ hinm (by rw [← h.1, hinm])
              subst hij
              have hIJ : I = J := by rw [hI] at hJ; exact Option.some.inj hJ
              subst hIJ
              have hIm := List.mem_of_getElem? hI
              obtain ⟨pnm, hpnm⟩ := named_get (hc.refNamed I hIm) hP
              have hpq : pi = qp :=
                idx_inj (refPorts a I.ref) pi qp P Q (hc.refNd I hIm) hP hQ hpnm (by rw [← h.2.1, hpnm])
              exact hne (by rw [hpq, h.2.2])

theorem refPorts_mem {a : CNetlist} {r : CRef} (hN : Named a) (hU : UniqueNames a) :
    allNamed (·.name) (refPorts a r) = true ∧ (namesOf (·.name) (refPorts a r)).Nodup := by
  have hnil : allNamed (fun p : CPort => p.name) [] = true ∧ (namesOf (fun p : CPort => p.name) []).Nodup := by
    simp [allNamed, namesOf]
  cases r with
  | none => exact hnil
  | ext dn ln => exact hnil
  | idx lj dj =>
    simp only [refPorts]
    cases hK : a.libs[lj]? with
    | none => exact hnil
    | some K =>
      simp only
      cases hE : K.defs[dj]? with
      | none => exact hnil
      | some E =>
        have hf := defFacts hN hU ⟨hK, hE⟩
        exact ⟨hf.1.1, hf.2.1⟩

theorem pinCtx_of {a : CNetlist} {li di : Nat} {L : CLib} {D : CDef} (hN : Named a) (hU : UniqueNames a)
    (hat : At a li di L D) : PinCtx a D := by
  obtain ⟨⟨hnp, _, hni⟩, ⟨hndp, _, hndi⟩⟩ := defFacts hN hU hat
  exact ⟨hnp, hndp, hni, hndi, fun i _ => (refPorts_mem hN hU).1, fun i _ => (refPorts_mem hN hU).2⟩

/-! ## library level -/

/-- drop or add one definition of a library (same library name, other number of definitions) -/
theorem lib_count_raises {a : CNetlist} {li : Nat} {L L' : CLib}
    (hN : Named a) (hU : UniqueNames a) (hA : NoAssign a) (hK : PropKeys a)
    (hL : a.libs[li]? = some L) (hname : L'.name = L.name) (hdiff : L'.defs.length ≠ L.defs.length) :
    ∃ fam, compare a (setLib a li L') = .error fam := by
  cases h : compare a (setLib a li L') with
  | error e => exact ⟨e, rfl⟩
  | ok u =>
    cases u
    exfalso
    have hs := compareWith_sound (netHyp_of hN hU hA hK) h
    have hLm := List.mem_of_getElem? hL
    unfold Named namedB at hN
    simp only [Bool.and_eq_true, List.all_eq_true, allNamed] at hN
    obtain ⟨ln, hln⟩ := Option.isSome_iff_exists.1 (hN.1 L hLm)
    have := congrArg (fun v : View => (v.lib ln).map LibView.nDefs) hs
    simp only [examined, byName_get hU.1 hL hln, setLib, byName_set hU.1 hL hln hname, Option.map_some,
      libView, Option.some.injEq] at this
    exact hdiff this.symm

/-- drop or add one library -/
theorem netlist_count_raises {a b : CNetlist} (hdiff : b.libs.length ≠ a.libs.length) :
    ∃ fam, compare a b = .error fam := by
  cases h : compare a b with
  | error e => exact ⟨e, rfl⟩
  | ok u =>
    cases u
    exfalso
    simp only [compare, compareWith, andThen_ok, check_ok, beq_iff_eq] at h
    exact hdiff h.2.2.2.1.symm

/-- the number of pins of one wire changes — a connection is added to a net, dropped from it, or moved to
    another net (of this or of another cable): the copy's definition `D'` is arbitrary except that it
    keeps the definition's name, has unique cable names, and contains a cable named like `C` whose wire
    `wi` lists another number of pins -/
theorem wire_pincount_raises {a : CNetlist} {li di ci ci' wi : Nat} {L : CLib} {D D' : CDef} {C C' : CCable}
    {w w' : List CPin}
    (hN : Named a) (hU : UniqueNames a) (hA : NoAssign a) (hK : PropKeys a)
    (hat : At a li di L D) (hname : D'.name = D.name) (hndC' : (namesOf (·.name) D'.cables).Nodup)
    (hC : D.cables[ci]? = some C) (hC' : D'.cables[ci']? = some C') (hcn : C'.name = C.name)
    (hw : C.wires[wi]? = some w) (hw' : C'.wires[wi]? = some w') (hne : w'.length ≠ w.length) :
    ∃ fam, compare a (setDef a li di D') = .error fam := by
  apply def_mutation_raises hN hU hA hK hat hname
  intro h
  obtain ⟨⟨_, hnc, _⟩, ⟨_, hndc, _⟩⟩ := defFacts hN hU hat
  obtain ⟨cn, hcn'⟩ := named_get hnc hC
  have := congrArg (fun v : DefView => (v.cable cn).bind fun ws => (ws[wi]?).map List.length) h
  simp only [defView, byName_get hndc hC hcn', byName_get hndC' hC' (hcn.trans hcn'), Option.map_some,
    Option.bind_some, cableView, List.getElem?_map, hw, hw', List.length_map, Option.some.injEq] at this
  exact hne this.symm

end Spydr.Compare
