/-
  C20 — the (repaired, and also the pinned) comparer model accepts a netlist compared with itself;
  and the bridge from the Bool-valued hypotheses of `Spec.lean` to the structured ones.
-/
import Spydr.Compare.LemmasSound2

namespace Spydr.Compare

/-! ## from `Named`, `UniqueNames`, `NoAssign`, `PropKeys` to `NetHyp` -/

theorem netHyp_of {n : CNetlist} (hN : Named n) (hU : UniqueNames n) (hA : NoAssign n) (hK : PropKeys n) :
    NetHyp n := by
  unfold Named namedB at hN
  unfold NoAssign noAssignB at hA
  unfold PropKeys propKeysB at hK
  simp only [Bool.and_eq_true, List.all_eq_true] at hN hA hK
  refine ⟨hN.1, hU.1, ?_, ?_⟩
  · intro l hl
    refine ⟨(hN.2 l hl).1, (hU.2 l hl).1, ?_⟩
    intro d hd
    have hNd := (hN.2 l hl).2 d hd
    have hUd := (hU.2 l hl).2 d hd
    refine ⟨hNd.1.1, hNd.1.2, hNd.2, hUd.1, hUd.2.1, hUd.2.2, ?_, ?_⟩
    · intro i hi nm hnm
      have := hA l hl d hd i hi
      simp only [hnm, Bool.not_eq_true'] at this
      rw [isAssign_eq]; exact this
    · intro i hi
      exact hK.1 l hl d hd i hi
  · intro t ht
    have := hK.2
    simp only [ht] at this
    exact this

/-! ## reflexivity, clause by clause (repaired comparer; no `Named`, no port-width hypothesis) -/

theorem tok_eq (nm : String) : tok nm = (splitUnderscore nm.toList)[3]? := rfl

theorem cmpPort_refl {d l : Option String} {p : CPort} : cmpPort cfgFixed d l d l p p = .ok () := by
  simp [cmpPort]

theorem valueOf_self {d : Dict} (hnd : (d.map (·.1)).Nodup) : ∀ kv ∈ d, valueOf kv.1 d = some kv.2 :=
  fun _ hkv => valueOf_of_mem_nodup hnd hkv

theorem cmpDict_refl {d : Dict} (hnd : (d.map (·.1)).Nodup) : cmpDict d (some d) = .ok () := by
  unfold cmpDict
  rw [allM_ok]
  intro kv hkv
  simp [lookupKey_eq_valueOf, valueOf_self hnd kv hkv]

theorem cmpPropsL_refl : ∀ (po : List Dict), (∀ d ∈ po, (d.map (·.1)).Nodup) → cmpPropsL po po = .ok () := by
  intro po
  induction po with
  | nil => intro _; rfl
  | cons d ds ih =>
    intro h
    simp only [cmpPropsL, andThen_ok]
    exact ⟨cmpDict_refl (h d (by simp)), ih (fun e he => h e (by simp [he]))⟩

theorem cmpInst_refl {n : CNetlist} {i : CInst} (hk : keysNodupB i.props = true) :
    cmpInst n n (some i) (some i) = .ok () := by
  simp only [cmpInst, andThen_ok, check_ok, beq_self_eq_true, true_and]
  constructor
  · cases resolve n i.ref <;> simp
  · cases hp : i.props with
    | none => rfl
    | some po => exact cmpPropsL_refl po (keysNodup_some (hp ▸ hk))

theorem resolvePin_of_pinOK {n : CNetlist} {d : CDef} {p : CPin} (h : pinOK n d p = true) :
    ∃ r, resolvePin n d p = some r := by
  cases p with
  | bad => simp [pinOK] at h
  | port pi bit =>
    simp only [pinOK, resolvePin] at h ⊢
    cases hp : d.ports[pi]? with
    | none => simp [hp] at h
    | some q =>
      simp only [hp, decide_eq_true_eq] at h ⊢
      simp [h]
  | inst ii pi bit =>
    simp only [pinOK, resolvePin] at h ⊢
    cases hi : d.insts[ii]? with
    | none => simp [hi] at h
    | some i =>
      simp only [hi] at h ⊢
      cases hr : resolve n i.ref with
      | none =>
        exfalso
        have : refPorts n i.ref = [] := by
          cases hrf : i.ref with
          | none => rfl
          | ext dn ln => simp [resolve, hrf] at hr
          | idx li di =>
            simp only [hrf, resolve] at hr
            simp only [refPorts]
            cases hl : n.libs[li]? with
            | none => rfl
            | some L =>
              simp only [hl] at hr ⊢
              cases hd : L.defs[di]? with
              | none => rfl
              | some D => simp [hd] at hr
        simp [this] at h
      | some ri =>
        rw [refPorts_eq_resolve hr] at h
        cases hq : ri.ports[pi]? with
        | none => simp [hq] at h
        | some q =>
          simp only [hq, decide_eq_true_eq] at h ⊢
          simp [h]

theorem cmpPin_refl {dn ln : Option String} {r : PinR}
    (hna : ∀ ia rd rl pn b, r = .outer ia rd rl pn b → ∀ nm, ia = some nm → isAssign nm = true → (tok nm).isSome) :
    cmpPin cfgFixed dn ln dn ln (some r) (some r) = .ok () := by
  cases r with
  | inner pa ba => simp [cmpPin, innerEquiv]
  | outer ia rd rl pa ba =>
    have h := hna ia rd rl pa ba rfl
    cases ia with
    | none => simp [cmpPin, instEquiv, innerEquiv]
    | some na =>
      by_cases hA : isAssign na = true
      · obtain ⟨t, ht⟩ := Option.isSome_iff_exists.1 (h na rfl hA)
        simp [cmpPin, instEquiv, innerEquiv, hA, ht]
      · have hA' : isAssign na = false := by simpa using hA
        simp [cmpPin, instEquiv, innerEquiv, hA']

theorem cmpCable_refl {n : CNetlist} {ln : Option String} {d : CDef} {c : CCable}
    (hna : ∀ i ∈ d.insts, ∀ nm, i.name = some nm → isAssign nm = true → (tok nm).isSome)
    (hpins : ∀ w ∈ c.wires, ∀ p ∈ w, pinOK n d p = true) :
    cmpCable cfgFixed n n ln ln d d c c = .ok () := by
  simp only [cmpCable, andThen_ok, check_ok, beq_self_eq_true, true_and]
  apply allM2_self
  intro w hw
  simp only [andThen_ok, check_ok, beq_self_eq_true, true_and]
  apply allM2_self
  intro p hp
  obtain ⟨r, hr⟩ := resolvePin_of_pinOK (hpins w hw p hp)
  rw [hr]
  apply cmpPin_refl
  intro ia rd rl pn b he nm hnm hA
  subst he
  obtain ⟨i, hi, hin⟩ := resolvePin_outer_name hr
  exact hna i hi nm (by rw [hin, hnm]) hA

theorem toks_some : ∀ (l : List String), (∀ s ∈ l, (tok s).isSome) → ∃ ts, toks l = some ts := by
  intro l
  induction l with
  | nil => intro _; exact ⟨[], rfl⟩
  | cons s r ih =>
    intro h
    obtain ⟨t, ht⟩ := Option.isSome_iff_exists.1 (h s (by simp))
    obtain ⟨ts, hts⟩ := ih (fun x hx => h x (by simp [hx]))
    exact ⟨t :: ts, by simp [toks, ht, hts]⟩

theorem assignCheck_refl {d : CDef}
    (hna : ∀ i ∈ d.insts, ∀ nm, i.name = some nm → isAssign nm = true → (tok nm).isSome) :
    assignCheck d d = .ok () := by
  have hall : ∀ s ∈ assignNames d, (tok s).isSome := by
    intro s hs
    unfold assignNames at hs
    obtain ⟨hs1, hs2⟩ := List.mem_filter.1 hs
    obtain ⟨i, hi, hin⟩ := List.mem_filterMap.1 hs1
    exact hna i hi s hin hs2
  obtain ⟨ts, hts⟩ := toks_some _ hall
  simp [assignCheck, hts]

/-- what a self-comparison of one definition needs -/
structure DefHypR (n : CNetlist) (d : CDef) : Prop where
  ndP : (namesOf (·.name) d.ports).Nodup
  ndC : (namesOf (·.name) d.cables).Nodup
  ndI : (namesOf (·.name) d.insts).Nodup
  assignOK : ∀ i ∈ d.insts, ∀ nm, i.name = some nm → isAssign nm = true → (tok nm).isSome
  keys : ∀ i ∈ d.insts, keysNodupB i.props = true
  pins : ∀ c ∈ d.cables, ∀ w ∈ c.wires, ∀ p ∈ w, pinOK n d p = true

theorem loop_self {α : Type} {name : α → Option String} {l : List α} {k : α → α → Res}
    (hnd : (namesOf name l).Nodup) (hk : ∀ x ∈ l, k x x = .ok ()) :
    allM l (fun x => match name x with
      | none => ok
      | some nm => withFound name nm l (k x)) = .ok () := by
  rw [allM_ok]
  intro x hx
  cases hn : name x with
  | none => rfl
  | some nm =>
    simp only [withFound_ok]
    exact ⟨x, byName_of_mem_nodup hnd hx hn, hk x hx⟩

theorem cmpDef_refl {n : CNetlist} {ln : Option String} {d : CDef} (hd : DefHypR n d) :
    cmpDef cfgFixed n n ln ln d d = .ok () := by
  simp only [cmpDef, andThen_ok, check_ok, beq_self_eq_true, true_and]
  refine ⟨?_, ?_, ?_, assignCheck_refl hd.assignOK⟩
  · exact loop_self (k := fun p q => cmpPort cfgFixed d.name ln d.name ln p q) hd.ndP
      (fun p _ => cmpPort_refl)
  · exact loop_self (k := fun c c' => cmpCable cfgFixed n n ln ln d d c c') hd.ndC
      (fun c hc => cmpCable_refl hd.assignOK (hd.pins c hc))
  · rw [allM_ok]
    intro i hi
    cases hn : i.name with
    | none => rfl
    | some nm =>
      simp only
      split
      · rfl
      · simp only [withFound_ok]
        exact ⟨i, byName_of_mem_nodup hd.ndI hi hn, cmpInst_refl (hd.keys i hi)⟩

structure NetHypR (n : CNetlist) : Prop where
  nd : (namesOf (·.name) n.libs).Nodup
  ndD : ∀ l ∈ n.libs, (namesOf (·.name) l.defs).Nodup
  defs : ∀ l ∈ n.libs, ∀ d ∈ l.defs, DefHypR n d
  topKeys : ∀ t, n.top = some t → keysNodupB t.props = true

theorem cmpLib_refl {n : CNetlist} {l : CLib} (hnd : (namesOf (·.name) l.defs).Nodup)
    (hd : ∀ d ∈ l.defs, DefHypR n d) : cmpLib cfgFixed n n l l = .ok () := by
  simp only [cmpLib, andThen_ok, check_ok, beq_self_eq_true, true_and]
  exact loop_self (k := fun d d' => cmpDef cfgFixed n n l.name l.name d d') hnd
    (fun d hdm => cmpDef_refl (hd d hdm))

theorem compareWith_refl {n : CNetlist} (hn : NetHypR n) : compareWith cfgFixed n n = .ok () := by
  simp only [compareWith, andThen_ok, check_ok, beq_self_eq_true, true_and]
  refine ⟨?_, ?_⟩
  · cases ht : n.top with
    | none => simp
    | some t => simpa using cmpInst_refl (hn.topKeys t ht)
  · exact loop_self (k := fun l l' => cmpLib cfgFixed n n l l') hn.nd
      (fun l hl => cmpLib_refl (hn.ndD l hl) (hn.defs l hl))

theorem netHypR_of {n : CNetlist} (hW : WF n) (hU : UniqueNames n) (hA : AssignOK n) : NetHypR n := by
  unfold WF wfB at hW
  unfold AssignOK assignOkB at hA
  simp only [Bool.and_eq_true, List.all_eq_true] at hW hA
  refine ⟨hU.1, fun l hl => (hU.2 l hl).1, ?_, ?_⟩
  · intro l hl d hd
    have hUd := (hU.2 l hl).2 d hd
    have hWd := hW.1 l hl d hd
    refine ⟨hUd.1, hUd.2.1, hUd.2.2, ?_, hWd.1, hWd.2⟩
    intro i hi nm hnm hAs
    have := hA l hl d hd i hi
    simp only [hnm, Bool.or_eq_true, Bool.not_eq_true'] at this
    rw [tok_eq]
    rcases this with h | h
    · rw [isAssign_eq] at hAs; rw [hAs] at h; cases h
    · exact h
  · intro t ht
    have := hW.2
    simp only [ht] at this
    exact this

theorem propKeys_of_WF {n : CNetlist} (h : WF n) : PropKeys n := by
  unfold WF wfB at h
  unfold PropKeys propKeysB
  simp only [Bool.and_eq_true, List.all_eq_true] at h ⊢
  refine ⟨fun l hl d hd i hi => (h.1 l hl d hd).1 i hi, ?_⟩
  cases ht : n.top with
  | none => rfl
  | some t =>
    have := h.2
    simp only [ht] at this
    exact this

theorem netHypN_of {n : CNetlist} (hU : UniqueNames n) (hA : NoAssign n) (hK : PropKeys n) : NetHypN n := by
  unfold NoAssign noAssignB at hA
  unfold PropKeys propKeysB at hK
  simp only [Bool.and_eq_true, List.all_eq_true] at hA hK
  refine ⟨hU.1, ?_, ?_⟩
  · intro l hl
    refine ⟨(hU.2 l hl).1, ?_⟩
    intro d hd
    have hUd := (hU.2 l hl).2 d hd
    refine ⟨hUd.1, hUd.2.1, hUd.2.2, ?_, ?_⟩
    · intro i hi nm hnm
      have := hA l hl d hd i hi
      simp only [hnm, Bool.not_eq_true'] at this
      rw [isAssign_eq]; exact this
    · intro i hi
      exact hK.1 l hl d hd i hi
  · intro t ht
    have := hK.2
    simp only [ht] at this
    exact this

/-- `NoAssign` is the special case of `AssignOK` -/
theorem assignOK_of_noAssign {n : CNetlist} (h : NoAssign n) : AssignOK n := by
  unfold NoAssign noAssignB at h
  unfold AssignOK assignOkB
  simp only [List.all_eq_true] at h ⊢
  intro l hl d hd i hi
  have := h l hl d hd i hi
  cases hn : i.name with
  | none => rfl
  | some nm => simp only [hn] at this; simp [this]

end Spydr.Compare
