/-
  C20 — the (repaired, and also the pinned) comparer model accepts a netlist compared with itself;
  and the bridge from the Bool-valued hypotheses of `Spec.lean` to the structured ones.
-/
import Spydr.Compare.LemmasSound2

namespace Spydr.Compare

/-! ## from `Named`, `UniqueNames`, `NoAssign`, `PropKeys` to `NetHyp` -/

theorem netHyp_of {n : CNetlist} (hN : Named n) (hU : UniqueNames n) (hA : NoAssign n) (hK : PropKeys n) :
    NetHyp n := by
  unfold Named namedB at hN
  unfold NoAssign noAssignB at hA
  unfold PropKeys propKeysB at hK
  simp only [Bool.and_eq_true, List.all_eq_true] at hN hA hK
  refine ⟨hN.1, hU.1, ?_, ?_⟩
  · intro l hl
    refine ⟨(hN.2 l hl).1, (hU.2 l hl).1, ?_⟩
    intro d hd
    have hNd := (hN.2 l hl).2 d hd
    have hUd := (hU.2 l hl).2 d hd
    refine ⟨hNd.1.1, hNd.1.2, hNd.2, hUd.1, hUd.2.1, hUd.2.2, ?_, ?_⟩
    · intro i hi nm hnm
      have := hA l hl d hd i hi
      simp only [hnm, Bool.not_eq_true'] at this
      rw [isAssign_eq]; exact this
    · intro i hi
      exact hK.1 l hl d hd i hi
  · intro t ht
    have := hK.2
    simp only [ht] at this
    exact this

/-! ## reflexivity, clause by clause -/

theorem cmpPort_refl {d l : Option String} {p : CPort} (hw : 0 < p.width) : cmpPort d l d l p p = .ok () := by
  simp [cmpPort, hw]

theorem valueOf_self {d : Dict} (hnd : (d.map (·.1)).Nodup) : ∀ kv ∈ d, valueOf kv.1 d = some kv.2 :=
  fun _ hkv => valueOf_of_mem_nodup hnd hkv

theorem cmpDict_refl {d : Dict} (hnd : (d.map (·.1)).Nodup) : cmpDict d (some d) = .ok () := by
  unfold cmpDict
  rw [allM_ok]
  intro kv hkv
  simp [lookupKey_eq_valueOf, valueOf_self hnd kv hkv]

theorem cmpPropsL_refl : ∀ (po : List Dict), (∀ d ∈ po, (d.map (·.1)).Nodup) → cmpPropsL po po = .ok () := by
  intro po
  induction po with
  | nil => intro _; rfl
  | cons d ds ih =>
    intro h
    simp only [cmpPropsL, andThen_ok]
    exact ⟨cmpDict_refl (h d (by simp)), ih (fun e he => h e (by simp [he]))⟩

theorem cmpInst_refl {n : CNetlist} {i : CInst} (hk : keysNodupB i.props = true) :
    cmpInst n n (some i) (some i) = .ok () := by
  simp only [cmpInst, andThen_ok, check_ok, beq_self_eq_true, true_and]
  constructor
  · cases resolve n i.ref <;> simp
  · cases hp : i.props with
    | none => rfl
    | some po => exact cmpPropsL_refl po (keysNodup_some (hp ▸ hk))

theorem resolvePin_of_pinOK {n : CNetlist} {d : CDef} {p : CPin} (h : pinOK n d p = true) :
    ∃ r, resolvePin n d p = some r := by
  cases p with
  | bad => simp [pinOK] at h
  | port pi bit =>
    simp only [pinOK, resolvePin] at h ⊢
    cases hp : d.ports[pi]? with
    | none => simp [hp] at h
    | some q =>
      simp only [hp, decide_eq_true_eq] at h ⊢
      simp [h]
  | inst ii pi bit =>
    simp only [pinOK, resolvePin] at h ⊢
    cases hi : d.insts[ii]? with
    | none => simp [hi] at h
    | some i =>
      simp only [hi] at h ⊢
      cases hr : resolve n i.ref with
      | none =>
        exfalso
        have : refPorts n i.ref = [] := by
          cases hrf : i.ref with
          | none => rfl
          | ext dn ln => simp [resolve, hrf] at hr
          | idx li di =>
            simp only [hrf, resolve] at hr
            simp only [refPorts]
            cases hl : n.libs[li]? with
            | none => rfl
            | some L =>
              simp only [hl] at hr ⊢
              cases hd : L.defs[di]? with
              | none => rfl
              | some D => simp [hd] at hr
        simp [this] at h
      | some ri =>
        rw [refPorts_eq_resolve hr] at h
        cases hq : ri.ports[pi]? with
        | none => simp [hq] at h
        | some q =>
          simp only [hq, decide_eq_true_eq] at h ⊢
          simp [h]

theorem cmpPin_refl {cfg : Cfg} {dn ln : Option String} {r : PinR}
    (hna : ∀ ia rd rl pn b, r = .outer ia rd rl pn b → ∃ nm, ia = some nm ∧ isAssign nm = false) :
    cmpPin cfg dn ln dn ln (some r) (some r) = .ok () := by
  cases r with
  | inner pa ba => simp [cmpPin, innerEquiv]
  | outer ia rd rl pa ba =>
    obtain ⟨nm, hia, hnas⟩ := hna ia rd rl pa ba rfl
    subst hia
    cases cfg with
    | mk f => cases f <;> simp [cmpPin, instEquiv, hnas, innerEquiv]

theorem cmpCable_refl {cfg : Cfg} {n : CNetlist} {ln : Option String} {d : CDef} {c : CCable}
    (hna : ∀ i ∈ d.insts, ∀ nm, i.name = some nm → isAssign nm = false)
    (hnamed : allNamed (·.name) d.insts = true)
    (hpins : ∀ w ∈ c.wires, ∀ p ∈ w, pinOK n d p = true) :
    cmpCable cfg n n ln ln d d c c = .ok () := by
  simp only [cmpCable, andThen_ok, check_ok, beq_self_eq_true, true_and]
  apply allM2_self
  intro w hw
  simp only [andThen_ok, check_ok, beq_self_eq_true, true_and]
  apply allM2_self
  intro p hp
  obtain ⟨r, hr⟩ := resolvePin_of_pinOK (hpins w hw p hp)
  rw [hr]
  apply cmpPin_refl
  intro ia rd rl pn b he
  subst he
  obtain ⟨i, hi, hin⟩ := resolvePin_outer_name hr
  have hsome : (i.name).isSome := by
    simp only [allNamed, List.all_eq_true] at hnamed; exact hnamed i hi
  obtain ⟨nm, hnm⟩ := Option.isSome_iff_exists.1 hsome
  exact ⟨nm, by rw [← hin, hnm], hna i hi nm hnm⟩

theorem assignNames_nil {d : CDef} (hna : ∀ i ∈ d.insts, ∀ nm, i.name = some nm → isAssign nm = false) :
    assignNames d = [] := by
  unfold assignNames
  rw [List.filter_eq_nil_iff]
  intro nm hnm
  obtain ⟨i, hi, hin⟩ := List.mem_filterMap.1 hnm
  simp [hna i hi nm hin]

theorem assignCheck_refl {d : CDef} (hna : ∀ i ∈ d.insts, ∀ nm, i.name = some nm → isAssign nm = false) :
    assignCheck d d = .ok () := by
  simp [assignCheck, assignNames_nil hna, toks]

/-- the well-formedness facts `cmpDef d d` needs -/
structure DefWF (n : CNetlist) (d : CDef) : Prop where
  widths : ∀ p ∈ d.ports, 0 < p.width
  pins : ∀ c ∈ d.cables, ∀ w ∈ c.wires, ∀ p ∈ w, pinOK n d p = true

theorem loop_self {α : Type} {name : α → Option String} {l : List α} {k : α → α → Res}
    (hnd : (namesOf name l).Nodup) (hk : ∀ x ∈ l, k x x = .ok ()) :
    allM l (fun x => match name x with
      | none => ok
      | some nm => withFound name nm l (k x)) = .ok () := by
  rw [allM_ok]
  intro x hx
  cases hn : name x with
  | none => rfl
  | some nm =>
    simp only [withFound_ok]
    exact ⟨x, byName_of_mem_nodup hnd hx hn, hk x hx⟩

theorem cmpDef_refl {cfg : Cfg} {n : CNetlist} {ln : Option String} {d : CDef} (hd : DefHyp d) (hw : DefWF n d) :
    cmpDef cfg n n ln ln d d = .ok () := by
  simp only [cmpDef, andThen_ok, check_ok, beq_self_eq_true, true_and]
  refine ⟨?_, ?_, ?_, assignCheck_refl hd.noAssign⟩
  · exact loop_self (k := fun p q => cmpPort d.name ln d.name ln p q) hd.ndP
      (fun p hp => cmpPort_refl (hw.widths p hp))
  · exact loop_self (k := fun c c' => cmpCable cfg n n ln ln d d c c') hd.ndC
      (fun c hc => cmpCable_refl hd.noAssign hd.namedI (hw.pins c hc))
  · rw [allM_ok]
    intro i hi
    cases hn : i.name with
    | none => rfl
    | some nm =>
      simp only [hd.noAssign i hi nm hn, Bool.false_eq_true, if_false, withFound_ok]
      exact ⟨i, byName_of_mem_nodup hd.ndI hi hn, cmpInst_refl (hd.keys i hi)⟩

theorem cmpLib_refl {cfg : Cfg} {n : CNetlist} {l : CLib} (hl : LibHyp l) (hw : ∀ d ∈ l.defs, DefWF n d) :
    cmpLib cfg n n l l = .ok () := by
  simp only [cmpLib, andThen_ok, check_ok, beq_self_eq_true, true_and]
  exact loop_self (k := fun d d' => cmpDef cfg n n l.name l.name d d') hl.nd
    (fun d hd => cmpDef_refl (hl.defs d hd) (hw d hd))

theorem compareWith_refl {cfg : Cfg} {n : CNetlist} (hn : NetHyp n) (hw : ∀ l ∈ n.libs, ∀ d ∈ l.defs, DefWF n d) :
    compareWith cfg n n = .ok () := by
  simp only [compareWith, andThen_ok, check_ok, beq_self_eq_true, true_and]
  refine ⟨?_, ?_⟩
  · cases ht : n.top with
    | none => simp
    | some t => simpa using cmpInst_refl (hn.topKeys t ht)
  · exact loop_self (k := fun l l' => cmpLib cfg n n l l') hn.nd
      (fun l hl => cmpLib_refl (hn.libs l hl) (hw l hl))

theorem defWF_of {n : CNetlist} (h : WF n) : ∀ l ∈ n.libs, ∀ d ∈ l.defs, DefWF n d := by
  unfold WF wfB at h
  simp only [Bool.and_eq_true, List.all_eq_true, decide_eq_true_eq] at h
  intro l hl d hd
  have := h.1 l hl d hd
  exact ⟨this.1.1, this.2⟩

theorem propKeys_of_WF {n : CNetlist} (h : WF n) : PropKeys n := by
  unfold WF wfB at h
  unfold PropKeys propKeysB
  simp only [Bool.and_eq_true, List.all_eq_true, decide_eq_true_eq] at h ⊢
  refine ⟨fun l hl d hd i hi => ((h.1 l hl d hd).1.2 i hi).2, ?_⟩
  cases ht : n.top with
  | none => rfl
  | some t =>
    have := h.2
    simp only [ht, Bool.and_eq_true] at this
    exact this.2

end Spydr.Compare
