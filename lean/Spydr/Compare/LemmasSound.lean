/-
  C20 — soundness of the (repaired) comparer model, clause by clause:
  `cmpX … = ok → view of the original's X = view of the copy's X`.
-/
import Spydr.Compare.Lemmas

namespace Spydr.Compare

theorem isAssign_eq (s : String) : isAssign s = startsWithAssign s := rfl

/-! ## ports -/

theorem cmpPort_sound {cfg : Cfg} {dA lA dB lB : Option String} {p q : CPort}
    (h : cmpPort cfg dA lA dB lB p q = .ok ()) : portView p = portView q := by
  simp only [cmpPort, andThen_ok, check_ok, beq_iff_eq] at h
  obtain ⟨_, _, hd, hs, _, hw, _⟩ := h
  simp [portView, hd, hs, hw]

/-! ## references and properties -/

theorem refView_eq_resolve (n : CNetlist) (r : CRef) :
    refView n r = (resolve n r).map (fun i => (i.dname, i.lname)) := by
  cases r with
  | none => rfl
  | ext dn ln => rfl
  | idx li di =>
    simp only [refView, resolve]
    cases n.libs[li]? with
    | none => rfl
    | some L =>
      simp only
      cases L.defs[di]? <;> rfl

theorem lookupKey_eq_valueOf (k : String) (d : Dict) : lookupKey k d = valueOf k d := by
  induction d with
  | nil => rfl
  | cons kv r ih => obtain ⟨k', v⟩ := kv; simp only [lookupKey, valueOf, ih]

theorem valueOf_of_mem_nodup {d : Dict} (hnd : (d.map (·.1)).Nodup) {kv : String × String} (hm : kv ∈ d) :
    valueOf kv.1 d = some kv.2 := by
  induction d with
  | nil => simp at hm
  | cons e r ih =>
    obtain ⟨k', v'⟩ := e
    simp only [List.map_cons, List.nodup_cons] at hnd
    rcases List.mem_cons.1 hm with rfl | hm'
    · simp [valueOf]
    · have : k' ≠ kv.1 := by
        intro e; apply hnd.1; rw [e]; exact List.mem_map.2 ⟨kv, hm', rfl⟩
      simp only [valueOf, this, if_false]
      exact ih hnd.2 hm'

theorem cmpDict_some_sound {d c : Dict} (h : cmpDict d (some c) = .ok ()) :
    ∀ kv ∈ d, valueOf kv.1 c = some kv.2 := by
  intro kv hkv
  have := (allM_ok.1 h) kv hkv
  simp only [lookupKey_eq_valueOf] at this
  cases hv : valueOf kv.1 c with
  | none => simp [hv] at this
  | some v' => simp only [hv, check_ok, beq_iff_eq] at this; rw [this]

theorem cmpDict_none_sound {d : Dict} (h : cmpDict d none = .ok ()) : d = [] := by
  cases d with
  | nil => rfl
  | cons kv r => simp [cmpDict, allM, Res.andThen] at h

theorem slots_sound : ∀ (po pc : List Dict), (∀ d ∈ po, (d.map (·.1)).Nodup) →
    cmpPropsL po pc = .ok () → slots po pc = slots po po := by
  intro po
  induction po with
  | nil => intro pc _ _; cases pc <;> rfl
  | cons d ds ih =>
    intro pc hnd h
    have hself : d.map (fun kv => (kv.1, valueOf kv.1 d)) = d.map (fun kv => (kv.1, some kv.2)) := by
      apply List.map_congr_left
      intro kv hkv
      rw [valueOf_of_mem_nodup (hnd d (by simp)) hkv]
    cases pc with
    | nil =>
      simp only [cmpPropsL, andThen_ok] at h
      have hd := cmpDict_none_sound h.1
      subst hd
      simp only [slots, List.map_nil, List.cons.injEq, true_and]
      have := ih [] (fun e he => hnd e (by simp [he])) h.2
      -- `slots ds [] = slots ds ds`
      exact this
    | cons c cs =>
      simp only [cmpPropsL, andThen_ok] at h
      simp only [slots, List.cons.injEq]
      refine ⟨?_, ih cs (fun e he => hnd e (by simp [he])) h.2⟩
      rw [hself]
      apply List.map_congr_left
      intro kv hkv
      rw [cmpDict_some_sound h.1 kv hkv]

theorem keysNodup_some {l : List Dict} (h : keysNodupB (some l) = true) : ∀ d ∈ l, (d.map (·.1)).Nodup := by
  intro d hd
  simp only [keysNodupB, List.all_eq_true, decide_eq_true_eq] at h
  exact h d hd

/-- `compare_instances` on two present instances: same reference names, and the copy gives the
    original's property slots the original's values. -/
theorem cmpInst_sound {a b : CNetlist} {i j : CInst} (hk : keysNodupB i.props = true)
    (h : cmpInst a b (some i) (some j) = .ok ()) : instView a i.props i = instView b i.props j := by
  simp only [cmpInst, andThen_ok] at h
  obtain ⟨_, _, href, hprops⟩ := h
  have h1 : refView a i.ref = refView b j.ref := by
    rw [refView_eq_resolve, refView_eq_resolve]
    cases ha : resolve a i.ref with
    | none =>
      cases hb : resolve b j.ref with
      | none => rfl
      | some r =>
        simp only [ha, hb] at href
        split at href <;> simp at href
    | some r1 =>
      cases hb : resolve b j.ref with
      | none =>
        simp only [ha, hb] at href
        split at href <;> simp at href
      | some r2 =>
        simp only [ha, hb, check_ok, Bool.and_eq_true, beq_iff_eq] at href
        simp [href.1, href.2]
  have h2 : propsView i.props i.props = propsView i.props j.props := by
    cases hp : i.props with
    | none => rfl
    | some po =>
      simp only [hp] at hprops
      cases hq : j.props with
      | none => simp [hq] at hprops
      | some pc =>
        simp only [hq] at hprops
        simp only [propsView]
        rw [slots_sound po pc (keysNodup_some (hp ▸ hk)) hprops]
  simp [instView, h1, h2]

/-! ## pins and cables -/

/-- what the Spec sees of a resolved pin -/
def viewOfR : PinR → PinView
  | .inner pn b => .inner pn b
  | .outer i _ _ pn b => .outer i pn b

theorem refPorts_eq_resolve {n : CNetlist} {r : CRef} {i : RefInfo} (h : resolve n r = some i) :
    refPorts n r = i.ports := by
  cases r with
  | none => simp [resolve] at h
  | ext dn ln => simp only [resolve, Option.some.injEq] at h; subst h; rfl
  | idx li di =>
    simp only [resolve, refPorts] at h ⊢
    cases hl : n.libs[li]? with
    | none => simp [hl] at h
    | some L =>
      simp only [hl] at h ⊢
      cases hd : L.defs[di]? with
      | none => simp [hd] at h
      | some D => simp only [hd, Option.some.injEq] at h ⊢; subst h; rfl

theorem pinView_of_resolvePin {n : CNetlist} {d : CDef} {p : CPin} {r : PinR}
    (h : resolvePin n d p = some r) : pinView n d p = viewOfR r := by
  cases p with
  | bad => simp [resolvePin] at h
  | port pi bit =>
    simp only [resolvePin, pinView] at h ⊢
    cases hp : d.ports[pi]? with
    | none => simp [hp] at h
    | some q =>
      simp only [hp] at h ⊢
      split at h
      · simp only [Option.some.injEq] at h; subst h; rfl
      · simp at h
  | inst ii pi bit =>
    simp only [resolvePin, pinView] at h ⊢
    cases hi : d.insts[ii]? with
    | none => simp [hi] at h
    | some i =>
      simp only [hi] at h ⊢
      cases hr : resolve n i.ref with
      | none => simp [hr] at h
      | some ri =>
        simp only [hr] at h
        rw [refPorts_eq_resolve hr]
        cases hq : ri.ports[pi]? with
        | none => simp [hq] at h
        | some q =>
          simp only [hq] at h ⊢
          split at h
          · simp only [Option.some.injEq] at h; subst h; rfl
          · simp at h

/-- instance names a resolved pin can carry come from the definition's instance list -/
theorem resolvePin_outer_name {n : CNetlist} {d : CDef} {p : CPin} {ia rd rl pn : Option String} {b : Nat}
    (h : resolvePin n d p = some (.outer ia rd rl pn b)) : ∃ i ∈ d.insts, i.name = ia := by
  cases p with
  | bad => simp [resolvePin] at h
  | port pi bit =>
    simp only [resolvePin] at h
    cases hp : d.ports[pi]? with
    | none => simp [hp] at h
    | some q => simp only [hp] at h; split at h <;> simp at h
  | inst ii pi bit =>
    simp only [resolvePin] at h
    cases hi : d.insts[ii]? with
    | none => simp [hi] at h
    | some i =>
      simp only [hi] at h
      cases hr : resolve n i.ref with
      | none => simp [hr] at h
      | some ri =>
        simp only [hr] at h
        cases hq : ri.ports[pi]? with
        | none => simp [hq] at h
        | some q =>
          simp only [hq] at h
          split at h
          · simp only [Option.some.injEq, PinR.outer.injEq] at h
            exact ⟨i, List.mem_of_getElem? hi, h.1⟩
          · simp at h

/-- the repaired pin comparison identifies instance, port and bit -/
theorem cmpPin_sound {dA lA dB lB : Option String} {ra rb : Option PinR}
    (hna : ∀ ia rd rl pn b, ra = some (.outer ia rd rl pn b) → ∀ nm, ia = some nm → isAssign nm = false)
    (h : cmpPin cfgFixed dA lA dB lB ra rb = .ok ()) :
    ∃ x y, ra = some x ∧ rb = some y ∧ viewOfR x = viewOfR y := by
  cases ra with
  | none => simp [cmpPin] at h
  | some x =>
    cases rb with
    | none => cases x <;> simp [cmpPin] at h
    | some y =>
      refine ⟨x, y, rfl, rfl, ?_⟩
      cases x with
      | inner pa ba =>
        cases y with
        | outer => simp [cmpPin] at h
        | inner pb bb =>
          simp only [cmpPin, innerEquiv, andThen_ok, check_ok, Bool.and_eq_true, beq_iff_eq] at h
          simp [viewOfR, h.1, h.2.1.1]
      | outer ia rda rla pa ba =>
        cases y with
        | inner => simp [cmpPin] at h
        | outer ib rdb rlb pb bb =>
          have hna' := hna ia rda rla pa ba rfl
          simp only [cmpPin, instEquiv, cfgFixed, innerEquiv, andThen_ok, check_ok, Bool.and_eq_true, beq_iff_eq,
            if_true] at h
          obtain ⟨⟨hi, _⟩, hb, hp⟩ := h
          have hiab : ia = ib := by
            cases ia with
            | none =>
              cases ib with
              | none => rfl
              | some nb => simp at hi
            | some na =>
              cases ib with
              | none => simp at hi
              | some nb =>
                simp only [hna' na rfl, Bool.false_eq_true, false_and, if_false, check_ok, beq_iff_eq] at hi
                exact hi
          simp [viewOfR, hiab, hb, hp.1.1]

theorem cmpCable_sound {a b : CNetlist} {lA lB : Option String} {dA dB : CDef} {ca cb : CCable}
    (hna : ∀ i ∈ dA.insts, ∀ nm, i.name = some nm → isAssign nm = false)
    (h : cmpCable cfgFixed a b lA lB dA dB ca cb = .ok ()) : cableView a dA ca = cableView b dB cb := by
  simp only [cmpCable, andThen_ok, check_ok, beq_iff_eq] at h
  obtain ⟨_, _, hlen, hw⟩ := h
  unfold cableView
  refine allM2_map ?_ ca.wires cb.wires hlen hw
  intro wa wb hwab
  simp only [andThen_ok, check_ok, beq_iff_eq] at hwab
  refine allM2_map ?_ wa wb hwab.1 hwab.2
  intro pa pb hp
  have hna' : ∀ ia rd rl pn bt, resolvePin a dA pa = some (.outer ia rd rl pn bt) →
      ∀ nm, ia = some nm → isAssign nm = false := by
    intro ia rd rl pn bt hr nm hnm
    obtain ⟨i, hi, hin⟩ := resolvePin_outer_name hr
    exact hna i hi nm (by rw [hin, hnm])
  obtain ⟨x, y, hx, hy, hv⟩ := cmpPin_sound hna' hp
  rw [pinView_of_resolvePin hx, pinView_of_resolvePin hy, hv]

end Spydr.Compare
