/-
  C20 — soundness of the (repaired) comparer model: definitions, libraries, netlist.
-/
import Spydr.Compare.LemmasSound

namespace Spydr.Compare

/-- hypotheses about one definition of the original -/
structure DefHyp (d : CDef) : Prop where
  namedP : allNamed (·.name) d.ports = true
  namedC : allNamed (·.name) d.cables = true
  namedI : allNamed (·.name) d.insts = true
  ndP : (namesOf (·.name) d.ports).Nodup
  ndC : (namesOf (·.name) d.cables).Nodup
  ndI : (namesOf (·.name) d.insts).Nodup
  noAssign : ∀ i ∈ d.insts, ∀ nm, i.name = some nm → isAssign nm = false
  keys : ∀ i ∈ d.insts, keysNodupB i.props = true

theorem DefView.ext' {x y : DefView} (h1 : x.nPorts = y.nPorts) (h2 : x.nCables = y.nCables)
    (h3 : x.nInsts = y.nInsts) (h4 : ∀ nm, x.port nm = y.port nm) (h5 : ∀ nm, x.cable nm = y.cable nm)
    (h6 : ∀ nm, x.inst nm = y.inst nm) : x = y := by
  cases x; cases y
  simp only [DefView.mk.injEq]
  exact ⟨h1, h2, h3, funext h4, funext h5, funext h6⟩

theorem LibView.ext' {x y : LibView} (h1 : x.nDefs = y.nDefs) (h2 : ∀ nm, x.defn nm = y.defn nm) : x = y := by
  cases x; cases y
  simp only [LibView.mk.injEq]
  exact ⟨h1, funext h2⟩

theorem View.ext' {x y : View} (h1 : x.nLibs = y.nLibs) (h2 : ∀ nm, x.lib nm = y.lib nm)
    (h3 : x.top = y.top) : x = y := by
  cases x; cases y
  simp only [View.mk.injEq]
  exact ⟨h1, funext h2, h3⟩

theorem cmpDef_sound {a b : CNetlist} {lA lB : Option String} {dA dB : CDef} (hd : DefHyp dA)
    (h : cmpDef cfgFixed a b lA lB dA dB = .ok ()) : defView a (some dA) dA = defView b (some dA) dB := by
  simp only [cmpDef, andThen_ok, check_ok, beq_iff_eq] at h
  obtain ⟨_, _, hlp, hP, hlc, hC, hli, hI, _⟩ := h
  apply DefView.ext'
  · exact hlp
  · exact hlc
  · exact hli
  · -- ports
    intro nm
    simp only [defView]
    refine keyed_agree (va := fun _ => portView) (vb := fun _ => portView) hd.namedP hd.ndP hlp ?_ nm
    intro k x hx
    have hx' := byName_some hx
    have := (allM_ok.1 hP) x hx'.1
    simp only [hx'.2, withFound_ok] at this
    obtain ⟨y, hy, hxy⟩ := this
    exact ⟨y, hy, cmpPort_sound hxy⟩
  · -- cables
    intro nm
    simp only [defView]
    refine keyed_agree (va := fun _ => cableView a dA) (vb := fun _ => cableView b dB) hd.namedC hd.ndC hlc ?_ nm
    intro k x hx
    have hx' := byName_some hx
    have := (allM_ok.1 hC) x hx'.1
    simp only [hx'.2, withFound_ok] at this
    obtain ⟨y, hy, hxy⟩ := this
    exact ⟨y, hy, cmpCable_sound hd.noAssign hxy⟩
  · -- instances
    intro nm
    simp only [defView]
    refine keyed_agree (va := fun k => instView a (origInstProps (some dA) k))
      (vb := fun k => instView b (origInstProps (some dA) k)) hd.namedI hd.ndI hli ?_ nm
    intro k x hx
    have hx' := byName_some hx
    have := (allM_ok.1 hI) x hx'.1
    simp only [hx'.2, hd.noAssign x hx'.1 k hx'.2, Bool.false_eq_true, if_false, withFound_ok] at this
    obtain ⟨y, hy, hxy⟩ := this
    refine ⟨y, hy, ?_⟩
    have : origInstProps (some dA) k = x.props := by simp [origInstProps, hx]
    rw [this]
    exact cmpInst_sound (hd.keys x hx'.1) hxy

/-- hypotheses about one library of the original -/
structure LibHyp (l : CLib) : Prop where
  named : allNamed (·.name) l.defs = true
  nd : (namesOf (·.name) l.defs).Nodup
  defs : ∀ d ∈ l.defs, DefHyp d

theorem cmpLib_sound {a b : CNetlist} {lA lB : CLib} (hl : LibHyp lA)
    (h : cmpLib cfgFixed a b lA lB = .ok ()) : libView a (some lA) lA = libView b (some lA) lB := by
  simp only [cmpLib, andThen_ok, check_ok, beq_iff_eq] at h
  obtain ⟨_, _, hlen, hD⟩ := h
  apply LibView.ext'
  · exact hlen
  · intro nm
    simp only [libView]
    refine keyed_agree (va := fun k => defView a (origDef (some lA) k))
      (vb := fun k => defView b (origDef (some lA) k)) hl.named hl.nd hlen ?_ nm
    intro k x hx
    have hx' := byName_some hx
    have := (allM_ok.1 hD) x hx'.1
    simp only [hx'.2, withFound_ok] at this
    obtain ⟨y, hy, hxy⟩ := this
    refine ⟨y, hy, ?_⟩
    have : origDef (some lA) k = some x := by simp [origDef, hx]
    rw [this]
    exact cmpDef_sound (hl.defs x hx'.1) hxy

/-- hypotheses about the original netlist, structured -/
structure NetHyp (n : CNetlist) : Prop where
  named : allNamed (·.name) n.libs = true
  nd : (namesOf (·.name) n.libs).Nodup
  libs : ∀ l ∈ n.libs, LibHyp l
  topKeys : ∀ t, n.top = some t → keysNodupB t.props = true

theorem cmpInst_none_left {a b : CNetlist} {ic : Option CInst} : cmpInst a b none ic ≠ .ok () := by
  intro h
  simp only [cmpInst, andThen_ok] at h
  exact absurd h.2.2 (by simp)

theorem cmpInst_none_right {a b : CNetlist} {io : Option CInst} : cmpInst a b io none ≠ .ok () := by
  intro h
  simp only [cmpInst, andThen_ok] at h
  cases io <;> exact absurd h.2.2 (by simp)

theorem compareWith_sound {a b : CNetlist} (ha : NetHyp a)
    (h : compareWith cfgFixed a b = .ok ()) : examined a a = examined a b := by
  simp only [compareWith, andThen_ok, check_ok, beq_iff_eq] at h
  obtain ⟨_, _, htop, hlen, hL⟩ := h
  apply View.ext'
  · exact hlen
  · intro nm
    simp only [examined]
    refine keyed_agree (va := fun k => libView a (byName (·.name) k a.libs))
      (vb := fun k => libView b (byName (·.name) k a.libs)) ha.named ha.nd hlen ?_ nm
    intro k x hx
    have hx' := byName_some hx
    have := (allM_ok.1 hL) x hx'.1
    simp only [hx'.2, withFound_ok] at this
    obtain ⟨y, hy, hxy⟩ := this
    refine ⟨y, hy, ?_⟩
    rw [hx]
    exact cmpLib_sound (ha.libs x hx'.1) hxy
  · simp only [examined]
    cases hta : a.top with
    | none =>
      cases htb : b.top with
      | none => rfl
      | some t' =>
        simp only [hta, htb, Option.isSome_some, Option.isSome_none, Bool.or_false, if_true] at htop
        exact absurd htop cmpInst_none_left
    | some t =>
      cases htb : b.top with
      | none =>
        simp only [hta, htb, Option.isSome_some, Option.isSome_none, Bool.or_true, if_true] at htop
        exact absurd htop cmpInst_none_right
      | some t' =>
        simp only [hta, htb, Option.isSome_some, Bool.or_self, if_true] at htop
        simp only [Option.map_some, Option.bind_some, Option.some.injEq]
        exact cmpInst_sound (ha.topKeys t hta) htop

/-! ## The same for the view restricted to the original's named elements: no `Named` hypothesis -/

structure DefHypN (d : CDef) : Prop where
  ndP : (namesOf (·.name) d.ports).Nodup
  ndC : (namesOf (·.name) d.cables).Nodup
  ndI : (namesOf (·.name) d.insts).Nodup
  noAssign : ∀ i ∈ d.insts, ∀ nm, i.name = some nm → isAssign nm = false
  keys : ∀ i ∈ d.insts, keysNodupB i.props = true

theorem DefHyp.toN {d : CDef} (h : DefHyp d) : DefHypN d := ⟨h.ndP, h.ndC, h.ndI, h.noAssign, h.keys⟩

theorem keyed_agree_guard {α β γ : Type} {na : α → Option String} {nb : β → Option String}
    {la : List α} {lb : List β} {va : String → α → γ} {vb : String → β → γ}
    (hfound : ∀ nm x, byName na nm la = some x → ∃ y, byName nb nm lb = some y ∧ va nm x = vb nm y) :
    ∀ nm, guardBy (byName na nm la) ((byName na nm la).map (va nm))
        = guardBy (byName na nm la) ((byName nb nm lb).map (vb nm)) := by
  intro nm
  cases hA : byName na nm la with
  | none => rfl
  | some x =>
    obtain ⟨y, hy, hv⟩ := hfound nm x hA
    simp [guardBy, hy, hv]

theorem cmpDef_soundN {a b : CNetlist} {lA lB : Option String} {dA dB : CDef} (hd : DefHypN dA)
    (h : cmpDef cfgFixed a b lA lB dA dB = .ok ()) : defViewN a (some dA) dA = defViewN b (some dA) dB := by
  simp only [cmpDef, andThen_ok, check_ok, beq_iff_eq] at h
  obtain ⟨_, _, hlp, hP, hlc, hC, hli, hI, _⟩ := h
  apply DefView.ext'
  · exact hlp
  · exact hlc
  · exact hli
  · intro nm
    simp only [defViewN, Option.bind_some]
    refine keyed_agree_guard (va := fun _ => portView) (vb := fun _ => portView) ?_ nm
    intro k x hx
    have hx' := byName_some hx
    have := (allM_ok.1 hP) x hx'.1
    simp only [hx'.2, withFound_ok] at this
    obtain ⟨y, hy, hxy⟩ := this
    exact ⟨y, hy, cmpPort_sound hxy⟩
  · intro nm
    simp only [defViewN, Option.bind_some]
    refine keyed_agree_guard (va := fun _ => cableView a dA) (vb := fun _ => cableView b dB) ?_ nm
    intro k x hx
    have hx' := byName_some hx
    have := (allM_ok.1 hC) x hx'.1
    simp only [hx'.2, withFound_ok] at this
    obtain ⟨y, hy, hxy⟩ := this
    exact ⟨y, hy, cmpCable_sound hd.noAssign hxy⟩
  · intro nm
    simp only [defViewN, Option.bind_some]
    refine keyed_agree_guard (va := fun k => instView a (origInstProps (some dA) k))
      (vb := fun k => instView b (origInstProps (some dA) k)) ?_ nm
    intro k x hx
    have hx' := byName_some hx
    have := (allM_ok.1 hI) x hx'.1
    simp only [hx'.2, hd.noAssign x hx'.1 k hx'.2, Bool.false_eq_true, if_false, withFound_ok] at this
    obtain ⟨y, hy, hxy⟩ := this
    refine ⟨y, hy, ?_⟩
    have : origInstProps (some dA) k = x.props := by simp [origInstProps, hx]
    rw [this]
    exact cmpInst_sound (hd.keys x hx'.1) hxy

structure LibHypN (l : CLib) : Prop where
  nd : (namesOf (·.name) l.defs).Nodup
  defs : ∀ d ∈ l.defs, DefHypN d

theorem cmpLib_soundN {a b : CNetlist} {lA lB : CLib} (hl : LibHypN lA)
    (h : cmpLib cfgFixed a b lA lB = .ok ()) : libViewN a (some lA) lA = libViewN b (some lA) lB := by
  simp only [cmpLib, andThen_ok, check_ok, beq_iff_eq] at h
  obtain ⟨_, _, hlen, hD⟩ := h
  apply LibView.ext'
  · exact hlen
  · intro nm
    simp only [libViewN]
    cases hx : byName (·.name) nm lA.defs with
    | none => simp [origDef, hx, guardBy]
    | some x =>
      have hx' := byName_some hx
      have := (allM_ok.1 hD) x hx'.1
      simp only [hx'.2, withFound_ok] at this
      obtain ⟨y, hy, hxy⟩ := this
      have hod : origDef (some lA) nm = some x := by simp [origDef, hx]
      simp only [hod, guardBy, hx, hy, Option.map_some, Option.some.injEq]
      exact cmpDef_soundN (hl.defs x hx'.1) hxy

structure NetHypN (n : CNetlist) : Prop where
  nd : (namesOf (·.name) n.libs).Nodup
  libs : ∀ l ∈ n.libs, LibHypN l
  topKeys : ∀ t, n.top = some t → keysNodupB t.props = true

theorem compareWith_soundN {a b : CNetlist} (ha : NetHypN a)
    (h : compareWith cfgFixed a b = .ok ()) : examinedN a a = examinedN a b := by
  simp only [compareWith, andThen_ok, check_ok, beq_iff_eq] at h
  obtain ⟨_, _, htop, hlen, hL⟩ := h
  apply View.ext'
  · exact hlen
  · intro nm
    simp only [examinedN]
    cases hx : byName (·.name) nm a.libs with
    | none => simp [guardBy]
    | some x =>
      have hx' := byName_some hx
      have := (allM_ok.1 hL) x hx'.1
      simp only [hx'.2, withFound_ok] at this
      obtain ⟨y, hy, hxy⟩ := this
      simp only [guardBy, hy, Option.map_some, Option.some.injEq]
      exact cmpLib_soundN (ha.libs x hx'.1) hxy
  · simp only [examinedN]
    cases hta : a.top with
    | none =>
      cases htb : b.top with
      | none => rfl
      | some t' =>
        simp only [hta, htb, Option.isSome_some, Option.isSome_none, Bool.or_false, if_true] at htop
        exact absurd htop cmpInst_none_left
    | some t =>
      cases htb : b.top with
      | none =>
        simp only [hta, htb, Option.isSome_some, Option.isSome_none, Bool.or_true, if_true] at htop
        exact absurd htop cmpInst_none_right
      | some t' =>
        simp only [hta, htb, Option.isSome_some, Bool.or_self, if_true] at htop
        simp only [Option.map_some, Option.bind_some, Option.some.injEq]
        exact cmpInst_sound (ha.topKeys t hta) htop

theorem NetHyp.toN {n : CNetlist} (h : NetHyp n) : NetHypN n :=
  ⟨h.nd, fun l hl => ⟨(h.libs l hl).nd, fun d hd => ((h.libs l hl).defs d hd).toN⟩, h.topKeys⟩

end Spydr.Compare
