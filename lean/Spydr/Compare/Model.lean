/-
  C20 — value-level netlist `CNetlist` and the executable model of
  `spydrnet/compare/compare_netlists.py : Comparer`.

  `CNetlist` is the positional canonical value `harness/common/canon.py : cnetlist` extracts from a
  Python netlist (only the fields the comparer can observe are kept; the decoder is in
  `Drivers/Compare.lean`).  `compareWith cfg a b` mirrors `Comparer(a, b).compare()` clause by clause;
  the result is `.ok ()` for a normal return and `.error family` for a raised exception, where
  `family ∈ {assert, other, key, index, type}` is the exception class family
  (AssertionError / AttributeError+StopIteration / KeyError / IndexError / TypeError), never the message.

  `Cfg` says which repairs are in (`outerPinFix`: docs/fixes/compare_outer_pins.diff, landed in /repo;
  `drcFix`: compare_port_pins.diff; `noneNameFix`: compare_unnamed_instance.diff).
  `compare = compareWith cfgFixed` (all in) is the function the C20 theorems are about;
  `compareUnrepaired = compareWith cfgPinned` is the pinned commit, kept for the `decide`d witnesses of
  its defects in Props/C20 (it compares the original's inner pin with itself, asserts that ports have
  at least one pin, and calls `None.startswith` for a net on an unnamed instance).

  Look-ups `next(sdn.get_X(parent, name))` are modelled as "first sibling whose name equals `name`,
  StopIteration if there is none" — this is what the namespace index returns on an indexed parent
  and what docs/fixes/compare_lookup.diff makes the comparer do on every parent.

  NO Mathlib import in this file (it is linked into the driver executable).
-/
namespace Spydr.Compare

/-! ## The value-level netlist -/

/-- A pin as listed by a wire: inner pin `bit` of port `pi` of the enclosing definition, or the outer
    pin of child instance `ii` for inner pin `bit` of port `pi` of that instance's reference.
    `bad` stands for anything the canonical dump could not place (never produced for well-formed netlists). -/
inductive CPin
  | port (pi bit : Nat)
  | inst (ii pi bit : Nat)
  | bad
  deriving DecidableEq, Repr, Inhabited

/-- `Instance.reference`: none, a definition of this netlist (library index, definition index), or a
    definition outside the netlist (only its name and its library's name are known). -/
inductive CRef
  | none
  | idx (li di : Nat)
  | ext (dname lname : Option String)
  deriving DecidableEq, Repr, Inhabited

/-- One entry of an `EDIF.properties` list: a Python dict with string keys; values are kept as the
    compact JSON text of the value (Python `==` on the generated JSON-like values is text equality). -/
abbrev Dict := List (String × String)

structure CPort where
  name   : Option String
  origId : Option String        -- data["EDIF.original_identifier"], as compact JSON text
  dir    : String
  width  : Nat                  -- len(port.pins)
  scalar : Bool                 -- port.is_scalar  (is_array = !scalar)
  deriving DecidableEq, Repr, Inhabited

structure CCable where
  name   : Option String
  origId : Option String
  wires  : List (List CPin)
  deriving DecidableEq, Repr, Inhabited

structure CInst where
  name   : Option String
  origId : Option String
  ref    : CRef
  props  : Option (List Dict)   -- data["EDIF.properties"] if present
  deriving DecidableEq, Repr, Inhabited

structure CDef where
  name   : Option String
  origId : Option String
  ports  : List CPort
  cables : List CCable
  insts  : List CInst
  deriving DecidableEq, Repr, Inhabited

structure CLib where
  name   : Option String
  origId : Option String
  defs   : List CDef
  deriving DecidableEq, Repr, Inhabited

structure CNetlist where
  name   : Option String
  origId : Option String
  libs   : List CLib
  top    : Option CInst
  deriving DecidableEq, Repr, Inhabited

/-! ## Result type and sequencing -/

/-- `.ok ()` = the Python call returned; `.error fam` = it raised an exception of family `fam`. -/
abbrev Res := Except String Unit

abbrev ok : Res := .ok ()

/-- Python `assert b`. -/
def check (b : Bool) : Res := if b then .ok () else .error "assert"

/-- Statement sequencing: the first exception wins. -/
def Res.andThen (x y : Res) : Res :=
  match x with
  | .ok _ => y
  | .error e => .error e

infixr:55 " ;; " => Res.andThen

/-- `for x in l: f x` -/
def allM {α : Type} (l : List α) (f : α → Res) : Res :=
  match l with
  | [] => ok
  | x :: xs => f x ;; allM xs f

/-- `for x, y in zip(l1, l2): f x y` -/
def allM2 {α β : Type} (l1 : List α) (l2 : List β) (f : α → β → Res) : Res :=
  match l1, l2 with
  | x :: xs, y :: ys => f x y ;; allM2 xs ys f
  | _, _ => ok

/-- `next(sdn.get_X(parent, nm))`: first sibling named `nm`. -/
def findNamed {α : Type} (name : α → Option String) (nm : String) (l : List α) : Option α :=
  l.find? (fun x => name x == some nm)

/-- `y = next(sdn.get_X(parent, nm)); k y` — `StopIteration` (family `other`) when nothing is found. -/
def withFound {α : Type} (name : α → Option String) (nm : String) (l : List α) (k : α → Res) : Res :=
  match findNamed name nm l with
  | none => .error "other"
  | some y => k y

/-! ## Strings: the `SDN_Assignment_` convention -/

def assignPrefix : List Char := "SDN_Assignment_".toList

/-- `name.startswith("SDN_Assignment_")` -/
def isAssign (s : String) : Bool := assignPrefix.isPrefixOf s.toList

/-- `cs.split("_")` on character lists. -/
def splitU (cs : List Char) : List (List Char) :=
  cs.foldr (fun c acc => if c = '_' then [] :: acc else
    match acc with
    | [] => [[c]]
    | h :: t => (c :: h) :: t) [[]]

/-- `name.split("_")[3]`; `none` = IndexError. -/
def tok (s : String) : Option (List Char) := (splitU s.toList)[3]?

/-! ## The comparer -/

/-- Which repairs are in: `outerPinFix` docs/fixes/compare_outer_pins.diff (landed, 8c120dd),
    `drcFix` docs/fixes/compare_port_pins.diff (no "at least one pin" assertion),
    `noneNameFix` docs/fixes/compare_unnamed_instance.diff (a net on an unnamed instance). -/
structure Cfg where
  outerPinFix : Bool
  drcFix : Bool
  noneNameFix : Bool
  deriving DecidableEq, Repr

/-- every repair applied: the comparer the C20 theorems are about -/
abbrev cfgFixed : Cfg := ⟨true, true, true⟩
/-- the pinned commit -/
abbrev cfgPinned : Cfg := ⟨false, false, false⟩

/-- What the comparer reads through `instance.reference`. -/
structure RefInfo where
  dname : Option String
  lname : Option String
  ports : List CPort
  deriving Repr

def resolve (n : CNetlist) : CRef → Option RefInfo
  | .none => none
  | .idx li di =>
    match n.libs[li]? with
    | none => none
    | some L =>
      match L.defs[di]? with
      | none => none
      | some D => some ⟨D.name, L.name, D.ports⟩
  | .ext dn ln => some ⟨dn, ln, []⟩

/-- `dict[key]` (first binding; Python dict keys are unique). -/
def lookupKey (k : String) : Dict → Option String
  | [] => none
  | (k', v) :: r => if k' = k then some v else lookupKey k r

/-- inner loop `for key, value in properties_orig[x].items(): assert value == properties_composer[x][key]`;
    `pc = none` is `properties_composer[x]` raising IndexError. -/
def cmpDict (po : Dict) (pc : Option Dict) : Res :=
  allM po fun kv =>
    match pc with
    | none => .error "index"
    | some c =>
      match lookupKey kv.1 c with
      | none => .error "key"
      | some v' => check (kv.2 == v')

/-- `for x in range(len(properties_orig)): ...` -/
def cmpPropsL : List Dict → List Dict → Res
  | [], _ => ok
  | d :: ds, [] => cmpDict d none ;; cmpPropsL ds []
  | d :: ds, c :: cs => cmpDict d (some c) ;; cmpPropsL ds cs

def optName (i : Option CInst) : Option String := i.bind (·.name)
def optOrig (i : Option CInst) : Option String := i.bind (·.origId)

/-- `compare_instances` (either argument may be Python `None`: the top instance). -/
def cmpInst (a b : CNetlist) (io ic : Option CInst) : Res :=
  check (optName io == optName ic) ;;
  check (optOrig io == optOrig ic) ;;
  match io, ic with
  | some o, some c =>
    (match resolve a o.ref, resolve b c.ref with
     | none, none => ok
     | none, some r => if r.dname == none then .error "other" else .error "assert"
     | some r, none => if r.dname == none then .error "other" else .error "assert"
     | some r1, some r2 => check (r1.dname == r2.dname && r1.lname == r2.lname)) ;;
    (match o.props with
     | none => ok
     | some po =>
       match c.props with
       | none => .error "assert"
       | some pc => cmpPropsL po pc)
  | _, _ => .error "other"          -- `None.reference`

/-- `compare_ports`; `dA lA dB lB` are the names of the enclosing definitions / libraries. -/
def cmpPort (cfg : Cfg) (dA lA dB lB : Option String) (p q : CPort) : Res :=
  check (p.name == q.name) ;;
  check (p.origId == q.origId) ;;
  check (p.dir == q.dir) ;;
  check (p.scalar == q.scalar) ;;
  (if cfg.drcFix then ok
   else check (decide (0 < p.width) && decide (0 < q.width))) ;;   -- "DRC failure, ports should have at least one pin"
  check (p.width == q.width) ;;
  check (dA == dB && lA == lB)

/-- What the comparer reads through a pin object. -/
inductive PinR
  | inner (pname : Option String) (bit : Nat)
  | outer (iname rd rl pname : Option String) (bit : Nat)
  deriving Repr

def resolvePin (n : CNetlist) (d : CDef) : CPin → Option PinR
  | .port pi bit =>
    match d.ports[pi]? with
    | none => none
    | some p => if bit < p.width then some (.inner p.name bit) else none
  | .inst ii pi bit =>
    match d.insts[ii]? with
    | none => none
    | some i =>
      match resolve n i.ref with
      | none => none
      | some r =>
        match r.ports[pi]? with
        | none => none
        | some p => if bit < p.width then some (.outer i.name r.dname r.lname p.name bit) else none
  | .bad => none

/-- `are_instances_equivalent`.  Repaired (`noneNameFix`): the `SDN_Assignment_` test is only made on
    names that are present, and the assertion messages are built with `format`, so a net touching an
    unnamed instance compares `None == None` instead of raising AttributeError / TypeError. -/
def instEquiv (cfg : Cfg) (ia ib rda rdb rla rlb dA dB lA lB : Option String) : Res :=
  (if cfg.noneNameFix then
     match ia, ib with
     | some na, some nb =>
       if isAssign na && isAssign nb then
         match tok na, tok nb with
         | some ta, some tb => check (ta == tb)
         | _, _ => .error "index"
       else check (ia == ib)
     | _, _ => check (ia == ib)
   else
     match ia with
     | none => .error "other"                       -- None.startswith
     | some na =>
       if isAssign na then
         match ib with
         | none => .error "other"
         | some nb =>
           if isAssign nb then
             match tok na, tok nb with
             | some ta, some tb => check (ta == tb)
             | _, _ => .error "index"
           else check (ia == ib)
       else
         match ib with
         | none => .error "type"     -- the assertion message `"..." + orig_name + " " + None` raises TypeError
         | some _ => check (ia == ib)) ;;
  check (rda == rdb && rla == rlb && dA == dB && lA == lB)

/-- `are_inner_pins_equivalent` -/
def innerEquiv (pa pb da db la lb : Option String) (ba bb : Nat) : Res :=
  check (ba == bb) ;; check (pa == pb && da == db && la == lb)

/-- one iteration of the pin loop of `compare_cables`: type test, then `compare_outer_pins` /
    `compare_inner_pins`. Unplaceable pins (`none`) are outside the canonical dump: family `other`. -/
def cmpPin (cfg : Cfg) (dA lA dB lB : Option String) : Option PinR → Option PinR → Res
  | some (.inner pa ba), some (.inner pb bb) => innerEquiv pa pb dA dB lA lB ba bb
  | some (.outer ia rda rla pa ba), some (.outer ib rdb rlb pb bb) =>
    instEquiv cfg ia ib rda rdb rla rlb dA dB lA lB ;;
    (if cfg.outerPinFix then innerEquiv pa pb rda rdb rla rlb ba bb
     else innerEquiv pa pa rda rda rla rla ba ba)   -- pinned commit: (pin_orig.inner_pin, pin_orig.inner_pin)
  | some (.inner _ _), some (.outer _ _ _ _ _) => .error "assert"
  | some (.outer _ _ _ _ _), some (.inner _ _) => .error "assert"
  | _, _ => .error "other"

/-- `compare_cables` -/
def cmpCable (cfg : Cfg) (a b : CNetlist) (lA lB : Option String) (dA dB : CDef) (ca cb : CCable) : Res :=
  check (ca.name == cb.name) ;;
  check (ca.origId == cb.origId) ;;
  check (ca.wires.length == cb.wires.length) ;;
  allM2 ca.wires cb.wires fun wa wb =>
    check (wa.length == wb.length) ;;
    allM2 wa wb fun pa pb =>
      cmpPin cfg dA.name lA dB.name lB (resolvePin a dA pa) (resolvePin b dB pb)

/-- names of the named children that follow the `SDN_Assignment_` convention, in list order
    (`sdn.get_instances(definition, "SDN_Assignment_*")`) -/
def assignNames (d : CDef) : List String :=
  (d.insts.filterMap (·.name)).filter isAssign

/-- `name.split("_")[3]` for each; `none` = the first IndexError. -/
def toks : List String → Option (List (List Char))
  | [] => some []
  | s :: r =>
    match tok s with
    | none => none
    | some t =>
      match toks r with
      | none => none
      | some ts => some (t :: ts)

/-- the trailing "same number of each width assignment" block of `compare_definition` -/
def assignCheck (dA dB : CDef) : Res :=
  match toks (assignNames dB) with
  | none => .error "index"
  | some tb =>
    match toks (assignNames dA) with
    | none => .error "index"
    | some ta => check (tb.all fun k => ta.count k == tb.count k)

/-- `compare_definition` (always called with `check_identifier=True`) -/
def cmpDef (cfg : Cfg) (a b : CNetlist) (lA lB : Option String) (dA dB : CDef) : Res :=
  check (dA.name == dB.name) ;;
  check (dA.origId == dB.origId) ;;
  check (dA.ports.length == dB.ports.length) ;;
  (allM dA.ports fun p =>
    match p.name with
    | none => ok
    | some nm => withFound (·.name) nm dB.ports fun q => cmpPort cfg dA.name lA dB.name lB p q) ;;
  check (dA.cables.length == dB.cables.length) ;;
  (allM dA.cables fun c =>
    match c.name with
    | none => ok
    | some nm => withFound (·.name) nm dB.cables fun c' => cmpCable cfg a b lA lB dA dB c c') ;;
  check (dA.insts.length == dB.insts.length) ;;
  (allM dA.insts fun i =>
    match i.name with
    | none => ok
    | some nm =>
      if isAssign nm then ok
      else withFound (·.name) nm dB.insts fun j => cmpInst a b (some i) (some j)) ;;
  assignCheck dA dB

/-- `compare_libraries` -/
def cmpLib (cfg : Cfg) (a b : CNetlist) (lA lB : CLib) : Res :=
  check (lA.name == lB.name) ;;
  check (lA.origId == lB.origId) ;;
  check (lA.defs.length == lB.defs.length) ;;
  allM lA.defs fun d =>
    match d.name with
    | none => ok
    | some nm => withFound (·.name) nm lB.defs fun d' => cmpDef cfg a b lA.name lB.name d d'

/-- `Comparer(a, b).compare()` -/
def compareWith (cfg : Cfg) (a b : CNetlist) : Res :=
  check (a.name == b.name) ;;
  check (a.origId == b.origId) ;;
  (if b.top.isSome || a.top.isSome then cmpInst a b a.top b.top else ok) ;;
  check (a.libs.length == b.libs.length) ;;
  allM a.libs fun l =>
    match l.name with
    | none => ok
    | some nm => withFound (·.name) nm b.libs fun l' => cmpLib cfg a b l l'

/-- The comparer with every repair of docs/fixes/compare_*.diff applied. -/
def compare (a b : CNetlist) : Res := compareWith cfgFixed a b

/-- The comparer of the pinned commit. -/
def compareUnrepaired (a b : CNetlist) : Res := compareWith cfgPinned a b

end Spydr.Compare
