/-
  C20 — the netlist comparer accepts equal netlists and rejects structural differences.

  `compare` (Model.lean) is the executable model of `Comparer(a, b).compare()` AS REPAIRED by
  docs/fixes/compare_*.diff (outer pins and exact look-ups have landed in /repo; the port-pin "DRC"
  assertion and the unnamed-instance repair are proposed); `compareUnrepaired` is the pinned commit.
  `examined o n` (Spec.lean) is the name-keyed view of `n` holding exactly what the statement lists
  (port direction / width / array-ness, cable width, per wire and pin which instance, port and bit,
  instance reference, the values given to the ORIGINAL's properties, the five counts).

  Only the property theorems and their non-vacuity examples live here.
-/
import Spydr.Compare.LemmasRefl
import Spydr.Compare.LemmasDecide
import Spydr.Compare.LemmasMut
import Spydr.Compare.LemmasComplete

namespace Spydr.Compare.C20
open Spydr.Compare

/-- **Accepts equal netlists.**  A netlist whose wires list placed pins, whose property dicts have
    unique keys (`WF`), whose named siblings have unique names and whose `SDN_Assignment_…` instances (if
    any) carry the width token the comparer reads is accepted when compared with itself — hence with any
    copy whose `CNetlist` value is equal.  No `Named` hypothesis (unnamed elements are skipped, a net may
    touch an unnamed instance), no hypothesis on port widths (a port may have no pins), no bound on sizes. -/
theorem compare_refl (n : CNetlist) (hW : WF n) (hU : UniqueNames n) (hA : AssignOK n) :
    compare n n = .ok () :=
  compareWith_refl (netHypR_of hW hU hA)

/-- **Accepts every copy that shows the same view** (completeness; the copy may list its libraries,
    definitions, ports, cables and instances in any order).  If the original is fully named with unique
    sibling names and no `SDN_Assignment_…` instance, both netlists are `WF`, the copy's named siblings are
    unique, the copy shows the same examined view and the same identifier fields (netlist name, top
    instance name, original identifiers), then the comparer returns. -/
theorem compare_complete (a b : CNetlist) (hN : Named a) (hU : UniqueNames a) (hA : NoAssign a)
    (hWa : WF a) (hWb : WF b) (hUb : UniqueNames b)
    (hv : examined a a = examined a b) (hi : idents a = idents b) : compare a b = .ok () :=
  compareWith_complete (netHyp_of hN hU hA (propKeys_of_WF hWa)) (pinsOK_of_WF hWa) (defB_of hWb hUb) hv hi

/-- **Rejects structural differences** (full strength).  If the original `a` is fully named with
    unique sibling names, none of its instances is named `SDN_Assignment_…`, and its property
    dictionaries have unique keys (they are Python dicts), then for EVERY `b` — no hypothesis on the
    copy at all — acceptance implies that `b` shows the same examined view as `a`:
    same five counts under every name path, same direction / width / array-ness of every port, same
    width of every cable and, wire by wire and pin by pin, the same instance, port and bit, the same
    reference for every instance and for the top instance, and the original's values in all of the
    original's property slots. -/
theorem compare_sound (a b : CNetlist) (hN : Named a) (hU : UniqueNames a) (hA : NoAssign a) (hK : PropKeys a)
    (h : compare a b = .ok ()) : examined a a = examined a b :=
  compareWith_sound (netHyp_of hN hU hA hK) h

/-- Contrapositive, as the property is phrased: any difference in what is examined raises. -/
theorem compare_sound_contrapositive (a b : CNetlist) (hN : Named a) (hU : UniqueNames a) (hA : NoAssign a)
    (hK : PropKeys a) (hne : examined a a ≠ examined a b) : ∃ fam, compare a b = .error fam := by
  cases h : compare a b with
  | error e => exact ⟨e, rfl⟩
  | ok u => cases u; exact absurd (compare_sound a b hN hU hA hK h) hne

/-- **Among named elements.**  The same without `Named`: for an original whose *named* siblings have
    unique names (unnamed libraries, definitions, ports, cables, instances are allowed and skipped),
    acceptance implies equality of the view restricted to the original's named elements (`examinedN`;
    the five counts remain total). -/
theorem compare_sound_named (a b : CNetlist) (hU : UniqueNames a) (hA : NoAssign a) (hK : PropKeys a)
    (h : compare a b = .ok ()) : examinedN a a = examinedN a b :=
  compareWith_soundN (netHypN_of hU hA hK) h

theorem compare_sound_named_contrapositive (a b : CNetlist) (hU : UniqueNames a) (hA : NoAssign a)
    (hK : PropKeys a) (hne : examinedN a a ≠ examinedN a b) : ∃ fam, compare a b = .error fam := by
  cases h : compare a b with
  | error e => exact ⟨e, rfl⟩
  | ok u => cases u; exact absurd (compare_sound_named a b hU hA hK h) hne

/-- The executable form of "nothing examined differs" that the driver evaluates is exactly the
    equation between views. -/
theorem examinedEqB_iff (o a b : CNetlist) : examinedEqB o a b = true ↔ examined o a = examined o b :=
  examinedEqB_spec o a b

theorem examinedNEqB_iff (o a b : CNetlist) : examinedNEqB o a b = true ↔ examinedN o a = examinedN o b :=
  examinedNEqB_spec o a b

theorem identsEqB_iff (a b : CNetlist) : identsEqB a b = true ↔ idents a = idents b :=
  identsEqB_spec a b

/-! ## Non-vacuity: a two-level design with a bus port, two instances and properties -/

def leaf : CDef :=
  { name := some "leaf", origId := none,
    ports := [⟨some "A", none, "IN", 1, true⟩, ⟨some "B", none, "IN", 2, false⟩],
    cables := [], insts := [] }

def topDef (moved : Bool) : CDef :=
  { name := some "top", origId := none,
    ports := [⟨some "X", none, "IN", 1, true⟩],
    cables := [⟨some "n", none, [[.port 0 0, if moved then .inst 0 1 0 else .inst 0 0 0]]⟩,
               ⟨some "m", none, [[.inst 1 1 0], [.inst 1 1 1]]⟩],
    insts := [⟨some "u1", none, .idx 0 0, some [[("identifier", "\"INIT\""), ("value", "\"8'h01\"")]]⟩,
              ⟨some "u2", none, .idx 0 0, none⟩] }

def net (moved : Bool) : CNetlist :=
  { name := some "design", origId := none,
    libs := [⟨some "work", none, [leaf, topDef moved]⟩],
    top := some ⟨some "top_i", none, .idx 0 1, none⟩ }

/-- the original -/
def exA : CNetlist := net false
/-- the copy: the connection of net `n` to `u1.A[0]` moved to `u1.B[0]` (same instance, other port) -/
def exB : CNetlist := net true

example : WF exA ∧ Named exA ∧ UniqueNames exA ∧ NoAssign exA ∧ PropKeys exA := by decide
example : WF exB ∧ Named exB ∧ UniqueNames exB ∧ NoAssign exB := by decide
example : compare exA exA = .ok () := compare_refl exA (by decide) (by decide) (by decide)

/-- the two examined views really differ (at cable `n` of `work.top`) -/
theorem exA_exB_differ : examined exA exA ≠ examined exA exB := by
  intro h
  have h' := congrArg (fun v : View => (v.lib "work").bind fun l => (l.defn "top").bind fun d => d.cable "n") h
  revert h'
  decide

/-- so the repaired comparer raises on this pair -/
example : ∃ fam, compare exA exB = .error fam :=
  compare_sound_contrapositive exA exB (by decide) (by decide) (by decide) (by decide) exA_exB_differ

example : compare exA exB = .error "assert" := by decide

/-- **The pinned commit violates C20** (kept until the fix lands): `compare_outer_pins` compares the
    original's inner pin with itself, so the comparer of the pinned commit accepts the pair although
    the views differ — moving a connection to another port/bit of the same instance goes unnoticed. -/
theorem unrepaired_accepts_moved_pin :
    compareUnrepaired exA exB = .ok () ∧ examined exA exA ≠ examined exA exB ∧
    WF exA ∧ Named exA ∧ UniqueNames exA ∧ NoAssign exA ∧ WF exB ∧ Named exB ∧ UniqueNames exB :=
  ⟨by decide, exA_exB_differ, by decide⟩


/-! a partly named netlist with a pin-less port and a net on an unnamed instance -/

def leafP : CDef :=
  { name := some "leaf", origId := none,
    ports := [⟨some "A", none, "IN", 1, true⟩, ⟨some "Z", none, "OUT", 0, true⟩, ⟨none, none, "IN", 1, true⟩],
    cables := [], insts := [] }

def topP : CDef :=
  { name := some "top", origId := none, ports := [⟨some "X", none, "IN", 1, true⟩],
    cables := [⟨some "n", none, [[.port 0 0, .inst 0 0 0]]⟩, ⟨none, none, [[.inst 0 2 0]]⟩],
    insts := [⟨none, none, .idx 0 0, none⟩] }

def exP : CNetlist :=
  { name := some "design", origId := none, libs := [⟨some "work", none, [leafP, topP]⟩, ⟨none, none, []⟩],
    top := some ⟨none, none, .idx 0 1, none⟩ }

example : WF exP ∧ UniqueNames exP ∧ AssignOK exP ∧ NoAssign exP ∧ PropKeys exP ∧ ¬ Named exP := by decide
example : compare exP exP = .ok () := compare_refl exP (by decide) (by decide) (by decide)

/-- **The pinned commit rejects this netlist compared with itself** (its "at least one pin" assertion;
    with that removed, `None.startswith` on the unnamed instance). -/
theorem pinned_rejects_self : compareUnrepaired exP exP = .error "assert" ∧
    compareWith ⟨true, true, false⟩ exP exP = .error "other" := by decide

/-- the connection on the unnamed instance moved to its third port: rejected (restricted view differs) -/
def exP' : CNetlist :=
  { exP with libs := [⟨some "work", none, [leafP, { topP with
      cables := [⟨some "n", none, [[.port 0 0, .inst 0 2 0]]⟩, ⟨none, none, [[.inst 0 0 0]]⟩] }]⟩, ⟨none, none, []⟩] }

example : ∃ fam, compare exP exP' = .error fam :=
  compare_sound_named_contrapositive exP exP' (by decide) (by decide) (by decide)
    (fun h => absurd ((examinedNEqB_iff exP exP exP').2 h) (by decide))

/-! completeness: `exA` with the definitions of `work`, the cables and the instances of `top` listed in
    another order (pins re-indexed accordingly) is accepted -/

def topDefR : CDef :=
  { name := some "top", origId := none,
    ports := [⟨some "X", none, "IN", 1, true⟩],
    cables := [⟨some "m", none, [[.inst 0 1 0], [.inst 0 1 1]]⟩, ⟨some "n", none, [[.port 0 0, .inst 1 0 0]]⟩],
    insts := [⟨some "u2", none, .idx 0 1, none⟩,
              ⟨some "u1", none, .idx 0 1, some [[("identifier", "\"INIT\""), ("value", "\"8'h01\"")]]⟩] }

def exR : CNetlist :=
  { name := some "design", origId := none,
    libs := [⟨some "work", none, [topDefR, leaf]⟩],
    top := some ⟨some "top_i", none, .idx 0 0, none⟩ }

example : exR ≠ exA := by decide
example : compare exA exR = .ok () :=
  compare_complete exA exR (by decide) (by decide) (by decide) (by decide) (by decide) (by decide)
    ((examinedEqB_iff exA exA exR).1 (by decide)) ((identsEqB_iff exA exR).1 (by decide))

/-! ## Every single structural mutation of the statement's list raises

  The copy is `setDef a li di D'` / `setLib a li L'`: the original with ONE definition (library)
  replaced.  `a` is any named netlist with unique sibling names (no bound on size); the position
  `(li, di)` and the mutated element are arbitrary.  All are corollaries of `compare_sound`. -/

/-- change a port's direction, width or array-ness (`portView` = exactly these three) -/
theorem mutation_port_raises {a : CNetlist} {li di pi : Nat} {L : CLib} {D : CDef} {P P' : CPort}
    (hN : Named a) (hU : UniqueNames a) (hA : NoAssign a) (hK : PropKeys a)
    (hat : At a li di L D) (hP : D.ports[pi]? = some P) (hname : P'.name = P.name)
    (hdiff : P'.dir ≠ P.dir ∨ P'.width ≠ P.width ∨ P'.scalar ≠ P.scalar) :
    ∃ fam, compare a (setDef a li di { D with ports := D.ports.set pi P' }) = .error fam := by
  apply port_mutation_raises hN hU hA hK hat hP hname
  intro h
  simp only [portView, PortView.mk.injEq] at h
  rcases hdiff with hd | hd | hd
  · exact hd h.1
  · exact hd h.2.1
  · exact hd (by simpa using h.2.2)

/-- change a cable's width -/
theorem mutation_cable_width_raises {a : CNetlist} {li di ci : Nat} {L : CLib} {D : CDef} {C C' : CCable}
    (hN : Named a) (hU : UniqueNames a) (hA : NoAssign a) (hK : PropKeys a)
    (hat : At a li di L D) (hC : D.cables[ci]? = some C) (hname : C'.name = C.name)
    (hdiff : C'.wires.length ≠ C.wires.length) :
    ∃ fam, compare a (setDef a li di { D with cables := D.cables.set ci C' }) = .error fam :=
  cable_width_raises hN hU hA hK hat hC hname hdiff

/-- move one connection to another port, another bit or another instance: pin `k` of wire `wi` of
    cable `ci` becomes a *different* placed pin `p'` -/
theorem mutation_move_connection_raises {a : CNetlist} {li di ci wi k : Nat} {L : CLib} {D : CDef} {C : CCable}
    {w : List CPin} {p p' : CPin}
    (hN : Named a) (hU : UniqueNames a) (hA : NoAssign a) (hK : PropKeys a)
    (hat : At a li di L D) (hC : D.cables[ci]? = some C) (hw : C.wires[wi]? = some w) (hp : w[k]? = some p)
    (hpOK : pinOK a D p = true) (hp'OK : pinOK a D p' = true) (hne : p' ≠ p) :
    ∃ fam, compare a (setDef a li di
      { D with cables := D.cables.set ci { C with wires := C.wires.set wi (w.set k p') } }) = .error fam :=
  pin_move_raises hN hU hA hK hat hC hw hp (pinView_ne (pinCtx_of hN hU hat) hp'OK hpOK hne)

/-- drop one connection of a net, add one, or move one to another net: any copy of the definition (same
    name, unique cable names) in which wire `wi` of the same-named cable lists another number of pins -/
theorem mutation_wire_pincount_raises {a : CNetlist} {li di ci ci' wi : Nat} {L : CLib} {D D' : CDef}
    {C C' : CCable} {w w' : List CPin}
    (hN : Named a) (hU : UniqueNames a) (hA : NoAssign a) (hK : PropKeys a)
    (hat : At a li di L D) (hname : D'.name = D.name) (hndC' : (namesOf (·.name) D'.cables).Nodup)
    (hC : D.cables[ci]? = some C) (hC' : D'.cables[ci']? = some C') (hcn : C'.name = C.name)
    (hw : C.wires[wi]? = some w) (hw' : C'.wires[wi]? = some w') (hne : w'.length ≠ w.length) :
    ∃ fam, compare a (setDef a li di D') = .error fam :=
  wire_pincount_raises hN hU hA hK hat hname hndC' hC hC' hcn hw hw' hne

/-- re-point an instance to another definition of the netlist -/
theorem mutation_repoint_raises {a : CNetlist} {li di ki lj dj lk dk : Nat} {L K K' : CLib} {D E E' : CDef}
    {I : CInst}
    (hN : Named a) (hU : UniqueNames a) (hA : NoAssign a) (hK : PropKeys a)
    (hat : At a li di L D) (hI : D.insts[ki]? = some I) (hold : I.ref = .idx lj dj) (hE : At a lj dj K E)
    (hE' : At a lk dk K' E') (hne : (lk, dk) ≠ (lj, dj)) :
    ∃ fam, compare a (setDef a li di { D with insts := D.insts.set ki { I with ref := .idx lk dk } }) = .error fam :=
  inst_mutation_raises (I' := { I with ref := .idx lk dk }) hN hU hA hK hat hI rfl
    (Or.inl (by rw [hold]; exact refView_idx_ne hN hU hE' hE hne))

/-- change or drop a property of an instance: any new property list that gives one of the
    original's slots another value (or none), or no property list at all -/
theorem mutation_property_raises {a : CNetlist} {li di ki : Nat} {L : CLib} {D : CDef} {I : CInst}
    {newProps : Option (List Dict)}
    (hN : Named a) (hU : UniqueNames a) (hA : NoAssign a) (hK : PropKeys a)
    (hat : At a li di L D) (hI : D.insts[ki]? = some I)
    (hdiff : propsView I.props newProps ≠ propsView I.props I.props) :
    ∃ fam, compare a (setDef a li di { D with insts := D.insts.set ki { I with props := newProps } }) = .error fam :=
  inst_mutation_raises (I' := { I with props := newProps }) hN hU hA hK hat hI rfl (Or.inr hdiff)

/-- drop or add one port, cable or instance -/
theorem mutation_element_count_raises {a : CNetlist} {li di : Nat} {L : CLib} {D D' : CDef}
    (hN : Named a) (hU : UniqueNames a) (hA : NoAssign a) (hK : PropKeys a)
    (hat : At a li di L D) (hname : D'.name = D.name)
    (hdiff : D'.ports.length ≠ D.ports.length ∨ D'.cables.length ≠ D.cables.length ∨ D'.insts.length ≠ D.insts.length) :
    ∃ fam, compare a (setDef a li di D') = .error fam :=
  def_count_raises hN hU hA hK hat hname hdiff

/-- drop or add one definition -/
theorem mutation_definition_count_raises {a : CNetlist} {li : Nat} {L L' : CLib}
    (hN : Named a) (hU : UniqueNames a) (hA : NoAssign a) (hK : PropKeys a)
    (hL : a.libs[li]? = some L) (hname : L'.name = L.name) (hdiff : L'.defs.length ≠ L.defs.length) :
    ∃ fam, compare a (setLib a li L') = .error fam :=
  lib_count_raises hN hU hA hK hL hname hdiff

/-- drop or add one library (no hypothesis at all) -/
theorem mutation_library_count_raises {a b : CNetlist} (hdiff : b.libs.length ≠ a.libs.length) :
    ∃ fam, compare a b = .error fam :=
  netlist_count_raises hdiff

/-! non-vacuity: the mutations instantiated on `exA` -/

theorem exA_at : At exA 0 1 ⟨some "work", none, [leaf, topDef false]⟩ (topDef false) := ⟨rfl, rfl⟩

def cableN : CCable := ⟨some "n", none, [[.port 0 0, .inst 0 0 0]]⟩
def portX : CPort := ⟨some "X", none, "IN", 1, true⟩
def instU1 : CInst := ⟨some "u1", none, .idx 0 0, some [[("identifier", "\"INIT\""), ("value", "\"8'h01\"")]]⟩

def cableN' : CCable := { cableN with wires := cableN.wires.set 0 ([CPin.port 0 0, .inst 0 0 0].set 1 (.inst 0 1 0)) }
def topMoved : CDef := { (topDef false) with cables := (topDef false).cables.set 0 cableN' }
def topDirChanged : CDef := { (topDef false) with ports := (topDef false).ports.set 0 { portX with dir := "OUT" } }
def topPropsDropped : CDef := { (topDef false) with insts := (topDef false).insts.set 0 { instU1 with props := none } }
def topRepointed : CDef := { (topDef false) with insts := (topDef false).insts.set 0 { instU1 with ref := .idx 0 1 } }

/-- `exB` is `exA` with the connection `u1.A[0]` of net `n` moved to `u1.B[0]` -/
example : exB = setDef exA 0 1 topMoved := by decide

example : ∃ fam, compare exA (setDef exA 0 1 topMoved) = .error fam :=
  mutation_move_connection_raises (p := .inst 0 0 0) (by decide) (by decide) (by decide) (by decide) exA_at
    (C := cableN) rfl rfl rfl (by decide) (by decide) (by decide)

/-- the connection `u2.B[1]` moved from wire 1 of net `m` to net `n` -/
def topMovedToOtherWire : CDef := { (topDef false) with
  cables := [⟨some "n", none, [[.port 0 0, .inst 0 0 0, .inst 1 1 1]]⟩, ⟨some "m", none, [[.inst 1 1 0], []]⟩] }

example : ∃ fam, compare exA (setDef exA 0 1 topMovedToOtherWire) = .error fam :=
  mutation_wire_pincount_raises (C := cableN) (ci := 0) (ci' := 0) (wi := 0) (by decide) (by decide) (by decide) (by decide)
    exA_at rfl (by decide) rfl rfl rfl rfl rfl (by decide)

example : ∃ fam, compare exA (setDef exA 0 1 topDirChanged) = .error fam :=
  mutation_port_raises (P := portX) (by decide) (by decide) (by decide) (by decide)
    exA_at rfl rfl (Or.inl (by decide))

example : ∃ fam, compare exA (setDef exA 0 1 topPropsDropped) = .error fam :=
  mutation_property_raises (I := instU1) (by decide) (by decide) (by decide) (by decide) exA_at rfl (by decide)

example : ∃ fam, compare exA (setDef exA 0 1 topRepointed) = .error fam :=
  mutation_repoint_raises (I := instU1) (by decide) (by decide) (by decide) (by decide) exA_at rfl rfl
    (⟨rfl, rfl⟩ : At exA 0 0 _ leaf) exA_at (by decide)

end Spydr.Compare.C20
