/-
  C20 — the netlist comparer accepts equal netlists and rejects structural differences.

  `compare` (Model.lean) is the executable model of `Comparer(a, b).compare()` AS REPAIRED by
  docs/fixes/compare_outer_pins.diff; `compareUnrepaired` is the pinned commit.
  `examined o n` (Spec.lean) is the name-keyed view of `n` holding exactly what the statement lists
  (port direction / width / array-ness, cable width, per wire and pin which instance, port and bit,
  instance reference, the values given to the ORIGINAL's properties, the five counts).

  Only the property theorems and their non-vacuity examples live here.
-/
import Spydr.Compare.LemmasRefl
import Spydr.Compare.LemmasDecide

namespace Spydr.Compare.C20
open Spydr.Compare

/-- **Accepts equal netlists.**  A well-formed, self-contained, fully named netlist with unique
    sibling names (and no `SDN_Assignment_…` instance, which the comparer is documented to skip) is
    accepted when compared with itself — hence with any copy whose `CNetlist` value is equal
    (DESIGN §5 decision 7: clone, write-then-read).  No bound on sizes. -/
theorem compare_refl (n : CNetlist) (hW : WF n) (hN : Named n) (hU : UniqueNames n) (hA : NoAssign n) :
    compare n n = .ok () :=
  compareWith_refl (netHyp_of hN hU hA (propKeys_of_WF hW)) (defWF_of hW)

/-- The same for the comparer of the pinned commit (its defect only makes it accept more). -/
theorem compareUnrepaired_refl (n : CNetlist) (hW : WF n) (hN : Named n) (hU : UniqueNames n) (hA : NoAssign n) :
    compareUnrepaired n n = .ok () :=
  compareWith_refl (netHyp_of hN hU hA (propKeys_of_WF hW)) (defWF_of hW)

/-- **Rejects structural differences** (full strength).  If the original `a` is fully named with
    unique sibling names, none of its instances is named `SDN_Assignment_…`, and its property
    dictionaries have unique keys (they are Python dicts), then for EVERY `b` — no hypothesis on the
    copy at all — acceptance implies that `b` shows the same examined view as `a`:
    same five counts under every name path, same direction / width / array-ness of every port, same
    width of every cable and, wire by wire and pin by pin, the same instance, port and bit, the same
    reference for every instance and for the top instance, and the original's values in all of the
    original's property slots. -/
theorem compare_sound (a b : CNetlist) (hN : Named a) (hU : UniqueNames a) (hA : NoAssign a) (hK : PropKeys a)
    (h : compare a b = .ok ()) : examined a a = examined a b :=
  compareWith_sound (netHyp_of hN hU hA hK) h

/-- Contrapositive, as the property is phrased: any difference in what is examined raises. -/
theorem compare_sound_contrapositive (a b : CNetlist) (hN : Named a) (hU : UniqueNames a) (hA : NoAssign a)
    (hK : PropKeys a) (hne : examined a a ≠ examined a b) : ∃ fam, compare a b = .error fam := by
  cases h : compare a b with
  | error e => exact ⟨e, rfl⟩
  | ok u => cases u; exact absurd (compare_sound a b hN hU hA hK h) hne

/-- The executable form of "nothing examined differs" that the driver evaluates is exactly the
    equation between views. -/
theorem examinedEqB_iff (o a b : CNetlist) : examinedEqB o a b = true ↔ examined o a = examined o b :=
  examinedEqB_spec o a b

/-! ## Non-vacuity: a two-level design with a bus port, two instances and properties -/

def leaf : CDef :=
  { name := some "leaf", origId := none,
    ports := [⟨some "A", none, "IN", 1, true⟩, ⟨some "B", none, "IN", 2, false⟩],
    cables := [], insts := [] }

def topDef (moved : Bool) : CDef :=
  { name := some "top", origId := none,
    ports := [⟨some "X", none, "IN", 1, true⟩],
    cables := [⟨some "n", none, [[.port 0 0, if moved then .inst 0 1 0 else .inst 0 0 0]]⟩,
               ⟨some "m", none, [[.inst 1 1 0], [.inst 1 1 1]]⟩],
    insts := [⟨some "u1", none, .idx 0 0, some [[("identifier", "\"INIT\""), ("value", "\"8'h01\"")]]⟩,
              ⟨some "u2", none, .idx 0 0, none⟩] }

def net (moved : Bool) : CNetlist :=
  { name := some "design", origId := none,
    libs := [⟨some "work", none, [leaf, topDef moved]⟩],
    top := some ⟨some "top_i", none, .idx 0 1, none⟩ }

/-- the original -/
def exA : CNetlist := net false
/-- the copy: the connection of net `n` to `u1.A[0]` moved to `u1.B[0]` (same instance, other port) -/
def exB : CNetlist := net true

example : WF exA ∧ Named exA ∧ UniqueNames exA ∧ NoAssign exA ∧ PropKeys exA := by decide
example : WF exB ∧ Named exB ∧ UniqueNames exB ∧ NoAssign exB := by decide
example : compare exA exA = .ok () := compare_refl exA (by decide) (by decide) (by decide) (by decide)

/-- the two examined views really differ (at cable `n` of `work.top`) -/
theorem exA_exB_differ : examined exA exA ≠ examined exA exB := by
  intro h
  have h' := congrArg (fun v : View => (v.lib "work").bind fun l => (l.defn "top").bind fun d => d.cable "n") h
  revert h'
  decide

/-- so the repaired comparer raises on this pair -/
example : ∃ fam, compare exA exB = .error fam :=
  compare_sound_contrapositive exA exB (by decide) (by decide) (by decide) (by decide) exA_exB_differ

example : compare exA exB = .error "assert" := by decide

/-- **The pinned commit violates C20** (kept until the fix lands): `compare_outer_pins` compares the
    original's inner pin with itself, so the comparer of the pinned commit accepts the pair although
    the views differ — moving a connection to another port/bit of the same instance goes unnoticed. -/
theorem unrepaired_accepts_moved_pin :
    compareUnrepaired exA exB = .ok () ∧ examined exA exA ≠ examined exA exB ∧
    WF exA ∧ Named exA ∧ UniqueNames exA ∧ NoAssign exA ∧ WF exB ∧ Named exB ∧ UniqueNames exB :=
  ⟨by decide, exA_exB_differ, by decide⟩

end Spydr.Compare.C20
