/-
  C20 — specification side: what the comparer is documented to *examine*, and the hypotheses of the
  theorems.  Written without reference to any function of the model (`Model.lean` is imported for
  the `CNetlist` data type only; nothing below mentions `compare`, `cmp*`, `resolve*`, `Res`).

  The comparer is name-keyed (libraries, definitions, ports, cables and instances of the copy are
  looked up by the original's names, in any order), so the view is a record of *functions from names*:
  two netlists have the same view iff under every name path they show the same attributes.

  `examined o n` is the view of netlist `n` *with respect to the original `o`*: everything the C20
  statement lists —
    a port's direction, width, array-ness; a cable's width (number of wires) and, wire by wire and pin
    by pin, which instance (name), which port (name) and which bit the net touches; an instance's
    reference (definition name, library name) and the values `n` gives to the ORIGINAL's
    properties (`EDIF.properties` slots (index, key) present in `o`; DESIGN §5 decision 7: a property
    the copy *adds* is not examined, one it changes or drops is); the five counts —
  so that "the copy differs from the original in nothing that is examined" is the equation
  `examined a a = examined a b`.
-/
import Spydr.Compare.Model

namespace Spydr.Compare

/-! ## The view -/

structure PortView where
  dir     : String
  width   : Nat
  isArray : Bool
  deriving DecidableEq, Repr

/-- which instance / port / bit a pin on a net is -/
inductive PinView
  | inner (port : Option String) (bit : Nat)
  | outer (inst : Option String) (port : Option String) (bit : Nat)
  | unplaced
  deriving DecidableEq, Repr

/-- the value the copy gives to one property slot of the original (`none` = absent) -/
abbrev SlotView := List (List (String × Option String))

structure InstView where
  /-- `(definition name, library name)` of the reference, `none` = no reference -/
  ref   : Option (Option String × Option String)
  /-- `none`: the original has no `EDIF.properties`; `some none`: the original has, this one has not;
      `some (some s)`: per original slot the value found here -/
  props : Option (Option SlotView)
  deriving DecidableEq, Repr

structure DefView where
  nPorts  : Nat
  nCables : Nat
  nInsts  : Nat
  port    : String → Option PortView
  /-- wires of the cable, each the list of pins it touches; the cable's width is the length -/
  cable   : String → Option (List (List PinView))
  inst    : String → Option InstView

structure LibView where
  nDefs : Nat
  defn  : String → Option DefView

structure View where
  nLibs : Nat
  lib   : String → Option LibView
  top   : Option InstView

/-! ## Computing the view -/

def byName {α : Type} (name : α → Option String) (nm : String) : List α → Option α
  | [] => none
  | x :: r => if name x = some nm then some x else byName name nm r

def refView (n : CNetlist) : CRef → Option (Option String × Option String)
  | .none => none
  | .ext dn ln => some (dn, ln)
  | .idx li di =>
    match n.libs[li]? with
    | none => none
    | some L =>
      match L.defs[di]? with
      | none => none
      | some D => some (D.name, L.name)

def valueOf (k : String) : Dict → Option String
  | [] => none
  | (k', v) :: r => if k' = k then some v else valueOf k r

/-- values found in `pn` for the slots of the original's `po` -/
def slots : List Dict → List Dict → SlotView
  | [], _ => []
  | d :: ds, [] => d.map (fun kv => (kv.1, none)) :: slots ds []
  | d :: ds, c :: cs => d.map (fun kv => (kv.1, valueOf kv.1 c)) :: slots ds cs

def propsView (orig : Option (List Dict)) (here : Option (List Dict)) : Option (Option SlotView) :=
  match orig with
  | none => none
  | some po =>
    match here with
    | none => some none
    | some pn => some (some (slots po pn))

def instView (n : CNetlist) (origProps : Option (List Dict)) (i : CInst) : InstView :=
  { ref := refView n i.ref, props := propsView origProps i.props }

def portView (p : CPort) : PortView := { dir := p.dir, width := p.width, isArray := !p.scalar }

def refPorts (n : CNetlist) : CRef → List CPort
  | .idx li di =>
    match n.libs[li]? with
    | none => []
    | some L =>
      match L.defs[di]? with
      | none => []
      | some D => D.ports
  | _ => []

def pinView (n : CNetlist) (d : CDef) : CPin → PinView
  | .port pi bit =>
    match d.ports[pi]? with
    | none => .unplaced
    | some p => .inner p.name bit
  | .inst ii pi bit =>
    match d.insts[ii]? with
    | none => .unplaced
    | some i =>
      match (refPorts n i.ref)[pi]? with
      | none => .unplaced
      | some p => .outer i.name p.name bit
  | .bad => .unplaced

def cableView (n : CNetlist) (d : CDef) (c : CCable) : List (List PinView) :=
  c.wires.map fun w => w.map (pinView n d)

/-- properties of the original's instance of the same name (if the original has that instance) -/
def origInstProps (od : Option CDef) (nm : String) : Option (List Dict) :=
  match od with
  | none => none
  | some d =>
    match byName (·.name) nm d.insts with
    | none => none
    | some i => i.props

def defView (n : CNetlist) (od : Option CDef) (d : CDef) : DefView :=
  { nPorts := d.ports.length, nCables := d.cables.length, nInsts := d.insts.length,
    port := fun nm => (byName (·.name) nm d.ports).map portView,
    cable := fun nm => (byName (·.name) nm d.cables).map (cableView n d),
    inst := fun nm => (byName (·.name) nm d.insts).map (instView n (origInstProps od nm)) }

def origDef (ol : Option CLib) (nm : String) : Option CDef :=
  match ol with
  | none => none
  | some l => byName (·.name) nm l.defs

def libView (n : CNetlist) (ol : Option CLib) (l : CLib) : LibView :=
  { nDefs := l.defs.length,
    defn := fun nm => (byName (·.name) nm l.defs).map (defView n (origDef ol nm)) }

/-- The view of `n` with respect to the original `o`. -/
def examined (o n : CNetlist) : View :=
  { nLibs := n.libs.length,
    lib := fun nm => (byName (·.name) nm n.libs).map (libView n (byName (·.name) nm o.libs)),
    top := n.top.map (instView n (o.top.bind (·.props))) }

/-! ## The view restricted to the ORIGINAL's named elements ("among named elements")

  `examinedN o n` answers only at names the original `o` uses (an unnamed element of the original is
  never compared, so whatever the copy has in its place — named or not — is not examined); counts are
  still total.  For a fully named original with unique names `examined` is the stronger statement. -/

def guardBy {α β : Type} (o : Option α) (x : Option β) : Option β :=
  match o with
  | none => none
  | some _ => x

def defViewN (n : CNetlist) (od : Option CDef) (d : CDef) : DefView :=
  { nPorts := d.ports.length, nCables := d.cables.length, nInsts := d.insts.length,
    port := fun nm => guardBy (od.bind fun o => byName (·.name) nm o.ports) ((byName (·.name) nm d.ports).map portView),
    cable := fun nm => guardBy (od.bind fun o => byName (·.name) nm o.cables) ((byName (·.name) nm d.cables).map (cableView n d)),
    inst := fun nm => guardBy (od.bind fun o => byName (·.name) nm o.insts)
      ((byName (·.name) nm d.insts).map (instView n (origInstProps od nm))) }

def libViewN (n : CNetlist) (ol : Option CLib) (l : CLib) : LibView :=
  { nDefs := l.defs.length,
    defn := fun nm => guardBy (origDef ol nm) ((byName (·.name) nm l.defs).map (defViewN n (origDef ol nm))) }

def examinedN (o n : CNetlist) : View :=
  { nLibs := n.libs.length,
    lib := fun nm => guardBy (byName (·.name) nm o.libs)
      ((byName (·.name) nm n.libs).map (libViewN n (byName (·.name) nm o.libs))),
    top := n.top.map (instView n (o.top.bind (·.props))) }

/-! ## Identifiers: what the comparer checks besides the examined attributes

  names are the keys; the remaining identifier fields are the netlist's name, the top instance's
  name and every element's `EDIF.original_identifier`. -/

structure DefIds where
  origId : Option String
  port   : String → Option (Option String)
  cable  : String → Option (Option String)
  inst   : String → Option (Option String)

structure LibIds where
  origId : Option String
  defn   : String → Option DefIds

structure Ids where
  name    : Option String
  origId  : Option String
  topName : Option (Option String)
  topOrig : Option (Option String)
  lib     : String → Option LibIds

def defIds (d : CDef) : DefIds :=
  { origId := d.origId,
    port := fun nm => (byName (·.name) nm d.ports).map (·.origId),
    cable := fun nm => (byName (·.name) nm d.cables).map (·.origId),
    inst := fun nm => (byName (·.name) nm d.insts).map (·.origId) }

def libIds (l : CLib) : LibIds :=
  { origId := l.origId, defn := fun nm => (byName (·.name) nm l.defs).map defIds }

def idents (n : CNetlist) : Ids :=
  { name := n.name, origId := n.origId, topName := n.top.map (·.name), topOrig := n.top.map (·.origId),
    lib := fun nm => (byName (·.name) nm n.libs).map libIds }

/-! ## Hypotheses of the theorems (all decidable; the driver evaluates the `…B` forms) -/

def allNamed {α : Type} (name : α → Option String) (l : List α) : Bool := l.all fun x => (name x).isSome

/-- every library, definition, port, cable and instance has a name -/
def namedB (n : CNetlist) : Bool :=
  allNamed (·.name) n.libs && n.libs.all fun l =>
    allNamed (·.name) l.defs && l.defs.all fun d =>
      allNamed (·.name) d.ports && allNamed (·.name) d.cables && allNamed (·.name) d.insts

def Named (n : CNetlist) : Prop := namedB n = true
instance (n : CNetlist) : Decidable (Named n) := by unfold Named; infer_instance

def namesOf {α : Type} (name : α → Option String) (l : List α) : List String := l.filterMap name

/-- sibling names are unique (what the namespace manager enforces, C10) -/
def UniqueNames (n : CNetlist) : Prop :=
  (namesOf (·.name) n.libs).Nodup ∧ ∀ l ∈ n.libs,
    (namesOf (·.name) l.defs).Nodup ∧ ∀ d ∈ l.defs,
      (namesOf (·.name) d.ports).Nodup ∧ (namesOf (·.name) d.cables).Nodup ∧ (namesOf (·.name) d.insts).Nodup

instance (n : CNetlist) : Decidable (UniqueNames n) := by unfold UniqueNames; infer_instance

def startsWithAssign (s : String) : Bool := "SDN_Assignment_".toList.isPrefixOf s.toList

/-- no instance is named `SDN_Assignment_…` (the comparer is documented to skip those) -/
def noAssignB (n : CNetlist) : Bool :=
  n.libs.all fun l => l.defs.all fun d => d.insts.all fun i =>
    match i.name with
    | none => true
    | some nm => !startsWithAssign nm

def NoAssign (n : CNetlist) : Prop := noAssignB n = true
instance (n : CNetlist) : Decidable (NoAssign n) := by unfold NoAssign; infer_instance

def splitUnderscore (cs : List Char) : List (List Char) :=
  cs.foldr (fun c acc => if c = '_' then [] :: acc else
    match acc with
    | [] => [[c]]
    | h :: t => (c :: h) :: t) [[]]

/-- instances that follow the `SDN_Assignment_` naming convention carry a fourth `_`-separated token
    (`SDN_Assignment_<width>_<k>`): the comparer reads `name.split("_")[3]` of every such instance.
    Weaker than `NoAssign`. -/
def assignOkB (n : CNetlist) : Bool :=
  n.libs.all fun l => l.defs.all fun d => d.insts.all fun i =>
    match i.name with
    | none => true
    | some nm => !startsWithAssign nm || ((splitUnderscore nm.toList)[3]?).isSome

def AssignOK (n : CNetlist) : Prop := assignOkB n = true
instance (n : CNetlist) : Decidable (AssignOK n) := by unfold AssignOK; infer_instance

def keysNodupB (p : Option (List Dict)) : Bool :=
  match p with
  | none => true
  | some l => l.all fun d => decide (d.map (·.1)).Nodup

def pinOK (n : CNetlist) (d : CDef) : CPin → Bool
  | .port pi bit =>
    match d.ports[pi]? with
    | none => false
    | some p => decide (bit < p.width)
  | .inst ii pi bit =>
    match d.insts[ii]? with
    | none => false
    | some i =>
      match (refPorts n i.ref)[pi]? with
      | none => false
      | some p => decide (bit < p.width)
  | .bad => false

def refOK (n : CNetlist) : CRef → Bool
  | .idx li di =>
    match n.libs[li]? with
    | none => false
    | some L => (L.defs[di]?).isSome
  | _ => false

/-- well-formed as far as a comparison can notice: every pin listed by a wire is placed (it is a pin of
    a port of the definition, or of a port of the definition a child instance references), and the
    property dictionaries have unique keys (they are Python dicts).  Nothing is required of port widths
    (a port may have no pins) or of references of unconnected instances. -/
def wfB (n : CNetlist) : Bool :=
  (n.libs.all fun l => l.defs.all fun d =>
    (d.insts.all fun i => keysNodupB i.props) &&
    (d.cables.all fun c => c.wires.all fun w => w.all (pinOK n d))) &&
  (match n.top with
   | none => true
   | some t => keysNodupB t.props)

def WF (n : CNetlist) : Prop := wfB n = true
instance (n : CNetlist) : Decidable (WF n) := by unfold WF; infer_instance

/-- only the part of `WF` soundness needs from the original -/
def propKeysB (n : CNetlist) : Bool :=
  (n.libs.all fun l => l.defs.all fun d => d.insts.all fun i => keysNodupB i.props) &&
  (match n.top with
   | none => true
   | some t => keysNodupB t.props)

def PropKeys (n : CNetlist) : Prop := propKeysB n = true
instance (n : CNetlist) : Decidable (PropKeys n) := by unfold PropKeys; infer_instance

/-! ## Executable decision of `examined o a = examined o b`
    (views are functions of names; they can only differ at a name one of the two sides uses) -/

def optAgree {α : Type} (eq : α → α → Bool) : Option α → Option α → Bool
  | none, none => true
  | some x, some y => eq x y
  | _, _ => false

def defAgreeB (a b : CNetlist) (oda odb : Option CDef) (da db : CDef) : Bool :=
  da.ports.length == db.ports.length && da.cables.length == db.cables.length &&
  da.insts.length == db.insts.length &&
  ((namesOf (·.name) da.ports ++ namesOf (·.name) db.ports).all fun nm =>
    decide ((byName (·.name) nm da.ports).map portView = (byName (·.name) nm db.ports).map portView)) &&
  ((namesOf (·.name) da.cables ++ namesOf (·.name) db.cables).all fun nm =>
    decide ((byName (·.name) nm da.cables).map (cableView a da) = (byName (·.name) nm db.cables).map (cableView b db))) &&
  ((namesOf (·.name) da.insts ++ namesOf (·.name) db.insts).all fun nm =>
    decide ((byName (·.name) nm da.insts).map (instView a (origInstProps oda nm))
          = (byName (·.name) nm db.insts).map (instView b (origInstProps odb nm))))

def libAgreeB (a b : CNetlist) (ola olb : Option CLib) (la lb : CLib) : Bool :=
  la.defs.length == lb.defs.length &&
  ((namesOf (·.name) la.defs ++ namesOf (·.name) lb.defs).all fun nm =>
    optAgree (fun da db => defAgreeB a b (origDef ola nm) (origDef olb nm) da db)
      (byName (·.name) nm la.defs) (byName (·.name) nm lb.defs))

/-- decides `examined o a = examined o b` (see `examinedEqB_iff` in Lemmas) -/
def examinedEqB (o a b : CNetlist) : Bool :=
  a.libs.length == b.libs.length &&
  decide (a.top.map (instView a (o.top.bind (·.props))) = b.top.map (instView b (o.top.bind (·.props)))) &&
  ((namesOf (·.name) a.libs ++ namesOf (·.name) b.libs).all fun nm =>
    optAgree (fun la lb => libAgreeB a b (byName (·.name) nm o.libs) (byName (·.name) nm o.libs) la lb)
      (byName (·.name) nm a.libs) (byName (·.name) nm b.libs))

/-! ## Executable decisions of `examinedN o a = examinedN o b` and `idents a = idents b` -/

def defAgreeNB (a b : CNetlist) (od : Option CDef) (da db : CDef) : Bool :=
  da.ports.length == db.ports.length && da.cables.length == db.cables.length &&
  da.insts.length == db.insts.length &&
  (match od with
   | none => true
   | some o =>
     ((namesOf (·.name) o.ports).all fun nm =>
       decide ((byName (·.name) nm da.ports).map portView = (byName (·.name) nm db.ports).map portView)) &&
     ((namesOf (·.name) o.cables).all fun nm =>
       decide ((byName (·.name) nm da.cables).map (cableView a da) = (byName (·.name) nm db.cables).map (cableView b db))) &&
     ((namesOf (·.name) o.insts).all fun nm =>
       decide ((byName (·.name) nm da.insts).map (instView a (origInstProps od nm))
             = (byName (·.name) nm db.insts).map (instView b (origInstProps od nm)))))

def libAgreeNB (a b : CNetlist) (ol : Option CLib) (la lb : CLib) : Bool :=
  la.defs.length == lb.defs.length &&
  (match ol with
   | none => true
   | some o =>
     (namesOf (·.name) o.defs).all fun nm =>
       optAgree (fun da db => defAgreeNB a b (origDef ol nm) da db)
         (byName (·.name) nm la.defs) (byName (·.name) nm lb.defs))

/-- decides `examinedN o a = examinedN o b` (see `examinedNEqB_spec`) -/
def examinedNEqB (o a b : CNetlist) : Bool :=
  a.libs.length == b.libs.length &&
  decide (a.top.map (instView a (o.top.bind (·.props))) = b.top.map (instView b (o.top.bind (·.props)))) &&
  ((namesOf (·.name) o.libs).all fun nm =>
    optAgree (fun la lb => libAgreeNB a b (byName (·.name) nm o.libs) la lb)
      (byName (·.name) nm a.libs) (byName (·.name) nm b.libs))

def defIdsEqB (da db : CDef) : Bool :=
  decide (da.origId = db.origId) &&
  ((namesOf (·.name) da.ports ++ namesOf (·.name) db.ports).all fun nm =>
    decide ((byName (·.name) nm da.ports).map (·.origId) = (byName (·.name) nm db.ports).map (·.origId))) &&
  ((namesOf (·.name) da.cables ++ namesOf (·.name) db.cables).all fun nm =>
    decide ((byName (·.name) nm da.cables).map (·.origId) = (byName (·.name) nm db.cables).map (·.origId))) &&
  ((namesOf (·.name) da.insts ++ namesOf (·.name) db.insts).all fun nm =>
    decide ((byName (·.name) nm da.insts).map (·.origId) = (byName (·.name) nm db.insts).map (·.origId)))

def libIdsEqB (la lb : CLib) : Bool :=
  decide (la.origId = lb.origId) &&
  ((namesOf (·.name) la.defs ++ namesOf (·.name) lb.defs).all fun nm =>
    optAgree defIdsEqB (byName (·.name) nm la.defs) (byName (·.name) nm lb.defs))

/-- decides `idents a = idents b` (see `identsEqB_spec`) -/
def identsEqB (a b : CNetlist) : Bool :=
  decide (a.name = b.name) && decide (a.origId = b.origId) &&
  decide (a.top.map (·.name) = b.top.map (·.name)) && decide (a.top.map (·.origId) = b.top.map (·.origId)) &&
  ((namesOf (·.name) a.libs ++ namesOf (·.name) b.libs).all fun nm =>
    optAgree libIdsEqB (byName (·.name) nm a.libs) (byName (·.name) nm b.libs))

end Spydr.Compare
