/-
  C20 — specification of the single structural mutations of a copy (the quantifier of the property):
  positional replacement of one library / one definition of a netlist.  A mutation of the copy is
  `setDef a li di D'` (or `setLib a li L'`) where `D'` differs from the definition `D` at `(li, di)` in
  one port, one cable, one wire's pin, one instance, or in the number of ports / cables / instances.
  No Mathlib, nothing of the model.
-/
import Spydr.Compare.Spec

namespace Spydr.Compare

/-- replace library `li` -/
def setLib (a : CNetlist) (li : Nat) (L' : CLib) : CNetlist := { a with libs := a.libs.set li L' }

/-- replace definition `di` of library `li` -/
def setDef (a : CNetlist) (li di : Nat) (D' : CDef) : CNetlist :=
  match a.libs[li]? with
  | none => a
  | some L => setLib a li { L with defs := L.defs.set di D' }

/-- Positional facts: definition `D` sits at `(li, di)`, in library `L`. -/
structure At (a : CNetlist) (li di : Nat) (L : CLib) (D : CDef) : Prop where
  lib : a.libs[li]? = some L
  defn : L.defs[di]? = some D

/-- observation of a view at a (library name, definition name) path -/
def atDef (v : View) (ln dn : String) : Option DefView := (v.lib ln).bind fun l => l.defn dn

end Spydr.Compare
