/-
  Round trip for ANY instance order: one child block created at position `j`, then all of them.
-/
import Spydr.Eblif.AnyJoins

namespace Spydr.Eblif.Any

open Spydr.Eblif

/-- `stmtOf_ok` with the creation position `j` independent of the child's index in `n` -/
theorem stmtOf_ok (o : Opts) (n : BNet) (t : String) (k : Inst × Nat) (hk : KidOK o n t k) (j : Nat) (st : St)
    (hlen : st.insts.length = j)
    (hx : o.writeCname = true → ∀ j', j' ≠ j → (namesOf st)[j']? ≠ some k.1.name) :
    ∃ st', elabStmt st t (stmtOf o n k) = Except.ok st' ∧ st'.insts.length = j + 1 ∧
      (o.writeCname = true → namesOf st' = namesOf st ++ [k.1.name]) := by
  obtain ⟨i, idx⟩ := k
  simp only at hx hk
  have hd0 : DefEx (ensureDef (checkHierarchy st t i.model) i.model) i.model := defEx_ensureDef _ _
  obtain ⟨s1, h1, d1, p1⟩ := declFormals_ok i.model (connsOf n idx i) hk.formals _ hd0
  have hl1 : s1.insts.length = j := by rw [len_declFormals _ h1]; simpa using hlen
  have hn1 : namesOf s1 = namesOf st := by rw [nm_declFormals _ h1]; simp
  have hmap : infoMapOf (connsOf n idx i) = connsOf n idx i := infoMapOf_nodup _ hk.nodup
  let ty := if (decide (i.typ = "EBLIF.gate")) = true then "EBLIF.gate" else "EBLIF.subckt"
  let a := assignDefault (newInst s1 t i.model ty).1 s1.insts.length t i.model
  have hpa : ∀ fa ∈ connsOf n idx i, ∃ cn ci pn pi, splitIdx fa.2 = Except.ok (cn, ci) ∧
      splitIdx fa.1 = Except.ok (pn, pi) ∧ HasP a i.model pn := by
    intro fa hfa
    obtain ⟨pn, pi, e2⟩ := hk.formals fa hfa
    obtain ⟨cn, ci, e1⟩ := hk.actuals fa hfa
    exact ⟨cn, ci, pn, pi, e1, e2, (p1 fa hfa pn pi e2).mono (PMono.of_defs rfl)⟩
  obtain ⟨s2, h2⟩ := connectAll_ok s1.insts.length t i.model (connsOf n idx i) a hpa
  have hn2 : ∃ d, namesOf s2 = namesOf st ++ [d] := by
    obtain ⟨d, hd⟩ := nm_assignDefault (newInst s1 t i.model ty).1 s1.insts.length t i.model
    refine ⟨d, ?_⟩
    rw [nm_connectAll _ h2]
    show namesOf (assignDefault (newInst s1 t i.model ty).1 s1.insts.length t i.model) = _
    rw [hd, nm_newInst, hn1]
    have hl : s1.insts.length = (namesOf st).length := by simp [namesOf, hl1, hlen]
    rw [hl]
    exact set_append_last _ _ _
  obtain ⟨dflt, hn2⟩ := hn2
  obtain ⟨s3, h3, hl3, hn3⟩ := info_ok o i t st s2 j dflt hlen hn2 hx
  refine ⟨s3, ?_, hl3, hn3⟩
  unfold stmtOf elabStmt
  simp only [h1, bind, Except.bind]
  change (connectAll a s1.insts.length t i.model (infoMapOf (connsOf n idx i))).bind _ = _
  rw [hmap, h2]
  show applyInfo s2 s1.insts.length t (infoStmts o i) = _
  rw [hl1]; exact h3

/-- a child block re-reads without error, at any position -/
theorem kid_ok (o : Opts) (n : BNet) (t : String) (hw : WellNamed n)
    (hcab : ∀ c ∈ n.cables, plainName c.1.2 ∧ c.1.2.toList ≠ []) (k : Inst × Nat) (hki : k ∈ n.insts.zipIdx)
    (hs : KidShape n k) (j : Nat) (st : St) (hlen : st.insts.length = j)
    (hx : o.writeCname = true → ∀ j', j' ≠ j → (namesOf st)[j']? ≠ some k.1.name)
    (hstd : k.1.typ = "EBLIF.names" → Std st (k.1.pins.length - 1)) :
    ∃ st', elabStmt st t (stmtOfFull o n k) = Except.ok st' ∧ st'.insts.length = j + 1 ∧
      (o.writeCname = true → namesOf st' = namesOf st ++ [k.1.name]) := by
  by_cases hn : k.1.typ = "EBLIF.names"
  · have hs' := hs
    unfold KidShape at hs'
    simp only [hn, if_true] at hs'
    obtain ⟨h1, _, h3, _⟩ := hs'
    have hnets : namesNets n k.2 k.1 =
        ((stdNamesPorts (k.1.pins.length - 1)).map (fun p => (p.name, 0))).map (fun q => netText n (Pin.inst k.2 q.1 q.2)) := by
      rw [namesNets_eq, h3]
    have hK : (namesNets n k.2 k.1).length - 1 = k.1.pins.length - 1 := by
      rw [hnets]; simp [std_length]
    have hne : namesNets n k.2 k.1 ≠ [] := by
      intro he
      have := congrArg List.length he
      rw [hnets] at this
      simp [std_length] at this
    have e : stmtOfFull o n k = Stmt.names (namesNets n k.2 k.1) ((coverRows k.1).map coverText) (infoStmts o k.1) := by
      unfold stmtOfFull; simp [hn]
    rw [e]
    exact names_stmt_ok o k.1 t _ _ st j hne (by
        intro nt hnt
        rw [namesNets_eq] at hnt
        obtain ⟨q, _, rfl⟩ := List.mem_map.mp hnt
        exact splitIdx_netText_ok n _ hcab) (by rw [hK]; exact hstd hn) hlen hx
  · by_cases hl : k.1.typ = "EBLIF.latch"
    · have hs' := hs
      unfold KidShape at hs'
      simp only [hn, hl, if_false, if_true] at hs'
      obtain ⟨_, h2, h5, h4, _⟩ := hs'
      have e : stmtOfFull o n k = Stmt.latch (latchToks n k.2 k.1) (infoStmts o k.1) := by
        unfold stmtOfFull; simp [hn, hl]
      rw [e]
      refine latch_stmt_ok o k.1 t _ st j ?_ ?_ hlen hx
      · rw [latchToks_eq, h4, List.map_map, zip_take_map]
        have hm : ("output", netText n (Pin.inst k.2 "output" 0)) ∈
            (latchOrder.take k.1.pins.length).map (fun x => (x, ((fun q : String × Nat => netText n (Pin.inst k.2 q.1 q.2)) ∘ fun pt => (pt, 0)) x)) :=
          List.mem_map.mpr ⟨"output", output_in_take _ h2 h5, rfl⟩
        cases hf : ((latchOrder.take k.1.pins.length).map (fun x => (x, ((fun q : String × Nat => netText n (Pin.inst k.2 q.1 q.2)) ∘ fun pt => (pt, 0)) x))).find? (fun p => p.1 = "output") with
        | some x => exact ⟨x, rfl⟩
        | none =>
          rw [List.find?_eq_none] at hf
          exact absurd (by simp) (hf _ hm)
      · intro tk htk
        rw [latchToks_eq] at htk
        obtain ⟨q, _, rfl⟩ := List.mem_map.mp htk
        exact splitIdx_netText_ok n _ hcab
    · rw [stmtOfFull_sub o n k hn hl]
      exact stmtOf_ok o n t k (kidOK_of_shape o n t hw hcab k hki hn hl hs) j st hlen hx

/-- one child block at position `j` -/
theorem kid_step (o : Opts) (n : BNet) (t : String) (hw : WellNamed n)
    (hcab : ∀ c ∈ n.cables, plainName c.1.2 ∧ c.1.2.toList ≠ []) (k : Inst × Nat) (hki : k ∈ n.insts.zipIdx)
    (hs : KidShape n k) (hp : k.1.parent = t) (hne : t ≠ k.1.model)
    (hty : k.1.typ = "EBLIF.subckt" ∨ k.1.typ = "EBLIF.gate" ∨ k.1.typ = "EBLIF.names" ∨ k.1.typ = "EBLIF.latch")
    (j : Nat) (st : St) (hlen : st.insts.length = j)
    (hx : o.writeCname = true → ∀ j', j' ≠ j → (namesOf st)[j']? ≠ some k.1.name)
    (hstd : k.1.typ = "EBLIF.names" → Std st (k.1.pins.length - 1)) (hd : DefEx st t) :
    ∃ st', elabStmt st t (stmtOfFull o n k) = Except.ok st' ∧ st'.insts.length = j + 1 ∧
      (o.writeCname = true → namesOf st' = namesOf st ++ [k.1.name]) ∧
      instKinds st' = instKinds st ++ [kindOf k.1] ∧
      (∀ J, Exact st J → Exact st' (J ++ kidJoinsAt n t j k)) ∧
      dataAt st' j = some (infoFold (infoStmts o k.1) (none, [], [])) ∧
      (∀ j', j' < j → dataAt st' j' = dataAt st j') ∧
      st'.alias = st.alias ∧ (LInv st → LInv st') ∧ Fr t st st' ∧
      (∀ K, "logic-gate_" ++ natStr K ≠ k.1.model → Std st K → Std st' K) ∧
      (k.1.typ = "EBLIF.names" → Std st' (k.1.pins.length - 1)) := by
  obtain ⟨st', h, hl', hn'⟩ := kid_ok o n t hw hcab k hki hs j st hlen hx hstd
  have hi := isInst_full o n k
  have hmod := stmtModel_full o n k hs
  refine ⟨st', h, hl', hn', ?_, ?_, ?_, ?_, alias_elabStmt_inst hi h, fun r => linv_elabStmt r h,
    fr_elabStmt_inst hi hd (by rw [hmod]; exact hne) h, ?_, ?_⟩
  · rw [ik_elabStmt h, stmtKind_full o n t k hs hp hty]
  · intro J e
    have := exact_elabStmt (full_ne_bb o n k) e h
    rw [stmtJoins_kid o n t k j st hlen hs hstd] at this
    exact this
  · have := elabStmt_inst_data hi h
    rw [stmtInfo_full, hlen] at this
    exact this
  · intro j' hj
    exact data_elabStmt_old (by omega) h
  · intro K hK hs0
    exact std_other hi (by rw [hmod]; exact hK) hs0 h
  · intro hn
    have hK := namesNets_len n k hn hs
    have e : stmtOfFull o n k = Stmt.names (namesNets n k.2 k.1) ((coverRows k.1).map coverText) (infoStmts o k.1) := by
      unfold stmtOfFull; simp [hn]
    rw [e] at h
    have := std_names_self (by rw [hK]; exact hstd hn) h
    rw [hK] at this
    exact Or.inr this

/-- all child blocks, in any order `K` (a list without repetition of names when `.cname` is written) -/
theorem body_full (o : Opts) (n : BNet) (t : String) (hw : WellNamed n)
    (hcab : ∀ c ∈ n.cables, plainName c.1.2 ∧ c.1.2.toList ≠ []) (hk : KidsOKF n t)
    (hkids : ∀ i ∈ n.insts, i.parent = t ∧
      (i.typ = "EBLIF.subckt" ∨ i.typ = "EBLIF.gate" ∨ i.typ = "EBLIF.names" ∨ i.typ = "EBLIF.latch")) :
    ∀ (l pre : List (Inst × Nat)), (∀ k ∈ l, k ∈ n.insts.zipIdx) →
      (o.writeCname = true → ((pre ++ l).map (·.1.name)).Nodup) →
    ∀ st : St, st.insts.length = pre.length → (o.writeCname = true → namesOf st = pre.map (·.1.name)) →
      DefEx st t → StdKids n st →
      ∃ st', elabStmts st t (l.map (stmtOfFull o n)) = Except.ok st' ∧
        instKinds st' = instKinds st ++ l.map (fun k => kindOf k.1) ∧
        (∀ J, Exact st J → Exact st' (J ++ (l.zipIdx pre.length).flatMap (fun kj => kidJoinsAt n t kj.2 kj.1))) ∧
        (∀ kj ∈ l.zipIdx pre.length, dataAt st' kj.2 = some (infoFold (infoStmts o kj.1.1) (none, [], []))) ∧
        (∀ j, j < pre.length → dataAt st' j = dataAt st j) ∧
        st'.alias = st.alias ∧ (LInv st → LInv st') ∧ Fr t st st' := by
  intro l
  induction l with
  | nil =>
    intro pre _ _ st _ _ hd _
    exact ⟨st, rfl, by simp, fun J e => by simpa using e, fun kk h => by simp at h, fun _ _ => rfl, rfl, id, ⟨rfl, hd⟩⟩
  | cons a r ih =>
    intro pre hmem hnd st hlen hnames hd hstd
    have hkm : a ∈ n.insts.zipIdx := hmem a (by simp)
    have hai : a.1 ∈ n.insts := mem_zipIdx_fst hkm
    obtain ⟨hshape, _, _, hne, _⟩ := hk _ hkm
    have hx : o.writeCname = true → ∀ j', j' ≠ pre.length → (namesOf st)[j']? ≠ some a.1.name := by
      intro hwc j' hj hs
      rw [hnames hwc] at hs
      have hnd' := hnd hwc
      simp only [List.map_append, List.map_cons] at hnd'
      rw [List.nodup_append] at hnd'
      have hmem' : a.1.name ∈ pre.map (·.1.name) := List.mem_of_getElem? hs
      exact hnd'.2.2 _ hmem' _ (by simp) rfl
    obtain ⟨s1, h1, l1, n1, k1, e1, d1, o1, a1, li1, f1, sd1, sn1⟩ :=
      kid_step o n t hw hcab a hkm hshape (hkids a.1 hai).1 hne (hkids a.1 hai).2 pre.length st hlen hx
        (fun hn => hstd a.1 hai hn) hd
    have hstd1 : StdKids n s1 := stdKids_step n t hk a hkm st s1 sd1 sn1 hstd
    obtain ⟨s2, h2, k2, e2, d2, o2, a2, li2, f2⟩ := ih (pre ++ [a])
      (fun k hkm' => hmem k (by simp [hkm']))
      (by intro hwc; simpa [List.append_assoc] using hnd hwc) s1 (by simpa using l1) (by
        intro hwc
        rw [n1 hwc, hnames hwc]; simp) f1.2 hstd1
    have hpl : (pre ++ [a]).length = pre.length + 1 := by simp
    rw [hpl] at e2 d2 o2
    refine ⟨s2, ?_, ?_, ?_, ?_, ?_, a2.trans a1, fun r => li2 (li1 r), Fr.trans f1 f2⟩
    · simp only [List.map_cons]
      unfold elabStmts
      rw [h1]; exact h2
    · rw [k2, k1]; simp
    · intro J e
      have := e2 _ (e1 J e)
      simpa [List.zipIdx_cons, List.append_assoc] using this
    · intro kk hkk
      simp only [List.zipIdx_cons, List.mem_cons] at hkk
      rcases hkk with rfl | hkk
      · rw [o2 pre.length (by omega)]; exact d1
      · exact d2 kk hkk
    · intro j hj
      rw [o2 j (by omega), o1 j hj]

end Spydr.Eblif.Any
