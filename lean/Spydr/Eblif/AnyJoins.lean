/-
  Round trip for ANY instance order: the joins of a child block created at position `j` (which may
  differ from the child's index in the netlist it was written from).
-/
import Spydr.Eblif.Props.C18Full

namespace Spydr.Eblif.Any

open Spydr.Eblif

/-- joins of the statement of child `k` when it creates instance number `j` -/
def kidJoinsAt (n : BNet) (t : String) (j : Nat) (k : Inst × Nat) : List (Pin × Key) := (kidPairs n k).flatMap (joinOf j t)

theorem stmtJoins_kid (o : Opts) (n : BNet) (t : String) (k : Inst × Nat) (j : Nat) (st : St) (hlen : st.insts.length = j)
    (hs : KidShape n k) (hstd : k.1.typ = "EBLIF.names" → Std st (k.1.pins.length - 1)) :
    stmtJoins st t (stmtOfFull o n k) = kidJoinsAt n t j k := by
  obtain ⟨i, idx⟩ := k
  simp only at hs hstd
  unfold KidShape at hs
  simp only at hs
  unfold stmtOfFull kidJoinsAt kidPairs
  simp only
  by_cases hn : i.typ = "EBLIF.names"
  · simp only [hn, if_true] at hs ⊢
    obtain ⟨h1, _, h3, _⟩ := hs
    have hnets : namesNets n idx i =
        ((stdNamesPorts (i.pins.length - 1)).map (fun p => (p.name, 0))).map (fun q => netText n (Pin.inst idx q.1 q.2)) := by
      rw [namesNets_eq, h3]
    have hK : (namesNets n idx i).length - 1 = i.pins.length - 1 := by
      rw [hnets]; simp [std_length]
    have hinfo := names_info_std st (namesNets n idx i) (by rw [hK]; exact hstd hn)
    simp only [stmtJoins]
    rw [hinfo, hK, hlen, hnets, List.map_map, zip_self_map, List.map_map]
    rfl
  · simp only [hn, if_false] at hs ⊢
    by_cases hl : i.typ = "EBLIF.latch"
    · simp only [hl, if_true] at hs ⊢
      obtain ⟨_, _, _, h4, _⟩ := hs
      simp only [stmtJoins]
      rw [latchToks_eq, h4, List.map_map, zip_take_map, hlen]
      rfl
    · simp only [hl, if_false] at hs ⊢
      simp only [stmtJoins]
      rw [infoMapOf_nodup _ hs.1, hlen]

theorem mem_simple_joins (n : BNet) (t : String) (idx j : Nat) (L : List String) (pins : List (String × Nat))
    (hL : ∀ pt ∈ L, plainName pt ∧ pt.toList ≠ [])
    (hpins : ∀ q, q ∈ pins ↔ ∃ pt ∈ L, q = (pt, 0))
    (hc : ∀ c ∈ n.cables, plainName c.1.2 ∧ c.1.2 ≠ "unconn" ∧ c.1.2.toList ≠ []) (x : Pin) (key : Key) :
    (x, key) ∈ (L.map (fun pt => (pt, netText n (Pin.inst idx pt 0)))).flatMap (joinOf j t) ↔
    ∃ q ∈ pins, ∃ c wi len, n.wireOf (Pin.inst idx q.1 q.2) = some (c, wi, len) ∧ x = Pin.inst j q.1 q.2 ∧ key = (t, c.2, wi) := by
  simp only [List.mem_flatMap, List.mem_map]
  constructor
  · rintro ⟨fa, ⟨pt, hpt, rfl⟩, hj⟩
    rw [joinOf_plain n t j pt _ (hL pt hpt).1 (hL pt hpt).2 hc] at hj
    cases hwo : n.wireOf (Pin.inst idx pt 0) with
    | none => simp [hwo] at hj
    | some r =>
      obtain ⟨c, wi, len⟩ := r
      simp only [hwo, List.mem_singleton, Prod.mk.injEq] at hj
      exact ⟨(pt, 0), (hpins _).mpr ⟨pt, hpt, rfl⟩, c, wi, len, hwo, hj.1, hj.2⟩
  · rintro ⟨q, hq, c, wi, len, hwo, rfl, rfl⟩
    obtain ⟨pt, hpt, rfl⟩ := (hpins q).mp hq
    refine ⟨_, ⟨pt, hpt, rfl⟩, ?_⟩
    rw [joinOf_plain n t j pt _ (hL pt hpt).1 (hL pt hpt).2 hc]
    simp only at hwo
    simp [hwo]

/-- the joins a child declares at position `j` are the pin / net-bit incidences of that child in
    `n`, with the instance index renamed to `j` -/
theorem mem_kidJoinsAt (n : BNet) (t : String) (k : Inst × Nat) (j : Nat) (hw : WellNamed n) (hki : k ∈ n.insts.zipIdx)
    (hs : KidShape n k)
    (hc : ∀ c ∈ n.cables, plainName c.1.2 ∧ c.1.2 ≠ "unconn" ∧ c.1.2.toList ≠ []) (x : Pin) (key : Key) :
    (x, key) ∈ kidJoinsAt n t j k ↔
    ∃ q ∈ k.1.pins, ∃ c wi len, n.wireOf (Pin.inst k.2 q.1 q.2) = some (c, wi, len) ∧
      x = Pin.inst j q.1 q.2 ∧ key = (t, c.2, wi) := by
  obtain ⟨i, idx⟩ := k
  unfold KidShape at hs
  simp only at hs ⊢
  unfold kidJoinsAt kidPairs
  simp only
  by_cases hn : i.typ = "EBLIF.names"
  · simp only [hn, if_true] at hs ⊢
    obtain ⟨_, _, h3, h4⟩ := hs
    have := mem_simple_joins n t idx j ((stdNamesPorts (i.pins.length - 1)).map (·.name)) i.pins (std_plain _)
      (by
        intro q
        constructor
        · intro hq
          have := h4 q hq
          rw [h3] at this
          obtain ⟨p, hp, rfl⟩ := List.mem_map.mp this
          exact ⟨p.name, List.mem_map.mpr ⟨p, hp, rfl⟩, rfl⟩
        · rintro ⟨pt, hpt, rfl⟩
          obtain ⟨p, hp, rfl⟩ := List.mem_map.mp hpt
          apply namesPins_sub n i
          rw [h3]
          exact List.mem_map.mpr ⟨p, hp, rfl⟩) hc x key
    rw [List.map_map] at this
    exact this
  · simp only [hn, if_false] at hs ⊢
    by_cases hl : i.typ = "EBLIF.latch"
    · simp only [hl, if_true] at hs ⊢
      obtain ⟨_, _, _, h4, h5⟩ := hs
      exact mem_simple_joins n t idx j (latchOrder.take i.pins.length) i.pins
        (fun pt hpt => latchOrder_plain pt (List.mem_of_mem_take hpt))
        (by
          intro q
          constructor
          · intro hq
            have := h5 q hq
            rw [h4] at this
            obtain ⟨pt, hpt, rfl⟩ := List.mem_map.mp this
            exact ⟨pt, hpt, rfl⟩
          · rintro ⟨pt, hpt, rfl⟩
            apply latchPins_sub i
            rw [h4]
            exact List.mem_map.mpr ⟨pt, hpt, rfl⟩) hc x key
    · simp only [hl, if_false] at hs ⊢
      obtain ⟨_, hpp, hex⟩ := hs
      have hi : i ∈ n.insts := mem_zipIdx_fst hki
      obtain ⟨_, hmod, _⟩ := hw.2.2.1 i hi
      obtain ⟨_, hpn, _⟩ := findDef_ok hw hmod
      have hev : ∀ p ∈ (n.findDef i.model).ports, ∀ q ∈ i.pins, q.1 = p.name →
          joinOf j t (formalText p q.2, netText n (Pin.inst idx q.1 q.2)) =
            (match n.wireOf (Pin.inst idx q.1 q.2) with
             | none => []
             | some (c, wi, _) => [(Pin.inst j p.name q.2, (t, c.2, wi))]) := by
        intro p hpm q hq hqn
        obtain ⟨hpl, hb⟩ := hpp p hpm
        exact joinOf_eval n t j p q.2 _ hpl (okWord_nonempty (hpn p hpm)) (hb q hq hqn) hc
      constructor
      · intro hj
        obtain ⟨fa, hfa, hj⟩ := List.mem_flatMap.mp hj
        unfold connsOf at hfa
        obtain ⟨p, hpm, hfa⟩ := List.mem_flatMap.mp hfa
        obtain ⟨q, hq, rfl⟩ := List.mem_map.mp hfa
        simp only [List.mem_filter, List.mem_reverse, decide_eq_true_eq] at hq
        rw [hev p hpm q hq.1 hq.2] at hj
        cases hwo : n.wireOf (Pin.inst idx q.1 q.2) with
        | none => simp [hwo] at hj
        | some r =>
          obtain ⟨c, wi, len⟩ := r
          simp only [hwo, List.mem_singleton, Prod.mk.injEq] at hj
          exact ⟨q, hq.1, c, wi, len, hwo, by rw [hq.2]; exact hj.1, hj.2⟩
      · rintro ⟨q, hq, c, wi, len, hwo, rfl, rfl⟩
        obtain ⟨p, hpm, hpq⟩ := hex q hq
        refine List.mem_flatMap.mpr ⟨(formalText p q.2, netText n (Pin.inst idx q.1 q.2)), ?_, ?_⟩
        · unfold connsOf
          refine List.mem_flatMap.mpr ⟨p, hpm, List.mem_map.mpr ⟨q, ?_, rfl⟩⟩
          simp only [List.mem_filter, List.mem_reverse, decide_eq_true_eq]
          exact ⟨hq, hpq.symm⟩
        · rw [hev p hpm q hq hpq.symm, hwo]
          simp [hpq]

end Spydr.Eblif.Any
