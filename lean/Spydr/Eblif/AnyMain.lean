/-
  Round trip for ANY instance order: the top model and the total theorem.
-/
import Spydr.Eblif.AnyNet

namespace Spydr.Eblif.Any

open Spydr.Eblif

theorem top_full (o : Opts) (n : BNet) (t : String) (hw : WellNamed n) (ht : okWord t = true) (hf : FragFull n t)
    (hn : NetOKA n t) (hnm : NamesOK o n) :
    ∃ s0, elabModel {} { name := t, hdr := hdrOfFull (n.findDef t),
                         body := (kidsFull n t).map (stmtOfFull o n) ++ connStmts n (n.findDef t) } = Except.ok s0 ∧
      instKinds s0 = (kidsFull n t).map (fun k => kindOf k.1) ∧
      Exact s0 (JFA n t) ∧ s0.alias = aliasOf (connKeys n t (n.findDef t)) ∧ LInv s0 ∧
      (∀ kj ∈ (kidsFull n t).zipIdx, dataAt s0 kj.2 = some (infoFold (infoStmts o kj.1.1) (none, [], []))) ∧
      portsOf s0 t = insPorts (n.findDef t) ++ pureOuts (n.findDef t) ∧ DefEx s0 t := by
  have hn' := hn
  obtain ⟨hperm, hp, hnd, hcb, hcn, hk⟩ := hn'
  obtain ⟨_, hpn, _⟩ := findDef_ok hw ht
  have hcab : ∀ c ∈ n.cables, plainName c.1.2 ∧ c.1.2.toList ≠ [] := by
    intro c hc
    obtain ⟨_, h2, _, _⟩ := hcb c hc
    exact ⟨h2, okWord_nonempty (hw.2.2.2.1 c hc)⟩
  have hP : ∀ p ∈ (n.findDef t).ports, (p.dir = Dir.inp ∨ p.dir = Dir.out ∨ p.dir = Dir.inout) ∧ plainName p.name ∧
      p.name.toList ≠ [] ∧ 1 ≤ p.width := by
    intro p hpm
    obtain ⟨h1, h2, h3, _⟩ := hp p hpm
    exact ⟨h1, h2, okWord_nonempty (hpn p hpm), h3⟩
  obtain ⟨sh, hh⟩ := hdr_ok t (n.findDef t) (fun p hpm => ⟨(hP p hpm).2.1, (hP p hpm).2.2.1⟩) (beginModel {} t)
  obtain ⟨ph, dh, rh, eh, kh⟩ := hdr_full t (n.findDef t) hP hnd sh hh
  have hlen0 : sh.insts.length = 0 := by
    have := congrArg List.length kh; simpa [instKinds] using this
  have hnames0 : namesOf sh = [] := by
    simp only [namesOf]
    have : sh.insts = [] := List.eq_nil_of_length_eq_zero hlen0
    rw [this]; rfl
  have hkids : ∀ i ∈ n.insts, i.parent = t ∧
      (i.typ = "EBLIF.subckt" ∨ i.typ = "EBLIF.gate" ∨ i.typ = "EBLIF.names" ∨ i.typ = "EBLIF.latch") := by
    intro i hi
    obtain ⟨idx, hidx⟩ := List.getElem?_of_mem hi
    have hm : (i, idx) ∈ kidsFull n t := hperm.mem_iff.mpr (List.mem_zipIdx_iff_getElem?.mpr hidx)
    have hpar : i.parent = t := by
      unfold kidsFull at hm
      simp only [List.mem_append, List.mem_filter, decide_eq_true_eq] at hm
      rcases hm with ((h | h) | h) | h <;> exact h.1.2
    exact ⟨hpar, hf.kinds i hi hpar⟩
  have hstd0 : StdKids n sh := by
    intro j hj hjn
    left
    have hjm := names_model n t hk j hj hjn
    obtain ⟨idx, hidx⟩ := List.getElem?_of_mem hj
    have hne := (hk (j, idx) (List.mem_zipIdx_iff_getElem?.mpr hidx)).2.2.2.1
    rw [← hjm]
    rw [not_defEx_iff]
    have hdv : defsView sh = defsView (beginModel {} t) := dv_elabHdrs _ hh
    have hb : defNames (beginModel {} t) = [t] := by
      simp [defNames, defsView, beginModel, ensureDef, findDef, updDef]
    simp only [defNames, hdv]
    simp only [defNames] at hb
    rw [hb]
    simp only [List.mem_singleton]
    exact fun e => hne e.symm
  have hnames : o.writeCname = true → ((([] : List (Inst × Nat)) ++ kidsFull n t).map (·.1.name)).Nodup := by
    intro hwc
    have h1 : ((kidsFull n t).map (·.1.name)).Perm (n.insts.zipIdx.map (·.1.name)) := hperm.map _
    have h2 : n.insts.zipIdx.map (fun k : Inst × Nat => k.1.name) = n.insts.map (·.name) := by
      have : (fun k : Inst × Nat => k.1.name) = (fun i : Inst => i.name) ∘ Prod.fst := rfl
      rw [this, ← List.map_map, List.zipIdx_map_fst]
    rw [h2] at h1
    simpa using h1.nodup_iff.mpr (hnm hwc)
  obtain ⟨sk, hbk, kk, ek, dk, _, ak, lk, fk⟩ := body_full o n t hw hcab hk hkids (kidsFull n t) []
    (fun k hk' => hperm.mem_iff.mp hk') hnames sh hlen0 (fun _ => by simp [hnames0]) dh hstd0
  simp only [List.length_nil] at ek dk
  obtain ⟨sc, hbc, ac, dc, ic⟩ := conn_stmts t (connPairs n (n.findDef t)) (connKeys n t (n.findDef t))
    (connPairs_keys n t (n.findDef t) (fun p hpm => ⟨(hP p hpm).2.1, (hP p hpm).2.2.1⟩) hcab) sk
  have hJ : JFA n t = (hdrJ n t ++ ((kidsFull n t).zipIdx 0).flatMap (fun kj => kidJoinsAt n t kj.2 kj.1)) ++
      bodyJoins sk t ((connPairs n (n.findDef t)).map (fun ab => Stmt.conn ab.1 ab.2)) := by
    rw [bodyJoins_conns]; simp [JFA]
  have hdisj : ∀ pp ∈ connKeys n t (n.findDef t), pp.1 ∉ (connKeys n t (n.findDef t)).map (·.2) := by
    intro pp hpp
    obtain ⟨ka, kb⟩ := pp
    obtain ⟨p, hpm, b, hb, c, wi, len, hwo, _, rfl, _⟩ := (mem_connKeys n t _ ka kb).mp hpp
    obtain ⟨ws, w, hm, _, hws, hx⟩ := wireOf_spec hwo
    obtain ⟨hown, _⟩ := hcb (c, ws) hm
    refine carrier_not_src n t hcn _ _ ⟨ws, w, ?_, hws, hx⟩
    simp only at hown ⊢
    rw [← hown]; exact hm
  refine ⟨sc, ?_, ?_, ?_, ?_, linv_elabStmts _ (lk (⟨rh.wf, rh.pl⟩)) hbc, ?_, ?_, ?_⟩
  · unfold elabModel
    simp only [hh, bind, Except.bind]
    rw [elabStmts_append, connStmts_eq]
    simp only [hbk, bind, Except.bind]
    exact hbc
  · have : instKinds sc = instKinds sk := by simp [instKinds, ic]
    rw [this, kk, kh]; simp
  · rw [hJ]
    exact exact_elabStmts _ (by
      intro s hs
      obtain ⟨ab, _, rfl⟩ := List.mem_map.mp hs
      simp) (ek _ eh) hbc
  · rw [ac, ak, rh.aid, ← aliasOf_nil]
    have := alias_fold (connKeys n t (n.findDef t)) [] (by simpa using connKeys_nodup n t _ hnd) (by simpa using hdisj)
    simpa using this
  · intro kj hkj
    rw [data_of_insts ic]
    exact dk kj hkj
  · have f2 : Fr t sk sc := fr_of_defs fk.2 dc
    rw [f2.1, fk.1, ph]
  · exact (fr_of_defs fk.2 dc).2

/-- **Write-then-read, everything the writer emits, any instance order.** -/
theorem roundtrip_any (o : Opts) (n : BNet) (t : String) (hw : WellNamed n) (hf : FragFull n t)
    (hn : NetOKA n t) (hnm : NamesOK o n) (hbp : BBPlain n t) :
    ∃ n', readB (composeText o n) = Except.ok n' ∧
      n'.insts.map kindOf = (kidsFull n t).map (fun k => kindOf k.1) ∧
      (∀ j : Nat, (n'.insts[j]?).map infoOf =
        ((kidsFull n t)[j]?).map (fun k => (if o.writeCname then some k.1.name else none, k.1.attrs, k.1.params))) ∧
      (∀ y k, OnNet n' y k ↔ ∃ x, Renames (kidsFull n t) x y ∧ OnNet n x k) ∧
      (n'.findDef t).ports = insPorts (n.findDef t) ++ pureOuts (n.findDef t) := by
  have ht : okWord t = true := hw.2.2.2.2 t hf.top
  obtain ⟨s0, hm, fk, fe, fa, fl, fd, fp, fdex⟩ := top_full o n t hw ht hf hn hnm
  have hJown := jfa_owner n t hw ht hn
  have inv0 : TopInvF t (JFA n t) (aliasOf (connKeys n t (n.findDef t))) s0 :=
    ⟨fl, fe, fdex, fun k _ => by rw [fa]⟩
  have hbbs : ∃ sf, elabModels s0 (bbPart o n t) = Except.ok sf ∧
      TopInvF t (JFA n t) (aliasOf (connKeys n t (n.findDef t))) sf ∧ instKinds sf = instKinds s0 ∧
      (∀ j, dataAt sf j = dataAt s0 j) ∧ portsOf sf t = portsOf s0 t := by
    unfold bbPart
    split
    · obtain ⟨sf, hsf⟩ := bb_models_ok (bbDefs n t) (by
        intro d hd p hp
        have hdm : d ∈ n.defs := by
          unfold bbDefs at hd; exact (List.mem_filter.mp hd).1
        exact ⟨(hbp d hd).2 p hp, okWord_nonempty ((hw.2.1 d hdm).2.1 p hp)⟩) s0
      exact ⟨sf, hsf, bb_models_foldF t _ _ hJown (bbDefs n t) (fun d hd => (hbp d hd).1) inv0 hsf⟩
    · exact ⟨s0, rfl, inv0, rfl, fun _ => rfl, rfl⟩
  obtain ⟨sf, hsf, invf, kf, df, pf⟩ := hbbs
  obtain ⟨n', hconv⟩ := applyConvention_ok (List.range sf.insts.length)
    ({ sf with comments := (astOfFull o n t).comments } : St).toNet
  have hread : readB (composeText o n) = Except.ok n' := by
    rw [read_composed_full o n t hw hf]
    unfold elabB elabSt
    have hms : elabModels {} (astOfFull o n t).models = Except.ok sf := by
      simp only [astOfFull]
      rw [elabModels_append]
      simp only [elabModels, hm, bind, Except.bind, pure, Except.pure]
      exact hsf
    simp only [hms, bind, Except.bind, pure, Except.pure]
    exact hconv
  refine ⟨n', hread, ?_⟩
  obtain ⟨c1, c2, _, c4⟩ := applyConvention_pres _ hconv
  have hins : n'.insts.map eraseName = sf.insts.map eraseName := c4
  have hkind : ∀ l : List Inst, l.map kindOf = (l.map eraseName).map kindOf := by
    intro l; rw [List.map_map]; rfl
  have hinfo : ∀ (l : List Inst) (j : Nat), (l[j]?).map infoOf = ((l.map eraseName)[j]?).map infoOf := by
    intro l j
    rw [List.getElem?_map]
    cases l[j]? <;> rfl
  have hkattr : ∀ k ∈ kidsFull n t, (k.1.attrs.map (·.1)).Nodup ∧ (k.1.params.map (·.1)).Nodup := by
    intro k hk'
    obtain ⟨_, ha, hp, _⟩ := hn.2.2.2.2.2 k (hn.1.mem_iff.mp hk')
    exact ⟨ha, hp⟩
  refine ⟨?_, ?_, ?_, ?_⟩
  · rw [hkind n'.insts, hins, ← hkind]
    have : sf.insts.map kindOf = instKinds sf := rfl
    rw [this, kf, fk]
  · intro j
    rw [hinfo n'.insts, hins, ← hinfo]
    have hd := df j
    simp only [dataAt] at hd
    rw [hd]
    by_cases hj : j < (kidsFull n t).length
    · have hmem : ((kidsFull n t)[j], j) ∈ (kidsFull n t).zipIdx := List.mem_zipIdx_iff_getElem?.mpr (by simp)
      have := fd _ hmem
      simp only [dataAt] at this
      rw [this]
      obtain ⟨ha, hp⟩ := hkattr _ (List.getElem_mem hj)
      rw [infoFold_infoStmts o (kidsFull n t)[j].1 ha hp, List.getElem?_eq_getElem hj]
      rfl
    · have hlen : s0.insts.length = (kidsFull n t).length := by
        have := congrArg List.length fk
        simpa [instKinds] using this
      have h1 : s0.insts[j]? = none := by rw [List.getElem?_eq_none_iff]; omega
      have h2 : (kidsFull n t)[j]? = none := by rw [List.getElem?_eq_none_iff]; omega
      simp [h1, h2]
  · intro y k
    have hpins : y ∈ sf.pins k ↔ ∃ k', (y, k') ∈ JFA n t ∧ aliasOf (connKeys n t (n.findDef t)) k' = k := by
      rw [invf.ex y k]
      constructor
      · rintro ⟨k', hm', ha⟩
        exact ⟨k', hm', by rw [← invf.al k' (hJown _ hm')]; exact ha⟩
      · rintro ⟨k', hm', ha⟩
        exact ⟨k', hm', by rw [invf.al k' (hJown _ hm')]; exact ha⟩
    exact (onNet_of_cables c1 y k).trans ((onNet_of_cables (b := sf.toNet) rfl y k).trans
      ((onNet_toNet sf invf.linv.pl y k).trans (hpins.trans (joins_iff_onNet n t hw ht hn y k))))
  · have hfind : (n'.findDef t).ports = portsOf sf t := by
      unfold BNet.findDef portsOf findDef
      rw [c2]
      show (match (sf.defs.find? fun (d : DefD) => d.name = t) with | some d => d | none => ({ name := t } : DefD)).ports = _
      cases sf.defs.find? (fun (d : DefD) => d.name = t) <;> rfl
    rw [hfind, pf, fp]

end Spydr.Eblif.Any
