/-
  Round trip for ANY instance order: shape conditions, the written joins against the netlist, up
  to the renaming of instance indices to writer positions.
-/
import Spydr.Eblif.AnyBody

namespace Spydr.Eblif.Any

open Spydr.Eblif

/-- `NetOKF` without the order condition: the children the writer writes are all the instances, in
    some order -/
def NetOKA (n : BNet) (t : String) : Prop :=
  (kidsFull n t).Perm n.insts.zipIdx ∧ PortsOKF n t ∧ ((n.findDef t).ports.map (·.name)).Nodup ∧
  CablesOKF n t ∧ ConnOK n t ∧ KidsOKF n t

instance (n : BNet) (t : String) : Decidable (NetOKA n t) := by unfold NetOKA; infer_instance

/-- pin `y` of the re-read netlist is pin `x` of `n`: top-level pins are themselves, a pin of the
    instance with index `idx` in `n` is the same pin of the instance at the writer position of `idx` -/
def Renames (ks : List (Inst × Nat)) : Pin → Pin → Prop
  | Pin.top o p b, y => y = Pin.top o p b
  | Pin.inst idx p b, y => ∃ j i, ks[j]? = some (i, idx) ∧ y = Pin.inst j p b

def JFA (n : BNet) (t : String) : List (Pin × Key) :=
  hdrJ n t ++ ((kidsFull n t).zipIdx).flatMap (fun kj => kidJoinsAt n t kj.2 kj.1)

theorem jfa_owner (n : BNet) (t : String) (hw : WellNamed n) (ht : okWord t = true) (hn : NetOKA n t) :
    ∀ e ∈ JFA n t, e.2.1 = t := by
  obtain ⟨hperm, hp, _, hcb, _, hk⟩ := hn
  have hcab : ∀ c ∈ n.cables, plainName c.1.2 ∧ c.1.2 ≠ "unconn" ∧ c.1.2.toList ≠ [] := by
    intro c hc
    obtain ⟨_, h2, h3, _⟩ := hcb c hc
    exact ⟨h2, h3, okWord_nonempty (hw.2.2.2.1 c hc)⟩
  intro e he
  obtain ⟨x, k⟩ := e
  unfold JFA at he
  rcases List.mem_append.mp he with h | h
  · obtain ⟨p, _, b, _, _, rfl⟩ := (mem_hdrJ n t hw ht hp x k).mp h
    rfl
  · obtain ⟨kj, hkj, hj⟩ := List.mem_flatMap.mp h
    have hkk : kj.1 ∈ n.insts.zipIdx := hperm.mem_iff.mp (mem_zipIdx_fst hkj)
    obtain ⟨q, _, c, wi, len, _, _, rfl⟩ := (mem_kidJoinsAt n t kj.1 kj.2 hw hkk (hk kj.1 hkk).1 hcab x k).mp hj
    rfl

/-- the joins the written text declares, followed through the `.conn` aliases, are exactly the
    pin / net-bit incidences of the netlist, with instance indices renamed to writer positions -/
theorem joins_iff_onNet (n : BNet) (t : String) (hw : WellNamed n) (ht : okWord t = true) (hn : NetOKA n t)
    (y : Pin) (k : Key) :
    (∃ k', (y, k') ∈ JFA n t ∧ aliasOf (connKeys n t (n.findDef t)) k' = k) ↔
    ∃ x, Renames (kidsFull n t) x y ∧ OnNet n x k := by
  have hn' := hn
  obtain ⟨hperm, hp, hnd, hcb, hcn, hk⟩ := hn'
  have hcab : ∀ c ∈ n.cables, plainName c.1.2 ∧ c.1.2 ≠ "unconn" ∧ c.1.2.toList ≠ [] := by
    intro c hc
    obtain ⟨_, h2, h3, _⟩ := hcb c hc
    exact ⟨h2, h3, okWord_nonempty (hw.2.2.2.1 c hc)⟩
  have honnet : ∀ (z : Pin) (c : CKey) (wi len : Nat), n.wireOf z = some (c, wi, len) → OnNet n z (t, c.2, wi) := by
    intro z c wi len hwo
    obtain ⟨ws, w, hm, _, hws, hx⟩ := wireOf_spec hwo
    obtain ⟨hown, _⟩ := hcb (c, ws) hm
    refine ⟨ws, w, ?_, hws, hx⟩
    simp only at hown ⊢
    rw [← hown]; exact hm
  constructor
  · rintro ⟨k', hm, ha⟩
    unfold JFA at hm
    rcases List.mem_append.mp hm with h | h
    · obtain ⟨p, hpm, b, hb, rfl, rfl⟩ := (mem_hdrJ n t hw ht hp y k').mp h
      obtain ⟨_, _, _, hsome⟩ := hp p hpm
      cases hwo : n.wireOf (Pin.top t p.name b) with
      | none => have := hsome b hb; rw [hwo] at this; cases this
      | some r =>
        obtain ⟨c, wi, len⟩ := r
        rw [alias_portbit n t hnd p hpm b hb c wi len hwo] at ha
        rw [← ha]
        exact ⟨Pin.top t p.name b, rfl, honnet _ c wi len hwo⟩
    · obtain ⟨kj, hkj, hj⟩ := List.mem_flatMap.mp h
      have hkk : kj.1 ∈ n.insts.zipIdx := hperm.mem_iff.mp (mem_zipIdx_fst hkj)
      obtain ⟨q, _, c, wi, len, hwo, rfl, rfl⟩ := (mem_kidJoinsAt n t kj.1 kj.2 hw hkk (hk kj.1 hkk).1 hcab y k').mp hj
      have ho := honnet _ c wi len hwo
      rw [alias_carrier n t hcn _ _ ho] at ha
      rw [← ha]
      refine ⟨Pin.inst kj.1.2 q.1 q.2, ⟨kj.2, kj.1.1, ?_, rfl⟩, ho⟩
      exact List.mem_zipIdx_iff_getElem?.mp hkj
  · rintro ⟨x, hren, ws, w, hm, hws, hx⟩
    have ho : OnNet n x k := ⟨ws, w, hm, hws, hx⟩
    obtain ⟨hown, _, _, hun⟩ := hcb ((k.1, k.2.1), ws) hm
    have hpw : (w, k.2.2) ∈ ws.zipIdx := List.mem_zipIdx_iff_getElem?.mpr hws
    obtain ⟨hwo, hcov⟩ := hun (w, k.2.2) hpw x hx
    simp only at hown hwo
    have hkeq : (t, k.2.1, k.2.2) = k := by
      obtain ⟨k1, k2, k3⟩ := k
      simp only at hown ⊢
      rw [hown]
    cases x with
    | top o pn b =>
      simp only [Renames] at hren
      subst hren
      simp only [CoveredF] at hcov
      obtain ⟨rfl, p, hpm, rfl, hb⟩ := hcov
      refine ⟨(o, p.name, b), ?_, ?_⟩
      · unfold JFA
        exact List.mem_append.mpr (Or.inl ((mem_hdrJ n o hw ht hp _ _).mpr ⟨p, hpm, b, hb, rfl, rfl⟩))
      · rw [alias_portbit n o hnd p hpm b hb _ _ _ hwo]
        exact hkeq
    | inst idx pn b =>
      simp only [Renames] at hren
      obtain ⟨j, i', hget, rfl⟩ := hren
      simp only [CoveredF, Option.mem_toList] at hcov
      obtain ⟨i, hi, hqm⟩ := hcov
      have hkj : ((i', idx), j) ∈ (kidsFull n t).zipIdx := List.mem_zipIdx_iff_getElem?.mpr hget
      have hkk : (i', idx) ∈ n.insts.zipIdx := hperm.mem_iff.mp (mem_zipIdx_fst hkj)
      have hii : i' = i := by
        have := List.mem_zipIdx_iff_getElem?.mp hkk
        simp only at this
        rw [this] at hi
        simpa using hi
      subst hii
      refine ⟨k, ?_, alias_carrier n t hcn _ _ ho⟩
      unfold JFA
      refine List.mem_append.mpr (Or.inr (List.mem_flatMap.mpr ⟨((i', idx), j), hkj, ?_⟩))
      exact (mem_kidJoinsAt n t (i', idx) j hw hkk (hk _ hkk).1 hcab _ _).mpr
        ⟨(pn, b), hqm, _, _, _, hwo, rfl, hkeq.symm⟩

end Spydr.Eblif.Any
