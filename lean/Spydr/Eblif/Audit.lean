import Spydr.Eblif.Props.C18
import Spydr.Eblif.Props.C18RoundTrip
import Spydr.Eblif.Props.C18ReadOk
import Spydr.Eblif.Props.C18Ports
import Spydr.Eblif.Props.C18BlackBox
import Spydr.Eblif.Props.C18FullParse
import Spydr.Eblif.Props.C18GenDefs
import Spydr.Eblif.Props.C18Mirror
import Spydr.Eblif.Props.C18Full
import Spydr.Eblif.Props.C18Any
import Spydr.Eblif.FragCheck
#print axioms Spydr.Eblif.lexB_printB
#print axioms Spydr.Eblif.lexB_continuation
#print axioms Spydr.Eblif.parse_comment_line
#print axioms Spydr.Eblif.formal_actual
#print axioms Spydr.Eblif.formal_actual_net
#print axioms Spydr.Eblif.formal_actual_pairs
#print axioms Spydr.Eblif.conn_merges
#print axioms Spydr.Eblif.one_instance_per_stmt
#print axioms Spydr.Eblif.names_latch_shape
#print axioms Spydr.Eblif.pins_exact
#print axioms Spydr.Eblif.pins_exact_from
#print axioms Spydr.Eblif.pins_exact_closed
#print axioms Spydr.Eblif.no_pin_on_two_wires
#print axioms Spydr.Eblif.info_attached
#print axioms Spydr.Eblif.hdr_ports
#print axioms Spydr.Eblif.hdr_joins_persist
#print axioms Spydr.Eblif.blackbox_leaf
#print axioms Spydr.Eblif.parse_rendered_subckt
#print axioms Spydr.Eblif.eblif_reader_spec_partial
#print axioms Spydr.Eblif.eblif_roundtrip_partial
#print axioms Spydr.Eblif.compose_tokens_good
#print axioms Spydr.Eblif.read_composed_text
#print axioms Spydr.Eblif.parse_composed_lines
#print axioms Spydr.Eblif.split_written_bit
#print axioms Spydr.Eblif.eblif_roundtrip_subckt
#print axioms Spydr.Eblif.pins_exact_all
#print axioms Spydr.Eblif.onNet_exact_all
#print axioms Spydr.Eblif.self_contained
#print axioms Spydr.Eblif.undeclared_leaf
#print axioms Spydr.Eblif.formal_actual_port_step
#print axioms Spydr.Eblif.eblif_read_ok
#print axioms Spydr.Eblif.eblif_roundtrip_subckt_total
#print axioms Spydr.Eblif.read_fails_on_equal_names
#print axioms Spydr.Eblif.formal_actual_port
#print axioms Spydr.Eblif.ports_never_shrink
#print axioms Spydr.Eblif.eblif_roundtrip_ports
#print axioms Spydr.Eblif.hdr_port_list
#print axioms Spydr.Eblif.parse_composed_lines_bb
#print axioms Spydr.Eblif.eblif_roundtrip_blackbox
#print axioms Spydr.Eblif.blackbox_models_frame
#print axioms Spydr.Eblif.parse_composed_lines_full
#print axioms Spydr.Eblif.read_composed_full
#print axioms Spydr.Eblif.parse_rendered_names
#print axioms Spydr.Eblif.parse_rendered_latch
#print axioms Spydr.Eblif.parse_rendered_conn
#print axioms Spydr.Eblif.generated_names_distinct
#print axioms Spydr.Eblif.names_generated_ports
#print axioms Spydr.Eblif.names_info_std
#print axioms Spydr.Eblif.latch_generated_ports
#print axioms Spydr.Eblif.pin_mirror
#print axioms Spydr.Eblif.pin_mirror_elab
#print axioms Spydr.Eblif.pin_mirror_bits
#print axioms Spydr.Eblif.eblif_roundtrip_full
#print axioms Spydr.Eblif.child_block_step
#print axioms Spydr.Eblif.header_inout
#print axioms Spydr.Eblif.conn_alias_closed_form
#print axioms Spydr.Eblif.written_joins_are_net
#print axioms Spydr.Eblif.eblif_roundtrip_any_order
#print axioms Spydr.Eblif.fragFull_in
#print axioms Spydr.Eblif.fragAny_in
#print axioms Spydr.Eblif.eblif_roundtrip_covers
#print axioms Spydr.Eblif.eblif_covers_read
#print axioms Spydr.Eblif.eblif_self_contained_text
#print axioms Spydr.Eblif.eblif_undeclared_leaf_text
#print axioms Spydr.Eblif.eblif_onNet_exact_text
#print axioms Spydr.Eblif.leaf_port_kept
#print axioms Spydr.Eblif.eblif_roundtrip_leaf_ports
#print axioms Spydr.Eblif.eblif_roundtrip_leaf_dirs
