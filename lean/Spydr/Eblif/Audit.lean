import Spydr.Eblif.Props.C18
#print axioms Spydr.Eblif.lexB_printB
#print axioms Spydr.Eblif.lexB_continuation
#print axioms Spydr.Eblif.parse_comment_line
#print axioms Spydr.Eblif.formal_actual
#print axioms Spydr.Eblif.formal_actual_net
#print axioms Spydr.Eblif.formal_actual_pairs
#print axioms Spydr.Eblif.conn_merges
#print axioms Spydr.Eblif.one_instance_per_stmt
#print axioms Spydr.Eblif.names_latch_shape
#print axioms Spydr.Eblif.blackbox_leaf
#print axioms Spydr.Eblif.parse_rendered_subckt
#print axioms Spydr.Eblif.eblif_reader_spec_partial
#print axioms Spydr.Eblif.eblif_roundtrip_partial
