/-
  Elaborating the black-box models written after the top model changes nothing the round-trip view
  looks at: instance kinds, instance data, the pins of every net bit, the ports of the top model.
-/
import Spydr.Eblif.BBParse

namespace Spydr.Eblif

theorem joins_owner_in (cur tok : String) : ∀ x ∈ inJoin cur tok, x.2.1 = cur := by
  intro x hx
  unfold inJoin at hx
  split at hx
  · simp only [List.mem_singleton] at hx; subst hx; rfl
  · cases hx

theorem joins_owner_out (st : St) (cur tok : String) : ∀ x ∈ outJoin st cur tok, x.2.1 = cur := by
  intro x hx
  unfold outJoin at hx
  split at hx
  · split at hx
    · cases hx
    · simp only [List.mem_singleton] at hx; subst hx; rfl
  · cases hx

theorem toksAcc_shape (isOut : Bool) (cur : String) (l : List String) :
    ∀ (st : St) (J : List (Pin × Key)), ∃ X, toksAcc isOut cur st J l = J ++ X ∧ ∀ x ∈ X, x.2.1 = cur := by
  induction l with
  | nil => intro st J; exact ⟨[], by simp [toksAcc], fun x h => by cases h⟩
  | cons w r ih =>
    intro st J
    have hown : ∀ x ∈ (if isOut then outJoin st cur w else inJoin cur w), x.2.1 = cur := by
      intro x hx
      split at hx
      · exact joins_owner_out st cur w x hx
      · exact joins_owner_in cur w x hx
    simp only [toksAcc]
    split
    · rename_i st1 _
      obtain ⟨X, hX, hXo⟩ := ih st1 (J ++ (if isOut then outJoin st cur w else inJoin cur w))
      refine ⟨(if isOut then outJoin st cur w else inJoin cur w) ++ X, by rw [hX]; simp, ?_⟩
      intro x hx
      rcases List.mem_append.mp hx with h | h
      · exact hown x h
      · exact hXo x h
    · exact ⟨_, rfl, hown⟩

theorem hdrsAcc_shape (cur : String) (l : List Hdr) :
    ∀ (st : St) (J : List (Pin × Key)), ∃ X, hdrsAcc cur st J l = J ++ X ∧ ∀ x ∈ X, x.2.1 = cur := by
  induction l with
  | nil => intro st J; exact ⟨[], by simp [hdrsAcc], fun x h => by cases h⟩
  | cons h r ih =>
    intro st J
    have h1 : ∃ X, hdrAcc cur st J h = J ++ X ∧ ∀ x ∈ X, x.2.1 = cur := by
      cases h with
      | inputs l => exact toksAcc_shape false cur l st J
      | outputs l => exact toksAcc_shape true cur l st J
      | clock l => exact ⟨[], by simp [hdrAcc], fun x hx => by cases hx⟩
    obtain ⟨X1, e1, o1⟩ := h1
    simp only [hdrsAcc]
    split
    · rename_i st1 _
      obtain ⟨X2, e2, o2⟩ := ih st1 (hdrAcc cur st J h)
      refine ⟨X1 ++ X2, by rw [e2, e1]; simp, ?_⟩
      intro x hx
      rcases List.mem_append.mp hx with h' | h'
      · exact o1 x h'
      · exact o2 x h'
    · exact ⟨X1, e1, o1⟩

theorem filter_other_owner (J X : List (Pin × Key)) (t cur : String) (hJ : ∀ e ∈ J, e.2.1 = t) (hne : cur ≠ t)
    (hX : ∀ x ∈ X, x.2.1 = cur) : (J ++ X).filter (fun x => x.2.1 ≠ cur) = J := by
  rw [List.filter_append]
  have h1 : J.filter (fun x => x.2.1 ≠ cur) = J := by
    rw [List.filter_eq_self]
    intro e he
    simp only [ne_eq, decide_eq_true_eq, decide_not, Bool.not_eq_true']
    simpa using (fun h => hne ((hJ e he) ▸ h).symm)
  have h2 : X.filter (fun x => x.2.1 ≠ cur) = [] := by
    rw [List.filter_eq_nil_iff]
    intro x hx
    simp [hX x hx]
  rw [h1, h2]; simp

theorem rinv_elabToks (f : St → String → String → Except Err St)
    (hf : ∀ {st st' : St} {cur tok : String}, RInv st → f st cur tok = Except.ok st' → RInv st')
    {cur : String} (l : List String) :
    ∀ {st st' : St}, RInv st → elabToks f st cur l = Except.ok st' → RInv st' := by
  induction l with
  | nil => intro st st' r h; cases h; exact r
  | cons t r ih =>
    intro st st' w h
    unfold elabToks at h
    obtain ⟨s1, h1, h2⟩ := bind_ok h
    exact ih (hf w h1) h2

theorem rinv_elabHdrs {cur : String} (l : List Hdr) :
    ∀ {st st' : St}, RInv st → elabHdrs st cur l = Except.ok st' → RInv st' := by
  induction l with
  | nil => intro st st' r h; cases h; exact r
  | cons x r ih =>
    intro st st' w h
    unfold elabHdrs at h
    obtain ⟨s1, h1, h2⟩ := bind_ok h
    refine ih ?_ h2
    cases x with
    | inputs l => exact rinv_elabToks elabInput (fun w h => rinv_elabInput w h) l w h1
    | outputs l => exact rinv_elabToks elabOutput (fun w h => rinv_elabOutput w h) l w h1
    | clock l => unfold elabHdr at h1; cases h1; exact RInv.of_fields (nf_updDef _ _ _) w

theorem data_setDir (st : St) (dn pn : String) (d : Dir) (j : Nat) : dataAt (setDir st dn pn d) j = dataAt st j := rfl

theorem data_elabInput {st st' : St} {cur tok : String} (h : elabInput st cur tok = Except.ok st') (j : Nat) :
    dataAt st' j = dataAt st j := by
  unfold elabInput at h
  obtain ⟨⟨pn, pi⟩, _, h⟩ := bind_ok h
  simp only [] at h
  cases h
  rw [data_connect, data_growPort]
  split
  · rfl
  · exact data_addPort _ _ _ _ _ _

theorem data_elabOutput {st st' : St} {cur tok : String} (h : elabOutput st cur tok = Except.ok st') (j : Nat) :
    dataAt st' j = dataAt st j := by
  unfold elabOutput at h
  obtain ⟨⟨pn, pi⟩, _, h⟩ := bind_ok h
  simp only [] at h
  split at h
  · cases h
    rw [data_growPort, data_setDir, data_addPort]
  · cases h
    rw [data_connect, data_growPort, data_setDir, data_addPort]

theorem data_elabToks (f : St → String → String → Except Err St)
    (hf : ∀ {st st' : St} {cur tok : String}, f st cur tok = Except.ok st' → ∀ j, dataAt st' j = dataAt st j)
    {cur : String} (l : List String) :
    ∀ {st st' : St}, elabToks f st cur l = Except.ok st' → ∀ j, dataAt st' j = dataAt st j := by
  induction l with
  | nil => intro st st' h j; cases h; rfl
  | cons t r ih =>
    intro st st' h j
    unfold elabToks at h
    obtain ⟨s1, h1, h2⟩ := bind_ok h
    rw [ih h2, hf h1]

theorem data_elabHdrs {cur : String} (l : List Hdr) :
    ∀ {st st' : St}, elabHdrs st cur l = Except.ok st' → ∀ j, dataAt st' j = dataAt st j := by
  induction l with
  | nil => intro st st' h j; cases h; rfl
  | cons x r ih =>
    intro st st' h j
    unfold elabHdrs at h
    obtain ⟨s1, h1, h2⟩ := bind_ok h
    rw [ih h2]
    cases x with
    | inputs l => exact data_elabToks elabInput (fun h => data_elabInput h) l h1 j
    | outputs l => exact data_elabToks elabOutput (fun h => data_elabOutput h) l h1 j
    | clock l => unfold elabHdr at h1; cases h1; rfl

theorem data_beginModel (st : St) (n : String) (j : Nat) : dataAt (beginModel st n) j = dataAt st j := by
  have e : dataAt (updDef (ensureDef st n) n (fun d => { d with declared := true })) j = dataAt st j := data_ensureDef st n j
  unfold beginModel
  simp only []
  split
  · exact e
  · exact e

end Spydr.Eblif
