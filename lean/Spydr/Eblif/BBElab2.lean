/-
  One black-box model, the list of them, and the round trip with the black-box block.
-/
import Spydr.Eblif.BBElab

namespace Spydr.Eblif

theorem fr_setDir {t : String} {st : St} (hd : DefEx st t) (dn pn : String) (d : Dir) (hne : t ≠ dn) :
    Fr t st (setDir st dn pn d) :=
  fr_updDef_other hd dn _ (fun _ => rfl) hne

theorem fr_elabInput {t cur tok : String} {st st' : St} (hd : DefEx st t) (hne : t ≠ cur)
    (h : elabInput st cur tok = Except.ok st') : Fr t st st' := by
  unfold elabInput at h
  obtain ⟨⟨pn, pi⟩, _, h⟩ := bind_ok h
  simp only [] at h
  cases h
  have a1 : Fr t st (if hasPort st cur pn = true then setDir st cur pn Dir.inp else addPort st cur pn Dir.inp 0) := by
    split
    · exact fr_setDir hd cur pn Dir.inp hne
    · exact fr_addPort hd cur pn Dir.inp 0 hne
  have a2 := Fr.trans a1 (fr_growPort a1.2 cur pn (pi + 1) hne)
  exact Fr.trans a2 (fr_of_defs a2.2 (defs_connect _ _ _ _ _))

theorem fr_elabOutput {t cur tok : String} {st st' : St} (hd : DefEx st t) (hne : t ≠ cur)
    (h : elabOutput st cur tok = Except.ok st') : Fr t st st' := by
  unfold elabOutput at h
  obtain ⟨⟨pn, pi⟩, _, h⟩ := bind_ok h
  simp only [] at h
  have a1 := fr_addPort hd cur pn Dir.out 0 hne
  split at h
  · cases h
    have a2 := Fr.trans a1 (fr_setDir a1.2 cur pn Dir.inout hne)
    exact Fr.trans a2 (fr_growPort a2.2 cur pn (pi + 1) hne)
  · cases h
    have a2 := Fr.trans a1 (fr_setDir a1.2 cur pn Dir.out hne)
    have a3 := Fr.trans a2 (fr_growPort a2.2 cur pn (pi + 1) hne)
    exact Fr.trans a3 (fr_of_defs a3.2 (defs_connect _ _ _ _ _))

theorem fr_elabToks {t cur : String} (f : St → String → String → Except Err St)
    (hf : ∀ {st st' : St} {tok : String}, DefEx st t → f st cur tok = Except.ok st' → Fr t st st') (l : List String) :
    ∀ {st st' : St}, DefEx st t → elabToks f st cur l = Except.ok st' → Fr t st st' := by
  induction l with
  | nil => intro st st' hd h; cases h; exact ⟨rfl, hd⟩
  | cons w r ih =>
    intro st st' hd h
    unfold elabToks at h
    obtain ⟨s1, h1, h2⟩ := bind_ok h
    have f1 := hf hd h1
    exact Fr.trans f1 (ih f1.2 h2)

theorem fr_beginModel {t : String} {st : St} (hd : DefEx st t) (n : String) (hne : t ≠ n) : Fr t st (beginModel st n) := by
  have a1 := fr_ensureDef hd n
  have a2 := Fr.trans a1 (fr_updDef_other a1.2 n (fun d => { d with declared := true }) (fun _ => rfl) hne)
  unfold beginModel
  simp only []
  split
  · exact Fr.trans a2 (fr_of_defs a2.2 rfl)
  · exact Fr.trans a2 (fr_of_defs a2.2 rfl)

/-- invariants of the state after the top model that the black-box models keep -/
structure TopInv (t : String) (J : List (Pin × Key)) (st : St) : Prop where
  rinv : RInv st
  ex : Exact st J
  dex : DefEx st t

theorem bb_model_step (t : String) (J : List (Pin × Key)) (hJ : ∀ e ∈ J, e.2.1 = t) (d : DefD) (hne : d.name ≠ t)
    {s s' : St} (inv : TopInv t J s) (h : elabModel s (bbModel d) = Except.ok s') :
    TopInv t J s' ∧ instKinds s' = instKinds s ∧ (∀ j, dataAt s' j = dataAt s j) ∧ portsOf s' t = portsOf s t := by
  unfold elabModel at h
  obtain ⟨sh, hh, hb⟩ := bind_ok h
  simp only [bbModel] at hh hb
  unfold elabStmts at hb
  obtain ⟨s2, h2, hb⟩ := bind_ok hb
  unfold elabStmts at hb
  cases hb
  unfold elabStmt at h2
  cases h2
  have hne' : t ≠ d.name := fun e => hne e.symm
  -- header
  have rb : RInv (beginModel s d.name) := RInv.of_fields (nf_beginModel _ _) inv.rinv
  have rh : RInv sh := rinv_elabHdrs _ rb hh
  have eb : Exact (beginModel s d.name) J := Exact.of_pa (pa_of_nf (nf_beginModel _ _)) inv.ex
  have eh := exact_elabHdrs_all _ eb hh
  obtain ⟨X, hX, hXo⟩ := hdrsAcc_shape d.name
    [Hdr.inputs ((d.ports.filter (fun p => p.dir = Dir.inp)).map (·.name)),
     Hdr.outputs ((d.ports.filter (fun p => p.dir = Dir.out)).map (·.name))] (beginModel s d.name) J
  rw [hX] at eh
  have ec := exact_clearOwner rh.wf eh d.name
  rw [filter_other_owner J X t d.name hJ hne hXo] at ec
  -- frame of t's ports
  have fb := fr_beginModel inv.dex d.name hne'
  unfold elabHdrs at hh
  obtain ⟨sa, hin, hh⟩ := bind_ok hh
  unfold elabHdrs at hh
  obtain ⟨sb, hout, hh⟩ := bind_ok hh
  unfold elabHdrs at hh
  cases hh
  simp only [elabHdr] at hin hout
  have fa := Fr.trans fb (fr_elabToks elabInput (fun hd h => fr_elabInput hd hne' h) _ fb.2 hin)
  have fo := Fr.trans fa (fr_elabToks elabOutput (fun hd h => fr_elabOutput hd hne' h) _ fa.2 hout)
  have fc : Fr t sh (updDef (clearOwner sh d.name) d.name (fun x => { x with blackbox := true })) :=
    Fr.trans (fr_of_defs (b := clearOwner sh d.name) fo.2 rfl)
      (fr_updDef_other (fr_of_defs (b := clearOwner sh d.name) fo.2 rfl).2 d.name _ (fun _ => rfl) hne')
  have fall := Fr.trans fo fc
  refine ⟨⟨?_, Exact.of_pa (pa_of_nf (nf_updDef _ _ _)) ec, fall.2⟩, ?_, ?_, fall.1⟩
  · refine RInv.of_fields (nf_updDef _ _ _) ⟨wf_clearOwner rh.wf d.name, pinsLive_clearOwner rh.pl d.name, ?_⟩
    funext k
    simp only [clearOwner, rh.aid, id]
    split <;> rfl
  · rw [ik_updDef, ik_clearOwner, ik_elabToks elabOutput (fun h => ik_elabOutput h) _ hout,
      ik_elabToks elabInput (fun h => ik_elabInput h) _ hin, ik_beginModel]
  · intro j
    show dataAt sh j = dataAt s j
    rw [data_elabToks elabOutput (fun h => data_elabOutput h) _ hout,
      data_elabToks elabInput (fun h => data_elabInput h) _ hin, data_beginModel]

theorem bb_models_fold (t : String) (J : List (Pin × Key)) (hJ : ∀ e ∈ J, e.2.1 = t) (ds : List DefD)
    (hne : ∀ d ∈ ds, d.name ≠ t) :
    ∀ {s s' : St}, TopInv t J s → elabModels s (ds.map bbModel) = Except.ok s' →
      TopInv t J s' ∧ instKinds s' = instKinds s ∧ (∀ j, dataAt s' j = dataAt s j) ∧ portsOf s' t = portsOf s t := by
  induction ds with
  | nil => intro s s' inv h; cases h; exact ⟨inv, rfl, fun _ => rfl, rfl⟩
  | cons d r ih =>
    intro s s' inv h
    simp only [List.map_cons] at h
    unfold elabModels at h
    obtain ⟨s1, h1, h2⟩ := bind_ok h
    obtain ⟨i1, k1, d1, p1⟩ := bb_model_step t J hJ d (hne d (by simp)) inv h1
    obtain ⟨i2, k2, d2, p2⟩ := ih (fun x hx => hne x (by simp [hx])) i1 h2
    exact ⟨i2, k2.trans k1, fun j => (d2 j).trans (d1 j), p2.trans p1⟩

end Spydr.Eblif
