/-
  Round trip with the black-box block written (`write_blackbox` on or off): same instances, data,
  pins per net bit and top ports.
-/
import Spydr.Eblif.BBElab2

namespace Spydr.Eblif

/-- ports, existence and invariants of the state after the top model of `astOf` -/
theorem top_model_state (o : Opts) (n : BNet) (t : String) (hw : WellNamed n) (ht : okWord t = true) (hn : NetOK n t)
    (hself : ∀ i ∈ n.insts, t ≠ i.model) (s0 : St)
    (hm : elabModel {} { name := t, hdr := hdrOf (n.findDef t), body := (kidsOrd n t).map (stmtOf o n) } = Except.ok s0) :
    portsOf s0 t = insPorts (n.findDef t) ++ outsPorts (n.findDef t) ∧ DefEx s0 t ∧ RInv s0 := by
  unfold elabModel at hm
  obtain ⟨sh, hhdr, hbody⟩ := bind_ok hm
  simp only [hdrOf] at hhdr hbody
  have rh : RInv sh := rinv_elabHdrs _ (RInv.of_fields (nf_beginModel _ _) RInv.init) hhdr
  have r0 : RInv s0 := rinv_elabStmts _ (fun s hs => (stmtOf_isSubckt o n _ s hs).1) rh hbody
  unfold elabHdrs at hhdr
  obtain ⟨sa, hin, hhdr⟩ := bind_ok hhdr
  unfold elabHdrs at hhdr
  obtain ⟨sb, hout, hhdr⟩ := bind_ok hhdr
  unfold elabHdrs at hhdr
  cases hhdr
  simp only [elabHdr] at hin hout
  obtain ⟨_, hp, hnd, _, _⟩ := hn
  obtain ⟨_, hpn, _⟩ := findDef_ok hw ht
  have hIn : ∀ p ∈ insPorts (n.findDef t), plainName p.name ∧ p.name.toList ≠ [] ∧ 1 ≤ p.width ∧ p.dir = Dir.inp := by
    intro p hpm
    simp only [insPorts, List.mem_filter, Bool.or_eq_true, decide_eq_true_eq] at hpm
    obtain ⟨hd, hpl, hwd, _⟩ := hp p hpm.1
    refine ⟨hpl, okWord_nonempty (hpn p hpm.1), hwd, ?_⟩
    rcases hpm.2 with h1 | h1
    · exact h1
    · rcases hd with h2 | h2 <;> simp [h1] at h2
  have hOut : ∀ p ∈ outsPorts (n.findDef t), plainName p.name ∧ p.name.toList ≠ [] ∧ 1 ≤ p.width ∧ p.dir = Dir.out := by
    intro p hpm
    simp only [outsPorts, List.mem_filter, Bool.or_eq_true, decide_eq_true_eq] at hpm
    obtain ⟨hd, hpl, hwd, _⟩ := hp p hpm.1
    refine ⟨hpl, okWord_nonempty (hpn p hpm.1), hwd, ?_⟩
    rcases hpm.2 with h1 | h1
    · exact h1
    · rcases hd with h2 | h2 <;> simp [h1] at h2
  obtain ⟨pa, da⟩ := ports_words_in t (insPorts (n.findDef t)) hIn [] (beginModel {} t) sa
    (fun q hq => by cases hq) (nodup_filter_names _ _ hnd) (beginModel_defEx t) (portsOf_beginModel_empty t) hin
  obtain ⟨pb, db⟩ := ports_words_out t (outsPorts (n.findDef t)) hOut ([] ++ insPorts (n.findDef t)) sa sh
    (by
      intro q hq p hpm he
      simp only [List.nil_append] at hq
      have hq' := (List.mem_filter.mp hq).1
      have hp' := (List.mem_filter.mp hpm).1
      have := eq_of_nodup_name hnd hq' hp' he
      subst this
      have h1 := (hIn q hq).2.2.2
      have h2 := (hOut q hpm).2.2.2
      rw [h1] at h2; cases h2)
    (nodup_filter_names _ _ hnd) da pa hout
  have hfr := fr_ks o n t (kidsOrd n t) (fun k hk => by
      have : k ∈ n.insts.zipIdx := by
        unfold kidsOrd at hk
        simp only [List.mem_append, List.mem_filter] at hk
        rcases hk with h1 | h1 <;> exact h1.1.1
      exact hself k.1 (mem_zipIdx_fst this)) db hbody
  exact ⟨by rw [hfr.1, pb]; simp, hfr.2, r0⟩

theorem elabModels_append (a b : List Model) :
    ∀ st, elabModels st (a ++ b) = (elabModels st a >>= fun s => elabModels s b) := by
  induction a with
  | nil => intro st; rfl
  | cons m r ih =>
    intro st
    simp only [List.cons_append, elabModels]
    cases elabModel st m with
    | error e => rfl
    | ok s1 => simp [bind, Except.bind, ih s1]

/-- **Round trip with the black-box block.**  As `eblif_roundtrip_subckt` and `eblif_roundtrip_ports`,
    but for either value of `write_blackbox`: the `.model … .blackbox .end` blocks the writer appends
    for the used leaf definitions change nothing of the view. -/
theorem roundtrip_subckt_bb (o : Opts) (n : BNet) (t : String) (hw : WellNamed n) (hf : FragB n t) (hn : NetOK n t)
    (hself : ∀ i ∈ n.insts, t ≠ i.model) (hbb : ∀ d ∈ bbDefs n t, d.name ≠ t)
    (n' : BNet) (h : readB (composeText o n) = Except.ok n') :
    n'.insts.map kindOf = n.insts.map kindOf ∧
    (∀ j : Nat, (n'.insts[j]?).map infoOf =
      (n.insts[j]?).map (fun (i : Inst) => (if o.writeCname then some i.name else none, i.attrs, i.params))) ∧
    (∀ x k, OnNet n' x k ↔ OnNet n x k) ∧
    (n'.findDef t).ports = insPorts (n.findDef t) ++ outsPorts (n.findDef t) := by
  have ht : okWord t = true := hw.2.2.2.2 t hf.top
  rw [read_composeText o n hw, parse_composeLines_bb o n t hf] at h
  simp only [bind, Except.bind] at h
  unfold elabB at h
  obtain ⟨st, hst, hconv⟩ := bind_ok h
  unfold elabSt at hst
  obtain ⟨sf, hsf, hst⟩ := bind_ok hst
  cases hst
  simp only [astOfB, astOf] at hsf
  rw [elabModels_append] at hsf
  obtain ⟨s0, hs0, hbbs⟩ := bind_ok hsf
  simp only [elabModels] at hs0
  obtain ⟨sx, hm, hx⟩ := bind_ok hs0
  have hxe : sx = s0 := by cases hx; rfl
  rw [hxe] at hm
  -- the top model
  have hsorted := hn.1
  have facts := elab_model_facts o n t _ _ (outNames (n.findDef t)) (kidsOrd n t) (hdrOK_of n t hw ht hn) s0
    (by simpa [hdrOf, insPorts, outsPorts] using hm)
  obtain ⟨fk, fp, fl, fd⟩ := facts
  obtain ⟨tp, tdex, tr⟩ := top_model_state o n t hw ht hn hself s0 hm
  -- the black-box models
  let J := (wordJoins t ((insPorts (n.findDef t)).flatMap portBits) ++
            wordJoins t ((outsPorts (n.findDef t)).flatMap portBits)) ++ ksJoins n t 0 n.insts.zipIdx
  have hJown : ∀ e ∈ J, e.2.1 = t := by
    intro e he
    obtain ⟨x, k⟩ := e
    have := (mem_joins_iff_onNet n t hw ht hn x k).mp he
    obtain ⟨ws, w, hmem, _, _⟩ := this
    exact ((hn.2.2.2.1) _ hmem).1
  have hex : Exact s0 J := by
    intro x k
    have := fp x k
    rw [hsorted] at this
    rw [this]
    constructor
    · intro hm'; exact ⟨k, hm', by rw [tr.aid]; rfl⟩
    · rintro ⟨k', hm', ha⟩
      rw [tr.aid] at ha
      simp only [id] at ha
      rw [← ha]; exact hm'
  have inv0 : TopInv t J s0 := ⟨tr, hex, tdex⟩
  have hfin : TopInv t J sf ∧ instKinds sf = instKinds s0 ∧ (∀ j, dataAt sf j = dataAt s0 j) ∧ portsOf sf t = portsOf s0 t := by
    unfold bbPart at hbbs
    split at hbbs
    · exact bb_models_fold t J hJown (bbDefs n t) hbb inv0 hbbs
    · cases hbbs; exact ⟨inv0, rfl, fun _ => rfl, rfl⟩
  obtain ⟨invf, kf, df, pf⟩ := hfin
  obtain ⟨c1, c2, _, c4⟩ := applyConvention_pres _ hconv
  have hins : n'.insts.map eraseName = sf.insts.map eraseName := c4
  have hkind : ∀ l : List Inst, l.map kindOf = (l.map eraseName).map kindOf := by
    intro l; rw [List.map_map]; rfl
  have hinfo : ∀ (l : List Inst) (j : Nat), (l[j]?).map infoOf = ((l.map eraseName)[j]?).map infoOf := by
    intro l j
    rw [List.getElem?_map]
    cases l[j]? <;> rfl
  refine ⟨?_, ?_, ?_, ?_⟩
  · rw [hkind n'.insts, hins, ← hkind]
    have : sf.insts.map kindOf = instKinds sf := rfl
    rw [this, kf, fk, kinds_ks o n t _ (fun k hk => kidsOrd_mem hk), hsorted]
    have hfun : (fun k : Inst × Nat => kindOf k.1) = kindOf ∘ Prod.fst := rfl
    rw [hfun, ← List.map_map, List.zipIdx_map_fst]
  · intro j
    rw [hinfo n'.insts, hins, ← hinfo]
    have hd := df j
    simp only [dataAt] at hd
    rw [hd]
    by_cases hj : j < n.insts.length
    · have hlen : (kidsOrd n t).length = n.insts.length := by rw [hsorted]; simp
      have := fd j (by omega)
      simp only [dataAt] at this
      rw [this]
      have hkj : (kidsOrd n t)[j]'(by omega) = (n.insts[j], j) := by simp [hsorted]
      have hmem : (n.insts[j], j) ∈ n.insts.zipIdx := List.mem_zipIdx_iff_getElem?.mpr (by simp)
      obtain ⟨_, ha, hp, _⟩ := hn.2.2.2.2 _ hmem
      rw [hkj, infoFold_infoStmts o n.insts[j] ha hp, List.getElem?_eq_getElem hj]
      rfl
    · have hlen : s0.insts.length = n.insts.length := by
        have := congrArg List.length fk
        rw [kinds_ks o n t _ (fun k hk => kidsOrd_mem hk), hsorted] at this
        simpa [instKinds] using this
      have h1 : s0.insts[j]? = none := by rw [List.getElem?_eq_none_iff]; omega
      have h2 : n.insts[j]? = none := by rw [List.getElem?_eq_none_iff]; omega
      simp [h1, h2]
  · intro x k
    have hpins : x ∈ sf.pins k ↔ (x, k) ∈ J := by
      rw [invf.ex x k]
      constructor
      · rintro ⟨k', hm', ha⟩
        rw [invf.rinv.aid] at ha
        simp only [id] at ha
        rw [← ha]; exact hm'
      · intro hm'; exact ⟨k, hm', by rw [invf.rinv.aid]; rfl⟩
    exact (onNet_of_cables c1 x k).trans ((onNet_of_cables (b := sf.toNet) rfl x k).trans
      ((onNet_toNet sf invf.rinv.pl x k).trans (hpins.trans (mem_joins_iff_onNet n t hw ht hn x k))))
  · have hfind : (n'.findDef t).ports = portsOf sf t := by
      unfold BNet.findDef portsOf findDef
      rw [c2]
      show (match (sf.defs.find? fun (d : DefD) => d.name = t) with | some d => d | none => ({ name := t } : DefD)).ports = _
      cases sf.defs.find? (fun (d : DefD) => d.name = t) <;> rfl
    rw [hfind, pf, tp]

end Spydr.Eblif
