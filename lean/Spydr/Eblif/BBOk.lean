/-
  The read of the composed text with black-box block cannot fail.
-/
import Spydr.Eblif.BBMain

namespace Spydr.Eblif

theorem top_model_ok (o : Opts) (n : BNet) (t : String) (hw : WellNamed n) (ht : okWord t = true) (hn : NetOK n t)
    (hnm : NamesOK o n) :
    ∃ s3, elabModel {} { name := t, hdr := hdrOf (n.findDef t), body := (kidsOrd n t).map (stmtOf o n) } = Except.ok s3 := by
  have hh := hdrOK_of n t hw ht hn
  obtain ⟨s1, h1⟩ := elabToks_ok elabInput elabInput_ok t _ (fun w hwm => by
    obtain ⟨pn, pi, hs, _⟩ := hh.ins w hwm; exact ⟨pn, pi, hs⟩) (beginModel {} t)
  obtain ⟨s2, h2⟩ := elabToks_ok elabOutput elabOutput_ok t _ (fun w hwm => by
    obtain ⟨pn, pi, hs, _⟩ := hh.outs w hwm; exact ⟨pn, pi, hs⟩) s1
  have hik : instKinds s2 = [] := by
    rw [ik_elabToks elabOutput (fun h => ik_elabOutput h) _ h2,
      ik_elabToks elabInput (fun h => ik_elabInput h) _ h1, ik_beginModel]
    rfl
  have hlen0 : s2.insts.length = 0 := by
    have := congrArg List.length hik; simpa [instKinds] using this
  have hnames0 : namesOf s2 = [] := by
    simp only [namesOf]
    have : s2.insts = [] := List.eq_nil_of_length_eq_zero hlen0
    rw [this]; rfl
  obtain ⟨s3, h3⟩ := body_ok o n t hnm n.insts 0 (fun k hk =>
    ⟨kidOK_of o n t hw hn k hk, List.mem_zipIdx_iff_getElem?.mp hk⟩) s2 hlen0 (fun _ => by simp [hnames0])
  refine ⟨s3, ?_⟩
  unfold elabModel
  simp only [hdrOf, elabHdrs, elabHdr, bind, Except.bind]
  have e1 : elabToks elabInput (beginModel {} t) t ((insPorts (n.findDef t)).flatMap portBits) = Except.ok s1 := h1
  simp only [insPorts, outsPorts] at e1 h2
  rw [e1]
  simp only [h2, pure, Except.pure]
  rw [hn.1]; exact h3

theorem bb_models_ok (ds : List DefD) (hds : ∀ d ∈ ds, ∀ p ∈ d.ports, plainName p.name ∧ p.name.toList ≠ []) :
    ∀ s : St, ∃ s', elabModels s (ds.map bbModel) = Except.ok s' := by
  induction ds with
  | nil => intro s; exact ⟨s, rfl⟩
  | cons d r ih =>
    intro s
    have hw : ∀ (P : List PortD), (∀ p ∈ P, p ∈ d.ports) → ∀ w ∈ P.map (·.name), ∃ pn pi, splitIdx w = Except.ok (pn, pi) := by
      intro P hP w hwm
      obtain ⟨p, hp, rfl⟩ := List.mem_map.mp hwm
      obtain ⟨h1, h2⟩ := hds d (by simp) p (hP p hp)
      exact ⟨p.name, 0, splitIdx_plain _ h1 h2⟩
    obtain ⟨s1, h1⟩ := elabToks_ok elabInput elabInput_ok d.name _
      (hw (d.ports.filter (fun p => p.dir = Dir.inp)) (fun p hp => (List.mem_filter.mp hp).1)) (beginModel s d.name)
    obtain ⟨s2, h2⟩ := elabToks_ok elabOutput elabOutput_ok d.name _
      (hw (d.ports.filter (fun p => p.dir = Dir.out)) (fun p hp => (List.mem_filter.mp hp).1)) s1
    obtain ⟨s3, h3⟩ := ih (fun x hx => hds x (by simp [hx]))
      (updDef (clearOwner s2 d.name) d.name (fun x => { x with blackbox := true }))
    refine ⟨s3, ?_⟩
    simp only [List.map_cons, elabModels]
    have hm : elabModel s (bbModel d) = Except.ok (updDef (clearOwner s2 d.name) d.name (fun x => { x with blackbox := true })) := by
      unfold elabModel
      simp only [bbModel, elabHdrs, elabHdr, h1, h2, bind, Except.bind, pure, Except.pure, elabStmts, elabStmt]
    rw [hm]; exact h3

/-- black-box definitions written after the top model have plain port names -/
def BBPlain (n : BNet) (t : String) : Prop := ∀ d ∈ bbDefs n t, d.name ≠ t ∧ ∀ p ∈ d.ports, plainName p.name

instance (n : BNet) (t : String) : Decidable (BBPlain n t) := by unfold BBPlain; infer_instance

theorem read_ok_bb (o : Opts) (n : BNet) (t : String) (hw : WellNamed n) (hf : FragB n t) (hn : NetOK n t)
    (hnm : NamesOK o n) (hbp : BBPlain n t) : ∃ n', readB (composeText o n) = Except.ok n' := by
  have ht : okWord t = true := hw.2.2.2.2 t hf.top
  rw [read_composeText o n hw, parse_composeLines_bb o n t hf]
  simp only [bind, Except.bind]
  obtain ⟨s3, h3⟩ := top_model_ok o n t hw ht hn hnm
  have hbbs : ∃ s4, elabModels s3 (bbPart o n t) = Except.ok s4 := by
    unfold bbPart
    split
    · apply bb_models_ok
      intro d hd p hp
      have hdm : d ∈ n.defs := by
        unfold bbDefs at hd; exact (List.mem_filter.mp hd).1
      exact ⟨(hbp d hd).2 p hp, okWord_nonempty ((hw.2.1 d hdm).2.1 p hp)⟩
    · exact ⟨s3, rfl⟩
  obtain ⟨s4, h4⟩ := hbbs
  obtain ⟨n', hc⟩ := applyConvention_ok (List.range s4.insts.length)
    ({ s4 with comments := (astOfB o n t).comments } : St).toNet
  refine ⟨n', ?_⟩
  unfold elabB elabSt
  have hms : elabModels {} (astOfB o n t).models = Except.ok s4 := by
    simp only [astOfB, astOf]
    rw [elabModels_append]
    simp only [elabModels, h3, bind, Except.bind, pure, Except.pure]
    exact h4
  simp only [hms, bind, Except.bind, pure, Except.pure]
  exact hc

end Spydr.Eblif
