/-
  Round trip with the black-box block (`write_blackbox` on): the composed lines parse to the top
  model followed by one `.blackbox` model per written leaf definition.
-/
import Spydr.Eblif.Props.C18Ports

namespace Spydr.Eblif

/-- leaf definitions the writer declares after the top model -/
def bbDefs (n : BNet) (t : String) : List DefD :=
  let used := ((n.insts.filter (fun i => i.parent = t &&
                  (i.typ = "EBLIF.subckt" || i.typ = "EBLIF.gate" || i.typ = "EBLIF.other") && isLeaf n i.model)).map (·.model))
  n.defs.filter (fun d => !d.inWork && d.name ∈ used && !containsSub d.name.toList "logic-gate".toList)

def bbModel (d : DefD) : Model :=
  { name := d.name,
    hdr := [Hdr.inputs ((d.ports.filter (fun p => p.dir = Dir.inp)).map (·.name)),
            Hdr.outputs ((d.ports.filter (fun p => p.dir = Dir.out)).map (·.name))],
    body := [Stmt.blackbox] }

def bbPart (o : Opts) (n : BNet) (t : String) : List Model :=
  if o.writeBlackbox then (bbDefs n t).map bbModel else []

def astOfB (o : Opts) (n : BNet) (t : String) : BAst :=
  { comments := (astOf o n t).comments, models := (astOf o n t).models ++ bbPart o n t }

/-- the fragment without the "no black-box block" condition -/
structure FragB (n : BNet) (t : String) : Prop where
  top : n.top = some t
  work : (n.findDef t).inWork = true
  noclock : (n.findDef t).clock = none
  kinds : ∀ i ∈ n.insts, i.parent = t → (i.typ = "EBLIF.subckt" ∨ i.typ = "EBLIF.gate")
  noconn : connLines n (n.findDef t) = []
  noeq : ∀ d ∈ n.defs, ∀ p ∈ d.ports, '=' ∉ p.name.toList

theorem bb_lines_fold (ds : List DefD) :
    ∀ (s : PSt), s.mode = Mode.outside → s.cur = none → s.err = none →
      (ds.flatMap (fun d =>
        [[".model", d.name],
         [".inputs"] ++ (d.ports.filter (fun p => p.dir = Dir.inp)).map (·.name),
         [".outputs"] ++ (d.ports.filter (fun p => p.dir = Dir.out)).map (·.name),
         [".blackbox"], [".end"], []])).foldl pstep s = { s with done := s.done ++ ds.map bbModel } := by
  induction ds with
  | nil => intro s _ _ _; simp
  | cons d r ih =>
    intro s hm hc he
    simp only [List.flatMap_cons, List.foldl_append, List.foldl_cons, List.foldl_nil]
    have h1 : pstep (pstep (pstep (pstep (pstep (pstep s [".model", d.name])
        ([".inputs"] ++ (d.ports.filter (fun p => p.dir = Dir.inp)).map (·.name)))
        ([".outputs"] ++ (d.ports.filter (fun p => p.dir = Dir.out)).map (·.name))) [".blackbox"]) [".end"]) [] =
        { s with done := s.done ++ [bbModel d] } := by
      cases s with
      | mk mode comments done cur err =>
        simp only at hm hc he
        subst hm; subst hc; subst he
        simp [pstep, stepOutside, stepHeader, stepBody, PSt.pushHdr, PSt.pushStmt, bbModel]
    rw [h1]
    have := ih { s with done := s.done ++ [bbModel d] } hm hc he
    rw [this]
    simp

/-- the composed lines of the fragment, black-box block included, parse to `astOfB` -/
theorem parse_composeLines_bb (o : Opts) (n : BNet) (t : String) (hf : FragB n t) :
    parseLines (composeLines o n) = Except.ok (astOfB o n t) := by
  have hk : ∀ k ∈ kidsOrd n t, k.1.typ = "EBLIF.subckt" ∨ k.1.typ = "EBLIF.gate" := by
    intro k hk
    unfold kidsOrd at hk
    simp only [List.mem_append, List.mem_filter, decide_eq_true_eq] at hk
    rcases hk with h | h
    · exact Or.inl h.2
    · exact Or.inr h.2
  have hcat : ∀ ty : String, ty ≠ "EBLIF.subckt" → ty ≠ "EBLIF.gate" →
      (n.insts.zipIdx.filter (fun (p : Inst × Nat) => p.1.parent = t)).filter (fun (p : Inst × Nat) => p.1.typ = ty) = [] := by
    intro ty h1 h2
    rw [List.filter_eq_nil_iff]
    intro p hp hty
    simp only [List.mem_filter, decide_eq_true_eq] at hp hty
    rcases hf.kinds p.1 (mem_zipIdx_fst hp.1) hp.2 with h | h
    · exact h1 (hty ▸ h)
    · exact h2 (hty ▸ h)
  have hml : modelLines o n t =
      [[".model", t],
        [".inputs"] ++ ((n.findDef t).ports.filter (fun p => p.dir = Dir.inp || p.dir = Dir.inout)).flatMap portBits,
        [".outputs"] ++ ((n.findDef t).ports.filter (fun p => p.dir = Dir.out || p.dir = Dir.inout)).flatMap portBits] ++
       ((kidsOrd n t).flatMap (instLines o n) ++ [[".end"], []]) := by
    unfold modelLines
    simp only [hf.noclock, hf.noconn, List.append_nil]
    rw [hcat "EBLIF.other" (by decide) (by decide), hcat "EBLIF.names" (by decide) (by decide),
      hcat "EBLIF.latch" (by decide) (by decide)]
    simp [kidsOrd, List.append_assoc]
  have hbl : blackboxLines n t = (bbDefs n t).flatMap (fun d =>
          [[".model", d.name],
           [".inputs"] ++ (d.ports.filter (fun p => p.dir = Dir.inp)).map (·.name),
           [".outputs"] ++ (d.ports.filter (fun p => p.dir = Dir.out)).map (·.name),
           [".blackbox"], [".end"], []]) := rfl
  have hlines : composeLines o n =
      n.comments.map (fun c => ["#"] ++ splitOnBlank c.toList) ++
      ([["#", "Generated", "by", "'BYU", "spydrnet", "tool'"], [], [".model", t],
        [".inputs"] ++ ((n.findDef t).ports.filter (fun p => p.dir = Dir.inp || p.dir = Dir.inout)).flatMap portBits,
        [".outputs"] ++ ((n.findDef t).ports.filter (fun p => p.dir = Dir.out || p.dir = Dir.inout)).flatMap portBits] ++
       ((kidsOrd n t).flatMap (instLines o n) ++ ([[".end"], []] ++
        (if o.writeBlackbox then (bbDefs n t).flatMap (fun d =>
          [[".model", d.name],
           [".inputs"] ++ (d.ports.filter (fun p => p.dir = Dir.inp)).map (·.name),
           [".outputs"] ++ (d.ports.filter (fun p => p.dir = Dir.out)).map (·.name),
           [".blackbox"], [".end"], []]) else [])))) := by
    unfold composeLines
    simp only [hf.top, hf.work, if_true]
    rw [hml, hbl]
    simp only [List.append_assoc, List.cons_append, List.nil_append]
  unfold parseLines
  rw [hlines, List.foldl_append, comments_fold _ _ rfl, List.foldl_append]
  simp only [List.foldl_cons, List.foldl_nil]
  have h0 : ∀ s : PSt, s.mode = Mode.outside → s.err = none →
      pstep (pstep (pstep (pstep (pstep s ["#", "Generated", "by", "'BYU", "spydrnet", "tool'"]) []) [".model", t])
        ([".inputs"] ++ ((n.findDef t).ports.filter (fun p => p.dir = Dir.inp || p.dir = Dir.inout)).flatMap portBits))
        ([".outputs"] ++ ((n.findDef t).ports.filter (fun p => p.dir = Dir.out || p.dir = Dir.inout)).flatMap portBits) =
      { s with comments := s.comments ++ ["Generated by 'BYU spydrnet tool' "], mode := Mode.header,
               cur := some { name := t, hdr := hdrOf (n.findDef t), body := [] } } := by
    intro s hm he
    cases s with
    | mk mode comments done cur err =>
      simp only at hm he
      subst hm; subst he
      simp [pstep, stepOutside, stepHeader, commentText, PSt.pushHdr, hdrOf]
  rw [h0 _ rfl rfl]
  rw [List.foldl_append]
  rw [blocks_fold o n hf.noeq (kidsOrd n t) hk _ { name := t, hdr := hdrOf (n.findDef t), body := [] } rfl rfl
    (Or.inr (Or.inr rfl))]
  rw [List.foldl_append]
  simp only [List.foldl_cons, List.foldl_nil]
  have hend : ∀ s : PSt, (s.mode = Mode.header ∨ s.mode = Mode.info) → ∀ c, s.cur = some c → s.err = none →
      pstep (pstep s [".end"]) [] = { s with done := s.done ++ [c], cur := none, mode := Mode.outside } := by
    intro s hm c hc he
    cases s with
    | mk mode comments done cur err =>
      simp only at hm hc he
      subst hc; subst he
      rcases hm with rfl | rfl <;> simp [pstep, stepHeader, stepInfo, stepBody, stepOutside]
  rw [hend _ (by by_cases hke : kidsOrd n t = [] <;> simp [hke]) _ rfl rfl]
  by_cases hwb : o.writeBlackbox = true
  · simp only [hwb, if_true]
    rw [bb_lines_fold _ _ rfl rfl rfl]
    simp [PSt.finish, astOfB, astOf, bbPart, hwb]
  · simp [hwb, PSt.finish, astOfB, astOf, bbPart]

end Spydr.Eblif
