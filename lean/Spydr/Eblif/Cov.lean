/-
  The truth tables (`Inst.covers`) through the elaborator: for ANY syntax tree the reader accepts,
  the instances carry, in creation order, exactly the cover rows of their `.names` statements
  (`none` for `.subckt` / `.gate` / `.latch` instances).
-/
import Spydr.Eblif.AnyMain

namespace Spydr.Eblif

def cview (st : St) : List (Option (List String)) := st.insts.map (·.covers)

/-- what a statement contributes to the list of truth tables -/
def stmtCov : Stmt → List (Option (List String))
  | Stmt.subckt _ _ _ _ => [none]
  | Stmt.names _ covers _ => [some covers]
  | Stmt.latch _ _ => [none]
  | Stmt.conn _ _ => []
  | Stmt.blackbox => []

theorem cv_of_insts {a b : St} (h : b.insts = a.insts) : cview b = cview a := by simp [cview, h]

theorem cv_updInst (st : St) (idx : Nat) (f : Inst → Inst) (hf : ∀ i, (f i).covers = i.covers) :
    cview (updInst st idx f) = cview st := map_updIdx_gen (·.covers) st.insts idx f hf

@[simp] theorem cv_ensureDef (st : St) (n : String) : cview (ensureDef st n) = cview st := by
  unfold ensureDef; split <;> rfl
@[simp] theorem cv_updDef (st : St) (n : String) (f : DefD → DefD) : cview (updDef st n f) = cview st := rfl
@[simp] theorem cv_appendPins (st : St) (n : String) (l) : cview (appendPins st n l) = cview st := by
  simp only [cview, appendPins, List.map_map]
  congr 1
  funext i
  simp only [Function.comp]
  split <;> rfl
@[simp] theorem cv_addPort (st : St) (dn pn : String) (d : Dir) (w : Nat) : cview (addPort st dn pn d w) = cview st := by
  unfold addPort; split <;> simp
@[simp] theorem cv_setDir (st : St) (dn pn : String) (d : Dir) : cview (setDir st dn pn d) = cview st := rfl
@[simp] theorem cv_growPort (st : St) (dn pn : String) (w : Nat) : cview (growPort st dn pn w) = cview st := by
  unfold growPort; simp only []; split <;> simp
@[simp] theorem cv_checkHierarchy (st : St) (c d : String) : cview (checkHierarchy st c d) = cview st := by
  unfold checkHierarchy; split <;> rfl
@[simp] theorem cv_ensureWire (st : St) (o n : String) (i : Nat) : cview (ensureWire st o n i) = cview st := by
  unfold ensureWire ensureCable; simp only []; split <;> split <;> rfl
@[simp] theorem cv_connect (st : St) (p : Pin) (o n : String) (i : Nat) : cview (connect st p o n i) = cview st := by
  unfold connect; exact cv_ensureWire st o n i
@[simp] theorem cv_mergeKeys (st : St) (a b : Key) : cview (mergeKeys st a b) = cview st := by
  unfold mergeKeys; simp only []; split <;> rfl
@[simp] theorem cv_clearOwner (st : St) (o : String) : cview (clearOwner st o) = cview st := rfl
@[simp] theorem cv_assignDefault (st : St) (i : Nat) (p m : String) : cview (assignDefault st i p m) = cview st := by
  unfold assignDefault
  exact cv_updInst _ _ _ (fun _ => rfl)
theorem cv_newInst (st : St) (p m t : String) : cview (newInst st p m t).1 = cview st ++ [none] := by
  simp [cview, newInst]

theorem cv_renameStrict {st st' : St} {i : Nat} {p n : String} (h : renameStrict st i p n = Except.ok st') :
    cview st' = cview st := by
  unfold renameStrict at h
  split at h
  · cases h
  · cases h; exact cv_updInst _ _ _ (fun _ => rfl)

theorem cv_rename {st st' : St} {i : Nat} {p n : String} (h : rename st i p n = Except.ok st') : cview st' = cview st := by
  unfold rename at h
  split at h
  · cases h; exact cv_assignDefault _ _ _ _
  · cases h; exact cv_updInst _ _ _ (fun _ => rfl)

theorem cv_addLatchPorts (l : List String) : ∀ st : St, cview (addLatchPorts st l) = cview st := by
  induction l with
  | nil => intro st; rfl
  | cons o r ih => intro st; simp [addLatchPorts, ih]

@[simp] theorem cv_addNamesPorts (st : St) (dn : String) (k : Nat) : cview (addNamesPorts st dn k) = cview st := by
  unfold addNamesPorts
  simp only [cv_addPort]
  generalize List.range k = l
  induction l generalizing st with
  | nil => rfl
  | cons a r ih => rw [List.foldl_cons, ih]; simp

theorem cv_connectOne {st st' : St} {idx : Nat} {parent model : String} {fa : String × String}
    (h : connectOne st idx parent model fa = Except.ok st') : cview st' = cview st := by
  unfold connectOne at h
  obtain ⟨⟨cn, ci⟩, _, h⟩ := bind_ok h
  obtain ⟨⟨pn, pi⟩, _, h⟩ := bind_ok h
  simp only [] at h
  split at h
  · cases h; exact cv_updInst _ _ _ (fun _ => rfl)
  · split at h
    · cases h
    · cases h; simp

theorem cv_connectAll {idx : Nat} {parent model : String} (l : List (String × String)) :
    ∀ {st st' : St}, connectAll st idx parent model l = Except.ok st' → cview st' = cview st := by
  induction l with
  | nil => intro st st' h; cases h; rfl
  | cons fa r ih =>
    intro st st' h
    unfold connectAll at h
    obtain ⟨s1, h1, h2⟩ := bind_ok h
    rw [ih h2, cv_connectOne h1]

theorem cv_declFormals {model : String} (l : List (String × String)) :
    ∀ {st st' : St}, declFormals st model l = Except.ok st' → cview st' = cview st := by
  induction l with
  | nil => intro st st' h; cases h; rfl
  | cons fa r ih =>
    intro st st' h
    unfold declFormals at h
    obtain ⟨s1, h1, h2⟩ := bind_ok h
    rw [ih h2]
    unfold declFormal at h1
    obtain ⟨⟨pn, pi⟩, _, h1⟩ := bind_ok h1
    simp only [] at h1
    cases h1
    split <;> simp

theorem cv_applyInfo {idx : Nat} {parent : String} (l : List InfoStmt) :
    ∀ {st st' : St}, applyInfo st idx parent l = Except.ok st' → cview st' = cview st := by
  induction l with
  | nil => intro st st' h; cases h; rfl
  | cons x r ih =>
    intro st st' h
    cases x with
    | cname n =>
      unfold applyInfo at h
      obtain ⟨s1, h1, h2⟩ := bind_ok h
      rw [ih h2, cv_renameStrict h1]
      exact cv_updInst _ _ _ (fun _ => rfl)
    | attr k v =>
      unfold applyInfo at h
      rw [ih h]; exact cv_updInst st idx (fun i => { i with attrs := dictSet i.attrs k v }) (fun _ => rfl)
    | param k v =>
      unfold applyInfo at h
      rw [ih h]; exact cv_updInst st idx (fun i => { i with params := dictSet i.params k v }) (fun _ => rfl)

theorem upd_last (l : List Inst) (x : Inst) (f : Inst → Inst) :
    (l ++ [x]).zipIdx.map (fun (p : Inst × Nat) => if p.2 = l.length then f p.1 else p.1) = l ++ [f x] := by
  rw [List.zipIdx_append, List.map_append]
  congr 1
  · have : ∀ p ∈ l.zipIdx, (fun (p : Inst × Nat) => if p.2 = l.length then f p.1 else p.1) p = Prod.fst p := by
      intro p hp
      have := List.mem_zipIdx_iff_getElem?.mp hp
      have hlt : p.2 < l.length := (List.getElem?_eq_some_iff.mp this).1
      have : ¬ p.2 = l.length := by omega
      simp [this]
    rw [List.map_congr_left this, List.zipIdx_map_fst]
  · simp

theorem cv_set_last' (s : St) (l : List Inst) (x : Inst) (hs : s.insts = l ++ [x]) (c : List String) :
    cview (updInst s l.length (fun i => { i with covers := some c })) = l.map (·.covers) ++ [some c] := by
  simp only [cview, updInst, hs]
  rw [upd_last l x (fun i => { i with covers := some c })]
  simp

/-- setting the covers of the instance just created -/
theorem cv_set_last (st : St) (p m t : String) (c : List String) :
    cview (updInst (newInst st p m t).1 st.insts.length (fun i => { i with covers := some c })) = cview st ++ [some c] :=
  cv_set_last' (newInst st p m t).1 st.insts _ rfl c

theorem cv_elabStmt {st st' : St} {cur : String} {s : Stmt} (h : elabStmt st cur s = Except.ok st') :
    cview st' = cview st ++ stmtCov s := by
  cases s with
  | subckt gate model conns info =>
    unfold elabStmt at h
    simp only [] at h
    obtain ⟨s1, h1, h⟩ := bind_ok h
    obtain ⟨s2, h2, h⟩ := bind_ok h
    rw [cv_applyInfo info h, cv_connectAll _ h2, cv_assignDefault, cv_newInst, cv_declFormals conns h1]
    simp [stmtCov]
  | names nets covers info =>
    unfold elabStmt at h
    simp only [] at h
    split at h
    · cases h
    · obtain ⟨s1, h1, h⟩ := bind_ok h
      obtain ⟨s2, h2, h⟩ := bind_ok h
      rw [cv_applyInfo info h, cv_connectAll _ h2]
      have e1 : cview s1 = cview st ++ [some covers] := by
        split at h1
        · cases h1
          rw [cv_assignDefault, newInst_snd, cv_set_last]; simp
        · rw [cv_rename h1, newInst_snd, cv_set_last]; simp
      rw [e1]; rfl
  | latch toks info =>
    unfold elabStmt at h
    simp only [] at h
    split at h
    · cases h
    · obtain ⟨s1, h1, h⟩ := bind_ok h
      obtain ⟨s2, h2, h⟩ := bind_ok h
      rw [cv_applyInfo info h, cv_connectAll _ h2, cv_rename h1, cv_newInst, cv_addLatchPorts]
      simp [stmtCov]
  | conn a b =>
    unfold elabStmt at h
    obtain ⟨⟨n1, i1⟩, _, h⟩ := bind_ok h
    obtain ⟨⟨n2, i2⟩, _, h⟩ := bind_ok h
    simp only [] at h
    cases h
    simp [stmtCov]
  | blackbox =>
    unfold elabStmt at h
    cases h
    simp [stmtCov]

theorem cv_elabStmts {cur : String} (l : List Stmt) :
    ∀ {st st' : St}, elabStmts st cur l = Except.ok st' → cview st' = cview st ++ l.flatMap stmtCov := by
  induction l with
  | nil => intro st st' h; cases h; simp
  | cons s r ih =>
    intro st st' h
    unfold elabStmts at h
    obtain ⟨s1, h1, h2⟩ := bind_ok h
    rw [ih h2, cv_elabStmt h1]; simp

theorem cv_elabInput {st st' : St} {cur tok : String} (h : elabInput st cur tok = Except.ok st') : cview st' = cview st := by
  unfold elabInput at h
  obtain ⟨⟨pn, pi⟩, _, h⟩ := bind_ok h
  simp only [] at h
  cases h
  rw [cv_connect, cv_growPort]; split <;> simp

theorem cv_elabOutput {st st' : St} {cur tok : String} (h : elabOutput st cur tok = Except.ok st') : cview st' = cview st := by
  unfold elabOutput at h
  obtain ⟨⟨pn, pi⟩, _, h⟩ := bind_ok h
  simp only [] at h
  split at h
  · cases h; simp
  · cases h; simp

theorem cv_elabToks (f : St → String → String → Except Err St)
    (hf : ∀ {st st' : St} {cur tok : String}, f st cur tok = Except.ok st' → cview st' = cview st)
    {cur : String} (l : List String) :
    ∀ {st st' : St}, elabToks f st cur l = Except.ok st' → cview st' = cview st := by
  induction l with
  | nil => intro st st' h; cases h; rfl
  | cons w r ih =>
    intro st st' h
    unfold elabToks at h
    obtain ⟨s1, h1, h2⟩ := bind_ok h
    rw [ih h2, hf h1]

theorem cv_elabHdrs {cur : String} (l : List Hdr) :
    ∀ {st st' : St}, elabHdrs st cur l = Except.ok st' → cview st' = cview st := by
  induction l with
  | nil => intro st st' h; cases h; rfl
  | cons x r ih =>
    intro st st' h
    unfold elabHdrs at h
    obtain ⟨s1, h1, h2⟩ := bind_ok h
    rw [ih h2]
    cases x with
    | inputs l => exact cv_elabToks elabInput (fun h => cv_elabInput h) l h1
    | outputs l => exact cv_elabToks elabOutput (fun h => cv_elabOutput h) l h1
    | clock l => unfold elabHdr at h1; cases h1; rfl

theorem cv_beginModel (st : St) (n : String) : cview (beginModel st n) = cview st := by
  have e : cview (updDef (ensureDef st n) n (fun d => { d with declared := true })) = cview st := by simp
  unfold beginModel
  simp only []
  split
  · exact e
  · exact e

theorem cv_elabModels (ms : List Model) :
    ∀ {st st' : St}, elabModels st ms = Except.ok st' →
      cview st' = cview st ++ ms.flatMap (fun m => m.body.flatMap stmtCov) := by
  induction ms with
  | nil => intro st st' h; cases h; simp
  | cons m r ih =>
    intro st st' h
    unfold elabModels at h
    obtain ⟨s1, h1, h2⟩ := bind_ok h
    unfold elabModel at h1
    obtain ⟨s0, h0, h1⟩ := bind_ok h1
    rw [ih h2, cv_elabStmts _ h1, cv_elabHdrs _ h0, cv_beginModel]
    simp

/-- **truth tables are read faithfully, all inputs**: whatever syntax tree the elaborator accepts,
    the instances of the result carry, in order, the cover rows of the statements that created them -/
theorem covers_elab (a : BAst) (n : BNet) (h : elabB a = Except.ok n) :
    n.insts.map (·.covers) = a.models.flatMap (fun m => m.body.flatMap stmtCov) := by
  unfold elabB at h
  obtain ⟨st, h1, h⟩ := bind_ok h
  simp only [] at h
  unfold elabSt at h1
  obtain ⟨s0, h0, h1⟩ := bind_ok h1
  cases h1
  obtain ⟨_, _, _, hins⟩ := applyConvention_pres _ h
  have e1 : n.insts.map (·.covers) = (n.insts.map eraseName).map (·.covers) := by rw [List.map_map]; rfl
  have e2 : s0.insts.map (·.covers) = (s0.insts.map eraseName).map (·.covers) := by rw [List.map_map]; rfl
  have := cv_elabModels a.models h0
  simp only [cview] at this
  rw [e1, hins]
  show (s0.insts.map eraseName).map (·.covers) = _
  rw [← e2, this]
  simp

theorem covers_read (text : List Char) (n : BNet) (h : readB text = Except.ok n) :
    ∃ a, parseB (lexB text) = Except.ok a ∧
      n.insts.map (·.covers) = a.models.flatMap (fun m => m.body.flatMap stmtCov) := by
  unfold readB at h
  obtain ⟨a, ha, h⟩ := bind_ok h
  exact ⟨a, ha, covers_elab a n h⟩

/-! ### the truth tables across write-then-read -/

/-- the cover rows instance `k` has after the round trip: its rows, each split at blanks and joined
    again by the reader (`coverText`), for a `.names` child; none for the other kinds -/
def covOfKid (k : Inst × Nat) : Option (List String) :=
  if k.1.typ = "EBLIF.names" then some ((coverRows k.1).map coverText) else none

theorem stmtCov_full (o : Opts) (n : BNet) (k : Inst × Nat) : stmtCov (stmtOfFull o n k) = [covOfKid k] := by
  unfold stmtOfFull covOfKid
  by_cases hn : k.1.typ = "EBLIF.names"
  · simp [hn, stmtCov]
  · by_cases hl : k.1.typ = "EBLIF.latch" <;> simp [hn, hl, stmtCov]

theorem stmtCov_conns (n : BNet) (d : DefD) : (connStmts n d).flatMap stmtCov = [] := by
  rw [connStmts_eq]
  simp [List.flatMap_map, stmtCov]

/-- **the truth tables survive write-then-read** (needs only `WellNamed` and `FragFull`) -/
theorem roundtrip_covers (o : Opts) (n : BNet) (t : String) (hw : WellNamed n) (hf : FragFull n t)
    (n' : BNet) (h : readB (composeText o n) = Except.ok n') :
    n'.insts.map (·.covers) = (kidsFull n t).map covOfKid := by
  rw [read_composed_full o n t hw hf] at h
  rw [covers_elab _ _ h]
  simp only [astOfFull, List.flatMap_append, List.flatMap_cons, List.flatMap_nil, List.append_nil]
  have hbb : (bbPart o n t).flatMap (fun m => m.body.flatMap stmtCov) = [] := by
    unfold bbPart
    split
    · simp [List.flatMap_map, bbModel, stmtCov]
    · rfl
  rw [hbb, stmtCov_conns, List.flatMap_map]
  simp only [stmtCov_full, List.append_nil]
  rw [← List.map_eq_flatMap]

/-- covers in the reader's normal form: `.names` instances carry rows that `coverText ∘ splitOnBlank`
    leaves alone (words joined by one blank, as the reader stores them), other instances carry none -/
def CoversNF (n : BNet) : Prop :=
  ∀ i ∈ n.insts, if i.typ = "EBLIF.names" then
      ∃ cs, i.covers = some cs ∧ ∀ c ∈ cs, coverText (splitOnBlank c.toList) = c
    else i.covers = none

instance (n : BNet) : Decidable (CoversNF n) := by
  unfold CoversNF
  have : ∀ i : Inst, Decidable (∃ cs, i.covers = some cs ∧ ∀ c ∈ cs, coverText (splitOnBlank c.toList) = c) := by
    intro i
    cases h : i.covers with
    | none => exact isFalse (by rintro ⟨cs, h1, _⟩; cases h1)
    | some cs =>
      by_cases hc : ∀ c ∈ cs, coverText (splitOnBlank c.toList) = c
      · exact isTrue ⟨cs, rfl, hc⟩
      · exact isFalse (by rintro ⟨cs', h1, h2⟩; cases h1; exact hc h2)
  infer_instance

theorem covOfKid_nf (n : BNet) (hc : CoversNF n) (k : Inst × Nat) (hk : k.1 ∈ n.insts) : covOfKid k = k.1.covers := by
  have := hc k.1 hk
  unfold covOfKid
  by_cases hn : k.1.typ = "EBLIF.names"
  · simp only [hn, if_true] at this ⊢
    obtain ⟨cs, h1, h2⟩ := this
    rw [h1]
    unfold coverRows
    rw [h1]
    simp only [List.map_map, Option.some.injEq]
    have : ∀ c ∈ cs, (coverText ∘ fun c => splitOnBlank c.toList) c = id c := fun c hcm => h2 c hcm
    rw [List.map_congr_left this]; simp
  · simp only [hn, if_false] at this ⊢
    exact this.symm

end Spydr.Eblif
