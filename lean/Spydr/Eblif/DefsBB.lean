/-
  Ports of the instantiated definitions through the black-box models written after the top model.
-/
import Spydr.Eblif.DefsBody

namespace Spydr.Eblif

theorem portsOf_updDef_keep (st : St) (n : String) (f : DefD → DefD) (h1 : ∀ x, (f x).name = x.name)
    (h2 : ∀ x, (f x).ports = x.ports) (m : String) : portsOf (updDef st n f) m = portsOf st m := by
  unfold portsOf
  rw [findDef_updDef st n f h1 m]
  cases findDef st m with
  | none => rfl
  | some d => simp only [Option.map_some]; split <;> simp [h2]

theorem defEx_updDef {st : St} {m : String} (hd : DefEx st m) (n : String) (f : DefD → DefD) (h1 : ∀ x, (f x).name = x.name) :
    DefEx (updDef st n f) m := by
  unfold DefEx at *
  rw [findDef_updDef st n f h1 m]
  cases h : findDef st m with
  | none => rw [h] at hd; cases hd
  | some d => rfl

theorem ubd_setDir {st : St} {m : String} {W : String → Nat} (hd : DefEx st m) (u : UBd st m W) (pn : String) (d : Dir) :
    UBd (setDir st m pn d) m W := by
  intro p hp
  rw [portsOf_setDir st m pn d hd] at hp
  unfold setDirL at hp
  obtain ⟨q, hq, rfl⟩ := List.mem_map.mp hp
  by_cases hqn : q.name = pn
  · simp only [hqn, if_true]; have := u q hq; rw [hqn] at this; exact this
  · simp only [hqn, if_false]; exact u q hq

theorem defEx_setDir {st : St} {m : String} (hd : DefEx st m) (dn pn : String) (d : Dir) : DefEx (setDir st dn pn d) m :=
  defEx_of_dv (by simp) hd

theorem ubd_elabInput {st st' : St} {m tok pn : String} {pi : Nat} {W : String → Nat} (hd : DefEx st m) (u : UBd st m W)
    (hs : splitIdx tok = Except.ok (pn, pi)) (hlt : pi < W pn) (h : elabInput st m tok = Except.ok st') :
    UBd st' m W ∧ DefEx st' m := by
  unfold elabInput at h
  rw [hs] at h
  simp only [bind, Except.bind, pure, Except.pure] at h
  cases h
  have h1 : UBd (if hasPort st m pn = true then setDir st m pn Dir.inp else addPort st m pn Dir.inp 0) m W ∧
      DefEx (if hasPort st m pn = true then setDir st m pn Dir.inp else addPort st m pn Dir.inp 0) m := by
    split
    · exact ⟨ubd_setDir hd u pn Dir.inp, defEx_setDir hd m pn Dir.inp⟩
    · exact ⟨ubd_addPort hd u pn Dir.inp 0 (Nat.zero_le _), defEx_addPort hd m pn Dir.inp 0⟩
  refine ⟨ubd_of_ports (portsOf_connect _ _ _ _ _ _) (ubd_growPort h1.2 h1.1 pn _ (by omega)), ?_⟩
  exact defEx_of_dv (by simp) h1.2

theorem ubd_elabOutput {st st' : St} {m tok pn : String} {pi : Nat} {W : String → Nat} (hd : DefEx st m) (u : UBd st m W)
    (hs : splitIdx tok = Except.ok (pn, pi)) (hlt : pi < W pn) (h : elabOutput st m tok = Except.ok st') :
    UBd st' m W ∧ DefEx st' m := by
  unfold elabOutput at h
  rw [hs] at h
  simp only [bind, Except.bind, pure, Except.pure] at h
  have u1 := ubd_addPort hd u pn Dir.out 0 (Nat.zero_le _)
  have d1 := defEx_addPort hd m pn Dir.out 0
  split at h
  · cases h
    have d2 := defEx_setDir d1 m pn Dir.inout
    exact ⟨ubd_growPort d2 (ubd_setDir d1 u1 pn Dir.inout) pn _ (by omega), defEx_growPort d2 m pn _⟩
  · cases h
    have d2 := defEx_setDir d1 m pn Dir.out
    refine ⟨ubd_of_ports (portsOf_connect _ _ _ _ _ _) (ubd_growPort d2 (ubd_setDir d1 u1 pn Dir.out) pn _ (by omega)), ?_⟩
    exact defEx_of_dv (by simp) d2

theorem ubd_elabToks (f : St → String → String → Except Err St) {m : String} {W : String → Nat}
    (hf : ∀ {st st' : St} {tok pn : String} {pi : Nat}, DefEx st m → UBd st m W → splitIdx tok = Except.ok (pn, pi) →
      pi < W pn → f st m tok = Except.ok st' → UBd st' m W ∧ DefEx st' m)
    (l : List String) (hl : ∀ w ∈ l, ∃ pn pi, splitIdx w = Except.ok (pn, pi) ∧ pi < W pn) :
    ∀ {st st' : St}, DefEx st m → UBd st m W → elabToks f st m l = Except.ok st' → UBd st' m W ∧ DefEx st' m := by
  induction l with
  | nil => intro st st' hd u h; cases h; exact ⟨u, hd⟩
  | cons w r ih =>
    intro st st' hd u h
    unfold elabToks at h
    obtain ⟨s1, h1, h2⟩ := bind_ok h
    obtain ⟨pn, pi, hs, hlt⟩ := hl w (by simp)
    obtain ⟨u1, d1⟩ := hf hd u hs hlt h1
    exact ih (fun x hx => hl x (by simp [hx])) d1 u1 h2

theorem ubd_beginModel {st : St} {m : String} {W : String → Nat} (u : UBd st m W) :
    UBd (beginModel st m) m W ∧ DefEx (beginModel st m) m := by
  have u1 := ubd_ensureDef u
  have d1 : DefEx (ensureDef st m) m := defEx_ensureDef _ _
  have u2 : UBd (updDef (ensureDef st m) m (fun d => { d with declared := true })) m W :=
    ubd_of_ports (portsOf_updDef_keep (ensureDef st m) m (fun d => { d with declared := true }) (fun _ => rfl) (fun _ => rfl) m) u1
  have d2 := defEx_updDef d1 m (fun d => { d with declared := true }) (fun _ => rfl)
  have hdefs : (beginModel st m).defs = (updDef (ensureDef st m) m (fun d => { d with declared := true })).defs := by
    unfold beginModel; simp only []; split <;> rfl
  exact ⟨ubd_of_ports (portsOf_of_defs hdefs m) u2, by unfold DefEx at *; rw [findDef_of_defs hdefs]; exact d2⟩

/-- the black-box model of `d` itself: its header words name ports within the bound -/
theorem ubd_bbmodel_self {s s' : St} (d : DefD) {W : String → Nat}
    (hw : ∀ p ∈ d.ports, plainName p.name ∧ p.name.toList ≠ [] ∧ 1 ≤ W p.name)
    (u : UBd s d.name W) (h : elabModel s (bbModel d) = Except.ok s') : UBd s' d.name W := by
  unfold elabModel at h
  obtain ⟨sh, hh, hb⟩ := bind_ok h
  simp only [bbModel] at hh hb
  unfold elabStmts at hb
  obtain ⟨s2, h2, hb⟩ := bind_ok hb
  unfold elabStmts at hb
  cases hb
  unfold elabStmt at h2
  cases h2
  obtain ⟨u0, d0⟩ := ubd_beginModel u
  unfold elabHdrs at hh
  obtain ⟨sa, hin, hh⟩ := bind_ok hh
  unfold elabHdrs at hh
  obtain ⟨sb, hout, hh⟩ := bind_ok hh
  unfold elabHdrs at hh
  cases hh
  simp only [elabHdr] at hin hout
  have hwords : ∀ (P : List PortD), (∀ p ∈ P, p ∈ d.ports) →
      ∀ w ∈ P.map (·.name), ∃ pn pi, splitIdx w = Except.ok (pn, pi) ∧ pi < W pn := by
    intro P hP w hwm
    obtain ⟨p, hp, rfl⟩ := List.mem_map.mp hwm
    obtain ⟨h1, h2, h3⟩ := hw p (hP p hp)
    exact ⟨p.name, 0, splitIdx_plain _ h1 h2, by omega⟩
  obtain ⟨u1, d1⟩ := ubd_elabToks elabInput (fun hd u hs hlt h => ubd_elabInput hd u hs hlt h) _
    (hwords (d.ports.filter (fun p => p.dir = Dir.inp)) (fun p hp => (List.mem_filter.mp hp).1)) d0 u0 hin
  obtain ⟨u2, d2⟩ := ubd_elabToks elabOutput (fun hd u hs hlt h => ubd_elabOutput hd u hs hlt h) _
    (hwords (d.ports.filter (fun p => p.dir = Dir.out)) (fun p hp => (List.mem_filter.mp hp).1)) d1 u1 hout
  refine ubd_of_ports (portsOf_updDef_keep (clearOwner sh d.name) d.name (fun x => { x with blackbox := true }) (fun _ => rfl) (fun _ => rfl) d.name) ?_
  exact ubd_of_ports (portsOf_of_defs (b := clearOwner sh d.name) rfl d.name) u2

theorem absent_updDef {st : St} {x : String} (hx : findDef st x = none) (n : String) (f : DefD → DefD)
    (h1 : ∀ d, (f d).name = d.name) : findDef (updDef st n f) x = none := by
  rw [findDef_updDef st n f h1 x, hx]; rfl

/-- the black-box model of another definition leaves the ports of `m` alone -/
theorem portsOf_other_bbmodel {s s' : St} (d : DefD) (m : String) (hne : m ≠ d.name)
    (h : elabModel s (bbModel d) = Except.ok s') : portsOf s' m = portsOf s m := by
  unfold elabModel at h
  obtain ⟨sh, hh, hb⟩ := bind_ok h
  simp only [bbModel] at hh hb
  unfold elabStmts at hb
  obtain ⟨s2, h2, hb⟩ := bind_ok hb
  unfold elabStmts at hb
  cases hb
  unfold elabStmt at h2
  cases h2
  have hlast : portsOf (updDef (clearOwner sh d.name) d.name (fun x => { x with blackbox := true })) m = portsOf sh m :=
    portsOf_updDef_keep (clearOwner sh d.name) d.name (fun x => { x with blackbox := true }) (fun _ => rfl) (fun _ => rfl) m
  rw [hlast]
  cases hf : findDef s m with
  | some dd =>
    have hd : DefEx s m := by unfold DefEx; rw [hf]; rfl
    have fb := fr_beginModel hd d.name hne
    unfold elabHdrs at hh
    obtain ⟨sa, hin, hh⟩ := bind_ok hh
    unfold elabHdrs at hh
    obtain ⟨sb, hout, hh⟩ := bind_ok hh
    unfold elabHdrs at hh
    cases hh
    simp only [elabHdr] at hin hout
    have fa := Fr.trans fb (fr_elabToks elabInput (fun hd h => fr_elabInput hd hne h) _ fb.2 hin)
    have fo := Fr.trans fa (fr_elabToks elabOutput (fun hd h => fr_elabOutput hd hne h) _ fa.2 hout)
    exact fo.1
  | none =>
    have h0 : findDef (beginModel s d.name) m = none := by
      have a1 := absent_ensureDef hf hne
      have a2 := absent_updDef a1 d.name (fun x => { x with declared := true }) (fun _ => rfl)
      have hdefs : (beginModel s d.name).defs = (updDef (ensureDef s d.name) d.name (fun x => { x with declared := true })).defs := by
        unfold beginModel; simp only []; split <;> rfl
      rw [findDef_of_defs hdefs]; exact a2
    have h1 : findDef sh m = none := absent_of_dv (dv_elabHdrs _ hh) h0
    unfold portsOf
    rw [h1, hf]

/-- all black-box models: the bound is kept when the model of `m` itself (if written) names ports
    within the bound -/
theorem ubd_bbmodels (m : String) (W : String → Nat) (ds : List DefD)
    (hds : ∀ d ∈ ds, d.name = m → ∀ p ∈ d.ports, plainName p.name ∧ p.name.toList ≠ [] ∧ 1 ≤ W p.name) :
    ∀ {s s' : St}, UBd s m W → elabModels s (ds.map bbModel) = Except.ok s' → UBd s' m W := by
  induction ds with
  | nil => intro s s' u h; cases h; exact u
  | cons d r ih =>
    intro s s' u h
    simp only [List.map_cons] at h
    unfold elabModels at h
    obtain ⟨s1, h1, h2⟩ := bind_ok h
    have u1 : UBd s1 m W := by
      by_cases hm : d.name = m
      · subst hm
        exact ubd_bbmodel_self d (hds d (by simp) rfl) u h1
      · exact ubd_of_ports (portsOf_other_bbmodel d m (fun e => hm e.symm) h1) u
    exact ih (fun x hx => hds x (by simp [hx])) u1 h2

end Spydr.Eblif
