/-
  Ports of the instantiated definitions through one child block and through all of them: lower bound
  (every connected pin's port bit exists afterwards) and upper bound (`UBd`).
-/
import Spydr.Eblif.DefsLatch

namespace Spydr.Eblif.Any

open Spydr.Eblif

theorem kid_ports (o : Opts) (n : BNet) (t : String) (hw : WellNamed n)
    (hc : ∀ c ∈ n.cables, plainName c.1.2 ∧ c.1.2 ≠ "unconn" ∧ c.1.2.toList ≠ []) (k : Inst × Nat) (hki : k ∈ n.insts.zipIdx)
    (hs : KidShape n k) (st st' : St) (hstd : k.1.typ = "EBLIF.names" → Std st (k.1.pins.length - 1))
    (hsl : StdL st) (hsep : k.1.typ ≠ "EBLIF.latch" → k.1.model ≠ "generic-latch")
    (h : elabStmt st t (stmtOfFull o n k) = Except.ok st') :
    (∀ q ∈ k.1.pins, ∃ p, findIn (portsOf st' k.1.model) q.1 = some p ∧ q.2 < p.width) ∧
    (∀ m W, (m = k.1.model → ∀ q ∈ k.1.pins, q.2 < W q.1) → UBd st m W → UBd st' m W) ∧
    PMono st st' ∧ StdL st' := by
  have hi := isInst_full o n k
  have hmod := stmtModel_full o n k hs
  have hother : ∀ m W, m ≠ k.1.model → UBd st m W → UBd st' m W := by
    intro m W hne u
    exact ubd_of_ports (portsOf_other_stmt hi (by rw [hmod]; exact hne) h) u
  have hstdl : StdL st' := by
    by_cases hl : k.1.typ = "EBLIF.latch"
    · have hn : ¬ k.1.typ = "EBLIF.names" := by rw [hl]; decide
      have e : stmtOfFull o n k = Stmt.latch (latchToks n k.2 k.1) (infoStmts o k.1) := by
        unfold stmtOfFull; simp [hn, hl]
      have hs' := hs
      unfold KidShape at hs'
      simp only [hn, hl, if_false, if_true] at hs'
      obtain ⟨_, _, h5, h4, _⟩ := hs'
      have hz : (latchOrder.zip (latchToks n k.2 k.1)).map (·.1) = latchOrder.take k.1.pins.length := by
        rw [latchToks_eq, h4, List.map_map, zip_take_map, List.map_map]
        exact (List.map_congr_left (fun x _ => rfl)).trans (List.map_id _)
      rw [e] at h
      obtain ⟨hd', a, ha, _, hp'⟩ := stdL_latch k.1.pins.length h5 hz hsl h
      exact Or.inr ⟨hd', a, ha, hp'⟩
    · exact stdL_other hi (by rw [hmod]; exact fun e => hsep hl e.symm) hsl h
  refine ⟨?_, ?_, pm_elabStmt h, hstdl⟩
  · -- lower bound
    intro q hq
    by_cases hn : k.1.typ = "EBLIF.names"
    · have hK := namesNets_len n k hn hs
      have e : stmtOfFull o n k = Stmt.names (namesNets n k.2 k.1) ((coverRows k.1).map coverText) (infoStmts o k.1) := by
        unfold stmtOfFull; simp [hn]
      rw [e] at h
      obtain ⟨_, hp⟩ := std_names_self (by rw [hK]; exact hstd hn) h
      rw [hK] at hp
      have hs' := hs
      unfold KidShape at hs'
      simp only [hn, if_true] at hs'
      obtain ⟨_, hm, h3, h4⟩ := hs'
      have := h4 q hq
      rw [h3] at this
      obtain ⟨p, hpm, rfl⟩ := List.mem_map.mp this
      rw [hm, hp]
      refine ⟨p, findIn_of_mem_nodup (stdNames_nodup _) hpm, ?_⟩
      unfold stdNamesPorts at hpm
      rcases List.mem_append.mp hpm with h' | h'
      · obtain ⟨j, _, rfl⟩ := List.mem_map.mp h'; exact Nat.zero_lt_one
      · simp only [List.mem_singleton] at h'; subst h'; exact Nat.zero_lt_one
    · by_cases hl : k.1.typ = "EBLIF.latch"
      · have e : stmtOfFull o n k = Stmt.latch (latchToks n k.2 k.1) (infoStmts o k.1) := by
          unfold stmtOfFull; simp [hn, hl]
        rw [e] at h
        have hs' := hs
        unfold KidShape at hs'
        simp only [hn, hl, if_false, if_true] at hs'
        obtain ⟨hm, _, h5', h4, h5⟩ := hs'
        have := h5 q hq
        rw [h4] at this
        obtain ⟨pt, hpt, rfl⟩ := List.mem_map.mp this
        have hz : (latchOrder.zip (latchToks n k.2 k.1)).map (·.1) = latchOrder.take k.1.pins.length := by
          rw [latchToks_eq, h4, List.map_map, zip_take_map, List.map_map]
          exact (List.map_congr_left (fun x _ => rfl)).trans (List.map_id _)
        obtain ⟨_, a, ha, hma, hp'⟩ := stdL_latch k.1.pins.length h5' hz hsl h
        obtain ⟨p, hp, hw⟩ := latch_width_one k.1.pins.length (by simp; omega) a (by simp; omega) hma pt hpt
        rw [hm, hp']
        exact ⟨p, hp, by simp only; omega⟩
      · have e : stmtOfFull o n k = Stmt.subckt (k.1.typ = "EBLIF.gate") k.1.model (connsOf n k.2 k.1) (infoStmts o k.1) := by
          unfold stmtOfFull; simp [hn, hl]
        rw [e] at h
        have hs' := hs
        unfold KidShape at hs'
        simp only [hn, hl, if_false] at hs'
        obtain ⟨hnd, hpp, hex⟩ := hs'
        obtain ⟨p0, hp0, hpq⟩ := hex q hq
        have hi' : k.1 ∈ n.insts := mem_zipIdx_fst hki
        obtain ⟨_, hmod', _⟩ := hw.2.2.1 k.1 hi'
        obtain ⟨_, hpn, _⟩ := findDef_ok hw hmod'
        obtain ⟨hpl, hb⟩ := hpp p0 hp0
        have hform : splitIdx (formalText p0 q.2) = Except.ok (q.1, q.2) := by
          rw [← hpq]
          exact splitIdx_formalText p0 q.2 hpl (okWord_nonempty (hpn p0 hp0)) (hb q hq hpq.symm)
        have hfa : (formalText p0 q.2, netText n (Pin.inst k.2 q.1 q.2)) ∈ connsOf n k.2 k.1 := by
          unfold connsOf
          refine List.mem_flatMap.mpr ⟨p0, hp0, List.mem_map.mpr ⟨q, ?_, rfl⟩⟩
          simp only [List.mem_filter, List.mem_reverse, decide_eq_true_eq]
          exact ⟨hq, hpq.symm⟩
        unfold elabStmt at h
        simp only [] at h
        obtain ⟨sa, ha, h⟩ := bind_ok h
        obtain ⟨sb, hb', h⟩ := bind_ok h
        obtain ⟨p, hp, hlt⟩ := declFormals_port _ (defEx_ensureDef _ _) ha _ hfa q.1 q.2 hform
        have hp0' : ∃ p0', findIn (portsOf (assignDefault (newInst sa t k.1.model
            (if (decide (k.1.typ = "EBLIF.gate")) = true then "EBLIF.gate" else "EBLIF.subckt")).1
            (newInst sa t k.1.model (if (decide (k.1.typ = "EBLIF.gate")) = true then "EBLIF.gate" else "EBLIF.subckt")).2 t k.1.model)
            k.1.model) q.1 = some p0' ∧ p.width ≤ p0'.width := ⟨p, hp, Nat.le_refl _⟩
        obtain ⟨p0', hp0'', l0⟩ := hp0'
        obtain ⟨p1, hp1, l1⟩ := pm_connectAll _ hb' k.1.model q.1 p0' hp0''
        obtain ⟨p2, hp2, l2⟩ := pm_applyInfo _ h k.1.model q.1 p1 hp1
        exact ⟨p2, hp2, by omega⟩
  · -- upper bound
    intro m W hreq u
    by_cases hm : m = k.1.model
    · have hr := hreq hm
      subst hm
      by_cases hn : k.1.typ = "EBLIF.names"
      · have hK := namesNets_len n k hn hs
        have e : stmtOfFull o n k = Stmt.names (namesNets n k.2 k.1) ((coverRows k.1).map coverText) (infoStmts o k.1) := by
          unfold stmtOfFull; simp [hn]
        rw [e] at h
        have hs' := hs
        unfold KidShape at hs'
        simp only [hn, if_true] at hs'
        obtain ⟨_, hmm, h3, _⟩ := hs'
        have := ubd_names (W := W) (by rw [hK]; exact hstd hn) (by
          intro p hpm
          rw [hK] at hpm
          have hq : (p.name, 0) ∈ k.1.pins := by
            apply namesPins_sub n k.1
            rw [h3]; exact List.mem_map.mpr ⟨p, hpm, rfl⟩
          exact hr _ hq) h
        rw [hK, ← hmm] at this
        exact this
      · by_cases hl : k.1.typ = "EBLIF.latch"
        · have e : stmtOfFull o n k = Stmt.latch (latchToks n k.2 k.1) (infoStmts o k.1) := by
            unfold stmtOfFull; simp [hn, hl]
          rw [e] at h
          have hs' := hs
          unfold KidShape at hs'
          simp only [hn, hl, if_false, if_true] at hs'
          obtain ⟨hmm, _, _, h4, _⟩ := hs'
          rw [hmm] at u ⊢
          refine ubd_latch (by
            intro o' ho'
            have hzip : latchOrder.zip (latchToks n k.2 k.1) =
                (latchOrder.take k.1.pins.length).map (fun x => (x, netText n (Pin.inst k.2 x 0))) := by
              rw [latchToks_eq, h4, List.map_map, zip_take_map]; rfl
            rw [hzip, List.map_map] at ho'
            obtain ⟨pt, hpt, rfl⟩ := List.mem_map.mp ho'
            have hq : (pt, 0) ∈ k.1.pins := by
              apply latchPins_sub k.1
              rw [h4]; exact List.mem_map.mpr ⟨pt, hpt, rfl⟩
            exact hr _ hq) u h
        · have e : stmtOfFull o n k = Stmt.subckt (k.1.typ = "EBLIF.gate") k.1.model (connsOf n k.2 k.1) (infoStmts o k.1) := by
            unfold stmtOfFull; simp [hn, hl]
          rw [e] at h
          have hs' := hs
          unfold KidShape at hs'
          simp only [hn, hl, if_false] at hs'
          obtain ⟨hnd, hpp, _⟩ := hs'
          have hi' : k.1 ∈ n.insts := mem_zipIdx_fst hki
          obtain ⟨_, hmod', _⟩ := hw.2.2.1 k.1 hi'
          obtain ⟨_, hpn, _⟩ := findDef_ok hw hmod'
          have hreq' : ∀ fa ∈ connsOf n k.2 k.1, ∀ pn pi, splitIdx fa.1 = Except.ok (pn, pi) → pi < W pn := by
            intro fa hfa pn pi hsp
            unfold connsOf at hfa
            obtain ⟨p, hpm, hfa⟩ := List.mem_flatMap.mp hfa
            obtain ⟨q, hq, rfl⟩ := List.mem_map.mp hfa
            simp only [List.mem_filter, List.mem_reverse, decide_eq_true_eq] at hq
            obtain ⟨hpl, hb⟩ := hpp p hpm
            have := splitIdx_formalText p q.2 hpl (okWord_nonempty (hpn p hpm)) (hb q hq.1 hq.2)
            simp only at hsp
            rw [this] at hsp
            simp only [Except.ok.injEq, Prod.mk.injEq] at hsp
            rw [← hsp.1, ← hsp.2, ← hq.2]
            exact hr q hq.1
          exact ubd_subckt hreq' (by rw [infoMapOf_nodup _ hnd]; exact hreq') u h
    · exact hother m W hm u

/-- all child blocks: port facts of the state `elabStmts` reaches -/
theorem body_ports (o : Opts) (n : BNet) (t : String) (hw : WellNamed n)
    (hc : ∀ c ∈ n.cables, plainName c.1.2 ∧ c.1.2 ≠ "unconn" ∧ c.1.2.toList ≠ []) (hk : KidsOKF n t)
    (hkids : ∀ i ∈ n.insts, i.parent = t ∧
      (i.typ = "EBLIF.subckt" ∨ i.typ = "EBLIF.gate" ∨ i.typ = "EBLIF.names" ∨ i.typ = "EBLIF.latch"))
    (hlsep : ∀ k ∈ n.insts.zipIdx, k.1.typ ≠ "EBLIF.latch" → k.1.model ≠ "generic-latch") :
    ∀ (l pre : List (Inst × Nat)), (∀ k ∈ l, k ∈ n.insts.zipIdx) →
      (o.writeCname = true → ((pre ++ l).map (·.1.name)).Nodup) →
    ∀ st : St, st.insts.length = pre.length → (o.writeCname = true → namesOf st = pre.map (·.1.name)) →
      DefEx st t → StdKids n st → StdL st →
      ∃ st', elabStmts st t (l.map (stmtOfFull o n)) = Except.ok st' ∧
        (∀ k ∈ l, ∀ q ∈ k.1.pins, ∃ p, findIn (portsOf st' k.1.model) q.1 = some p ∧ q.2 < p.width) ∧
        (∀ m W, (∀ k ∈ l, k.1.model = m → ∀ q ∈ k.1.pins, q.2 < W q.1) → UBd st m W → UBd st' m W) ∧
        StdKids n st' ∧ StdL st' := by
  have hcab : ∀ c ∈ n.cables, plainName c.1.2 ∧ c.1.2.toList ≠ [] := fun c hcm => ⟨(hc c hcm).1, (hc c hcm).2.2⟩
  intro l
  induction l with
  | nil =>
    intro pre _ _ st _ _ _ hsk hsl
    exact ⟨st, rfl, (fun k hk' => by cases hk'), (fun _ _ _ u => u), hsk, hsl⟩
  | cons a r ih =>
    intro pre hmem hnd st hlen hnames hd hstd hsl
    have hkm : a ∈ n.insts.zipIdx := hmem a (by simp)
    have hai : a.1 ∈ n.insts := mem_zipIdx_fst hkm
    obtain ⟨hshape, _, _, hne, _⟩ := hk _ hkm
    have hx : o.writeCname = true → ∀ j', j' ≠ pre.length → (namesOf st)[j']? ≠ some a.1.name := by
      intro hwc j' hj hs
      rw [hnames hwc] at hs
      have hnd' := hnd hwc
      simp only [List.map_append, List.map_cons] at hnd'
      rw [List.nodup_append] at hnd'
      have hmem' : a.1.name ∈ pre.map (·.1.name) := List.mem_of_getElem? hs
      exact hnd'.2.2 _ hmem' _ (by simp) rfl
    obtain ⟨s1, h1, l1, n1, _, _, _, _, _, _, f1, sd1, sn1⟩ :=
      kid_step o n t hw hcab a hkm hshape (hkids a.1 hai).1 hne (hkids a.1 hai).2 pre.length st hlen hx
        (fun hn => hstd a.1 hai hn) hd
    obtain ⟨lb1, ub1, pm1, sl1⟩ := kid_ports o n t hw hc a hkm hshape st s1 (fun hn => hstd a.1 hai hn) hsl (hlsep a hkm) h1
    have hstd1 : StdKids n s1 := stdKids_step n t hk a hkm st s1 sd1 sn1 hstd
    obtain ⟨s2, h2, lb2, ub2, sk2, sl2⟩ := ih (pre ++ [a])
      (fun k hkm' => hmem k (by simp [hkm']))
      (by intro hwc; simpa [List.append_assoc] using hnd hwc) s1 (by simpa using l1) (by
        intro hwc
        rw [n1 hwc, hnames hwc]; simp) f1.2 hstd1 sl1
    refine ⟨s2, ?_, ?_, ?_, sk2, sl2⟩
    · simp only [List.map_cons]
      unfold elabStmts
      rw [h1]; exact h2
    · intro k hk' q hq
      rcases List.mem_cons.mp hk' with rfl | hk''
      · obtain ⟨p, hp, hlt⟩ := lb1 q hq
        obtain ⟨p', hp', hle⟩ := pm_elabStmts _ h2 _ _ p hp
        exact ⟨p', hp', by omega⟩
      · exact lb2 k hk'' q hq
    · intro m W hreq u
      exact ub2 m W (fun k hk' => hreq k (by simp [hk'])) (ub1 m W (fun hm => hreq a (by simp) hm.symm) u)

end Spydr.Eblif.Any
