/-
  Port directions of the definitions `.subckt` / `.gate` children instantiate: UNDEFINED after the
  children were read, IN / OUT as its black-box block (if one is written) says afterwards.
-/
import Spydr.Eblif.DefsMain

namespace Spydr.Eblif

/-- every port of `m` has the direction `f` gives its name -/
def DirF (st : St) (m : String) (f : String → Dir) : Prop := ∀ p ∈ portsOf st m, p.dir = f p.name

theorem dirf_of_ports {a b : St} {m : String} {f : String → Dir} (h : portsOf b m = portsOf a m) (u : DirF a m f) :
    DirF b m f := by
  intro p hp; rw [h] at hp; exact u p hp

theorem dirf_addPort {st : St} {m : String} {f : String → Dir} (hd : DefEx st m) (u : DirF st m f) (pn : String) (d : Dir)
    (w : Nat) (hf : f pn = d) : DirF (addPort st m pn d w) m f := by
  by_cases hn : ∃ p ∈ portsOf st m, p.name = pn
  · rw [portsOf_addPort_old st m pn d w hn]; exact u
  · have hn' : ∀ p ∈ portsOf st m, p.name ≠ pn := fun p hp e => hn ⟨p, hp, e⟩
    intro p hp
    rw [(portsOf_addPort_new st m pn d w hd hn').1] at hp
    rcases List.mem_append.mp hp with h | h
    · exact u p h
    · simp only [List.mem_singleton] at h; subst h; exact hf.symm

theorem dirf_growPort {st : St} {m : String} {f : String → Dir} (hd : DefEx st m) (u : DirF st m f) (pn : String)
    (w : Nat) : DirF (growPort st m pn w) m f := by
  intro p hp
  rw [portsOf_growPort st m pn w hd] at hp
  unfold growL at hp
  split at hp
  · exact u p hp
  · obtain ⟨q, hq, rfl⟩ := List.mem_map.mp hp
    by_cases hqn : q.name = pn
    · simp only [hqn, if_true]; have := u q hq; rw [hqn] at this; exact this
    · simp only [hqn, if_false]; exact u q hq

/-- `setDir` on port `pn` -/
theorem dirf_setDir {st : St} {m : String} {f : String → Dir} (hd : DefEx st m) (u : DirF st m f) (pn : String) (d : Dir) :
    DirF (setDir st m pn d) m (fun x => if x = pn then d else f x) := by
  intro p hp
  rw [portsOf_setDir st m pn d hd] at hp
  unfold setDirL at hp
  obtain ⟨q, hq, rfl⟩ := List.mem_map.mp hp
  by_cases hqn : q.name = pn
  · simp [hqn]
  · simp only [hqn, if_false]; exact u q hq

theorem dirf_declFormals {m : String} (l : List (String × String)) :
    ∀ {st st' : St}, DefEx st m → DirF st m (fun _ => Dir.undef) → declFormals st m l = Except.ok st' →
      DirF st' m (fun _ => Dir.undef) ∧ DefEx st' m := by
  induction l with
  | nil => intro st st' hd u h; cases h; exact ⟨u, hd⟩
  | cons fa r ih =>
    intro st st' hd u h
    unfold declFormals at h
    obtain ⟨s1, h1, h2⟩ := bind_ok h
    have : DirF s1 m (fun _ => Dir.undef) ∧ DefEx s1 m := by
      unfold declFormal at h1
      obtain ⟨⟨pn, pi⟩, hs, h1⟩ := bind_ok h1
      simp only [] at h1
      cases h1
      have u1 := dirf_addPort hd u pn Dir.undef 0 rfl
      have d1 := defEx_addPort hd m pn Dir.undef 0
      split
      · exact ⟨u1, d1⟩
      · exact ⟨dirf_growPort d1 u1 pn _, defEx_growPort d1 m pn _⟩
    exact ih this.2 this.1 h2

theorem dirf_connectAll {m parent : String} {idx : Nat} {f : String → Dir} (l : List (String × String)) :
    ∀ {st st' : St}, DefEx st m → DirF st m f → connectAll st idx parent m l = Except.ok st' → DirF st' m f ∧ DefEx st' m := by
  induction l with
  | nil => intro st st' hd u h; cases h; exact ⟨u, hd⟩
  | cons fa r ih =>
    intro st st' hd u h
    unfold connectAll at h
    obtain ⟨s1, h1, h2⟩ := bind_ok h
    have : DirF s1 m f ∧ DefEx s1 m := by
      unfold connectOne at h1
      obtain ⟨⟨cn, ci⟩, _, h1⟩ := bind_ok h1
      obtain ⟨⟨pn, pi⟩, hs, h1⟩ := bind_ok h1
      simp only [] at h1
      split at h1
      · cases h1; exact ⟨dirf_of_ports rfl u, hd⟩
      · split at h1
        · cases h1
        · cases h1
          exact ⟨dirf_of_ports (portsOf_connect _ _ _ _ _ _) (dirf_growPort hd u pn _), defEx_of_dv (by simp) hd⟩
    exact ih this.2 this.1 h2

/-- a `.subckt` / `.gate` of model `m` creates UNDEFINED ports only -/
theorem dirf_subckt {st st' : St} {cur m : String} {gate : Bool} {conns : List (String × String)} {info : List InfoStmt}
    (u : DirF st m (fun _ => Dir.undef)) (h : elabStmt st cur (Stmt.subckt gate m conns info) = Except.ok st') :
    DirF st' m (fun _ => Dir.undef) := by
  unfold elabStmt at h
  simp only [] at h
  obtain ⟨s1, h1, h⟩ := bind_ok h
  obtain ⟨s2, h2, h⟩ := bind_ok h
  have u0 : DirF (checkHierarchy st cur m) m (fun _ => Dir.undef) :=
    dirf_of_ports (portsOf_of_defs (by unfold checkHierarchy; split <;> rfl) m) u
  have u1 : DirF (ensureDef (checkHierarchy st cur m) m) m (fun _ => Dir.undef) := by
    cases hf : findDef (checkHierarchy st cur m) m with
    | none =>
      intro p hp
      rw [portsOf_ensureDef_fresh _ m hf] at hp
      cases hp
    | some d =>
      have hd : DefEx (checkHierarchy st cur m) m := by unfold DefEx; rw [hf]; rfl
      exact dirf_of_ports (portsOf_ensureDef_old _ m hd) u0
  have d1 : DefEx (ensureDef (checkHierarchy st cur m) m) m := defEx_ensureDef _ _
  obtain ⟨u2, d2⟩ := dirf_declFormals conns d1 u1 h1
  have u3 : DirF (assignDefault (newInst s1 cur m (if gate then "EBLIF.gate" else "EBLIF.subckt")).1
      (newInst s1 cur m (if gate then "EBLIF.gate" else "EBLIF.subckt")).2 cur m) m (fun _ => Dir.undef) := dirf_of_ports rfl u2
  have d3 : DefEx (assignDefault (newInst s1 cur m (if gate then "EBLIF.gate" else "EBLIF.subckt")).1
      (newInst s1 cur m (if gate then "EBLIF.gate" else "EBLIF.subckt")).2 cur m) m := (fr_of_defs d2 rfl).2
  obtain ⟨u4, d4⟩ := dirf_connectAll _ d3 u3 h2
  exact dirf_of_ports (fr_applyInfo info d4 h).1 u4

/-- all statements of a body, when every instance statement of model `m` is a `.subckt` / `.gate` -/
theorem dirf_elabStmts {cur m : String} : ∀ (l : List Stmt),
    (∀ s ∈ l, (isInst s = true ∧ (stmtModel s = m → ∃ g c i, s = Stmt.subckt g m c i)) ∨ ∃ a b, s = Stmt.conn a b) →
    ∀ (st st' : St), DirF st m (fun _ => Dir.undef) → elabStmts st cur l = Except.ok st' → DirF st' m (fun _ => Dir.undef) := by
  intro l
  induction l with
  | nil => intro _ st st' u h; cases h; exact u
  | cons s r ih =>
    intro hl st st' u h
    unfold elabStmts at h
    obtain ⟨s1, h1, h2⟩ := bind_ok h
    refine ih (fun x hx => hl x (by simp [hx])) s1 st' ?_ h2
    rcases hl s (by simp) with ⟨hi, hm⟩ | ⟨a, b, rfl⟩
    · by_cases hmm : stmtModel s = m
      · obtain ⟨g, c, i, rfl⟩ := hm hmm
        exact dirf_subckt u h1
      · exact dirf_of_ports (portsOf_other_stmt hi (fun e => hmm e.symm) h1) u
    · obtain ⟨_, _, _, hd', _⟩ := conn_stmt_defs h1
      exact dirf_of_ports (portsOf_of_defs hd' m) u
where
  conn_stmt_defs {st st' : St} {cur a b : String} (h : elabStmt st cur (Stmt.conn a b) = Except.ok st') :
      True ∧ True ∧ True ∧ st'.defs = st.defs ∧ True := by
    unfold elabStmt at h
    obtain ⟨⟨n1, i1⟩, _, h⟩ := bind_ok h
    obtain ⟨⟨n2, i2⟩, _, h⟩ := bind_ok h
    simp only [] at h
    cases h
    refine ⟨trivial, trivial, trivial, ?_, trivial⟩
    have h1 : ∀ s a b, (mergeKeys s a b).defs = s.defs := by
      intro s a b; unfold mergeKeys; simp only []; split <;> rfl
    have h2 : ∀ s o m i, (ensureWire s o m i).defs = s.defs := by
      intro s o m i; unfold ensureWire ensureCable; simp only []; split <;> split <;> rfl
    rw [h1, h2, h2]

/-! ### the black-box block -/

def updDir (f : String → Dir) (pn : String) (d : Dir) : String → Dir := fun x => if x = pn then d else f x

theorem no_port_of_hasPort {st : St} {m pn : String} (h : hasPort st m pn = false) : ∀ p ∈ portsOf st m, p.name ≠ pn := by
  intro p hp e
  rw [hasPort_eq] at h
  have := findIn_isSome_of_mem hp
  rw [e, h] at this
  cases this

theorem dirf_elabInput {st st' : St} {m tok pn : String} {pi : Nat} {f : String → Dir} (hd : DefEx st m) (u : DirF st m f)
    (hs : splitIdx tok = Except.ok (pn, pi)) (h : elabInput st m tok = Except.ok st') :
    DirF st' m (updDir f pn Dir.inp) ∧ DefEx st' m := by
  unfold elabInput at h
  rw [hs] at h
  simp only [bind, Except.bind, pure, Except.pure] at h
  cases h
  have h1 : DirF (if hasPort st m pn = true then setDir st m pn Dir.inp else addPort st m pn Dir.inp 0) m (updDir f pn Dir.inp) ∧
      DefEx (if hasPort st m pn = true then setDir st m pn Dir.inp else addPort st m pn Dir.inp 0) m := by
    split
    · exact ⟨dirf_setDir hd u pn Dir.inp, defEx_setDir hd m pn Dir.inp⟩
    · rename_i hh
      have hno := no_port_of_hasPort (by simpa using hh : hasPort st m pn = false)
      have u' : DirF st m (updDir f pn Dir.inp) := by
        intro p hp
        have : ¬ p.name = pn := hno p hp
        simp only [updDir, this, if_false]
        exact u p hp
      exact ⟨dirf_addPort hd u' pn Dir.inp 0 (by simp [updDir]), defEx_addPort hd m pn Dir.inp 0⟩
  refine ⟨dirf_of_ports (portsOf_connect _ _ _ _ _ _) (dirf_growPort h1.2 h1.1 pn _), ?_⟩
  exact defEx_of_dv (by simp) h1.2

theorem dirf_elabOutput {st st' : St} {m tok pn : String} {pi : Nat} {f : String → Dir} (hd : DefEx st m) (u : DirF st m f)
    (hs : splitIdx tok = Except.ok (pn, pi)) (hfree : f pn ≠ Dir.inp ∧ f pn ≠ Dir.inout)
    (h : elabOutput st m tok = Except.ok st') :
    DirF st' m (updDir f pn Dir.out) ∧ DefEx st' m := by
  -- after `addPort`: directions given by some `g` with `g pn` neither IN nor INOUT and `updDir g pn out = updDir f pn out`
  have h1 : ∃ g : String → Dir, DirF (addPort st m pn Dir.out 0) m g ∧ g pn ≠ Dir.inp ∧ g pn ≠ Dir.inout ∧
      updDir g pn Dir.out = updDir f pn Dir.out := by
    by_cases hh : hasPort st m pn = true
    · have : addPort st m pn Dir.out 0 = st := by unfold addPort; simp [hh]
      rw [this]
      exact ⟨f, u, hfree.1, hfree.2, rfl⟩
    · have hno := no_port_of_hasPort (by simpa using hh : hasPort st m pn = false)
      have u' : DirF st m (updDir f pn Dir.out) := by
        intro p hp
        have : ¬ p.name = pn := hno p hp
        simp only [updDir, this, if_false]
        exact u p hp
      refine ⟨updDir f pn Dir.out, dirf_addPort hd u' pn Dir.out 0 (by simp [updDir]), by simp [updDir], by simp [updDir], ?_⟩
      funext x
      simp only [updDir]
      split <;> rfl
  obtain ⟨g, ug, hg1, hg2, hge⟩ := h1
  have d1 := defEx_addPort hd m pn Dir.out 0
  have hpd : portDir (addPort st m pn Dir.out 0) m pn ≠ Dir.inp ∧ portDir (addPort st m pn Dir.out 0) m pn ≠ Dir.inout := by
    rw [portDir_eq]
    cases hfi : findIn (portsOf (addPort st m pn Dir.out 0) m) pn with
    | none => simp
    | some p =>
      have hpm : p ∈ portsOf (addPort st m pn Dir.out 0) m := List.mem_of_find?_eq_some hfi
      have hpx : p.name = pn := by unfold findIn at hfi; simpa using List.find?_some hfi
      have := ug p hpm
      rw [hpx] at this
      simp only [this]
      exact ⟨hg1, hg2⟩
  unfold elabOutput at h
  rw [hs] at h
  simp only [bind, Except.bind, pure, Except.pure] at h
  have hcond : (decide (portDir (addPort st m pn Dir.out 0) m pn = Dir.inp) ||
      decide (portDir (addPort st m pn Dir.out 0) m pn = Dir.inout)) = false := by
    simp [hpd.1, hpd.2]
  simp only [hcond, Bool.false_eq_true, if_false] at h
  cases h
  have d2 := defEx_setDir d1 m pn Dir.out
  have u2 : DirF (setDir (addPort st m pn Dir.out 0) m pn Dir.out) m (updDir f pn Dir.out) := by
    have := dirf_setDir d1 ug pn Dir.out
    rw [← hge]; exact this
  refine ⟨dirf_of_ports (portsOf_connect _ _ _ _ _ _) (dirf_growPort d2 u2 pn _), ?_⟩
  exact defEx_of_dv (by simp) d2

theorem dirf_toks_in {m : String} (l : List String) (hl : ∀ w ∈ l, splitIdx w = Except.ok (w, 0)) :
    ∀ (f : String → Dir) (st st' : St), DefEx st m → DirF st m f → elabToks elabInput st m l = Except.ok st' →
      DirF st' m (fun x => if x ∈ l then Dir.inp else f x) ∧ DefEx st' m := by
  induction l with
  | nil => intro f st st' hd u h; cases h; exact ⟨by simpa using u, hd⟩
  | cons w r ih =>
    intro f st st' hd u h
    unfold elabToks at h
    obtain ⟨s1, h1, h2⟩ := bind_ok h
    obtain ⟨u1, d1⟩ := dirf_elabInput hd u (hl w (by simp)) h1
    obtain ⟨u2, d2⟩ := ih (fun x hx => hl x (by simp [hx])) _ s1 st' d1 u1 h2
    refine ⟨?_, d2⟩
    have : (fun x => if x ∈ r then Dir.inp else updDir f w Dir.inp x) = (fun x => if x ∈ w :: r then Dir.inp else f x) := by
      funext x
      simp only [updDir, List.mem_cons]
      by_cases h1 : x ∈ r <;> by_cases h2 : x = w <;> simp [h1, h2]
    rw [← this]; exact u2

theorem dirf_toks_out {m : String} (l : List String) (hl : ∀ w ∈ l, splitIdx w = Except.ok (w, 0)) :
    ∀ (f : String → Dir) (st st' : St), (∀ w ∈ l, f w ≠ Dir.inp ∧ f w ≠ Dir.inout) → DefEx st m → DirF st m f →
      elabToks elabOutput st m l = Except.ok st' →
      DirF st' m (fun x => if x ∈ l then Dir.out else f x) ∧ DefEx st' m := by
  induction l with
  | nil => intro f st st' _ hd u h; cases h; exact ⟨by simpa using u, hd⟩
  | cons w r ih =>
    intro f st st' hfree hd u h
    unfold elabToks at h
    obtain ⟨s1, h1, h2⟩ := bind_ok h
    obtain ⟨u1, d1⟩ := dirf_elabOutput hd u (hl w (by simp)) (hfree w (by simp)) h1
    obtain ⟨u2, d2⟩ := ih (fun x hx => hl x (by simp [hx])) _ s1 st' (by
      intro x hx
      simp only [updDir]
      split
      · exact ⟨by simp, by simp⟩
      · exact hfree x (by simp [hx])) d1 u1 h2
    refine ⟨?_, d2⟩
    have : (fun x => if x ∈ r then Dir.out else updDir f w Dir.out x) = (fun x => if x ∈ w :: r then Dir.out else f x) := by
      funext x
      simp only [updDir, List.mem_cons]
      by_cases h1 : x ∈ r <;> by_cases h2 : x = w <;> simp [h1, h2]
    rw [← this]; exact u2

/-- directions the black-box block of `d` gives the ports -/
def bbDir (d : DefD) : String → Dir := fun x =>
  if x ∈ (d.ports.filter (fun p => p.dir = Dir.out)).map (·.name) then Dir.out
  else if x ∈ (d.ports.filter (fun p => p.dir = Dir.inp)).map (·.name) then Dir.inp else Dir.undef

theorem portsOf_beginModel_self (st : St) (m : String) :
    portsOf (beginModel st m) m = portsOf (ensureDef st m) m ∧ DefEx (beginModel st m) m := by
  have d1 : DefEx (ensureDef st m) m := defEx_ensureDef _ _
  have d2 := defEx_updDef d1 m (fun d => { d with declared := true }) (fun _ => rfl)
  have hdefs : (beginModel st m).defs = (updDef (ensureDef st m) m (fun d => { d with declared := true })).defs := by
    unfold beginModel; simp only []; split <;> rfl
  refine ⟨?_, by unfold DefEx at *; rw [findDef_of_defs hdefs]; exact d2⟩
  rw [portsOf_of_defs hdefs m]
  exact portsOf_updDef_keep (ensureDef st m) m (fun d => { d with declared := true }) (fun _ => rfl) (fun _ => rfl) m

theorem dirf_ensureDef {st : St} {m : String} {f : String → Dir} (u : DirF st m f) : DirF (ensureDef st m) m f := by
  cases hf : findDef st m with
  | none =>
    intro p hp
    rw [portsOf_ensureDef_fresh st m hf] at hp
    cases hp
  | some d =>
    have hd : DefEx st m := by unfold DefEx; rw [hf]; rfl
    exact dirf_of_ports (portsOf_ensureDef_old st m hd) u

theorem dirf_bbmodel_self {s s' : St} (d : DefD) (hw : ∀ p ∈ d.ports, plainName p.name ∧ p.name.toList ≠ [])
    (hnd : (d.ports.map (·.name)).Nodup)
    (u : DirF s d.name (fun _ => Dir.undef)) (h : elabModel s (bbModel d) = Except.ok s') : DirF s' d.name (bbDir d) := by
  unfold elabModel at h
  obtain ⟨sh, hh, hb⟩ := bind_ok h
  simp only [bbModel] at hh hb
  unfold elabStmts at hb
  obtain ⟨s2, h2, hb⟩ := bind_ok hb
  unfold elabStmts at hb
  cases hb
  unfold elabStmt at h2
  cases h2
  obtain ⟨hp0, d0⟩ := portsOf_beginModel_self s d.name
  have u0 : DirF (beginModel s d.name) d.name (fun _ => Dir.undef) := dirf_of_ports hp0 (dirf_ensureDef u)
  unfold elabHdrs at hh
  obtain ⟨sa, hin, hh⟩ := bind_ok hh
  unfold elabHdrs at hh
  obtain ⟨sb, hout, hh⟩ := bind_ok hh
  unfold elabHdrs at hh
  cases hh
  simp only [elabHdr] at hin hout
  have hwords : ∀ (P : List PortD), (∀ p ∈ P, p ∈ d.ports) → ∀ w ∈ P.map (·.name), splitIdx w = Except.ok (w, 0) := by
    intro P hP w hwm
    obtain ⟨p, hp, rfl⟩ := List.mem_map.mp hwm
    obtain ⟨h1, h2⟩ := hw p (hP p hp)
    exact splitIdx_plain _ h1 h2
  obtain ⟨u1, d1⟩ := dirf_toks_in _ (hwords (d.ports.filter (fun p => p.dir = Dir.inp)) (fun p hp => (List.mem_filter.mp hp).1))
    _ _ _ d0 u0 hin
  obtain ⟨u2, d2⟩ := dirf_toks_out _ (hwords (d.ports.filter (fun p => p.dir = Dir.out)) (fun p hp => (List.mem_filter.mp hp).1))
    _ _ _ (by
      intro w hwm
      have hnot : w ∉ (d.ports.filter (fun p => p.dir = Dir.inp)).map (·.name) := by
        intro hin'
        obtain ⟨p, hp, rfl⟩ := List.mem_map.mp hwm
        obtain ⟨q, hq, hqn⟩ := List.mem_map.mp hin'
        simp only [List.mem_filter, decide_eq_true_eq] at hp hq
        have := eq_of_nodup_name hnd hq.1 hp.1 hqn
        subst this
        rw [hp.2] at hq
        cases hq.2
      simp only [hnot, if_false]
      exact ⟨by simp, by simp⟩) d1 u1 hout
  refine dirf_of_ports (portsOf_updDef_keep (clearOwner sh d.name) d.name (fun x => { x with blackbox := true }) (fun _ => rfl) (fun _ => rfl) d.name) ?_
  refine dirf_of_ports (portsOf_of_defs (b := clearOwner sh d.name) rfl d.name) ?_
  exact u2

/-- direction function of `m` after the black-box models `ds` -/
def dirAfter (ds : List DefD) (m : String) : String → Dir :=
  match ds.find? (fun d => d.name = m) with
  | some d => bbDir d
  | none => fun _ => Dir.undef

theorem dirf_bbmodels (m : String) (ds : List DefD) (hnd : (ds.map (·.name)).Nodup)
    (hds : ∀ d ∈ ds, (∀ p ∈ d.ports, plainName p.name ∧ p.name.toList ≠ []) ∧ (d.ports.map (·.name)).Nodup) :
    ∀ {s s' : St}, DirF s m (fun _ => Dir.undef) → elabModels s (ds.map bbModel) = Except.ok s' →
      DirF s' m (dirAfter ds m) := by
  induction ds with
  | nil => intro s s' u h; cases h; exact u
  | cons d r ih =>
    intro s s' u h
    simp only [List.map_cons] at h
    unfold elabModels at h
    obtain ⟨s1, h1, h2⟩ := bind_ok h
    simp only [List.map_cons, List.nodup_cons, List.mem_map, not_exists, not_and] at hnd
    by_cases hm : d.name = m
    · subst hm
      have u1 := dirf_bbmodel_self d (hds d (by simp)).1 (hds d (by simp)).2 u h1
      have hkeep := Any.portsOf_bbmodels_other d.name r (fun x hx e => hnd.1 x hx e.symm) h2
      have : dirAfter (d :: r) d.name = bbDir d := by simp [dirAfter]
      rw [this]
      exact dirf_of_ports hkeep u1
    · have u1 : DirF s1 m (fun _ => Dir.undef) := dirf_of_ports (portsOf_other_bbmodel d m (fun e => hm e.symm) h1) u
      have := ih hnd.2 (fun x hx => hds x (by simp [hx])) u1 h2
      have e : dirAfter (d :: r) m = dirAfter r m := by simp [dirAfter, hm]
      rw [e]; exact this

namespace Any

/-- direction the re-read netlist gives port `x` of the definition `m` a `.subckt` / `.gate` child
    instantiates: what the black-box block of `m` says (IN / OUT ports of `n`'s definition) when one is
    written, UNDEFINED otherwise -/
def leafDir (o : Opts) (n : BNet) (t m : String) : String → Dir :=
  if o.writeBlackbox then dirAfter (bbDefs n t) m else fun _ => Dir.undef

theorem roundtrip_leaf_dirs (o : Opts) (n : BNet) (t : String) (hw : WellNamed n) (hf : FragFull n t)
    (hn : NetOKA n t) (hnm : NamesOK o n) (hbp : BBPlain n t) (hpm : n.PinMirror) (hdg : LatchSep n t)
    (n' : BNet) (h : readB (composeText o n) = Except.ok n') :
    ∀ k ∈ kidsFull n t, (k.1.typ = "EBLIF.subckt" ∨ k.1.typ = "EBLIF.gate") →
      ∀ p ∈ (n'.findDef k.1.model).ports, p.dir = leafDir o n t k.1.model p.name := by
  obtain ⟨hperm, _, _, _, _, hk⟩ := hn
  obtain ⟨hdn, hpnd, _⟩ := hpm
  obtain ⟨sh, sk, sc, sf, habs, hbk, _, _, _, _, hbc, _, hsf, hfind⟩ :=
    second_read_chain o n t hw hf ⟨hperm, by assumption, by assumption, by assumption, by assumption, hk⟩ hnm hbp hdg n' h
  intro k hkk hty p hp
  have hkz : k ∈ n.insts.zipIdx := hperm.mem_iff.mp hkk
  have hki : k.1 ∈ n.insts := mem_zipIdx_fst hkz
  have hmt : k.1.model ≠ t := fun e => (hk k hkz).2.2.2.1 e.symm
  have hkn : k.1.typ ≠ "EBLIF.names" := by rcases hty with h' | h' <;> (rw [h']; decide)
  have hkl : k.1.typ ≠ "EBLIF.latch" := by rcases hty with h' | h' <;> (rw [h']; decide)
  -- UNDEFINED after the header
  have u0 : DirF sh k.1.model (fun _ => Dir.undef) := by
    intro q hq
    have : portsOf sh k.1.model = [] := by unfold portsOf; rw [habs _ hmt]
    rw [this] at hq; cases hq
  -- ... after the children
  have u1 : DirF sk k.1.model (fun _ => Dir.undef) := by
    refine dirf_elabStmts _ ?_ sh sk u0 hbk
    intro s hs
    left
    obtain ⟨k', hk', rfl⟩ := List.mem_map.mp hs
    have hk'z : k' ∈ n.insts.zipIdx := hperm.mem_iff.mp hk'
    refine ⟨isInst_full o n k', ?_⟩
    intro hmm
    rw [stmtModel_full o n k' (hk k' hk'z).1] at hmm
    have hn' : k'.1.typ ≠ "EBLIF.names" := by
      intro e
      exact (hk k hkz).2.2.2.2 hkn k'.1 (mem_zipIdx_fst hk'z) e hmm.symm
    have hl' : k'.1.typ ≠ "EBLIF.latch" := by
      intro e
      have hs' := (hk k' hk'z).1
      unfold KidShape at hs'
      simp only [hn', e, if_false, if_true] at hs'
      exact hdg.2 k hkz hkl (hmm.symm.trans hs'.1)
    refine ⟨decide (k'.1.typ = "EBLIF.gate"), connsOf n k'.2 k'.1, infoStmts o k'.1, ?_⟩
    unfold stmtOfFull
    simp [hn', hl', hmm]
  -- ... after the `.conn` lines
  have u2 : DirF sc k.1.model (fun _ => Dir.undef) := by
    refine dirf_elabStmts _ ?_ sk sc u1 hbc
    intro s hs
    right
    obtain ⟨ab, _, rfl⟩ := List.mem_map.mp hs
    exact ⟨ab.1, ab.2, rfl⟩
  -- ... and the black-box models
  have u3 : DirF sf k.1.model (leafDir o n t k.1.model) := by
    unfold leafDir
    unfold bbPart at hsf
    split at hsf
    · rename_i hwb
      simp only [hwb, if_true]
      refine dirf_bbmodels k.1.model (bbDefs n t) ?_ ?_ u2 hsf
      · have hsub : ((bbDefs n t).map (·.name)).Sublist (n.defs.map (·.name)) := by
          unfold bbDefs
          exact List.filter_sublist.map _
        exact hdn.sublist hsub
      · intro d hd
        have hdm : d ∈ n.defs := by unfold bbDefs at hd; exact (List.mem_filter.mp hd).1
        refine ⟨fun q hq => ⟨(hbp d hd).2 q hq, okWord_nonempty ((hw.2.1 d hdm).2.1 q hq)⟩, ?_⟩
        have := hpnd d hdm
        simpa [nwOf, List.map_map, Function.comp] using this
    · rename_i hwb
      cases hsf
      simp only [hwb, if_false]
      exact u2
  rw [hfind] at hp
  exact u3 p hp

end Any

end Spydr.Eblif
