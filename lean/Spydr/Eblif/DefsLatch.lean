/-
  The generated `generic-latch` definition keeps the standard shape (first a of input, output, type,
  control, init-val; one pin each) through every instance statement.
-/
import Spydr.Eblif.DefsUB

namespace Spydr.Eblif

/-- `generic-latch` does not exist yet, or has the first `a` standard ports -/
def StdL (st : St) : Prop :=
  findDef st "generic-latch" = none ∨
  (DefEx st "generic-latch" ∧ ∃ a, a ≤ 5 ∧ portsOf st "generic-latch" = stdLatchPorts.take a)

theorem latch_width_one : ∀ b ∈ List.range 6, ∀ b' ∈ List.range 6, b ≤ b' → ∀ o ∈ latchOrder.take b,
    ∃ p, findIn (stdLatchPorts.take b') o = some p ∧ p.width = 1 := by decide

theorem stdL_other {st st' : St} {cur : String} {s : Stmt} (hs : isInst s = true)
    (hne : "generic-latch" ≠ stmtModel s) (hk : StdL st) (h : elabStmt st cur s = Except.ok st') : StdL st' := by
  rcases hk with hk | ⟨hd, a, ha, hp⟩
  · exact Or.inl (absent_elabStmt_inst hs hk hne h)
  · have f := fr_elabStmt_inst hs hd hne h
    exact Or.inr ⟨f.2, a, ha, by rw [f.1]; exact hp⟩

/-- a `.latch` whose fields are the first `m` keeps / makes the definition standard -/
theorem stdL_latch {st st' : St} {cur : String} {toks : List String} {info : List InfoStmt} (m : Nat) (hm : m ≤ 5)
    (hz : (latchOrder.zip toks).map (·.1) = latchOrder.take m)
    (hk : StdL st) (h : elabStmt st cur (Stmt.latch toks info) = Except.ok st') :
    DefEx st' "generic-latch" ∧ ∃ a, a ≤ 5 ∧ m ≤ a ∧ portsOf st' "generic-latch" = stdLatchPorts.take a := by
  -- the definition before the ports are added
  have h0 : ∃ a, a ≤ 5 ∧ DefEx (ensureDef st "generic-latch") "generic-latch" ∧
      portsOf (ensureDef st "generic-latch") "generic-latch" = stdLatchPorts.take a := by
    rcases hk with hk | ⟨hd, a, ha, hp⟩
    · exact ⟨0, by omega, defEx_ensureDef _ _, by rw [portsOf_ensureDef_fresh st _ hk]; rfl⟩
    · exact ⟨a, ha, defEx_ensureDef _ _, by rw [portsOf_ensureDef_old st _ hd]; exact hp⟩
  obtain ⟨a, ha, hd0, hp0⟩ := h0
  obtain ⟨hp1, hd1⟩ := latch_def_shape m hm (ensureDef st "generic-latch") a ha hd0 hp0
  unfold elabStmt at h
  simp only [] at h
  split at h
  · cases h
  · obtain ⟨s1, h1, h⟩ := bind_ok h
    obtain ⟨s2, h2, h⟩ := bind_ok h
    rw [hz] at h1 h2 h
    have f3 : Fr "generic-latch" (addLatchPorts (ensureDef st "generic-latch") (latchOrder.take m)) s1 := by
      refine Fr.trans ?_ (fr_rename ?_ h1)
      · exact fr_of_defs hd1 rfl
      · exact (fr_of_defs hd1 rfl).2
    have hp3 : portsOf s1 "generic-latch" = stdLatchPorts.take (max a m) := by rw [f3.1]; exact hp1
    have hmax : max a m ∈ List.range 6 := by simp; omega
    have hmr : m ∈ List.range 6 := by simp; omega
    have hdefs := connectAll_defs_fixed (latchOrder.zip toks) (by
      intro fa hfa pn pi hsp
      obtain ⟨x, y⟩ := fa
      have hx : x ∈ latchOrder.take m := by
        rw [← hz]; exact List.mem_map.mpr ⟨(x, y), hfa, rfl⟩
      have := latchOrder_split x (List.mem_of_mem_take hx)
      simp only at hsp
      rw [this] at hsp
      simp only [Except.ok.injEq, Prod.mk.injEq] at hsp
      obtain ⟨p, hp, hw⟩ := latch_width_one m hmr (max a m) hmax (by omega) x hx
      rw [← hsp.1, ← hsp.2, portWidth_eq, hp3, hp]
      simp only; omega) h2
    have f4 : Fr "generic-latch" s1 s2 := fr_of_defs f3.2 hdefs
    have f5 := Fr.trans f4 (fr_applyInfo info f4.2 h)
    exact ⟨f5.2, max a m, by omega, by omega, by rw [f5.1, hp3]⟩

end Spydr.Eblif
