/-
  Ports of the instantiated (non-top) definitions across write-then-read: preserved as sets of
  (port, bit).  (With the original `parse_subcircuit_port` this needed "no instance pin dangles":
  upper bus bits that are `unconn` on every instance were lost; the model follows the repaired code.)
-/
import Spydr.Eblif.DefsBB

namespace Spydr.Eblif.Any

open Spydr.Eblif

/-- `generic-latch` is only used by `.latch` children (and is not the top model) -/
def LatchSep (n : BNet) (t : String) : Prop :=
  t ≠ "generic-latch" ∧ ∀ k ∈ n.insts.zipIdx, k.1.typ ≠ "EBLIF.latch" → k.1.model ≠ "generic-latch"

instance (n : BNet) (t : String) : Decidable (LatchSep n t) := by unfold LatchSep; infer_instance

/-- the ports of the definitions that get a black-box block have at least one pin -/
def BBWide (n : BNet) (t : String) : Prop := ∀ d ∈ bbDefs n t, ∀ p ∈ d.ports, 1 ≤ p.width

instance (n : BNet) (t : String) : Decidable (BBWide n t) := by unfold BBWide; infer_instance

theorem bnet_findDef_of_mem {n : BNet} (hnd : (n.defs.map (·.name)).Nodup) {d : DefD} (hd : d ∈ n.defs) :
    n.findDef d.name = d := by
  have := findDef_of_mem (st := { defs := n.defs }) hnd hd
  unfold findDef at this
  unfold BNet.findDef
  simp only at this
  rw [this]

theorem bbDefs_user {n : BNet} {t : String} {d : DefD} (hd : d ∈ bbDefs n t) :
    ∃ i ∈ n.insts, (i.typ = "EBLIF.subckt" ∨ i.typ = "EBLIF.gate" ∨ i.typ = "EBLIF.other") ∧ i.model = d.name := by
  unfold bbDefs at hd
  simp only [List.mem_filter, Bool.and_eq_true, decide_eq_true_eq, List.mem_map] at hd
  obtain ⟨_, ⟨_, ⟨i, hi, hm⟩⟩, _⟩ := hd
  simp only [List.mem_filter, Bool.and_eq_true, Bool.or_eq_true, decide_eq_true_eq] at hi
  refine ⟨i, hi.1, ?_, hm⟩
  rcases hi.2.1.2 with (h | h) | h
  · exact Or.inl h
  · exact Or.inr (Or.inl h)
  · exact Or.inr (Or.inr h)

theorem portsOf_bbmodels_other (m : String) (ds : List DefD) (hne : ∀ d ∈ ds, m ≠ d.name) :
    ∀ {s s' : St}, elabModels s (ds.map bbModel) = Except.ok s' → portsOf s' m = portsOf s m := by
  induction ds with
  | nil => intro s s' h; cases h; rfl
  | cons d r ih =>
    intro s s' h
    simp only [List.map_cons] at h
    unfold elabModels at h
    obtain ⟨s1, h1, h2⟩ := bind_ok h
    rw [ih (fun x hx => hne x (by simp [hx])) h2, portsOf_other_bbmodel d m (hne d (by simp)) h1]

/-- the states the second read goes through (header, children, `.conn` lines, black-box models) and
    the port facts of the state after the children -/
theorem second_read_chain (o : Opts) (n : BNet) (t : String) (hw : WellNamed n) (hf : FragFull n t)
    (hn : NetOKA n t) (hnm : NamesOK o n) (hbp : BBPlain n t) (hdg : LatchSep n t)
    (n' : BNet) (h : readB (composeText o n) = Except.ok n') :
    ∃ sh sk sc sf : St,
      (∀ x, x ≠ t → findDef sh x = none) ∧
      elabStmts sh t ((kidsFull n t).map (stmtOfFull o n)) = Except.ok sk ∧
      (∀ k ∈ kidsFull n t, ∀ q ∈ k.1.pins, ∃ p, findIn (portsOf sk k.1.model) q.1 = some p ∧ q.2 < p.width) ∧
      (∀ m W, (∀ k ∈ kidsFull n t, k.1.model = m → ∀ q ∈ k.1.pins, q.2 < W q.1) → UBd sh m W → UBd sk m W) ∧
      StdKids n sk ∧ StdL sk ∧
      elabStmts sk t ((connPairs n (n.findDef t)).map (fun ab => Stmt.conn ab.1 ab.2)) = Except.ok sc ∧
      sc.defs = sk.defs ∧ elabModels sc (bbPart o n t) = Except.ok sf ∧
      ∀ m, (n'.findDef m).ports = portsOf sf m := by
  have ht : okWord t = true := hw.2.2.2.2 t hf.top
  have hn' := hn
  obtain ⟨hperm, hp, hnd, hcb, hcn, hk⟩ := hn'
  obtain ⟨_, hpn, _⟩ := findDef_ok hw ht
  have hc : ∀ c ∈ n.cables, plainName c.1.2 ∧ c.1.2 ≠ "unconn" ∧ c.1.2.toList ≠ [] := by
    intro c hcm
    obtain ⟨_, h2, h3, _⟩ := hcb c hcm
    exact ⟨h2, h3, okWord_nonempty (hw.2.2.2.1 c hcm)⟩
  have hcab : ∀ c ∈ n.cables, plainName c.1.2 ∧ c.1.2.toList ≠ [] := fun c hcm => ⟨(hc c hcm).1, (hc c hcm).2.2⟩
  have hP : ∀ p ∈ (n.findDef t).ports, (p.dir = Dir.inp ∨ p.dir = Dir.out ∨ p.dir = Dir.inout) ∧ plainName p.name ∧
      p.name.toList ≠ [] ∧ 1 ≤ p.width := by
    intro p hpm
    obtain ⟨h1, h2, h3, _⟩ := hp p hpm
    exact ⟨h1, h2, okWord_nonempty (hpn p hpm), h3⟩
  -- the states of the second read
  obtain ⟨sh, hh⟩ := hdr_ok t (n.findDef t) (fun p hpm => ⟨(hP p hpm).2.1, (hP p hpm).2.2.1⟩) (beginModel {} t)
  obtain ⟨ph, dh, rh, eh, kh⟩ := hdr_full t (n.findDef t) hP hnd sh hh
  have hlen0 : sh.insts.length = 0 := by
    have := congrArg List.length kh; simpa [instKinds] using this
  have hnames0 : namesOf sh = [] := by
    simp only [namesOf]
    have : sh.insts = [] := List.eq_nil_of_length_eq_zero hlen0
    rw [this]; rfl
  have hkids : ∀ i ∈ n.insts, i.parent = t ∧
      (i.typ = "EBLIF.subckt" ∨ i.typ = "EBLIF.gate" ∨ i.typ = "EBLIF.names" ∨ i.typ = "EBLIF.latch") := by
    intro i hi
    obtain ⟨idx, hidx⟩ := List.getElem?_of_mem hi
    have hm : (i, idx) ∈ kidsFull n t := hperm.mem_iff.mpr (List.mem_zipIdx_iff_getElem?.mpr hidx)
    have hpar : i.parent = t := by
      unfold kidsFull at hm
      simp only [List.mem_append, List.mem_filter, decide_eq_true_eq] at hm
      rcases hm with ((h | h) | h) | h <;> exact h.1.2
    exact ⟨hpar, hf.kinds i hi hpar⟩
  have habs : ∀ x, x ≠ t → findDef sh x = none := by
    intro x hx
    rw [not_defEx_iff]
    have hdv : defsView sh = defsView (beginModel {} t) := dv_elabHdrs _ hh
    have hb : defNames (beginModel {} t) = [t] := by
      simp [defNames, defsView, beginModel, ensureDef, findDef, updDef]
    simp only [defNames, hdv]
    simp only [defNames] at hb
    rw [hb]
    simpa using hx
  have hstd0 : StdKids n sh := by
    intro j hj hjn
    left
    have hjm := names_model n t hk j hj hjn
    obtain ⟨idx, hidx⟩ := List.getElem?_of_mem hj
    have hne := (hk (j, idx) (List.mem_zipIdx_iff_getElem?.mpr hidx)).2.2.2.1
    rw [← hjm]
    exact habs _ (fun e => hne e.symm)
  have hnames : o.writeCname = true → ((([] : List (Inst × Nat)) ++ kidsFull n t).map (·.1.name)).Nodup := by
    intro hwc
    have h1 : ((kidsFull n t).map (·.1.name)).Perm (n.insts.zipIdx.map (·.1.name)) := hperm.map _
    have h2 : n.insts.zipIdx.map (fun k : Inst × Nat => k.1.name) = n.insts.map (·.name) := by
      have : (fun k : Inst × Nat => k.1.name) = (fun i : Inst => i.name) ∘ Prod.fst := rfl
      rw [this, ← List.map_map, List.zipIdx_map_fst]
    rw [h2] at h1
    simpa using h1.nodup_iff.mpr (hnm hwc)
  obtain ⟨sk, hbk, lbk, ubk, stdk, stdl⟩ := body_ports o n t hw hc hk hkids hdg.2 (kidsFull n t) []
    (fun k hk' => hperm.mem_iff.mp hk') hnames sh hlen0 (fun _ => by simp [hnames0]) dh hstd0
    (Or.inl (habs _ (fun e => hdg.1 e.symm)))
  obtain ⟨sc, hbc, _, dc, _⟩ := conn_stmts t (connPairs n (n.findDef t)) (connKeys n t (n.findDef t))
    (connPairs_keys n t (n.findDef t) (fun p hpm => ⟨(hP p hpm).2.1, (hP p hpm).2.2.1⟩) hcab) sk
  have hm : elabModel {} { name := t, hdr := hdrOfFull (n.findDef t),
                           body := (kidsFull n t).map (stmtOfFull o n) ++ connStmts n (n.findDef t) } = Except.ok sc := by
    unfold elabModel
    simp only [hh, bind, Except.bind]
    rw [elabStmts_append, connStmts_eq]
    simp only [hbk, bind, Except.bind]
    exact hbc
  have hbbs : ∃ sf, elabModels sc (bbPart o n t) = Except.ok sf := by
    unfold bbPart
    split
    · exact bb_models_ok (bbDefs n t) (by
        intro d hd p hp'
        have hdm : d ∈ n.defs := by
          unfold bbDefs at hd; exact (List.mem_filter.mp hd).1
        exact ⟨(hbp d hd).2 p hp', okWord_nonempty ((hw.2.1 d hdm).2.1 p hp')⟩) sc
    · exact ⟨sc, rfl⟩
  obtain ⟨sf, hsf⟩ := hbbs
  obtain ⟨n'', hconv⟩ := applyConvention_ok (List.range sf.insts.length)
    ({ sf with comments := (astOfFull o n t).comments } : St).toNet
  have hread : readB (composeText o n) = Except.ok n'' := by
    rw [read_composed_full o n t hw hf]
    unfold elabB elabSt
    have hms : elabModels {} (astOfFull o n t).models = Except.ok sf := by
      simp only [astOfFull]
      rw [elabModels_append]
      simp only [elabModels, hm, bind, Except.bind, pure, Except.pure]
      exact hsf
    simp only [hms, bind, Except.bind, pure, Except.pure]
    exact hconv
  have hnn : n'' = n' := by rw [hread] at h; cases h; rfl
  subst hnn
  obtain ⟨_, c2, _, _⟩ := applyConvention_pres _ hconv
  have hfind : ∀ m, (n''.findDef m).ports = portsOf sf m := by
    intro m
    unfold BNet.findDef portsOf findDef
    rw [c2]
    show (match (sf.defs.find? fun (d : DefD) => d.name = m) with | some d => d | none => ({ name := m } : DefD)).ports = _
    cases sf.defs.find? (fun (d : DefD) => d.name = m) <;> rfl
  exact ⟨sh, sk, sc, sf, habs, hbk, lbk, ubk, stdk, stdl, hbc, dc, hsf, hfind⟩

theorem roundtrip_leaf_ports (o : Opts) (n : BNet) (t : String) (hw : WellNamed n) (hf : FragFull n t)
    (hn : NetOKA n t) (hnm : NamesOK o n) (hbp : BBPlain n t) (hpm : n.PinMirror) (hdg : LatchSep n t)
    (hbw : BBWide n t) (n' : BNet) (h : readB (composeText o n) = Except.ok n') :
    (∀ k ∈ kidsFull n t, ∀ pn b,
      (pn, b) ∈ allPins (n'.findDef k.1.model) ↔ (pn, b) ∈ allPins (n.findDef k.1.model)) ∧
    (∀ k ∈ kidsFull n t, k.1.typ = "EBLIF.names" →
      (n'.findDef k.1.model).ports = stdNamesPorts (k.1.pins.length - 1)) ∧
    (∀ k ∈ kidsFull n t, k.1.typ = "EBLIF.latch" →
      ∃ a, a ≤ 5 ∧ (n'.findDef "generic-latch").ports = stdLatchPorts.take a) := by
  have ht : okWord t = true := hw.2.2.2.2 t hf.top
  have hn' := hn
  obtain ⟨hperm, hp, hnd, hcb, hcn, hk⟩ := hn'
  obtain ⟨hdn, hpnd, hmir⟩ := hpm
  obtain ⟨sh, sk, sc, sf, habs, hbk, lbk, ubk, stdk, stdl, hbc, dc, hsf, hfind⟩ :=
    second_read_chain o n t hw hf hn hnm hbp hdg n' h
  -- ports of a definition no black-box block is written for, after the children
  have hkeep : ∀ m, (∀ d ∈ bbDefs n t, m ≠ d.name) → portsOf sf m = portsOf sk m := by
    intro m hm
    have h1 : portsOf sc m = portsOf sk m := portsOf_of_defs dc m
    rw [← h1]
    unfold bbPart at hsf
    split at hsf
    · exact portsOf_bbmodels_other m (bbDefs n t) hm hsf
    · cases hsf; rfl
  refine ⟨?_, ?_, ?_⟩
  rotate_left
  · -- `.names` definitions
    intro k hkk hkn
    have hkz : k ∈ n.insts.zipIdx := hperm.mem_iff.mp hkk
    have hki : k.1 ∈ n.insts := mem_zipIdx_fst hkz
    have hmod := names_model n t hk k.1 hki hkn
    have hsh := (hk k hkz).1
    unfold KidShape at hsh
    simp only [hkn, if_true] at hsh
    have hq : ∃ q, q ∈ k.1.pins := by
      cases hpins : k.1.pins with
      | nil => have := hsh.1; rw [hpins] at this; simp at this
      | cons q r => exact ⟨q, by simp⟩
    obtain ⟨q, hq⟩ := hq
    obtain ⟨p, hp', _⟩ := lbk k hkk q hq
    have hne : portsOf sk k.1.model ≠ [] := by
      intro e; rw [e] at hp'; simp [findIn] at hp'
    have hstd := stdk k.1 hki hkn
    rw [hfind, hkeep k.1.model (by
      intro d hd e
      obtain ⟨i, hi, hty, hmm⟩ := bbDefs_user hd
      obtain ⟨idx, hidx⟩ := List.getElem?_of_mem hi
      have hiz : (i, idx) ∈ n.insts.zipIdx := List.mem_zipIdx_iff_getElem?.mpr hidx
      have hnn : i.typ ≠ "EBLIF.names" := by
        rcases hty with h' | h' | h' <;> (rw [h']; decide)
      exact (hk (i, idx) hiz).2.2.2.2 hnn k.1 hki hkn (hmm.trans e.symm))]
    rcases hstd with habs' | ⟨_, hpp⟩
    · rw [← hmod] at habs'
      exfalso
      apply hne
      unfold portsOf; rw [habs']
    · rw [hmod]; exact hpp
  · -- `generic-latch`
    intro k hkk hkl
    have hkz : k ∈ n.insts.zipIdx := hperm.mem_iff.mp hkk
    have hsh := (hk k hkz).1
    have hkn : ¬ k.1.typ = "EBLIF.names" := by rw [hkl]; decide
    unfold KidShape at hsh
    simp only [hkn, hkl, if_false, if_true] at hsh
    have hq : ∃ q, q ∈ k.1.pins := by
      cases hpins : k.1.pins with
      | nil => have := hsh.2.1; rw [hpins] at this; simp at this
      | cons q r => exact ⟨q, by simp⟩
    obtain ⟨q, hq⟩ := hq
    obtain ⟨p, hp', _⟩ := lbk k hkk q hq
    rw [hsh.1] at hp'
    have hne : portsOf sk "generic-latch" ≠ [] := by
      intro e; rw [e] at hp'; simp [findIn] at hp'
    rw [hfind, hkeep "generic-latch" (by
      intro d hd e
      obtain ⟨i, hi, hty, hmm⟩ := bbDefs_user hd
      obtain ⟨idx, hidx⟩ := List.getElem?_of_mem hi
      have hiz : (i, idx) ∈ n.insts.zipIdx := List.mem_zipIdx_iff_getElem?.mpr hidx
      have hnl : i.typ ≠ "EBLIF.latch" := by
        rcases hty with h' | h' | h' <;> (rw [h']; decide)
      exact hdg.2 (i, idx) hiz hnl (hmm.trans e.symm))]
    rcases stdl with habs' | ⟨_, a, ha, hpp⟩
    · exfalso
      apply hne
      unfold portsOf; rw [habs']
    · exact ⟨a, ha, hpp⟩
  -- one child
  intro k hkk pn b
  have hkz : k ∈ n.insts.zipIdx := hperm.mem_iff.mp hkk
  have hki : k.1 ∈ n.insts := mem_zipIdx_fst hkz
  have hmt : k.1.model ≠ t := fun e => (hk k hkz).2.2.2.1 e.symm
  -- the definition in `n`
  have hdef : ∀ k' ∈ n.insts.zipIdx, k'.1.model = k.1.model →
      (n.findDef k.1.model).name = k.1.model ∧ n.findDef k.1.model ∈ n.defs ∧ k'.1.pins.Perm (allPins (n.findDef k.1.model)) := by
    intro k' hk' hmm
    obtain ⟨d, hd, hdn', hpp⟩ := hmir k'.1 (mem_zipIdx_fst hk')
    have := bnet_findDef_of_mem hdn hd
    rw [hdn', hmm] at this
    rw [this]
    exact ⟨hdn'.trans hmm, hd, hpp⟩
  obtain ⟨_, hdmem, hkperm⟩ := hdef k hkz rfl
  have hportsnd := hpnd _ hdmem
  let W : String → Nat := fun x => widthL (n.findDef k.1.model).ports x
  have hWmem : ∀ x y, (x, y) ∈ allPins (n.findDef k.1.model) → y < W x := by
    intro x y hxy
    obtain ⟨p, hpm, hpx, hlt⟩ := (mem_allPins _ x y).mp hxy
    have := findIn_of_mem_nodup hportsnd hpm
    show y < widthL _ x
    unfold widthL
    rw [← hpx, this]; exact hlt
  have hWinv : ∀ x y, y < W x → (x, y) ∈ allPins (n.findDef k.1.model) := by
    intro x y hlt
    have hlt' : y < widthL (n.findDef k.1.model).ports x := hlt
    unfold widthL at hlt'
    cases hfi : findIn (n.findDef k.1.model).ports x with
    | none => rw [hfi] at hlt'; simp at hlt'
    | some p =>
      rw [hfi] at hlt'
      have hpm : p ∈ (n.findDef k.1.model).ports := List.mem_of_find?_eq_some hfi
      have hpx : p.name = x := by unfold findIn at hfi; simpa using List.find?_some hfi
      exact (mem_allPins _ x y).mpr ⟨p, hpm, hpx, hlt'⟩
  -- upper bound
  have ub0 : UBd sh k.1.model W := by
    intro p hpm
    have : portsOf sh k.1.model = [] := by unfold portsOf; rw [habs _ hmt]
    rw [this] at hpm; cases hpm
  have ub1 : UBd sk k.1.model W := ubk k.1.model W (by
      intro k' hk' hmm q hq
      have hk'z : k' ∈ n.insts.zipIdx := hperm.mem_iff.mp hk'
      obtain ⟨_, _, hpp⟩ := hdef k' hk'z hmm
      exact hWmem _ _ (hpp.mem_iff.mp hq)) ub0
  have ub2 : UBd sc k.1.model W := ubd_of_ports (portsOf_of_defs dc _) ub1
  have ub3 : UBd sf k.1.model W := by
    unfold bbPart at hsf
    split at hsf
    · refine ubd_bbmodels k.1.model W (bbDefs n t) ?_ ub2 hsf
      intro d hd hdm p hpm
      have hdmem' : d ∈ n.defs := by unfold bbDefs at hd; exact (List.mem_filter.mp hd).1
      have hdd : n.findDef k.1.model = d := by
        have := bnet_findDef_of_mem hdn hdmem'
        rw [hdm] at this; exact this
      refine ⟨(hbp d hd).2 p hpm, okWord_nonempty ((hw.2.1 d hdmem').2.1 p hpm), ?_⟩
      have h1 := hbw d hd p hpm
      have : (p.name, 0) ∈ allPins (n.findDef k.1.model) := by
        rw [hdd]; exact (mem_allPins d p.name 0).mpr ⟨p, hpm, rfl, by omega⟩
      have := hWmem _ _ this
      omega
    · cases hsf; exact ub2
  -- lower bound
  have lb : ∀ q ∈ k.1.pins, ∃ p, findIn (portsOf sf k.1.model) q.1 = some p ∧ q.2 < p.width := by
    intro q hq
    obtain ⟨p, hp', hlt⟩ := lbk k hkk q hq
    obtain ⟨p1, hp1, l1⟩ := pm_elabStmts _ hbc _ _ p hp'
    obtain ⟨p2, hp2, l2⟩ := pm_elabModels _ hsf _ _ p1 hp1
    exact ⟨p2, hp2, by omega⟩
  rw [mem_allPins, hfind]
  constructor
  · rintro ⟨p, hpm, hpx, hlt⟩
    have := ub3 p hpm
    rw [hpx] at this
    exact hWinv pn b (by omega)
  · intro hmem
    have hq : (pn, b) ∈ k.1.pins := hkperm.mem_iff.mpr hmem
    obtain ⟨p, hp', hlt⟩ := lb (pn, b) hq
    have hpm : p ∈ portsOf sf k.1.model := List.mem_of_find?_eq_some hp'
    have hpx : p.name = pn := by unfold findIn at hp'; simpa using List.find?_some hp'
    exact ⟨p, hpm, hpx, hlt⟩

end Spydr.Eblif.Any
