/-
  Ports of the instantiated (non-top) definitions, upper bound: a definition's ports never get wider
  than the formals that were written for it ask for.
-/
import Spydr.Eblif.TextLevel

namespace Spydr.Eblif

/-- every port of definition `m` is at most `W name` wide -/
def UBd (st : St) (m : String) (W : String → Nat) : Prop := ∀ p ∈ portsOf st m, p.width ≤ W p.name

theorem ubd_of_ports {a b : St} {m : String} {W : String → Nat} (h : portsOf b m = portsOf a m) (u : UBd a m W) : UBd b m W := by
  intro p hp; rw [h] at hp; exact u p hp

theorem ubd_addPort {st : St} {m : String} {W : String → Nat} (hd : DefEx st m) (u : UBd st m W) (pn : String) (d : Dir)
    (w : Nat) (hw : w ≤ W pn) : UBd (addPort st m pn d w) m W := by
  by_cases hn : ∃ p ∈ portsOf st m, p.name = pn
  · rw [portsOf_addPort_old st m pn d w hn]; exact u
  · have hn' : ∀ p ∈ portsOf st m, p.name ≠ pn := fun p hp e => hn ⟨p, hp, e⟩
    intro p hp
    rw [(portsOf_addPort_new st m pn d w hd hn').1] at hp
    rcases List.mem_append.mp hp with h | h
    · exact u p h
    · simp only [List.mem_singleton] at h; subst h; exact hw

theorem defEx_addPort {st : St} {m : String} (hd : DefEx st m) (dn pn : String) (d : Dir) (w : Nat) :
    DefEx (addPort st dn pn d w) m := defEx_of_dv (by simp) hd

theorem defEx_growPort {st : St} {m : String} (hd : DefEx st m) (dn pn : String) (w : Nat) :
    DefEx (growPort st dn pn w) m := defEx_of_dv (by simp) hd

theorem ubd_growPort {st : St} {m : String} {W : String → Nat} (hd : DefEx st m) (u : UBd st m W) (pn : String)
    (w : Nat) (hw : w ≤ W pn) : UBd (growPort st m pn w) m W := by
  intro p hp
  rw [portsOf_growPort st m pn w hd] at hp
  unfold growL at hp
  split at hp
  · exact u p hp
  · obtain ⟨q, hq, rfl⟩ := List.mem_map.mp hp
    by_cases hqn : q.name = pn
    · simp only [hqn, if_true]; exact hw
    · simp only [hqn, if_false]; exact u q hq

theorem ubd_declFormals {m : String} {W : String → Nat} (l : List (String × String))
    (hreq : ∀ fa ∈ l, ∀ pn pi, splitIdx fa.1 = Except.ok (pn, pi) → pi < W pn) :
    ∀ {st st' : St}, DefEx st m → UBd st m W → declFormals st m l = Except.ok st' → UBd st' m W ∧ DefEx st' m := by
  induction l with
  | nil => intro st st' hd u h; cases h; exact ⟨u, hd⟩
  | cons fa r ih =>
    intro st st' hd u h
    unfold declFormals at h
    obtain ⟨s1, h1, h2⟩ := bind_ok h
    have : UBd s1 m W ∧ DefEx s1 m := by
      unfold declFormal at h1
      obtain ⟨⟨pn, pi⟩, hs, h1⟩ := bind_ok h1
      simp only [] at h1
      cases h1
      have hlt := hreq fa (by simp) pn pi hs
      have u1 := ubd_addPort hd u pn Dir.undef 0 (Nat.zero_le _)
      have d1 := defEx_addPort hd m pn Dir.undef 0
      split
      · exact ⟨u1, d1⟩
      · rename_i hnle
        exact ⟨ubd_growPort d1 u1 pn _ (by omega), defEx_growPort d1 m pn _⟩
    exact ih (fun fb hfb => hreq fb (by simp [hfb])) this.2 this.1 h2

/-- after the formals of a statement were declared, each of them names a port that is wide enough
    (repaired `parse_subcircuit_port`: also for `unconn` actuals) -/
theorem declFormals_port {m : String} (l : List (String × String)) :
    ∀ {st st' : St}, DefEx st m → declFormals st m l = Except.ok st' →
      ∀ fa ∈ l, ∀ pn pi, splitIdx fa.1 = Except.ok (pn, pi) → ∃ p, findIn (portsOf st' m) pn = some p ∧ pi < p.width := by
  induction l with
  | nil => intro st st' _ _ fa hfa; cases hfa
  | cons fb r ih =>
    intro st st' hd h fa hfa pn pi hs
    unfold declFormals at h
    obtain ⟨s1, h1, h2⟩ := bind_ok h
    have hd1 : DefEx s1 m := defEx_of_dv (dv_declFormals (model := m) [fb] (st' := s1) (by unfold declFormals; rw [h1]; rfl)) hd
    rcases List.mem_cons.mp hfa with rfl | hm
    · have hw : pi < portWidth s1 m pn := by
        unfold declFormal at h1
        rw [hs] at h1
        simp only [bind, Except.bind, pure, Except.pure] at h1
        cases h1
        obtain ⟨hh, hd'⟩ := addPort_has st m pn Dir.undef 0 hd
        split
        · rename_i hle; omega
        · have := (growPort_port (addPort st m pn Dir.undef 0) m pn (pi + 1) hd').2.1 hh
          omega
      obtain ⟨p, hp, hlt⟩ := findIn_of_width hw
      obtain ⟨p', hp', hle⟩ := pm_declFormals r h2 m pn p hp
      exact ⟨p', hp', by omega⟩
    · exact ih hd1 h2 fa hm pn pi hs

theorem ubd_connectAll {m parent : String} {idx : Nat} {W : String → Nat} (l : List (String × String))
    (hreq : ∀ fa ∈ l, ∀ pn pi, splitIdx fa.1 = Except.ok (pn, pi) → pi < W pn) :
    ∀ {st st' : St}, DefEx st m → UBd st m W → connectAll st idx parent m l = Except.ok st' → UBd st' m W ∧ DefEx st' m := by
  induction l with
  | nil => intro st st' hd u h; cases h; exact ⟨u, hd⟩
  | cons fa r ih =>
    intro st st' hd u h
    unfold connectAll at h
    obtain ⟨s1, h1, h2⟩ := bind_ok h
    have : UBd s1 m W ∧ DefEx s1 m := by
      unfold connectOne at h1
      obtain ⟨⟨cn, ci⟩, _, h1⟩ := bind_ok h1
      obtain ⟨⟨pn, pi⟩, hs, h1⟩ := bind_ok h1
      simp only [] at h1
      split at h1
      · cases h1; exact ⟨ubd_of_ports rfl u, hd⟩
      · split at h1
        · cases h1
        · cases h1
          have hlt := hreq fa (by simp) pn pi hs
          refine ⟨ubd_of_ports (portsOf_connect _ _ _ _ _ _) (ubd_growPort hd u pn _ (by omega)), ?_⟩
          exact defEx_of_dv (by simp) hd
    exact ih (fun fb hfb => hreq fb (by simp [hfb])) this.2 this.1 h2

theorem ubd_addLatchPorts {W : String → Nat} (l : List String) (hl : ∀ o ∈ l, 1 ≤ W o) :
    ∀ {st : St}, DefEx st "generic-latch" → UBd st "generic-latch" W →
      UBd (addLatchPorts st l) "generic-latch" W ∧ DefEx (addLatchPorts st l) "generic-latch" := by
  induction l with
  | nil => intro st hd u; exact ⟨u, hd⟩
  | cons o r ih =>
    intro st hd u
    unfold addLatchPorts
    exact ih (fun x hx => hl x (by simp [hx])) (defEx_addPort hd _ _ _ _) (ubd_addPort hd u o _ 1 (hl o (by simp)))

theorem ubd_ensureDef {st : St} {m : String} {W : String → Nat} (u : UBd st m W) : UBd (ensureDef st m) m W := by
  cases hf : findDef st m with
  | none =>
    intro p hp
    rw [portsOf_ensureDef_fresh st m hf] at hp
    cases hp
  | some d =>
    have hd : DefEx st m := by unfold DefEx; rw [hf]; rfl
    exact ubd_of_ports (portsOf_ensureDef_old st m hd) u

/-- an instance statement does not touch the ports of another definition -/
theorem portsOf_other_stmt {st st' : St} {cur m : String} {s : Stmt} (hs : isInst s = true) (hne : m ≠ stmtModel s)
    (h : elabStmt st cur s = Except.ok st') : portsOf st' m = portsOf st m := by
  cases hf : findDef st m with
  | none =>
    have := absent_elabStmt_inst hs hf hne h
    unfold portsOf
    rw [hf, this]
  | some d =>
    have hd : DefEx st m := by unfold DefEx; rw [hf]; rfl
    exact (fr_elabStmt_inst hs hd hne h).1

/-- `.subckt` / `.gate` of model `m`: within the bound when all its formals are -/
theorem ubd_subckt {st st' : St} {cur m : String} {W : String → Nat} {gate : Bool} {conns : List (String × String)}
    {info : List InfoStmt}
    (h1r : ∀ fa ∈ conns, ∀ pn pi, splitIdx fa.1 = Except.ok (pn, pi) → pi < W pn)
    (h2r : ∀ fa ∈ infoMapOf conns, ∀ pn pi, splitIdx fa.1 = Except.ok (pn, pi) → pi < W pn)
    (u : UBd st m W) (h : elabStmt st cur (Stmt.subckt gate m conns info) = Except.ok st') : UBd st' m W := by
  unfold elabStmt at h
  simp only [] at h
  obtain ⟨s1, h1, h⟩ := bind_ok h
  obtain ⟨s2, h2, h⟩ := bind_ok h
  have u0 : UBd (checkHierarchy st cur m) m W := ubd_of_ports (portsOf_of_defs (by unfold checkHierarchy; split <;> rfl) m) u
  have u1 := ubd_ensureDef u0
  have d1 : DefEx (ensureDef (checkHierarchy st cur m) m) m := defEx_ensureDef _ _
  obtain ⟨u2, d2⟩ := ubd_declFormals conns h1r d1 u1 h1
  have u3 : UBd (assignDefault (newInst s1 cur m (if gate then "EBLIF.gate" else "EBLIF.subckt")).1
      (newInst s1 cur m (if gate then "EBLIF.gate" else "EBLIF.subckt")).2 cur m) m W := ubd_of_ports rfl u2
  have d3 : DefEx (assignDefault (newInst s1 cur m (if gate then "EBLIF.gate" else "EBLIF.subckt")).1
      (newInst s1 cur m (if gate then "EBLIF.gate" else "EBLIF.subckt")).2 cur m) m := (fr_of_defs d2 rfl).2
  obtain ⟨u4, d4⟩ := ubd_connectAll _ h2r d3 u3 h2
  exact ubd_of_ports (fr_applyInfo info d4 h).1 u4

/-- `.latch`: within the bound when the latch fields it names are -/
theorem ubd_latch {st st' : St} {cur : String} {W : String → Nat} {toks : List String} {info : List InfoStmt}
    (hr : ∀ o ∈ (latchOrder.zip toks).map (·.1), 1 ≤ W o)
    (u : UBd st "generic-latch" W) (h : elabStmt st cur (Stmt.latch toks info) = Except.ok st') :
    UBd st' "generic-latch" W := by
  unfold elabStmt at h
  simp only [] at h
  split at h
  · cases h
  · obtain ⟨s1, h1, h⟩ := bind_ok h
    obtain ⟨s2, h2, h⟩ := bind_ok h
    have u1 := ubd_ensureDef u
    have d1 : DefEx (ensureDef st "generic-latch") "generic-latch" := defEx_ensureDef _ _
    obtain ⟨u2, d2⟩ := ubd_addLatchPorts _ hr d1 u1
    have f3 : Fr "generic-latch" (addLatchPorts (ensureDef st "generic-latch") ((latchOrder.zip toks).map (·.1))) s1 := by
      refine Fr.trans ?_ (fr_rename ?_ h1)
      · exact fr_of_defs d2 rfl
      · exact (fr_of_defs d2 rfl).2
    have u3 := ubd_of_ports f3.1 u2
    obtain ⟨u4, d4⟩ := ubd_connectAll (W := W) (latchOrder.zip toks) (by
        intro fa hfa pn pi hs
        obtain ⟨a, b⟩ := fa
        have := latchOrder_split a (mem_zip_fst hfa)
        simp only at hs
        rw [this] at hs
        simp only [Except.ok.injEq, Prod.mk.injEq] at hs
        rw [← hs.1, ← hs.2]
        exact hr a (List.mem_map.mpr ⟨(a, b), hfa, rfl⟩)) f3.2 u3 h2
    exact ubd_of_ports (fr_applyInfo info d4 h).1 u4

/-- `.names` on a standard (or absent) `logic-gate_k`: within the bound when in_0..in_{k-1}, out are -/
theorem ubd_names {st st' : St} {cur : String} {W : String → Nat} {nets covers : List String} {info : List InfoStmt}
    (hk : Std st (nets.length - 1)) (hr : ∀ p ∈ stdNamesPorts (nets.length - 1), 1 ≤ W p.name)
    (h : elabStmt st cur (Stmt.names nets covers info) = Except.ok st') :
    UBd st' ("logic-gate_" ++ natStr (nets.length - 1)) W := by
  obtain ⟨_, hp⟩ := std_names_self hk h
  intro p hpm
  rw [hp] at hpm
  have hw : p.width = 1 := by
    unfold stdNamesPorts at hpm
    rcases List.mem_append.mp hpm with h' | h'
    · obtain ⟨j, _, rfl⟩ := List.mem_map.mp h'; rfl
    · simp only [List.mem_singleton] at h'; subst h'; rfl
  rw [hw]; exact hr p hpm

end Spydr.Eblif
