/-
  Exactness across `.blackbox` and across models: the global join list is threaded through every
  statement of every model; `.blackbox` removes the joins declared for the bits of its model.
-/
import Spydr.Eblif.RoundTripElab

namespace Spydr.Eblif

/-! ### WF through headers and models -/

theorem wf_elabInput {st st' : St} {cur tok : String} (w : WF st) (h : elabInput st cur tok = Except.ok st') : WF st' := by
  unfold elabInput at h
  obtain ⟨⟨pn, pi⟩, _, h⟩ := bind_ok h
  simp only [] at h
  cases h
  refine wf_connect (WF.of_fields ?_ w) _ _ _ _
  rw [nf_growPort]
  split <;> simp

theorem wf_elabOutput {st st' : St} {cur tok : String} (w : WF st) (h : elabOutput st cur tok = Except.ok st') : WF st' := by
  unfold elabOutput at h
  obtain ⟨⟨pn, pi⟩, _, h⟩ := bind_ok h
  simp only [] at h
  split at h
  · cases h; exact WF.of_fields (by simp) w
  · cases h; exact wf_connect (WF.of_fields (by simp) w) _ _ _ _

theorem wf_elabToks (f : St → String → String → Except Err St)
    (hf : ∀ {st st' : St} {cur tok : String}, WF st → f st cur tok = Except.ok st' → WF st')
    {cur : String} (l : List String) :
    ∀ {st st' : St}, WF st → elabToks f st cur l = Except.ok st' → WF st' := by
  induction l with
  | nil => intro st st' w h; cases h; exact w
  | cons t r ih =>
    intro st st' w h
    unfold elabToks at h
    obtain ⟨s1, h1, h2⟩ := bind_ok h
    exact ih (hf w h1) h2

theorem wf_elabHdrs {cur : String} (l : List Hdr) :
    ∀ {st st' : St}, WF st → elabHdrs st cur l = Except.ok st' → WF st' := by
  induction l with
  | nil => intro st st' w h; cases h; exact w
  | cons x r ih =>
    intro st st' w h
    unfold elabHdrs at h
    obtain ⟨s1, h1, h2⟩ := bind_ok h
    refine ih ?_ h2
    cases x with
    | inputs l => exact wf_elabToks elabInput (fun w h => wf_elabInput w h) l w h1
    | outputs l => exact wf_elabToks elabOutput (fun w h => wf_elabOutput w h) l w h1
    | clock l => unfold elabHdr at h1; cases h1; exact WF.of_fields (nf_updDef _ _ _) w

theorem wf_elabModel {st st' : St} {m : Model} (w : WF st) (h : elabModel st m = Except.ok st') : WF st' := by
  unfold elabModel at h
  obtain ⟨s1, h1, h2⟩ := bind_ok h
  exact wf_elabStmts _ (wf_elabHdrs _ (WF.of_fields (nf_beginModel _ _) w) h1) h2

theorem wf_elabModels (ms : List Model) :
    ∀ {st st' : St}, WF st → elabModels st ms = Except.ok st' → WF st' := by
  induction ms with
  | nil => intro st st' w h; cases h; exact w
  | cons m r ih =>
    intro st st' w h
    unfold elabModels at h
    obtain ⟨s1, h1, h2⟩ := bind_ok h
    exact ih (wf_elabModel w h1) h2

/-! ### `.blackbox` removes the joins of its model -/

theorem exact_clearOwner {st : St} {J : List (Pin × Key)} (w : WF st) (e : Exact st J) (c : String) :
    Exact (clearOwner st c) (J.filter (fun x => x.2.1 ≠ c)) := by
  intro p k
  by_cases hk : k.1 = c
  · simp only [clearOwner, hk, if_true]
    constructor
    · intro h; cases h
    · rintro ⟨k', hm, ha⟩
      simp only [List.mem_filter, decide_eq_true_eq] at hm
      simp only [hm.2, if_false] at ha
      have := w.own k'
      rw [ha, hk] at this
      exact absurd this.symm hm.2
  · have hp : (clearOwner st c).pins k = st.pins k := by simp [clearOwner, hk]
    rw [hp, e p k]
    constructor
    · rintro ⟨k', hm, ha⟩
      have hko : k'.1 ≠ c := by
        have := w.own k'
        rw [ha] at this
        rw [← this]; exact hk
      refine ⟨k', ?_, ?_⟩
      · simp only [List.mem_filter, decide_eq_true_eq]; exact ⟨hm, hko⟩
      · simp [clearOwner, hko, ha]
    · rintro ⟨k', hm, ha⟩
      simp only [List.mem_filter, decide_eq_true_eq] at hm
      refine ⟨k', hm.1, ?_⟩
      simpa [clearOwner, hm.2] using ha

/-- the join list after one statement -/
def stmtAcc (st : St) (cur : String) (J : List (Pin × Key)) : Stmt → List (Pin × Key)
  | Stmt.blackbox => J.filter (fun x => x.2.1 ≠ cur)
  | s => J ++ stmtJoins st cur s

theorem exact_elabStmt_all {st st' : St} {J : List (Pin × Key)} {cur : String} {s : Stmt}
    (w : WF st) (e : Exact st J) (h : elabStmt st cur s = Except.ok st') : Exact st' (stmtAcc st cur J s) := by
  cases s with
  | blackbox =>
    unfold elabStmt at h
    cases h
    exact Exact.of_pa (pa_of_nf (nf_updDef _ _ _)) (exact_clearOwner w e cur)
  | subckt g m c i => exact exact_elabStmt (by intro hh; cases hh) e h
  | names a b c => exact exact_elabStmt (by intro hh; cases hh) e h
  | latch a b => exact exact_elabStmt (by intro hh; cases hh) e h
  | conn a b => exact exact_elabStmt (by intro hh; cases hh) e h

/-- the join list after a statement list (state threaded as in `bodyJoins`) -/
def bodyAcc (cur : String) : St → List (Pin × Key) → List Stmt → List (Pin × Key)
  | _, J, [] => J
  | st, J, s :: r =>
      match elabStmt st cur s with
      | Except.ok st1 => bodyAcc cur st1 (stmtAcc st cur J s) r
      | Except.error _ => stmtAcc st cur J s

theorem exact_elabStmts_all {cur : String} (l : List Stmt) :
    ∀ {st st' : St} {J : List (Pin × Key)}, WF st → Exact st J → elabStmts st cur l = Except.ok st' →
      Exact st' (bodyAcc cur st J l) := by
  induction l with
  | nil => intro st st' J _ e h; cases h; exact e
  | cons s r ih =>
    intro st st' J w e h
    unfold elabStmts at h
    obtain ⟨s1, h1, h2⟩ := bind_ok h
    simp only [bodyAcc, h1]
    exact ih (wf_elabStmt w h1) (exact_elabStmt_all w e h1) h2

/-! ### headers -/

/-- what `.outputs word` joins: nothing when the word names an existing input port -/
def outJoin (st : St) (cur tok : String) : List (Pin × Key) :=
  match splitIdx tok with
  | Except.ok (pn, pi) =>
      if portDir (addPort st cur pn Dir.out 0) cur pn = Dir.inp ∨ portDir (addPort st cur pn Dir.out 0) cur pn = Dir.inout
      then [] else [(Pin.top cur pn pi, (cur, pn, pi))]
  | Except.error _ => []

def inJoin (cur tok : String) : List (Pin × Key) :=
  match splitIdx tok with
  | Except.ok (pn, pi) => [(Pin.top cur pn pi, (cur, pn, pi))]
  | Except.error _ => []

theorem exact_elabInput_all {st st' : St} {J : List (Pin × Key)} {cur tok : String}
    (e : Exact st J) (h : elabInput st cur tok = Except.ok st') : Exact st' (J ++ inJoin cur tok) := by
  cases hs : splitIdx tok with
  | error er => unfold elabInput at h; rw [hs] at h; cases h
  | ok r =>
    obtain ⟨pn, pi⟩ := r
    simp only [inJoin, hs]
    exact exact_elabInput e hs h

theorem exact_elabOutput_all {st st' : St} {J : List (Pin × Key)} {cur tok : String}
    (e : Exact st J) (h : elabOutput st cur tok = Except.ok st') : Exact st' (J ++ outJoin st cur tok) := by
  cases hs : splitIdx tok with
  | error er => unfold elabOutput at h; rw [hs] at h; cases h
  | ok r =>
    obtain ⟨pn, pi⟩ := r
    unfold elabOutput at h
    rw [hs] at h
    simp only [bind, Except.bind, pure, Except.pure] at h
    simp only [outJoin, hs]
    split at h
    · rename_i hc
      cases h
      have : portDir (addPort st cur pn Dir.out 0) cur pn = Dir.inp ∨ portDir (addPort st cur pn Dir.out 0) cur pn = Dir.inout := by
        simpa using hc
      simp only [this, if_true, List.append_nil]
      exact Exact.of_pa (pa_of_nf (by simp)) e
    · rename_i hc
      cases h
      have : ¬ (portDir (addPort st cur pn Dir.out 0) cur pn = Dir.inp ∨ portDir (addPort st cur pn Dir.out 0) cur pn = Dir.inout) := by
        simpa using hc
      simp only [this, if_false]
      exact exact_connect (Exact.of_pa (pa_of_nf (by simp)) e) _ _ _ _

/-- join list after a list of `.inputs` / `.outputs` words -/
def toksAcc (isOut : Bool) (cur : String) : St → List (Pin × Key) → List String → List (Pin × Key)
  | _, J, [] => J
  | st, J, w :: r =>
      let J' := J ++ (if isOut then outJoin st cur w else inJoin cur w)
      match (if isOut then elabOutput st cur w else elabInput st cur w) with
      | Except.ok st1 => toksAcc isOut cur st1 J' r
      | Except.error _ => J'

theorem exact_inputs_all {cur : String} (l : List String) :
    ∀ {st st' : St} {J : List (Pin × Key)}, Exact st J → elabToks elabInput st cur l = Except.ok st' →
      Exact st' (toksAcc false cur st J l) := by
  induction l with
  | nil => intro st st' J e h; cases h; exact e
  | cons w r ih =>
    intro st st' J e h
    unfold elabToks at h
    obtain ⟨s1, h1, h2⟩ := bind_ok h
    simp only [toksAcc, Bool.false_eq_true, if_false, h1]
    exact ih (exact_elabInput_all e h1) h2

theorem exact_outputs_all {cur : String} (l : List String) :
    ∀ {st st' : St} {J : List (Pin × Key)}, Exact st J → elabToks elabOutput st cur l = Except.ok st' →
      Exact st' (toksAcc true cur st J l) := by
  induction l with
  | nil => intro st st' J e h; cases h; exact e
  | cons w r ih =>
    intro st st' J e h
    unfold elabToks at h
    obtain ⟨s1, h1, h2⟩ := bind_ok h
    simp only [toksAcc, if_true, h1]
    exact ih (exact_elabOutput_all e h1) h2

def hdrAcc (cur : String) (st : St) (J : List (Pin × Key)) : Hdr → List (Pin × Key)
  | Hdr.inputs l => toksAcc false cur st J l
  | Hdr.outputs l => toksAcc true cur st J l
  | Hdr.clock _ => J

def hdrsAcc (cur : String) : St → List (Pin × Key) → List Hdr → List (Pin × Key)
  | _, J, [] => J
  | st, J, x :: r =>
      match elabHdr st cur x with
      | Except.ok st1 => hdrsAcc cur st1 (hdrAcc cur st J x) r
      | Except.error _ => hdrAcc cur st J x

theorem exact_elabHdrs_all {cur : String} (l : List Hdr) :
    ∀ {st st' : St} {J : List (Pin × Key)}, Exact st J → elabHdrs st cur l = Except.ok st' →
      Exact st' (hdrsAcc cur st J l) := by
  induction l with
  | nil => intro st st' J e h; cases h; exact e
  | cons x r ih =>
    intro st st' J e h
    unfold elabHdrs at h
    obtain ⟨s1, h1, h2⟩ := bind_ok h
    simp only [hdrsAcc, h1]
    refine ih ?_ h2
    cases x with
    | inputs l => exact exact_inputs_all l e h1
    | outputs l => exact exact_outputs_all l e h1
    | clock l => unfold elabHdr at h1; cases h1; exact Exact.of_pa (pa_of_nf (nf_updDef _ _ _)) e

/-- join list after a whole model -/
def modelAcc (st : St) (J : List (Pin × Key)) (m : Model) : List (Pin × Key) :=
  match elabHdrs (beginModel st m.name) m.name m.hdr with
  | Except.ok sh => bodyAcc m.name sh (hdrsAcc m.name (beginModel st m.name) J m.hdr) m.body
  | Except.error _ => hdrsAcc m.name (beginModel st m.name) J m.hdr

def modelsAcc : St → List (Pin × Key) → List Model → List (Pin × Key)
  | _, J, [] => J
  | st, J, m :: r =>
      match elabModel st m with
      | Except.ok st1 => modelsAcc st1 (modelAcc st J m) r
      | Except.error _ => modelAcc st J m

theorem exact_elabModel_all {st st' : St} {J : List (Pin × Key)} {m : Model} (w : WF st) (e : Exact st J)
    (h : elabModel st m = Except.ok st') : Exact st' (modelAcc st J m) := by
  unfold elabModel at h
  obtain ⟨sh, h1, h2⟩ := bind_ok h
  simp only [modelAcc, h1]
  have wb : WF (beginModel st m.name) := WF.of_fields (nf_beginModel _ _) w
  exact exact_elabStmts_all _ (wf_elabHdrs _ wb h1)
    (exact_elabHdrs_all _ (Exact.of_pa (pa_of_nf (nf_beginModel _ _)) e) h1) h2

theorem exact_elabModels_all (ms : List Model) :
    ∀ {st st' : St} {J : List (Pin × Key)}, WF st → Exact st J → elabModels st ms = Except.ok st' →
      Exact st' (modelsAcc st J ms) := by
  induction ms with
  | nil => intro st st' J _ e h; cases h; exact e
  | cons m r ih =>
    intro st st' J w e h
    unfold elabModels at h
    obtain ⟨s1, h1, h2⟩ := bind_ok h
    simp only [modelsAcc, h1]
    exact ih (wf_elabModel w h1) (exact_elabModel_all w e h1) h2

end Spydr.Eblif
