/-
  `formal_actual`, port side: in the final state the instantiated definition exists and has the
  formal's port with more pins than the formal's bit index.
-/
import Spydr.Eblif.PortsMono2

namespace Spydr.Eblif

theorem findIn_of_width {st : St} {dn pn : String} {pi : Nat} (h : pi < portWidth st dn pn) :
    ∃ p, findIn (portsOf st dn) pn = some p ∧ pi < p.width := by
  rw [portWidth_eq] at h
  cases hf : findIn (portsOf st dn) pn with
  | none => simp [hf] at h
  | some p => simp only [hf] at h; exact ⟨p, rfl, h⟩

theorem connectAll_port {idx : Nat} {parent model : String} (l : List (String × String)) :
    ∀ {st st' : St}, connectAll st idx parent model l = Except.ok st' →
      ∀ fa ∈ l, ∀ cn ci pn pi, splitIdx fa.2 = Except.ok (cn, ci) → splitIdx fa.1 = Except.ok (pn, pi) →
        cn ≠ "unconn" → ∃ p, findIn (portsOf st' model) pn = some p ∧ pi < p.width := by
  induction l with
  | nil => intro st st' _ fa hfa; cases hfa
  | cons fb r ih =>
    intro st st' h0 fa hfa cn ci pn pi e1 e2 hu
    unfold connectAll at h0
    obtain ⟨s1, h1, h⟩ := bind_ok h0
    clear h0
    rcases List.mem_cons.mp hfa with rfl | hmem
    · obtain ⟨_, hw⟩ := formal_actual_port_step st s1 idx parent model fa cn pn ci pi e1 e2 hu h1
      obtain ⟨p, hp, hpi⟩ := findIn_of_width hw
      obtain ⟨p', hp', hle⟩ := pm_connectAll r h model pn p hp
      exact ⟨p', hp', by omega⟩
    · exact ih h fa hmem cn ci pn pi e1 e2 hu

/-- **`formal_actual`, port side.**  For every `formal=actual` (actual not `unconn`) of a `.subckt`/`.gate`
    anywhere in a body (later statements arbitrary, `.blackbox` included): in the FINAL state the
    definition `model` has a port named like the formal with more pins than the formal's bit index
    (ports never disappear and never get narrower, `PMono`). -/
theorem formal_actual_port_final (st st' : St) (cur : String) (pre post : List Stmt) (gate : Bool) (model : String)
    (conns : List (String × String)) (info : List InfoStmt)
    (h : elabStmts st cur (pre ++ Stmt.subckt gate model conns info :: post) = Except.ok st') :
    ∀ fa ∈ infoMapOf conns, ∀ cn ci pn pi, splitIdx fa.2 = Except.ok (cn, ci) → splitIdx fa.1 = Except.ok (pn, pi) →
      cn ≠ "unconn" → ∃ p, findIn (portsOf st' model) pn = some p ∧ pi < p.width := by
  rw [elabStmts_append] at h
  obtain ⟨stm, _, h⟩ := bind_ok h
  unfold elabStmts at h
  obtain ⟨s1, h1, hpost⟩ := bind_ok h
  intro fa hfa cn ci pn pi e1 e2 hu
  unfold elabStmt at h1
  simp only [] at h1
  obtain ⟨sa, ha, h1⟩ := bind_ok h1
  obtain ⟨sb, hb, h1⟩ := bind_ok h1
  obtain ⟨p, hp, hpi⟩ := connectAll_port _ hb fa hfa cn ci pn pi e1 e2 hu
  obtain ⟨p1, hp1, l1⟩ := pm_applyInfo info h1 model pn p hp
  obtain ⟨p2, hp2, l2⟩ := pm_elabStmts post hpost model pn p1 hp1
  exact ⟨p2, hp2, by omega⟩

/-- ports never disappear and never get narrower through the elaboration of any model list -/
theorem ports_monotone (ms : List Model) (st st' : St) (h : elabModels st ms = Except.ok st') : PMono st st' :=
  pm_elabModels ms h

end Spydr.Eblif
