/-
  Executable evaluation of the hypotheses of the round-trip theorems on a given netlist: which of
  the differential-tested cases are ALSO inside `eblif_roundtrip_full` / `eblif_roundtrip_subckt_total`,
  and which hypothesis excludes the others.  Evidence only: no verdict depends on it.
  No Mathlib.
-/
import Spydr.Eblif.Props.C18Any

namespace Spydr.Eblif

def coverRowB (r : List String) : Bool :=
  match r with
  | w :: _ => isCoverWord w
  | [] => false

theorem coverRowB_iff (r : List String) : coverRowB r = true ↔ CoverRow r := by
  unfold coverRowB CoverRow
  cases r with
  | nil => simp
  | cons w t => simp

instance (r : List String) : Decidable (CoverRow r) := decidable_of_iff _ (coverRowB_iff r)

/-- first failing check, in order -/
def firstFail : List (String × (Unit → Bool)) → String
  | [] => "in"
  | (nm, f) :: r => if f () then firstFail r else "out:" ++ nm

def kidsChecks (n : BNet) (t : String) : List (String × (Unit → Bool)) :=
  let ks := n.insts.zipIdx
  [("NetOKF.kids.names-shape", fun _ => ks.all (fun k => decide (k.1.typ = "EBLIF.names" → KidShape n k))),
   ("NetOKF.kids.latch-shape", fun _ => ks.all (fun k => decide (k.1.typ = "EBLIF.latch" → KidShape n k))),
   ("NetOKF.kids.subckt-formals-nodup", fun _ => ks.all (fun k =>
      decide (k.1.typ ≠ "EBLIF.names" → k.1.typ ≠ "EBLIF.latch" → ((connsOf n k.2 k.1).map (·.1)).Nodup))),
   ("NetOKF.kids.subckt-shape", fun _ => ks.all (fun k => decide (KidShape n k))),
   ("NetOKF.kids.attr-keys", fun _ => ks.all (fun k => decide ((k.1.attrs.map (·.1)).Nodup))),
   ("NetOKF.kids.param-keys", fun _ => ks.all (fun k => decide ((k.1.params.map (·.1)).Nodup))),
   ("NetOKF.kids.instantiates-top", fun _ => ks.all (fun k => decide (t ≠ k.1.model))),
   ("NetOKF.kids.names-def-shared", fun _ => ks.all (fun k =>
      decide (k.1.typ ≠ "EBLIF.names" → ∀ j ∈ n.insts, j.typ = "EBLIF.names" → k.1.model ≠ j.model)))]

def portsChecks (n : BNet) (t : String) : List (String × (Unit → Bool)) :=
  let ps := (n.findDef t).ports
  [("NetOKF.ports.direction", fun _ => ps.all (fun p => decide (p.dir = Dir.inp ∨ p.dir = Dir.out ∨ p.dir = Dir.inout))),
   ("NetOKF.ports.plain-name", fun _ => ps.all (fun p => decide (plainName p.name))),
   ("NetOKF.ports.width", fun _ => ps.all (fun p => decide (1 ≤ p.width))),
   ("NetOKF.ports.pin-on-no-wire", fun _ => decide (PortsOKF n t)),
   ("NetOKF.ports.names-nodup", fun _ => decide ((ps.map (·.name)).Nodup))]

def cablesChecks (n : BNet) (t : String) : List (String × (Unit → Bool)) :=
  [("NetOKF.cables.owner", fun _ => n.cables.all (fun cw => decide (cw.1.1 = t))),
   ("NetOKF.cables.plain-name", fun _ => n.cables.all (fun cw => decide (plainName cw.1.2 ∧ cw.1.2 ≠ "unconn"))),
   ("NetOKF.cables.pin-on-two-wires", fun _ => n.cables.all (fun cw => cw.2.zipIdx.all (fun pw => pw.1.all (fun x =>
      decide (n.wireOf x = some (cw.1, pw.2, cw.2.length)))))),
   ("NetOKF.cables.pin-not-written", fun _ => decide (CablesOKF n t))]

/-- `eblif_roundtrip_full` -/
def fragFull (o : Opts) (n : BNet) : String :=
  match n.top with
  | none => "out:no-top"
  | some t =>
    firstFail ([("WellNamed", fun _ => decide (WellNamed n)),
      ("FragFull.work", fun _ => (n.findDef t).inWork),
      ("FragFull.kinds", fun _ => decide (∀ i ∈ n.insts, i.parent = t →
        (i.typ = "EBLIF.subckt" ∨ i.typ = "EBLIF.gate" ∨ i.typ = "EBLIF.names" ∨ i.typ = "EBLIF.latch"))),
      ("FragFull.noeq", fun _ => decide (∀ d ∈ n.defs, ∀ p ∈ d.ports, '=' ∉ p.name.toList)),
      ("FragFull.covers", fun _ => decide (∀ i ∈ n.insts, ∀ r ∈ coverRows i, CoverRow r)),
      ("NetOKF.order", fun _ => decide (kidsFull n t = n.insts.zipIdx))]
      ++ portsChecks n t ++ cablesChecks n t ++
      [("NetOKF.conn", fun _ => decide (ConnOK n t))] ++ kidsChecks n t ++
      [("NetOKF.other", fun _ => decide (NetOKF n t)),
       ("NamesOK", fun _ => decide (NamesOK o n)),
       ("BBPlain", fun _ => decide (BBPlain n t))])

/-- `eblif_roundtrip_any_order` -/
def fragAny (o : Opts) (n : BNet) : String :=
  match n.top with
  | none => "out:no-top"
  | some t =>
    firstFail ([("WellNamed", fun _ => decide (WellNamed n)),
      ("FragFull.work", fun _ => (n.findDef t).inWork),
      ("FragFull.kinds", fun _ => decide (∀ i ∈ n.insts, i.parent = t →
        (i.typ = "EBLIF.subckt" ∨ i.typ = "EBLIF.gate" ∨ i.typ = "EBLIF.names" ∨ i.typ = "EBLIF.latch"))),
      ("FragFull.noeq", fun _ => decide (∀ d ∈ n.defs, ∀ p ∈ d.ports, '=' ∉ p.name.toList)),
      ("FragFull.covers", fun _ => decide (∀ i ∈ n.insts, ∀ r ∈ coverRows i, CoverRow r)),
      ("NetOKA.all-instances-written", fun _ => decide ((kidsFull n t).Perm n.insts.zipIdx))]
      ++ portsChecks n t ++ cablesChecks n t ++
      [("NetOKF.conn", fun _ => decide (ConnOK n t))] ++ kidsChecks n t ++
      [("NetOKA.other", fun _ => decide (Any.NetOKA n t)),
       ("NamesOK", fun _ => decide (NamesOK o n)),
       ("BBPlain", fun _ => decide (BBPlain n t))])

/-- `eblif_roundtrip_leaf_ports`: the hypotheses of `eblif_roundtrip_any_order` and three more -/
def fragLeaf (o : Opts) (n : BNet) : String :=
  let r := fragAny o n
  if r ≠ "in" then r else
  match n.top with
  | none => "out:no-top"
  | some t =>
    firstFail [("PinMirror", fun _ => decide n.PinMirror), ("LatchSep", fun _ => decide (Any.LatchSep n t)),
               ("BBWide", fun _ => decide (Any.BBWide n t))]

/-- `eblif_roundtrip_subckt_total` -/
def fragSubckt (o : Opts) (n : BNet) : String :=
  match n.top with
  | none => "out:no-top"
  | some t =>
    firstFail [("WellNamed", fun _ => decide (WellNamed n)),
      ("FragP.work", fun _ => (n.findDef t).inWork),
      ("FragP.clock", fun _ => decide ((n.findDef t).clock = none)),
      ("FragP.kinds", fun _ => decide (∀ i ∈ n.insts, i.parent = t → (i.typ = "EBLIF.subckt" ∨ i.typ = "EBLIF.gate"))),
      ("FragP.conn-lines", fun _ => decide (connLines n (n.findDef t) = [])),
      ("FragP.blackbox-block", fun _ => decide ((if o.writeBlackbox then blackboxLines n t else []) = [])),
      ("FragP.noeq", fun _ => decide (∀ d ∈ n.defs, ∀ p ∈ d.ports, '=' ∉ p.name.toList)),
      ("NetOK.order", fun _ => decide (kidsOrd n t = n.insts.zipIdx)),
      ("NetOK.ports", fun _ => decide (PortsOK n t)),
      ("NetOK.ports-nodup", fun _ => decide (((n.findDef t).ports.map (·.name)).Nodup)),
      ("NetOK.cables", fun _ => decide (CablesOK n t)),
      ("NetOK.insts", fun _ => decide (InstsOK n)),
      ("NamesOK", fun _ => decide (NamesOK o n))]

/-- `fragFull n = "in"` really is the conjunction of the theorem's hypotheses -/
theorem firstFail_in {l : List (String × (Unit → Bool))} (h : firstFail l = "in") : ∀ p ∈ l, p.2 () = true := by
  induction l with
  | nil => intro p hp; cases hp
  | cons x r ih =>
    obtain ⟨nm, f⟩ := x
    unfold firstFail at h
    by_cases hf : f () = true
    · simp only [hf, if_true] at h
      intro p hp
      rcases List.mem_cons.mp hp with rfl | hm
      · exact hf
      · exact ih h p hm
    · simp only [hf, Bool.false_eq_true, if_false] at h
      have := congrArg String.toList h
      simp only [String.toList_append] at this
      have h1 : ("out:" : String).toList = ['o', 'u', 't', ':'] := by decide
      have h2 : ("in" : String).toList = ['i', 'n'] := by decide
      rw [h1, h2] at this
      simp at this

theorem fragFull_in (o : Opts) (n : BNet) (h : fragFull o n = "in") :
    ∃ t, n.top = some t ∧ WellNamed n ∧ FragFull n t ∧ NetOKF n t ∧ NamesOK o n ∧ BBPlain n t := by
  unfold fragFull at h
  cases ht : n.top with
  | none => rw [ht] at h; simp only at h; exact absurd h (by decide)
  | some t =>
    rw [ht] at h
    simp only at h
    have hall := firstFail_in h
    have a1 := hall ("WellNamed", fun _ => decide (WellNamed n)) (by simp)
    have a2 := hall ("FragFull.work", fun _ => (n.findDef t).inWork) (by simp)
    have a3 := hall ("FragFull.kinds", fun _ => decide (∀ i ∈ n.insts, i.parent = t →
        (i.typ = "EBLIF.subckt" ∨ i.typ = "EBLIF.gate" ∨ i.typ = "EBLIF.names" ∨ i.typ = "EBLIF.latch"))) (by simp)
    have a4 := hall ("FragFull.noeq", fun _ => decide (∀ d ∈ n.defs, ∀ p ∈ d.ports, '=' ∉ p.name.toList)) (by simp)
    have a5 := hall ("FragFull.covers", fun _ => decide (∀ i ∈ n.insts, ∀ r ∈ coverRows i, CoverRow r)) (by simp)
    have a6 := hall ("NetOKF.other", fun _ => decide (NetOKF n t)) (by simp)
    have a7 := hall ("NamesOK", fun _ => decide (NamesOK o n)) (by simp)
    have a8 := hall ("BBPlain", fun _ => decide (BBPlain n t)) (by simp)
    simp only [decide_eq_true_eq] at a1 a3 a4 a5 a6 a7 a8
    exact ⟨t, rfl, a1, ⟨ht, a2, a3, a4, a5⟩, a6, a7, a8⟩

theorem fragAny_in (o : Opts) (n : BNet) (h : fragAny o n = "in") :
    ∃ t, n.top = some t ∧ WellNamed n ∧ FragFull n t ∧ Any.NetOKA n t ∧ NamesOK o n ∧ BBPlain n t := by
  unfold fragAny at h
  cases ht : n.top with
  | none => rw [ht] at h; simp only at h; exact absurd h (by decide)
  | some t =>
    rw [ht] at h
    simp only at h
    have hall := firstFail_in h
    have a1 := hall ("WellNamed", fun _ => decide (WellNamed n)) (by simp)
    have a2 := hall ("FragFull.work", fun _ => (n.findDef t).inWork) (by simp)
    have a3 := hall ("FragFull.kinds", fun _ => decide (∀ i ∈ n.insts, i.parent = t →
        (i.typ = "EBLIF.subckt" ∨ i.typ = "EBLIF.gate" ∨ i.typ = "EBLIF.names" ∨ i.typ = "EBLIF.latch"))) (by simp)
    have a4 := hall ("FragFull.noeq", fun _ => decide (∀ d ∈ n.defs, ∀ p ∈ d.ports, '=' ∉ p.name.toList)) (by simp)
    have a5 := hall ("FragFull.covers", fun _ => decide (∀ i ∈ n.insts, ∀ r ∈ coverRows i, CoverRow r)) (by simp)
    have a6 := hall ("NetOKA.other", fun _ => decide (Any.NetOKA n t)) (by simp)
    have a7 := hall ("NamesOK", fun _ => decide (NamesOK o n)) (by simp)
    have a8 := hall ("BBPlain", fun _ => decide (BBPlain n t)) (by simp)
    simp only [decide_eq_true_eq] at a1 a3 a4 a5 a6 a7 a8
    exact ⟨t, rfl, a1, ⟨ht, a2, a3, a4, a5⟩, a6, a7, a8⟩

end Spydr.Eblif
