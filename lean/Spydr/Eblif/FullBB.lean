/-
  Round trip, whole writer output: the black-box models written after the top model keep its
  view, also when the alias table is not the identity (`.conn` lines).
-/
import Spydr.Eblif.FullTop

namespace Spydr.Eblif

theorem alias_elabInput {st st' : St} {cur tok : String} (h : elabInput st cur tok = Except.ok st') :
    st'.alias = st.alias := by
  unfold elabInput at h
  obtain ⟨⟨pn, pi⟩, _, h⟩ := bind_ok h
  simp only [] at h
  cases h
  rw [alias_connect]
  apply alias_of_nf
  rw [nf_growPort]; split <;> simp

theorem alias_elabOutput {st st' : St} {cur tok : String} (h : elabOutput st cur tok = Except.ok st') :
    st'.alias = st.alias := by
  unfold elabOutput at h
  obtain ⟨⟨pn, pi⟩, _, h⟩ := bind_ok h
  simp only [] at h
  split at h
  · cases h; exact alias_of_nf (by simp)
  · cases h; rw [alias_connect]; exact alias_of_nf (by simp)

theorem alias_elabToks (f : St → String → String → Except Err St)
    (hf : ∀ {st st' : St} {cur tok : String}, f st cur tok = Except.ok st' → st'.alias = st.alias)
    {cur : String} (l : List String) :
    ∀ {st st' : St}, elabToks f st cur l = Except.ok st' → st'.alias = st.alias := by
  induction l with
  | nil => intro st st' h; cases h; rfl
  | cons w r ih =>
    intro st st' h
    unfold elabToks at h
    obtain ⟨s1, h1, h2⟩ := bind_ok h
    rw [ih h2, hf h1]

/-- invariants of the state after the top model that the black-box models keep -/
structure TopInvF (t : String) (J : List (Pin × Key)) (A : Key → Key) (st : St) : Prop where
  linv : LInv st
  ex : Exact st J
  dex : DefEx st t
  al : ∀ k, k.1 = t → st.alias k = A k

theorem bb_model_stepF (t : String) (J : List (Pin × Key)) (A : Key → Key) (hJ : ∀ e ∈ J, e.2.1 = t) (d : DefD)
    (hne : d.name ≠ t) {s s' : St} (inv : TopInvF t J A s) (h : elabModel s (bbModel d) = Except.ok s') :
    TopInvF t J A s' ∧ instKinds s' = instKinds s ∧ (∀ j, dataAt s' j = dataAt s j) ∧ portsOf s' t = portsOf s t := by
  unfold elabModel at h
  obtain ⟨sh, hh, hb⟩ := bind_ok h
  simp only [bbModel] at hh hb
  unfold elabStmts at hb
  obtain ⟨s2, h2, hb⟩ := bind_ok hb
  unfold elabStmts at hb
  cases hb
  unfold elabStmt at h2
  cases h2
  have hne' : t ≠ d.name := fun e => hne e.symm
  have rb : LInv (beginModel s d.name) := LInv.of_fields (nf_beginModel _ _) inv.linv
  have rh : LInv sh := linv_elabHdrs _ rb hh
  have eb : Exact (beginModel s d.name) J := Exact.of_pa (pa_of_nf (nf_beginModel _ _)) inv.ex
  have eh := exact_elabHdrs_all _ eb hh
  obtain ⟨X, hX, hXo⟩ := hdrsAcc_shape d.name
    [Hdr.inputs ((d.ports.filter (fun p => p.dir = Dir.inp)).map (·.name)),
     Hdr.outputs ((d.ports.filter (fun p => p.dir = Dir.out)).map (·.name))] (beginModel s d.name) J
  rw [hX] at eh
  have ec := exact_clearOwner rh.wf eh d.name
  rw [filter_other_owner J X t d.name hJ hne hXo] at ec
  have fb := fr_beginModel inv.dex d.name hne'
  unfold elabHdrs at hh
  obtain ⟨sa, hin, hh⟩ := bind_ok hh
  unfold elabHdrs at hh
  obtain ⟨sb, hout, hh⟩ := bind_ok hh
  unfold elabHdrs at hh
  cases hh
  simp only [elabHdr] at hin hout
  have fa := Fr.trans fb (fr_elabToks elabInput (fun hd h => fr_elabInput hd hne' h) _ fb.2 hin)
  have fo := Fr.trans fa (fr_elabToks elabOutput (fun hd h => fr_elabOutput hd hne' h) _ fa.2 hout)
  have fc : Fr t sh (updDef (clearOwner sh d.name) d.name (fun x => { x with blackbox := true })) :=
    Fr.trans (fr_of_defs (b := clearOwner sh d.name) fo.2 rfl)
      (fr_updDef_other (fr_of_defs (b := clearOwner sh d.name) fo.2 rfl).2 d.name _ (fun _ => rfl) hne')
  have fall := Fr.trans fo fc
  have hal : sh.alias = s.alias := by
    rw [alias_elabToks elabOutput (fun h => alias_elabOutput h) _ hout,
      alias_elabToks elabInput (fun h => alias_elabInput h) _ hin]
    exact alias_of_nf (nf_beginModel _ _)
  refine ⟨⟨?_, Exact.of_pa (pa_of_nf (nf_updDef _ _ _)) ec, fall.2, ?_⟩, ?_, ?_, fall.1⟩
  · exact LInv.of_fields (nf_updDef _ _ _) ⟨wf_clearOwner rh.wf d.name, pinsLive_clearOwner rh.pl d.name⟩
  · intro k hk
    have hkd : ¬ k.1 = d.name := by rw [hk]; exact hne'
    show (clearOwner sh d.name).alias k = A k
    simp only [clearOwner, hkd, if_false]
    rw [hal]; exact inv.al k hk
  · rw [ik_updDef, ik_clearOwner, ik_elabToks elabOutput (fun h => ik_elabOutput h) _ hout,
      ik_elabToks elabInput (fun h => ik_elabInput h) _ hin, ik_beginModel]
  · intro j
    show dataAt sh j = dataAt s j
    rw [data_elabToks elabOutput (fun h => data_elabOutput h) _ hout,
      data_elabToks elabInput (fun h => data_elabInput h) _ hin, data_beginModel]

theorem bb_models_foldF (t : String) (J : List (Pin × Key)) (A : Key → Key) (hJ : ∀ e ∈ J, e.2.1 = t) (ds : List DefD)
    (hne : ∀ d ∈ ds, d.name ≠ t) :
    ∀ {s s' : St}, TopInvF t J A s → elabModels s (ds.map bbModel) = Except.ok s' →
      TopInvF t J A s' ∧ instKinds s' = instKinds s ∧ (∀ j, dataAt s' j = dataAt s j) ∧ portsOf s' t = portsOf s t := by
  induction ds with
  | nil => intro s s' inv h; cases h; exact ⟨inv, rfl, fun _ => rfl, rfl⟩
  | cons d r ih =>
    intro s s' inv h
    simp only [List.map_cons] at h
    unfold elabModels at h
    obtain ⟨s1, h1, h2⟩ := bind_ok h
    obtain ⟨i1, k1, d1, p1⟩ := bb_model_stepF t J A hJ d (hne d (by simp)) inv h1
    obtain ⟨i2, k2, d2, p2⟩ := ih (fun x hx => hne x (by simp [hx])) i1 h2
    exact ⟨i2, k2.trans k1, fun j => (d2 j).trans (d1 j), p2.trans p1⟩

end Spydr.Eblif
