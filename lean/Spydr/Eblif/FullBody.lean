/-
  Round trip, whole writer output: one child block, then all of them, through the elaborator.
-/
import Spydr.Eblif.FullNet

namespace Spydr.Eblif

theorem stmtOfFull_sub (o : Opts) (n : BNet) (k : Inst × Nat) (hn : k.1.typ ≠ "EBLIF.names") (hl : k.1.typ ≠ "EBLIF.latch") :
    stmtOfFull o n k = stmtOf o n k := by
  unfold stmtOfFull stmtOf; simp [hn, hl]

theorem kidOK_of_shape (o : Opts) (n : BNet) (t : String) (hw : WellNamed n)
    (hcab : ∀ c ∈ n.cables, plainName c.1.2 ∧ c.1.2.toList ≠ []) (k : Inst × Nat) (hki : k ∈ n.insts.zipIdx)
    (hn : k.1.typ ≠ "EBLIF.names") (hl : k.1.typ ≠ "EBLIF.latch") (hs : KidShape n k) : KidOK o n t k := by
  unfold KidShape at hs
  simp only [hn, hl, if_false] at hs
  obtain ⟨hnd, hpp, _⟩ := hs
  have hi : k.1 ∈ n.insts := mem_zipIdx_fst hki
  obtain ⟨_, hmod, _⟩ := hw.2.2.1 k.1 hi
  obtain ⟨_, hpn, _⟩ := findDef_ok hw hmod
  refine ⟨?_, ?_, hnd⟩
  · intro fa hfa
    unfold connsOf at hfa
    obtain ⟨p, hpm, hfa⟩ := List.mem_flatMap.mp hfa
    obtain ⟨q, hq, rfl⟩ := List.mem_map.mp hfa
    simp only [List.mem_filter, List.mem_reverse, decide_eq_true_eq] at hq
    obtain ⟨hpl, hb⟩ := hpp p hpm
    exact ⟨p.name, q.2, splitIdx_formalText p q.2 hpl (okWord_nonempty (hpn p hpm)) (hb q hq.1 hq.2)⟩
  · intro fa hfa
    unfold connsOf at hfa
    obtain ⟨p, _, hfa⟩ := List.mem_flatMap.mp hfa
    obtain ⟨q, _, rfl⟩ := List.mem_map.mp hfa
    exact splitIdx_netText_ok n _ hcab

theorem output_in_take (m : Nat) (h2 : 2 ≤ m) (h5 : m ≤ 5) : "output" ∈ latchOrder.take m := by
  have : m = 2 ∨ m = 3 ∨ m = 4 ∨ m = 5 := by omega
  rcases this with rfl | rfl | rfl | rfl <;> decide

/-- a child block re-reads without error -/
theorem kid_ok (o : Opts) (n : BNet) (t : String) (hw : WellNamed n)
    (hcab : ∀ c ∈ n.cables, plainName c.1.2 ∧ c.1.2.toList ≠ []) (k : Inst × Nat) (hki : k ∈ n.insts.zipIdx)
    (hs : KidShape n k) (st : St) (hlen : st.insts.length = k.2)
    (hx : o.writeCname = true → ∀ j, j ≠ k.2 → (namesOf st)[j]? ≠ some k.1.name)
    (hstd : k.1.typ = "EBLIF.names" → Std st (k.1.pins.length - 1)) :
    ∃ st', elabStmt st t (stmtOfFull o n k) = Except.ok st' ∧ st'.insts.length = k.2 + 1 ∧
      (o.writeCname = true → namesOf st' = namesOf st ++ [k.1.name]) := by
  by_cases hn : k.1.typ = "EBLIF.names"
  · have hs' := hs
    unfold KidShape at hs'
    simp only [hn, if_true] at hs'
    obtain ⟨h1, _, h3, _⟩ := hs'
    have hnets : namesNets n k.2 k.1 =
        ((stdNamesPorts (k.1.pins.length - 1)).map (fun p => (p.name, 0))).map (fun q => netText n (Pin.inst k.2 q.1 q.2)) := by
      rw [namesNets_eq, h3]
    have hK : (namesNets n k.2 k.1).length - 1 = k.1.pins.length - 1 := by
      rw [hnets]; simp [std_length]
    have hne : namesNets n k.2 k.1 ≠ [] := by
      intro he
      have := congrArg List.length he
      rw [hnets] at this
      simp [std_length] at this
    have e : stmtOfFull o n k = Stmt.names (namesNets n k.2 k.1) ((coverRows k.1).map coverText) (infoStmts o k.1) := by
      unfold stmtOfFull; simp [hn]
    rw [e]
    exact names_stmt_ok o k.1 t _ _ st k.2 hne (by
        intro nt hnt
        rw [namesNets_eq] at hnt
        obtain ⟨q, _, rfl⟩ := List.mem_map.mp hnt
        exact splitIdx_netText_ok n _ hcab) (by rw [hK]; exact hstd hn) hlen hx
  · by_cases hl : k.1.typ = "EBLIF.latch"
    · have hs' := hs
      unfold KidShape at hs'
      simp only [hn, hl, if_false, if_true] at hs'
      obtain ⟨_, h2, h5, h4, _⟩ := hs'
      have e : stmtOfFull o n k = Stmt.latch (latchToks n k.2 k.1) (infoStmts o k.1) := by
        unfold stmtOfFull; simp [hn, hl]
      rw [e]
      refine latch_stmt_ok o k.1 t _ st k.2 ?_ ?_ hlen hx
      · rw [latchToks_eq, h4, List.map_map, zip_take_map]
        have hm : ("output", netText n (Pin.inst k.2 "output" 0)) ∈
            (latchOrder.take k.1.pins.length).map (fun x => (x, ((fun q : String × Nat => netText n (Pin.inst k.2 q.1 q.2)) ∘ fun pt => (pt, 0)) x)) :=
          List.mem_map.mpr ⟨"output", output_in_take _ h2 h5, rfl⟩
        cases hf : ((latchOrder.take k.1.pins.length).map (fun x => (x, ((fun q : String × Nat => netText n (Pin.inst k.2 q.1 q.2)) ∘ fun pt => (pt, 0)) x))).find? (fun p => p.1 = "output") with
        | some x => exact ⟨x, rfl⟩
        | none =>
          rw [List.find?_eq_none] at hf
          exact absurd (by simp) (hf _ hm)
      · intro tk htk
        rw [latchToks_eq] at htk
        obtain ⟨q, _, rfl⟩ := List.mem_map.mp htk
        exact splitIdx_netText_ok n _ hcab
    · rw [stmtOfFull_sub o n k hn hl]
      exact stmtOf_ok o n t k (kidOK_of_shape o n t hw hcab k hki hn hl hs) st hlen hx

end Spydr.Eblif
