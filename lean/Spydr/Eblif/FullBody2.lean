/-
  Round trip, whole writer output: everything one child block does to the elaborator state.
-/
import Spydr.Eblif.FullBody

namespace Spydr.Eblif

theorem isInst_full (o : Opts) (n : BNet) (k : Inst × Nat) : isInst (stmtOfFull o n k) = true := by
  unfold stmtOfFull; split
  · rfl
  · split <;> rfl

theorem stmtInfo_full (o : Opts) (n : BNet) (k : Inst × Nat) : stmtInfo (stmtOfFull o n k) = infoStmts o k.1 := by
  unfold stmtOfFull; split
  · rfl
  · split <;> rfl

theorem full_ne_bb (o : Opts) (n : BNet) (k : Inst × Nat) : stmtOfFull o n k ≠ Stmt.blackbox := by
  intro h
  have := isInst_full o n k
  rw [h] at this
  cases this

theorem namesNets_len (n : BNet) (k : Inst × Nat) (hn : k.1.typ = "EBLIF.names") (hs : KidShape n k) :
    (namesNets n k.2 k.1).length - 1 = k.1.pins.length - 1 := by
  unfold KidShape at hs
  simp only [hn, if_true] at hs
  rw [namesNets_eq, hs.2.2.1]
  simp [std_length]

theorem stmtModel_full (o : Opts) (n : BNet) (k : Inst × Nat) (hs : KidShape n k) :
    stmtModel (stmtOfFull o n k) = k.1.model := by
  by_cases hn : k.1.typ = "EBLIF.names"
  · have hlen := namesNets_len n k hn hs
    unfold KidShape at hs
    simp only [hn, if_true] at hs
    unfold stmtOfFull
    simp only [hn, if_true, stmtModel]
    rw [hlen, hs.2.1]
  · by_cases hl : k.1.typ = "EBLIF.latch"
    · unfold KidShape at hs
      simp only [hn, hl, if_false, if_true] at hs
      unfold stmtOfFull
      simp only [hn, hl, if_false, if_true, stmtModel]
      exact hs.1.symm
    · unfold stmtOfFull
      simp only [hn, hl, if_false, stmtModel]

theorem stmtKind_full (o : Opts) (n : BNet) (t : String) (k : Inst × Nat) (hs : KidShape n k) (hp : k.1.parent = t)
    (hty : k.1.typ = "EBLIF.subckt" ∨ k.1.typ = "EBLIF.gate" ∨ k.1.typ = "EBLIF.names" ∨ k.1.typ = "EBLIF.latch") :
    stmtKind t (stmtOfFull o n k) = [kindOf k.1] := by
  have hm := stmtModel_full o n k hs
  by_cases hn : k.1.typ = "EBLIF.names"
  · have e : stmtOfFull o n k = Stmt.names (namesNets n k.2 k.1) ((coverRows k.1).map coverText) (infoStmts o k.1) := by
      unfold stmtOfFull; simp [hn]
    rw [e] at hm ⊢
    simp only [stmtModel] at hm
    simp only [stmtKind, kindOf, hm, hp, hn]
  · by_cases hl : k.1.typ = "EBLIF.latch"
    · have e : stmtOfFull o n k = Stmt.latch (latchToks n k.2 k.1) (infoStmts o k.1) := by
        unfold stmtOfFull; simp [hn, hl]
      rw [e] at hm ⊢
      simp only [stmtModel] at hm
      simp only [stmtKind, kindOf, hm, hp, hl]
    · have e : stmtOfFull o n k = Stmt.subckt (k.1.typ = "EBLIF.gate") k.1.model (connsOf n k.2 k.1) (infoStmts o k.1) := by
        unfold stmtOfFull; simp [hn, hl]
      rw [e]
      simp only [stmtKind, kindOf, hp]
      rcases hty with h | h | h | h
      · simp [h]
      · simp [h]
      · exact absurd h hn
      · exact absurd h hl

/-- **one child block**: its re-read succeeds, creates one instance of the same kind with the
    written data, declares exactly `kidJoinsF`, and keeps every invariant -/
theorem kid_step (o : Opts) (n : BNet) (t : String) (hw : WellNamed n)
    (hcab : ∀ c ∈ n.cables, plainName c.1.2 ∧ c.1.2.toList ≠ []) (k : Inst × Nat) (hki : k ∈ n.insts.zipIdx)
    (hs : KidShape n k) (hp : k.1.parent = t) (hne : t ≠ k.1.model)
    (hty : k.1.typ = "EBLIF.subckt" ∨ k.1.typ = "EBLIF.gate" ∨ k.1.typ = "EBLIF.names" ∨ k.1.typ = "EBLIF.latch")
    (st : St) (hlen : st.insts.length = k.2)
    (hx : o.writeCname = true → ∀ j, j ≠ k.2 → (namesOf st)[j]? ≠ some k.1.name)
    (hstd : k.1.typ = "EBLIF.names" → Std st (k.1.pins.length - 1)) (hd : DefEx st t) :
    ∃ st', elabStmt st t (stmtOfFull o n k) = Except.ok st' ∧ st'.insts.length = k.2 + 1 ∧
      (o.writeCname = true → namesOf st' = namesOf st ++ [k.1.name]) ∧
      instKinds st' = instKinds st ++ [kindOf k.1] ∧
      (∀ J, Exact st J → Exact st' (J ++ kidJoinsF n t k)) ∧
      dataAt st' k.2 = some (infoFold (infoStmts o k.1) (none, [], [])) ∧
      (∀ j, j < k.2 → dataAt st' j = dataAt st j) ∧
      st'.alias = st.alias ∧ (LInv st → LInv st') ∧ Fr t st st' ∧
      (∀ K, "logic-gate_" ++ natStr K ≠ k.1.model → Std st K → Std st' K) ∧
      (k.1.typ = "EBLIF.names" → Std st' (k.1.pins.length - 1)) := by
  obtain ⟨st', h, hl', hn'⟩ := kid_ok o n t hw hcab k hki hs st hlen hx hstd
  have hi := isInst_full o n k
  have hmod := stmtModel_full o n k hs
  refine ⟨st', h, hl', hn', ?_, ?_, ?_, ?_, alias_elabStmt_inst hi h, fun r => linv_elabStmt r h,
    fr_elabStmt_inst hi hd (by rw [hmod]; exact hne) h, ?_, ?_⟩
  · rw [ik_elabStmt h, stmtKind_full o n t k hs hp hty]
  · intro J e
    have := exact_elabStmt (full_ne_bb o n k) e h
    rw [stmtJoins_kid o n t k st hlen hs hstd] at this
    exact this
  · have := elabStmt_inst_data hi h
    rw [stmtInfo_full, hlen] at this
    exact this
  · intro j hj
    exact data_elabStmt_old (by omega) h
  · intro K hK hs0
    exact std_other hi (by rw [hmod]; exact hK) hs0 h
  · intro hn
    have hK := namesNets_len n k hn hs
    have e : stmtOfFull o n k = Stmt.names (namesNets n k.2 k.1) ((coverRows k.1).map coverText) (infoStmts o k.1) := by
      unfold stmtOfFull; simp [hn]
    rw [e] at h
    have := std_names_self (by rw [hK]; exact hstd hn) h
    rw [hK] at this
    exact Or.inr this

end Spydr.Eblif
