/-
  Round trip, whole writer output: all child blocks, through the elaborator.
-/
import Spydr.Eblif.FullBody2

namespace Spydr.Eblif

theorem lg_inj {a b : Nat} (h : "logic-gate_" ++ natStr a = "logic-gate_" ++ natStr b) : a = b :=
  natStr_inj ((String.append_right_inj "logic-gate_").mp h)

/-- the generated `.names` definitions of `n`'s children are absent or standard -/
def StdKids (n : BNet) (st : St) : Prop := ∀ j ∈ n.insts, j.typ = "EBLIF.names" → Std st (j.pins.length - 1)

theorem names_model (n : BNet) (t : String) (hk : KidsOKF n t) (j : Inst) (hj : j ∈ n.insts) (hn : j.typ = "EBLIF.names") :
    j.model = "logic-gate_" ++ natStr (j.pins.length - 1) := by
  obtain ⟨idx, hidx⟩ := List.getElem?_of_mem hj |>.imp (fun i h => h)
  have hm : (j, idx) ∈ n.insts.zipIdx := List.mem_zipIdx_iff_getElem?.mpr hidx
  have hs := (hk _ hm).1
  unfold KidShape at hs
  simp only [hn, if_true] at hs
  exact hs.2.1

theorem stdKids_step (n : BNet) (t : String) (hk : KidsOKF n t) (k : Inst × Nat) (hki : k ∈ n.insts.zipIdx) (st st' : St)
    (h1 : ∀ K, "logic-gate_" ++ natStr K ≠ k.1.model → Std st K → Std st' K)
    (h2 : k.1.typ = "EBLIF.names" → Std st' (k.1.pins.length - 1)) (hs : StdKids n st) : StdKids n st' := by
  intro j hj hjn
  have hjm := names_model n t hk j hj hjn
  by_cases hkn : k.1.typ = "EBLIF.names"
  · have hkm := names_model n t hk k.1 (mem_zipIdx_fst hki) hkn
    by_cases he : j.pins.length - 1 = k.1.pins.length - 1
    · rw [he]; exact h2 hkn
    · refine h1 _ ?_ (hs j hj hjn)
      rw [hkm]
      exact fun e => he (lg_inj e)
  · refine h1 _ ?_ (hs j hj hjn)
    rw [← hjm]
    exact fun e => (hk k hki).2.2.2.2 hkn j hj hjn e.symm

theorem body_full (o : Opts) (n : BNet) (t : String) (hw : WellNamed n)
    (hcab : ∀ c ∈ n.cables, plainName c.1.2 ∧ c.1.2.toList ≠ []) (hnm : NamesOK o n) (hk : KidsOKF n t)
    (hkids : ∀ i ∈ n.insts, i.parent = t ∧
      (i.typ = "EBLIF.subckt" ∨ i.typ = "EBLIF.gate" ∨ i.typ = "EBLIF.names" ∨ i.typ = "EBLIF.latch")) :
    ∀ (l : List Inst) (m : Nat), (∀ k ∈ l.zipIdx m, k ∈ n.insts.zipIdx) →
    ∀ st : St, st.insts.length = m → (o.writeCname = true → namesOf st = (n.insts.take m).map (·.name)) →
      DefEx st t → StdKids n st →
      ∃ st', elabStmts st t ((l.zipIdx m).map (stmtOfFull o n)) = Except.ok st' ∧
        instKinds st' = instKinds st ++ l.map kindOf ∧
        (∀ J, Exact st J → Exact st' (J ++ (l.zipIdx m).flatMap (kidJoinsF n t))) ∧
        (∀ kk ∈ l.zipIdx m, dataAt st' kk.2 = some (infoFold (infoStmts o kk.1) (none, [], []))) ∧
        (∀ j, j < m → dataAt st' j = dataAt st j) ∧
        st'.alias = st.alias ∧ (LInv st → LInv st') ∧ Fr t st st' := by
  intro l
  induction l with
  | nil =>
    intro m _ st _ _ hd _
    exact ⟨st, rfl, by simp, fun J e => by simpa using e, fun kk h => by simp at h, fun _ _ => rfl, rfl, id, ⟨rfl, hd⟩⟩
  | cons a r ih =>
    intro m hmem st hlen hnames hd hstd
    have hkm : (a, m) ∈ n.insts.zipIdx := hmem (a, m) (by simp [List.zipIdx_cons])
    have hget : n.insts[m]? = some a := List.mem_zipIdx_iff_getElem?.mp hkm
    have hai : a ∈ n.insts := mem_zipIdx_fst hkm
    obtain ⟨hshape, _, _, hne, _⟩ := hk _ hkm
    have hx : o.writeCname = true → ∀ j, j ≠ m → (namesOf st)[j]? ≠ some a.name := by
      intro hwc j hj hs
      rw [hnames hwc] at hs
      have hnd' := hnm hwc
      have hjm : j < m := by
        rcases Nat.lt_or_ge j m with h1 | h1
        · exact h1
        · rw [List.getElem?_eq_none_iff.mpr (by simp; omega)] at hs; cases hs
      have hmlt : m < n.insts.length := by
        rcases Nat.lt_or_ge m n.insts.length with h1 | h1
        · exact h1
        · rw [List.getElem?_eq_none_iff.mpr h1] at hget; cases hget
      have e1 : (n.insts.map (·.name))[j]? = some a.name := by
        rw [List.getElem?_map, List.getElem?_take_of_lt hjm] at hs
        rw [List.getElem?_map]; exact hs
      have e2 : (n.insts.map (·.name))[m]? = some a.name := by
        rw [List.getElem?_map, hget]; rfl
      have := (List.getElem?_inj (by simp; omega) hnd').mp (e1.trans e2.symm)
      exact hj this
    obtain ⟨s1, h1, l1, n1, k1, e1, d1, o1, a1, li1, f1, sd1, sn1⟩ :=
      kid_step o n t hw hcab (a, m) hkm hshape (hkids a hai).1 hne (hkids a hai).2 st hlen hx
        (fun hn => hstd a hai hn) hd
    have hstd1 : StdKids n s1 := stdKids_step n t hk (a, m) hkm st s1 sd1 sn1 hstd
    obtain ⟨s2, h2, k2, e2, d2, o2, a2, li2, f2⟩ := ih (m + 1)
      (fun k hkm' => hmem k (by simp [List.zipIdx_cons, hkm'])) s1 l1 (by
        intro hwc
        rw [n1 hwc, hnames hwc, List.take_add_one, hget]
        simp) f1.2 hstd1
    refine ⟨s2, ?_, ?_, ?_, ?_, ?_, a2.trans a1, fun r => li2 (li1 r), Fr.trans f1 f2⟩
    · simp only [List.zipIdx_cons, List.map_cons]
      unfold elabStmts
      rw [h1]; exact h2
    · rw [k2, k1]; simp
    · intro J e
      have := e2 _ (e1 J e)
      simpa [List.zipIdx_cons, List.append_assoc] using this
    · intro kk hkk
      simp only [List.zipIdx_cons, List.mem_cons] at hkk
      rcases hkk with rfl | hkk
      · rw [o2 m (by omega)]; exact d1
      · exact d2 kk hkk
    · intro j hj
      rw [o2 j (by omega), o1 j hj]

end Spydr.Eblif
