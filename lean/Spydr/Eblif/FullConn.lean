/-
  Round trip, `.conn` lines: the alias table after a list of `.conn` statements, in closed form.
-/
import Spydr.Eblif.FullJoins2

namespace Spydr.Eblif

/-- what one `.conn ka kb` does to the alias table -/
def aliasStep (A : Key → Key) (ka kb : Key) : Key → Key := fun k => if A k = A kb then A ka else A k

theorem alias_mergeKeys (st : St) (ka kb : Key) : (mergeKeys st ka kb).alias = aliasStep st.alias ka kb := by
  unfold mergeKeys aliasStep
  simp only []
  split
  · rename_i h
    funext k
    by_cases hk : st.alias k = st.alias kb
    · simp only [hk, if_true]; exact h.symm
    · simp [hk]
  · rfl

/-- the two net bits a `.conn a b` line names -/
def connKey (t : String) (ab : String × String) : Option (Key × Key) :=
  match splitIdx ab.1, splitIdx ab.2 with
  | Except.ok (n1, i1), Except.ok (n2, i2) => some ((t, n1, i1), (t, n2, i2))
  | _, _ => none

theorem conn_stmt (t : String) (ab : String × String) (ka kb : Key) (hk : connKey t ab = some (ka, kb)) (st : St) :
    ∃ st', elabStmt st t (Stmt.conn ab.1 ab.2) = Except.ok st' ∧ st'.alias = aliasStep st.alias ka kb ∧
      st'.defs = st.defs ∧ st'.insts = st.insts := by
  unfold connKey at hk
  cases h1 : splitIdx ab.1 with
  | error e => simp [h1] at hk
  | ok r1 =>
    cases h2 : splitIdx ab.2 with
    | error e => simp [h1, h2] at hk
    | ok r2 =>
      obtain ⟨n1, i1⟩ := r1
      obtain ⟨n2, i2⟩ := r2
      simp only [h1, h2, Option.some.injEq, Prod.mk.injEq] at hk
      obtain ⟨rfl, rfl⟩ := hk
      refine ⟨mergeKeys (ensureWire (ensureWire st t n1 i1) t n2 i2) (t, n1, i1) (t, n2, i2), ?_, ?_, ?_, ?_⟩
      · unfold elabStmt
        simp only [h1, h2, bind, Except.bind, pure, Except.pure]
      · rw [alias_mergeKeys, alias_ensureWire, alias_ensureWire]
      · have h1 : ∀ s a b, (mergeKeys s a b).defs = s.defs := by
          intro s a b; unfold mergeKeys; simp only []; split <;> rfl
        have h2 : ∀ s o m i, (ensureWire s o m i).defs = s.defs := by
          intro s o m i; unfold ensureWire ensureCable; simp only []; split <;> split <;> rfl
        rw [h1, h2, h2]
      · have h1 : ∀ s a b, (mergeKeys s a b).insts = s.insts := by
          intro s a b; unfold mergeKeys; simp only []; split <;> rfl
        have h2 : ∀ s o m i, (ensureWire s o m i).insts = s.insts := by
          intro s o m i; unfold ensureWire ensureCable; simp only []; split <;> split <;> rfl
        rw [h1, h2, h2]

theorem conn_stmts (t : String) (l : List (String × String)) :
    ∀ (ks : List (Key × Key)), l.map (connKey t) = ks.map some → ∀ st : St,
      ∃ st', elabStmts st t (l.map (fun ab => Stmt.conn ab.1 ab.2)) = Except.ok st' ∧
        st'.alias = ks.foldl (fun A p => aliasStep A p.1 p.2) st.alias ∧ st'.defs = st.defs ∧ st'.insts = st.insts := by
  induction l with
  | nil =>
    intro ks hk st
    cases ks with
    | nil => exact ⟨st, rfl, rfl, rfl, rfl⟩
    | cons a r => simp at hk
  | cons ab r ih =>
    intro ks hk st
    cases ks with
    | nil => simp at hk
    | cons kk kr =>
      simp only [List.map_cons, List.cons.injEq] at hk
      obtain ⟨hk1, hk2⟩ := hk
      obtain ⟨ka, kb⟩ := kk
      obtain ⟨s1, h1, a1, d1, i1⟩ := conn_stmt t ab ka kb hk1 st
      obtain ⟨s2, h2, a2, d2, i2⟩ := ih kr hk2 s1
      refine ⟨s2, ?_, ?_, d2.trans d1, i2.trans i1⟩
      · simp only [List.map_cons]
        unfold elabStmts
        rw [h1]; exact h2
      · rw [a2, a1]; rfl

/-! ### closed form of the alias table -/

def aliasOf (L : List (Key × Key)) (k : Key) : Key :=
  match L.find? (fun p => p.2 = k) with
  | some p => p.1
  | none => k

theorem aliasOf_not_mem {L : List (Key × Key)} {k : Key} (h : k ∉ L.map (·.2)) : aliasOf L k = k := by
  unfold aliasOf
  have : L.find? (fun p => p.2 = k) = none := by
    rw [List.find?_eq_none]
    intro p hp hpk
    exact h (List.mem_map.mpr ⟨p, hp, by simpa using hpk⟩)
  rw [this]

theorem aliasOf_mem {L : List (Key × Key)} {k : Key} (h : k ∈ L.map (·.2)) : ∃ p ∈ L, p.2 = k ∧ aliasOf L k = p.1 := by
  unfold aliasOf
  cases hf : L.find? (fun p => p.2 = k) with
  | none =>
    rw [List.find?_eq_none] at hf
    obtain ⟨p, hp, hpk⟩ := List.mem_map.mp h
    exact absurd (by simpa using hpk) (hf p hp)
  | some p => exact ⟨p, List.mem_of_find?_eq_some hf, by simpa using List.find?_some hf, rfl⟩

/-- pairwise different sources, no target is a source: the alias table after the `.conn`s sends
    each source to its target and every other bit to itself -/
theorem alias_fold (L : List (Key × Key)) :
    ∀ (P : List (Key × Key)), ((P ++ L).map (·.2)).Nodup → (∀ p ∈ P ++ L, p.1 ∉ (P ++ L).map (·.2)) →
      L.foldl (fun A p => aliasStep A p.1 p.2) (aliasOf P) = aliasOf (P ++ L) := by
  induction L with
  | nil => intro P _ _; simp
  | cons x r ih =>
    intro P hnd hdis
    obtain ⟨ka, kb⟩ := x
    have hstep : aliasStep (aliasOf P) ka kb = aliasOf (P ++ [(ka, kb)]) := by
      have hkbP : kb ∉ P.map (·.2) := by
        intro hm
        simp only [List.map_append, List.map_cons] at hnd
        rw [List.nodup_append] at hnd
        exact hnd.2.2 kb hm kb (by simp) rfl
      have hkaP : ka ∉ P.map (·.2) := by
        intro hm
        exact hdis (ka, kb) (by simp) (by simp only [List.map_append, List.mem_append]; exact Or.inl hm)
      funext k
      unfold aliasStep
      rw [aliasOf_not_mem hkbP, aliasOf_not_mem hkaP]
      by_cases hk : k = kb
      · subst hk
        rw [aliasOf_not_mem hkbP]
        simp only [if_true]
        unfold aliasOf
        rw [List.find?_append]
        have : P.find? (fun p => p.2 = k) = none := by
          rw [List.find?_eq_none]
          intro p hp hpk
          exact hkbP (List.mem_map.mpr ⟨p, hp, by simpa using hpk⟩)
        rw [this]
        simp
      · have hne : aliasOf P k ≠ kb := by
          by_cases hm : k ∈ P.map (·.2)
          · obtain ⟨p, hp, _, he⟩ := aliasOf_mem hm
            rw [he]
            intro h1
            exact hdis p (by simp [hp]) (by
              simp only [List.map_append, List.map_cons, List.mem_append, List.mem_cons]
              exact Or.inr (Or.inl h1))
          · rw [aliasOf_not_mem hm]; exact hk
        simp only [hne, if_false]
        unfold aliasOf
        rw [List.find?_append]
        cases hf : P.find? (fun p => p.2 = k) with
        | some p => rfl
        | none =>
          have : ¬ kb = k := fun e => hk e.symm
          simp [this]
    simp only [List.foldl_cons]
    rw [hstep]
    have := ih (P ++ [(ka, kb)]) (by simpa [List.append_assoc] using hnd) (by simpa [List.append_assoc] using hdis)
    simpa [List.append_assoc] using this

theorem aliasOf_nil : aliasOf [] = id := by funext k; rfl

end Spydr.Eblif
