/-
  Round trip, `.conn` lines: the `.conn` statements the writer emits, as key pairs.
-/
import Spydr.Eblif.FullConn

namespace Spydr.Eblif

theorem flatMap_congr_mem {α β : Type} {l : List α} {f g : α → List β} (h : ∀ a ∈ l, f a = g a) :
    l.flatMap f = l.flatMap g := by
  induction l with
  | nil => rfl
  | cons x r ih =>
    simp only [List.flatMap_cons]
    rw [h x (by simp), ih (fun a ha => h a (by simp [ha]))]

theorem sublist_flatMap {α β : Type} (l : List α) {f g : α → List β} (h : ∀ a, (f a).Sublist (g a)) :
    (l.flatMap f).Sublist (l.flatMap g) := by
  induction l with
  | nil => exact List.Sublist.refl _
  | cons x r ih =>
    simp only [List.flatMap_cons]
    exact List.Sublist.append (h x) ih

theorem findDef_name (n : BNet) (t : String) : (n.findDef t).name = t := by
  unfold BNet.findDef
  cases h : n.defs.find? (fun d => d.name = t) with
  | none => rfl
  | some d => simpa using List.find?_some h

def connPairs (n : BNet) (d : DefD) : List (String × String) :=
  d.ports.flatMap (fun p =>
    (List.range p.width).flatMap (fun b =>
      match n.wireOf (Pin.top d.name p.name b) with
      | some (c, wi, _) =>
          if c.2 = p.name && wi = b then []
          else [(netText n (Pin.top d.name p.name b), if p.width > 1 then p.name ++ "[" ++ natStr b ++ "]" else p.name)]
      | none => []))

theorem connStmts_eq (n : BNet) (d : DefD) : connStmts n d = (connPairs n d).map (fun ab => Stmt.conn ab.1 ab.2) := by
  unfold connStmts connPairs
  simp only [List.map_flatMap]
  congr 1; funext p
  congr 1; funext b
  cases hwo : n.wireOf (Pin.top d.name p.name b) with
  | none => rfl
  | some r =>
    obtain ⟨c, wi, len⟩ := r
    by_cases hc : (decide (c.2 = p.name) && decide (wi = b)) = true <;> simp [hc]

/-- (target bit, port bit) of every `.conn` line: the port bit is merged into the bit its pin is on -/
def connKeys (n : BNet) (t : String) (d : DefD) : List (Key × Key) :=
  d.ports.flatMap (fun p =>
    (List.range p.width).flatMap (fun b =>
      match n.wireOf (Pin.top d.name p.name b) with
      | some (c, wi, _) => if c.2 = p.name && wi = b then [] else [((t, c.2, wi), (t, p.name, b))]
      | none => []))

theorem splitIdx_netText {n : BNet} {y : Pin} {c : CKey} {wi len : Nat} (h : n.wireOf y = some (c, wi, len))
    (hc : ∀ c ∈ n.cables, plainName c.1.2 ∧ c.1.2.toList ≠ []) : splitIdx (netText n y) = Except.ok (c.2, wi) := by
  obtain ⟨ws, w, hm, hlen, hw, _⟩ := wireOf_spec h
  obtain ⟨h1, h3⟩ := hc (c, ws) hm
  have hwl : wi < ws.length := (List.getElem?_eq_some_iff.mp hw).1
  unfold netText
  simp only [h]
  split
  · exact splitIdx_idx _ _
  · have hwi : wi = 0 := by omega
    rw [hwi]; exact splitIdx_plain _ h1 h3

theorem connPairs_keys (n : BNet) (t : String) (d : DefD)
    (hP : ∀ p ∈ d.ports, plainName p.name ∧ p.name.toList ≠ [])
    (hc : ∀ c ∈ n.cables, plainName c.1.2 ∧ c.1.2.toList ≠ []) :
    (connPairs n d).map (connKey t) = (connKeys n t d).map some := by
  unfold connPairs connKeys
  simp only [List.map_flatMap]
  apply flatMap_congr_mem
  intro p hp
  apply flatMap_congr_mem
  intro b hb
  have hbw : b < p.width := List.mem_range.mp hb
  cases hwo : n.wireOf (Pin.top d.name p.name b) with
  | none => rfl
  | some r =>
    obtain ⟨c, wi, len⟩ := r
    by_cases hsame : (decide (c.2 = p.name) && decide (wi = b)) = true
    · simp [hsame]
    · simp only [hsame, Bool.false_eq_true, if_false, List.map_cons, List.map_nil, List.cons.injEq, and_true]
      have h1 := splitIdx_netText hwo hc
      have h2 : splitIdx (if p.width > 1 then p.name ++ "[" ++ natStr b ++ "]" else p.name) = Except.ok (p.name, b) :=
        splitIdx_formalText p b (hP p hp).1 (hP p hp).2 (by intro h; omega)
      unfold connKey
      simp only [h1, h2]

theorem mem_connKeys (n : BNet) (t : String) (d : DefD) (ka kb : Key) :
    (ka, kb) ∈ connKeys n t d ↔
    ∃ p ∈ d.ports, ∃ b, b < p.width ∧ ∃ c wi len, n.wireOf (Pin.top d.name p.name b) = some (c, wi, len) ∧
      ¬ (c.2 = p.name ∧ wi = b) ∧ ka = (t, c.2, wi) ∧ kb = (t, p.name, b) := by
  unfold connKeys
  simp only [List.mem_flatMap, List.mem_range]
  constructor
  · rintro ⟨p, hp, b, hb, hm⟩
    cases hwo : n.wireOf (Pin.top d.name p.name b) with
    | none => simp [hwo] at hm
    | some r =>
      obtain ⟨c, wi, len⟩ := r
      simp only [hwo] at hm
      by_cases hsame : (decide (c.2 = p.name) && decide (wi = b)) = true
      · simp [hsame] at hm
      · simp only [hsame, Bool.false_eq_true, if_false, List.mem_singleton, Prod.mk.injEq] at hm
        refine ⟨p, hp, b, hb, c, wi, len, hwo, ?_, hm.1, hm.2⟩
        simpa using hsame
  · rintro ⟨p, hp, b, hb, c, wi, len, hwo, hne, rfl, rfl⟩
    refine ⟨p, hp, b, hb, ?_⟩
    have hsame : ¬ (decide (c.2 = p.name) && decide (wi = b)) = true := by simpa using hne
    simp [hwo, hsame]

def allBits (t : String) (d : DefD) : List Key :=
  d.ports.flatMap (fun p => (List.range p.width).flatMap (fun b => [((t, p.name, b) : Key)]))

theorem allBits_nodup (t : String) (d : DefD) (hnd : (d.ports.map (·.name)).Nodup) : (allBits t d).Nodup := by
  unfold allBits
  generalize d.ports = l at hnd
  induction l with
  | nil => simp
  | cons q r ih =>
    simp only [List.map_cons, List.nodup_cons, List.mem_map, not_exists, not_and] at hnd
    simp only [List.flatMap_cons]
    rw [List.nodup_append]
    refine ⟨?_, ih hnd.2, ?_⟩
    · rw [← List.map_eq_flatMap]
      refine nodup_map_of_inj _ _ List.nodup_range ?_
      intro a _ b _ h
      simpa using h
    · intro a ha b hb e
      subst e
      simp only [List.mem_flatMap, List.mem_range, List.mem_singleton] at ha hb
      obtain ⟨_, _, rfl⟩ := ha
      obtain ⟨q', hq', _, _, h1⟩ := hb
      simp only [Prod.mk.injEq, true_and] at h1
      exact hnd.1 q' hq' h1.1.symm

theorem connKeys_nodup (n : BNet) (t : String) (d : DefD) (hnd : (d.ports.map (·.name)).Nodup) :
    ((connKeys n t d).map (·.2)).Nodup := by
  refine List.Nodup.sublist ?_ (allBits_nodup t d hnd)
  unfold connKeys allBits
  simp only [List.map_flatMap]
  apply sublist_flatMap
  intro p
  apply sublist_flatMap
  intro b
  cases hwo : n.wireOf (Pin.top d.name p.name b) with
  | none => simp
  | some r =>
    obtain ⟨c, wi, len⟩ := r
    by_cases hsame : (decide (c.2 = p.name) && decide (wi = b)) = true <;> simp [hsame]

end Spydr.Eblif
