/-
  Round trip, header with INOUT ports and `.clock`: exact port list, exact joins, invariants.
-/
import Spydr.Eblif.FullStd

namespace Spydr.Eblif

theorem setDirL_idem (ps : List PortD) (pn : String) (d : Dir) : setDirL (setDirL ps pn d) pn d = setDirL ps pn d := by
  unfold setDirL
  rw [List.map_map]
  apply List.map_congr_left
  intro p _
  simp only [Function.comp]
  by_cases h : p.name = pn <;> simp [h]

theorem findIn_setDirL_self (ps : List PortD) (pn : String) (d : Dir) :
    findIn (setDirL ps pn d) pn = (findIn ps pn).map (fun p => { p with dir := d }) := by
  unfold setDirL
  rw [findIn_map_same ps pn _ (by intro p; split <;> rfl)]
  cases hf : findIn ps pn with
  | none => rfl
  | some e =>
    have : e.name = pn := by
      unfold findIn at hf
      simpa using List.find?_some hf
    simp [this]

theorem findIn_setDirL_other (ps : List PortD) (pn qn : String) (d : Dir) (hne : pn ≠ qn) :
    findIn (setDirL ps pn d) qn = findIn ps qn := by
  unfold setDirL
  apply findIn_map_other
  · intro p; split <;> rfl
  · intro p hp
    have : ¬ p.name = pn := fun e => hne (e.symm.trans hp)
    simp [this]

/-- `.outputs word` for a word that names an existing input (or inout) port: the port becomes INOUT,
    nothing is connected -/
theorem elabOutput_inout {st st' : St} {t tok pn : String} {pi : Nat} (hd : DefEx st t)
    (hs : splitIdx tok = Except.ok (pn, pi)) (e : PortD) (he : findIn (portsOf st t) pn = some e)
    (hdir : e.dir = Dir.inp ∨ e.dir = Dir.inout) (hw : pi + 1 ≤ e.width)
    (h : elabOutput st t tok = Except.ok st') :
    portsOf st' t = setDirL (portsOf st t) pn Dir.inout ∧ netFields st' = netFields st ∧ DefEx st' t ∧
      st'.insts = st.insts := by
  have hh : hasPort st t pn = true := by rw [hasPort_eq, he]; rfl
  have hadd : addPort st t pn Dir.out 0 = st := by unfold addPort; simp [hh]
  have hpd : portDir st t pn = e.dir := by rw [portDir_eq, he]
  unfold elabOutput at h
  rw [hs] at h
  simp only [bind, Except.bind, pure, Except.pure, hadd, hpd] at h
  have hc : (decide (e.dir = Dir.inp) || decide (e.dir = Dir.inout)) = true := by
    rcases hdir with h1 | h1 <;> simp [h1]
  simp only [hc, if_true] at h
  cases h
  obtain ⟨_, _, h3⟩ := setDir_port st t pn Dir.inout hd hh
  have hpw : portWidth (setDir st t pn Dir.inout) t pn = e.width := by
    rw [portWidth_eq, portsOf_setDir _ _ _ _ hd, findIn_setDirL_self, he]
    rfl
  have hgrow : growPort (setDir st t pn Dir.inout) t pn (pi + 1) = setDir st t pn Dir.inout := by
    unfold growPort; simp [hpw, hw]
  rw [hgrow]
  exact ⟨portsOf_setDir _ _ _ _ hd, rfl, h3, rfl⟩

theorem inout_rest (t pn : String) (ps0 : List PortD) (e : PortD) (he : findIn ps0 pn = some e) (ws : List String)
    (hws : ∀ w ∈ ws, ∃ pi, splitIdx w = Except.ok (pn, pi) ∧ pi + 1 ≤ e.width) :
    ∀ (st st' : St), DefEx st t → portsOf st t = setDirL ps0 pn Dir.inout →
      elabToks elabOutput st t ws = Except.ok st' →
      portsOf st' t = setDirL ps0 pn Dir.inout ∧ netFields st' = netFields st ∧ DefEx st' t ∧ st'.insts = st.insts := by
  induction ws with
  | nil => intro st st' hd hp h; cases h; exact ⟨hp, rfl, hd, rfl⟩
  | cons w r ih =>
    intro st st' hd hp h
    unfold elabToks at h
    obtain ⟨s1, h1, h2⟩ := bind_ok h
    obtain ⟨pi, hs, hle⟩ := hws w (by simp)
    have hf : findIn (portsOf st t) pn = some { e with dir := Dir.inout } := by
      rw [hp, findIn_setDirL_self, he]; rfl
    obtain ⟨a1, a2, a3, a4⟩ := elabOutput_inout hd hs _ hf (Or.inr rfl) hle h1
    rw [hp, setDirL_idem] at a1
    obtain ⟨b1, b2, b3, b4⟩ := ih (fun x hx => hws x (by simp [hx])) s1 st' a3 a1 h2
    exact ⟨b1, b2.trans a2, b3, b4.trans a4⟩

/-- all words of an INOUT port that the `.inputs` line already created -/
theorem inout_port (t : String) (p : PortD) (hpl : plainName p.name) (hne : p.name.toList ≠ []) (hw : 1 ≤ p.width)
    (st st' : St) (hd : DefEx st t) (e : PortD) (he : findIn (portsOf st t) p.name = some e)
    (hdir : e.dir = Dir.inp ∨ e.dir = Dir.inout) (hwe : e.width = p.width)
    (h : elabToks elabOutput st t (portBits p) = Except.ok st') :
    portsOf st' t = setDirL (portsOf st t) p.name Dir.inout ∧ netFields st' = netFields st ∧ DefEx st' t ∧
      st'.insts = st.insts := by
  obtain ⟨hlen, hsp⟩ := portBits_spec p hpl hne hw
  have hall : ∀ w ∈ portBits p, ∃ pi, splitIdx w = Except.ok (p.name, pi) ∧ pi + 1 ≤ e.width := by
    intro w hwm
    obtain ⟨j, hj, rfl⟩ := List.getElem_of_mem hwm
    exact ⟨j, hsp j hj, by omega⟩
  cases hws : portBits p with
  | nil => rw [hws] at hlen; simp at hlen; omega
  | cons w r =>
    rw [hws] at h hall
    unfold elabToks at h
    obtain ⟨s1, h1, h2⟩ := bind_ok h
    obtain ⟨pi, hs, hle⟩ := hall w (by simp)
    obtain ⟨a1, a2, a3, a4⟩ := elabOutput_inout hd hs e he hdir hle h1
    obtain ⟨b1, b2, b3, b4⟩ := inout_rest t p.name (portsOf st t) e he r (fun x hx => hall x (by simp [hx])) s1 st' a3 a1 h2
    exact ⟨b1, b2.trans a2, b3, b4.trans a4⟩

/-- port list after the `.outputs` line: an INOUT port flips its direction, an OUT port is appended -/
def outRes (ps : List PortD) : List PortD → List PortD
  | [] => ps
  | p :: r => outRes (if p.dir = Dir.inout then setDirL ps p.name Dir.inout else ps ++ [p]) r

theorem out_phase (t : String) (Q : List PortD) :
    ∀ (ps : List PortD) (st st' : St) (J : List (Pin × Key)),
      (∀ p ∈ Q, (p.dir = Dir.out ∨ p.dir = Dir.inout) ∧ plainName p.name ∧ p.name.toList ≠ [] ∧ 1 ≤ p.width) →
      (Q.map (·.name)).Nodup →
      (∀ p ∈ Q, p.dir = Dir.inout → ∃ e, findIn ps p.name = some e ∧ (e.dir = Dir.inp ∨ e.dir = Dir.inout) ∧ e.width = p.width) →
      (∀ p ∈ Q, p.dir = Dir.out → ∀ e ∈ ps, e.name ≠ p.name) →
      DefEx st t → portsOf st t = ps → RInv st → Exact st J →
      elabToks elabOutput st t (Q.flatMap portBits) = Except.ok st' →
      portsOf st' t = outRes ps Q ∧ DefEx st' t ∧ RInv st' ∧
        Exact st' (J ++ wordJoins t ((Q.filter (fun p => p.dir = Dir.out)).flatMap portBits)) ∧
        instKinds st' = instKinds st := by
  induction Q with
  | nil =>
    intro ps st st' J _ _ _ _ hd hp r e h
    cases h
    exact ⟨hp, hd, r, by simpa [wordJoins] using e, rfl⟩
  | cons p q ih =>
    intro ps st st' J hQ hnd hio hout hd hp r e h
    simp only [List.flatMap_cons] at h
    rw [elabToks_append] at h
    obtain ⟨s1, h1, h2⟩ := bind_ok h
    obtain ⟨hdir, hpl, hne, hw⟩ := hQ p (by simp)
    simp only [List.map_cons, List.nodup_cons, List.mem_map, not_exists, not_and] at hnd
    have hik1 : instKinds s1 = instKinds st := ik_elabToks elabOutput (fun h => ik_elabOutput h) _ h1
    by_cases hpd : p.dir = Dir.inout
    · -- existing input port
      obtain ⟨e0, he0, hd0, hw0⟩ := hio p (by simp) hpd
      rw [← hp] at he0
      obtain ⟨a1, a2, a3, _⟩ := inout_port t p hpl hne hw st s1 hd e0 he0 hd0 hw0 h1
      rw [hp] at a1
      have := ih (setDirL ps p.name Dir.inout) s1 st' J (fun x hx => hQ x (by simp [hx])) hnd.2
        (by
          intro x hx hxd
          obtain ⟨e1, h1', h2', h3'⟩ := hio x (by simp [hx]) hxd
          refine ⟨e1, ?_, h2', h3'⟩
          rw [findIn_setDirL_other ps p.name x.name Dir.inout (fun e => hnd.1 x hx e.symm)]
          exact h1')
        (by
          intro x hx hxd e1 he1
          unfold setDirL at he1
          obtain ⟨e2, he2, rfl⟩ := List.mem_map.mp he1
          have := hout x (by simp [hx]) hxd e2 he2
          split <;> exact this)
        a3 a1 (RInv.of_fields a2 r) (Exact.of_pa (pa_of_nf a2) e) h2
      obtain ⟨b1, b2, b3, b4, b5⟩ := this
      refine ⟨?_, b2, b3, ?_, b5.trans hik1⟩
      · simp only [outRes, hpd, if_true]; exact b1
      · have : (p :: q).filter (fun p => p.dir = Dir.out) = q.filter (fun p => p.dir = Dir.out) := by
          simp [List.filter_cons, hpd]
        rw [this]; exact b4
    · -- new output port
      have hpo : p.dir = Dir.out := by rcases hdir with h' | h'; exact h'; exact absurd h' hpd
      have hnew : ∀ e ∈ ps, e.name ≠ p.name := hout p (by simp) hpo
      obtain ⟨a1, a3⟩ := port_words_out t p hpl hne hw ps hnew st s1 hd hp h1
      have hrec : ({ name := p.name, dir := Dir.out, width := p.width } : PortD) = p := by
        cases p; simp_all
      rw [hrec] at a1
      have hi0 : HInv st t [p.name] J := by
        refine ⟨hd, ?_, r, e⟩
        intro pn hpn hh
        simp only [List.mem_singleton] at hpn
        subst hpn
        rw [hasPort_eq, hp, findIn_none_of ps p.name hnew] at hh
        cases hh
      have hi1 := hinv_outputs t [p.name] (portBits p) (by
          intro w hwm
          obtain ⟨hlen, hsp⟩ := portBits_spec p hpl hne hw
          obtain ⟨j, hj, rfl⟩ := List.getElem_of_mem hwm
          exact ⟨p.name, j, hsp j hj, by simp⟩) hi0 h1
      have := ih (ps ++ [p]) s1 st' (J ++ wordJoins t (portBits p)) (fun x hx => hQ x (by simp [hx])) hnd.2
        (by
          intro x hx hxd
          obtain ⟨e1, h1', h2', h3'⟩ := hio x (by simp [hx]) hxd
          refine ⟨e1, ?_, h2', h3'⟩
          rw [findIn_append_other ps p x.name (fun e => hnd.1 x hx e.symm)]
          exact h1')
        (by
          intro x hx hxd e1 he1
          rcases List.mem_append.mp he1 with h' | h'
          · exact hout x (by simp [hx]) hxd e1 h'
          · simp only [List.mem_singleton] at h'
            subst h'
            exact fun e => hnd.1 x hx e.symm)
        a3 a1 hi1.rinv hi1.ex h2
      obtain ⟨b1, b2, b3, b4, b5⟩ := this
      refine ⟨?_, b2, b3, ?_, b5.trans hik1⟩
      · simp only [outRes, hpd, if_false]; exact b1
      · have : (p :: q).filter (fun p => p.dir = Dir.out) = p :: q.filter (fun p => p.dir = Dir.out) := by
          simp [List.filter_cons, hpo]
        rw [this, List.flatMap_cons, wordJoins_append, ← List.append_assoc]
        exact b4

end Spydr.Eblif
