/-
  Round trip, header with INOUT ports and `.clock`: the whole header of the written top model.
-/
import Spydr.Eblif.FullHdr

namespace Spydr.Eblif

def pureOuts (d : DefD) : List PortD := d.ports.filter (fun p => p.dir = Dir.out)

def toInp (p : PortD) : PortD := if p.dir = Dir.inout then { p with dir := Dir.inp } else p

theorem toInp_name (p : PortD) : (toInp p).name = p.name := by unfold toInp; split <;> rfl
theorem toInp_width (p : PortD) : (toInp p).width = p.width := by unfold toInp; split <;> rfl
theorem portBits_toInp (p : PortD) : portBits (toInp p) = portBits p := by
  unfold portBits; rw [toInp_name, toInp_width]

theorem findIn_of_mem_nodup {ps : List PortD} (hn : (ps.map (·.name)).Nodup) {e : PortD} (he : e ∈ ps) :
    findIn ps e.name = some e := by
  have hs := findIn_isSome_of_mem he
  cases hf : findIn ps e.name with
  | none => rw [hf] at hs; cases hs
  | some q =>
    have hq : q ∈ ps := List.mem_of_find?_eq_some hf
    have hqn : q.name = e.name := by unfold findIn at hf; simpa using List.find?_some hf
    rw [eq_of_nodup_name hn hq he hqn]

theorem foldl_setDirL_append (N : List PortD) (p : PortD) (hp : ∀ q ∈ N, q.name ≠ p.name) :
    ∀ acc : List PortD, N.foldl (fun a q => setDirL a q.name Dir.inout) (acc ++ [p]) =
      N.foldl (fun a q => setDirL a q.name Dir.inout) acc ++ [p] := by
  induction N with
  | nil => intro acc; rfl
  | cons q r ih =>
    intro acc
    simp only [List.foldl_cons]
    have : setDirL (acc ++ [p]) q.name Dir.inout = setDirL acc q.name Dir.inout ++ [p] := by
      unfold setDirL
      rw [List.map_append]
      have hne : ¬ p.name = q.name := fun e => hp q (by simp) e.symm
      simp [hne]
    rw [this, ih (fun x hx => hp x (by simp [hx]))]

theorem outRes_split (Q : List PortD) (hd : ∀ p ∈ Q, p.dir = Dir.out ∨ p.dir = Dir.inout)
    (hne : ∀ p ∈ Q, p.dir = Dir.out → ∀ q ∈ Q, q.dir = Dir.inout → q.name ≠ p.name) :
    ∀ acc, outRes acc Q = (Q.filter (fun p => p.dir = Dir.inout)).foldl (fun a q => setDirL a q.name Dir.inout) acc ++
      Q.filter (fun p => p.dir = Dir.out) := by
  induction Q with
  | nil => intro acc; simp [outRes]
  | cons p r ih =>
    intro acc
    have ihr := ih (fun x hx => hd x (by simp [hx])) (fun x hx hxd y hy hyd => hne x (by simp [hx]) hxd y (by simp [hy]) hyd)
    by_cases hpd : p.dir = Dir.inout
    · simp only [outRes, hpd, if_true]
      rw [ihr]
      simp [List.filter_cons, hpd]
    · have hpo : p.dir = Dir.out := by rcases hd p (by simp) with h | h; exact h; exact absurd h hpd
      simp only [outRes, hpd, if_false]
      rw [ihr, foldl_setDirL_append _ p (by
        intro q hq
        simp only [List.mem_filter, decide_eq_true_eq] at hq
        exact hne p (by simp) hpo q (by simp [hq.1]) hq.2)]
      simp [List.filter_cons, hpd, hpo]

theorem foldl_setDirL_map (N : List PortD) :
    ∀ L : List PortD, N.foldl (fun a q => setDirL a q.name Dir.inout) L =
      L.map (fun x => if x.name ∈ N.map (·.name) then { x with dir := Dir.inout } else x) := by
  induction N with
  | nil => intro L; simp
  | cons p r ih =>
    intro L
    simp only [List.foldl_cons]
    rw [ih]
    unfold setDirL
    rw [List.map_map]
    apply List.map_congr_left
    intro x _
    simp only [Function.comp, List.map_cons, List.mem_cons]
    by_cases h1 : x.name = p.name
    · simp [h1]
    · simp [h1]

/-- the `.outputs` line turns the list the `.inputs` line built into the original port list -/
theorem outRes_ports (d : DefD)
    (hdirs : ∀ p ∈ d.ports, p.dir = Dir.inp ∨ p.dir = Dir.out ∨ p.dir = Dir.inout)
    (hnd : (d.ports.map (·.name)).Nodup) :
    outRes ((insPorts d).map toInp) (outsPorts d) = insPorts d ++ pureOuts d := by
  rw [outRes_split]
  · have e1 : (outsPorts d).filter (fun p => p.dir = Dir.out) = pureOuts d := by
      unfold outsPorts pureOuts
      rw [List.filter_filter]
      congr 1
      funext p
      cases p.dir <;> simp
    have e2 : (outsPorts d).filter (fun p => p.dir = Dir.inout) = d.ports.filter (fun p => p.dir = Dir.inout) := by
      unfold outsPorts
      rw [List.filter_filter]
      congr 1
      funext p
      cases p.dir <;> simp
    rw [e1, e2, foldl_setDirL_map, List.map_map]
    congr 1
    have : ∀ x ∈ insPorts d, ((fun x : PortD => if x.name ∈ (d.ports.filter (fun p => p.dir = Dir.inout)).map (·.name)
        then { x with dir := Dir.inout } else x) ∘ toInp) x = id x := by
      intro x hx
      have hxm : x ∈ d.ports := (List.mem_filter.mp hx).1
      simp only [Function.comp, id]
      rw [toInp_name]
      by_cases hxd : x.dir = Dir.inout
      · have hm : x.name ∈ (d.ports.filter (fun p => p.dir = Dir.inout)).map (·.name) :=
          List.mem_map.mpr ⟨x, List.mem_filter.mpr ⟨hxm, by simp [hxd]⟩, rfl⟩
        simp only [hm, if_true]
        unfold toInp
        simp only [hxd, if_true]
        cases x; simp_all
      · have hm : ¬ x.name ∈ (d.ports.filter (fun p => p.dir = Dir.inout)).map (·.name) := by
          intro hm
          obtain ⟨y, hy, hyn⟩ := List.mem_map.mp hm
          simp only [List.mem_filter, decide_eq_true_eq] at hy
          have := eq_of_nodup_name hnd hy.1 hxm hyn
          subst this
          exact hxd hy.2
        simp only [hm, if_false]
        unfold toInp
        simp [hxd]
    rw [List.map_congr_left this]
    simp
  · intro p hp
    simp only [outsPorts, List.mem_filter, Bool.or_eq_true, decide_eq_true_eq] at hp
    exact hp.2
  · intro p hp hpd q hq hqd e
    have hp' := (List.mem_filter.mp hp).1
    have hq' := (List.mem_filter.mp hq).1
    have := eq_of_nodup_name hnd hq' hp' e
    subst this
    rw [hpd] at hqd; cases hqd

/-- **the header of the written top model**: exact port list (`n`'s inputs and inouts in order, then
    its pure outputs, with their directions and widths), exact joins (one per port bit), invariants -/
theorem hdr_full (t : String) (d : DefD)
    (hP : ∀ p ∈ d.ports, (p.dir = Dir.inp ∨ p.dir = Dir.out ∨ p.dir = Dir.inout) ∧ plainName p.name ∧
      p.name.toList ≠ [] ∧ 1 ≤ p.width)
    (hnd : (d.ports.map (·.name)).Nodup) (sh : St)
    (h : elabHdrs (beginModel {} t) t (hdrOfFull d) = Except.ok sh) :
    portsOf sh t = insPorts d ++ pureOuts d ∧ DefEx sh t ∧ RInv sh ∧
    Exact sh (wordJoins t ((insPorts d).flatMap portBits) ++ wordJoins t ((pureOuts d).flatMap portBits)) ∧
    instKinds sh = [] := by
  have hsplit : hdrOfFull d = Hdr.inputs ((insPorts d).flatMap portBits) :: Hdr.outputs ((outsPorts d).flatMap portBits) ::
      (match d.clock with | some c => [Hdr.clock c] | none => []) := rfl
  rw [hsplit] at h
  unfold elabHdrs at h
  obtain ⟨sa, hin, h⟩ := bind_ok h
  unfold elabHdrs at h
  obtain ⟨sb, hout, h⟩ := bind_ok h
  simp only [elabHdr] at hin hout
  -- inputs
  have hbits : ((insPorts d).map toInp).flatMap portBits = (insPorts d).flatMap portBits := by
    rw [List.flatMap_map]
    congr 1
    funext p
    exact portBits_toInp p
  have hIn : ∀ p ∈ (insPorts d).map toInp, plainName p.name ∧ p.name.toList ≠ [] ∧ 1 ≤ p.width ∧ p.dir = Dir.inp := by
    intro p hp
    obtain ⟨x, hx, rfl⟩ := List.mem_map.mp hp
    simp only [insPorts, List.mem_filter, Bool.or_eq_true, decide_eq_true_eq] at hx
    obtain ⟨_, h2, h3, h4⟩ := hP x hx.1
    rw [toInp_name, toInp_width]
    refine ⟨h2, h3, h4, ?_⟩
    unfold toInp
    rcases hx.2 with h' | h'
    · simp [h']
    · simp [h']
  have hnames : ((insPorts d).map toInp).map (·.name) = (insPorts d).map (·.name) := by
    rw [List.map_map]; congr 1; funext p; exact toInp_name p
  have hndI : (((insPorts d).map toInp).map (·.name)).Nodup := by
    rw [hnames]; exact nodup_filter_names _ _ hnd
  rw [← hbits] at hin
  obtain ⟨pa, da⟩ := ports_words_in t ((insPorts d).map toInp) hIn [] (beginModel {} t) sa
    (fun q hq => by cases hq) hndI (beginModel_defEx t) (portsOf_beginModel_empty t) hin
  have hi0 : HInv (beginModel {} t) t [] [] :=
    ⟨beginModel_defEx t, (fun pn hpn => by cases hpn),
     RInv.of_fields (nf_beginModel _ _) RInv.init, Exact.of_pa (pa_of_nf (nf_beginModel _ _)) Exact.init⟩
  have hi1 := hinv_inputs t [] _ (by
      intro w hw
      obtain ⟨p, hp, hwp⟩ := List.mem_flatMap.mp hw
      obtain ⟨h2, h3, _, _⟩ := hIn p hp
      obtain ⟨pi, hs⟩ := splitIdx_portBits p h2 h3 w hwp
      exact ⟨p.name, pi, hs, by simp⟩) hi0 hin
  rw [hbits] at hi1
  have hikA : instKinds sa = [] := by
    rw [ik_elabToks elabInput (fun h => ik_elabInput h) _ hin, ik_beginModel]; rfl
  -- outputs
  have hOutQ : ∀ p ∈ outsPorts d, (p.dir = Dir.out ∨ p.dir = Dir.inout) ∧ plainName p.name ∧ p.name.toList ≠ [] ∧ 1 ≤ p.width := by
    intro p hp
    simp only [outsPorts, List.mem_filter, Bool.or_eq_true, decide_eq_true_eq] at hp
    obtain ⟨_, h2, h3, h4⟩ := hP p hp.1
    exact ⟨hp.2, h2, h3, h4⟩
  obtain ⟨pb, db, rb, eb, kb⟩ := out_phase t (outsPorts d) ([] ++ (insPorts d).map toInp) sa sb _ hOutQ
    (nodup_filter_names _ _ hnd)
    (by
      intro p hp hpd
      have hpm : p ∈ d.ports := (List.mem_filter.mp hp).1
      have hpi : p ∈ insPorts d := List.mem_filter.mpr ⟨hpm, by simp [hpd]⟩
      refine ⟨toInp p, ?_, ?_, toInp_width p⟩
      · have := findIn_of_mem_nodup (ps := [] ++ (insPorts d).map toInp) (by simpa using hndI)
          (e := toInp p) (by simpa using List.mem_map.mpr ⟨p, hpi, rfl⟩)
        rw [toInp_name] at this
        exact this
      · left; unfold toInp; simp [hpd])
    (by
      intro p hp hpd e he
      simp only [List.nil_append] at he
      obtain ⟨x, hx, rfl⟩ := List.mem_map.mp he
      rw [toInp_name]
      intro hn
      have hxm := List.mem_filter.mp hx
      have hpm : p ∈ d.ports := (List.mem_filter.mp hp).1
      have := eq_of_nodup_name hnd hxm.1 hpm hn
      subst this
      have := hxm.2
      simp [hpd] at this)
    da pa hi1.rinv hi1.ex hout
  simp only [List.nil_append] at pb eb
  rw [outRes_ports d (fun p hp => (hP p hp).1) hnd] at pb
  have hpo : (outsPorts d).filter (fun p => p.dir = Dir.out) = pureOuts d := by
    unfold outsPorts pureOuts
    rw [List.filter_filter]
    congr 1
    funext p
    cases p.dir <;> simp
  rw [hpo] at eb
  have hikB : instKinds sb = [] := by rw [kb, hikA]
  -- clock
  cases hc : d.clock with
  | none =>
    simp only [hc] at h
    cases h
    exact ⟨pb, db, rb, eb, hikB⟩
  | some c =>
    simp only [hc] at h
    unfold elabHdrs at h
    obtain ⟨sc, hclk, h⟩ := bind_ok h
    cases h
    simp only [elabHdr] at hclk
    cases hclk
    refine ⟨?_, isSome_updDef _ _ _ (fun _ => rfl) db, RInv.of_fields (nf_updDef _ _ _) rb,
      Exact.of_pa (pa_of_nf (nf_updDef _ _ _)) eb, by rw [ik_updDef]; exact hikB⟩
    rw [← pb]
    have hgen : ∀ f : DefD → DefD, (∀ x, (f x).name = x.name) → (∀ x, (f x).ports = x.ports) →
        portsOf (updDef sb t f) t = portsOf sb t := by
      intro f h1 h2
      unfold portsOf
      rw [findDef_updDef_self _ _ _ h1]
      cases findDef sb t <;> simp [h2]
    exact hgen _ (fun _ => rfl) (fun _ => rfl)

end Spydr.Eblif
