/-
  Round trip, all instance kinds: the joins a written child block declares, stated without the
  elaborator state, and evaluated against the netlist the block was written from.
-/
import Spydr.Eblif.FullHdr2

namespace Spydr.Eblif

def latchPins (i : Inst) : List (String × Nat) :=
  latchOrder.flatMap (fun pt => i.pins.reverse.filter (fun q => q.1 = pt))

def namesPins (n : BNet) (i : Inst) : List (String × Nat) :=
  i.pins.filter (fun q => n.portDir i.model q.1 = Dir.inp) ++ i.pins.reverse.filter (fun q => n.portDir i.model q.1 = Dir.out)

theorem latchToks_eq (n : BNet) (idx : Nat) (i : Inst) :
    latchToks n idx i = (latchPins i).map (fun q => netText n (Pin.inst idx q.1 q.2)) := by
  unfold latchToks latchPins
  rw [List.map_flatMap]

theorem namesNets_eq (n : BNet) (idx : Nat) (i : Inst) :
    namesNets n idx i = (namesPins n i).map (fun q => netText n (Pin.inst idx q.1 q.2)) := rfl

/-- a `.latch` child in reader shape: pins are the first m of input, output, type, control, init-val -/
def LatchShape (i : Inst) : Prop :=
  i.model = "generic-latch" ∧ 2 ≤ i.pins.length ∧ i.pins.length ≤ 5 ∧
  latchPins i = (latchOrder.take i.pins.length).map (fun pt => (pt, 0)) ∧ ∀ q ∈ i.pins, q ∈ latchPins i

instance (i : Inst) : Decidable (LatchShape i) := by unfold LatchShape; infer_instance

/-- a `.names` child in reader shape: model `logic-gate_k`, pins in_0 .. in_{k-1}, out -/
def NamesShape (n : BNet) (i : Inst) : Prop :=
  1 ≤ i.pins.length ∧ i.model = "logic-gate_" ++ natStr (i.pins.length - 1) ∧
  namesPins n i = (stdNamesPorts (i.pins.length - 1)).map (fun p => (p.name, 0)) ∧ ∀ q ∈ i.pins, q ∈ namesPins n i

instance (n : BNet) (i : Inst) : Decidable (NamesShape n i) := by unfold NamesShape; infer_instance

/-- the `formal = actual` pairs of the statement a child block parses to -/
def kidPairs (n : BNet) (k : Inst × Nat) : List (String × String) :=
  if k.1.typ = "EBLIF.names" then
    (stdNamesPorts (k.1.pins.length - 1)).map (fun p => (p.name, netText n (Pin.inst k.2 p.name 0)))
  else if k.1.typ = "EBLIF.latch" then
    (latchOrder.take k.1.pins.length).map (fun pt => (pt, netText n (Pin.inst k.2 pt 0)))
  else connsOf n k.2 k.1

def kidJoinsF (n : BNet) (t : String) (k : Inst × Nat) : List (Pin × Key) := (kidPairs n k).flatMap (joinOf k.2 t)

theorem zip_take_map {α β : Type} (f : α → β) : ∀ (l : List α) (m : Nat),
    l.zip ((l.take m).map f) = (l.take m).map (fun x => (x, f x))
  | [], _ => by simp
  | _ :: _, 0 => by simp
  | x :: r, m + 1 => by
      simp only [List.take_succ_cons, List.map_cons, List.zip_cons_cons]
      rw [zip_take_map f r m]

theorem zip_self_map {α β : Type} (f : α → β) (l : List α) : l.zip (l.map f) = l.map (fun x => (x, f x)) := by
  induction l with
  | nil => rfl
  | cons x r ih => simp [ih]

theorem std_length (k : Nat) : (stdNamesPorts k).length = k + 1 := by simp [stdNamesPorts]

/-- per-kind shape conditions of a child -/
def KidShape (n : BNet) (k : Inst × Nat) : Prop :=
  if k.1.typ = "EBLIF.names" then NamesShape n k.1
  else if k.1.typ = "EBLIF.latch" then LatchShape k.1
  else ((connsOf n k.2 k.1).map (·.1)).Nodup ∧
       (∀ p ∈ (n.findDef k.1.model).ports, plainName p.name ∧ ∀ q ∈ k.1.pins, q.1 = p.name → p.width ≤ 1 → q.2 = 0) ∧
       (∀ q ∈ k.1.pins, ∃ p ∈ (n.findDef k.1.model).ports, p.name = q.1)

instance (n : BNet) (k : Inst × Nat) : Decidable (KidShape n k) := by unfold KidShape; infer_instance

/-- the joins of the statement a child parses to, in state-free form -/
theorem stmtJoins_kid (o : Opts) (n : BNet) (t : String) (k : Inst × Nat) (st : St) (hlen : st.insts.length = k.2)
    (hs : KidShape n k) (hstd : k.1.typ = "EBLIF.names" → Std st (k.1.pins.length - 1)) :
    stmtJoins st t (stmtOfFull o n k) = kidJoinsF n t k := by
  obtain ⟨i, idx⟩ := k
  simp only at hlen hs hstd
  unfold KidShape at hs
  simp only at hs
  unfold stmtOfFull kidJoinsF kidPairs
  simp only
  by_cases hn : i.typ = "EBLIF.names"
  · simp only [hn, if_true] at hs ⊢
    obtain ⟨h1, _, h3, _⟩ := hs
    have hnets : namesNets n idx i =
        ((stdNamesPorts (i.pins.length - 1)).map (fun p => (p.name, 0))).map (fun q => netText n (Pin.inst idx q.1 q.2)) := by
      rw [namesNets_eq, h3]
    have hK : (namesNets n idx i).length - 1 = i.pins.length - 1 := by
      rw [hnets]; simp [std_length]
    have hinfo := names_info_std st (namesNets n idx i) (by rw [hK]; exact hstd hn)
    simp only [stmtJoins]
    rw [hinfo, hK, hlen, hnets, List.map_map, zip_self_map, List.map_map]
    rfl
  · simp only [hn, if_false] at hs ⊢
    by_cases hl : i.typ = "EBLIF.latch"
    · simp only [hl, if_true] at hs ⊢
      obtain ⟨_, _, _, h4, _⟩ := hs
      simp only [stmtJoins]
      rw [latchToks_eq, h4, List.map_map, zip_take_map, hlen]
      rfl
    · simp only [hl, if_false] at hs ⊢
      simp only [stmtJoins]
      rw [infoMapOf_nodup _ hs.1, hlen]

end Spydr.Eblif
