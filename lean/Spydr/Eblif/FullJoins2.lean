/-
  Round trip, all instance kinds: membership in the joins of a child, in terms of the netlist.
-/
import Spydr.Eblif.FullJoins

namespace Spydr.Eblif

theorem joinOf_plain (n : BNet) (t : String) (idx : Nat) (pn : String) (y : Pin)
    (hpl : plainName pn) (hpne : pn.toList ≠ [])
    (hc : ∀ c ∈ n.cables, plainName c.1.2 ∧ c.1.2 ≠ "unconn" ∧ c.1.2.toList ≠ []) :
    joinOf idx t (pn, netText n y) =
      (match n.wireOf y with
       | none => []
       | some (c, wi, _) => [(Pin.inst idx pn 0, (t, c.2, wi))]) := by
  have := joinOf_eval n t idx { name := pn, dir := Dir.inp, width := 1 } 0 y hpl hpne (fun _ => rfl) hc
  have hf : formalText { name := pn, dir := Dir.inp, width := 1 } 0 = pn := by simp [formalText]
  rw [hf] at this
  rw [this]
  cases n.wireOf y with
  | none => rfl
  | some r => obtain ⟨c, wi, len⟩ := r; rfl

/-- children whose formals are a list of plain one-bit port names -/
theorem mem_simple_joins (n : BNet) (t : String) (idx : Nat) (L : List String) (pins : List (String × Nat))
    (hL : ∀ pt ∈ L, plainName pt ∧ pt.toList ≠ [])
    (hpins : ∀ q, q ∈ pins ↔ ∃ pt ∈ L, q = (pt, 0))
    (hc : ∀ c ∈ n.cables, plainName c.1.2 ∧ c.1.2 ≠ "unconn" ∧ c.1.2.toList ≠ []) (x : Pin) (key : Key) :
    (x, key) ∈ (L.map (fun pt => (pt, netText n (Pin.inst idx pt 0)))).flatMap (joinOf idx t) ↔
    ∃ q ∈ pins, ∃ c wi len, n.wireOf (Pin.inst idx q.1 q.2) = some (c, wi, len) ∧ x = Pin.inst idx q.1 q.2 ∧ key = (t, c.2, wi) := by
  simp only [List.mem_flatMap, List.mem_map]
  constructor
  · rintro ⟨fa, ⟨pt, hpt, rfl⟩, hj⟩
    rw [joinOf_plain n t idx pt _ (hL pt hpt).1 (hL pt hpt).2 hc] at hj
    cases hwo : n.wireOf (Pin.inst idx pt 0) with
    | none => simp [hwo] at hj
    | some r =>
      obtain ⟨c, wi, len⟩ := r
      simp only [hwo, List.mem_singleton, Prod.mk.injEq] at hj
      exact ⟨(pt, 0), (hpins _).mpr ⟨pt, hpt, rfl⟩, c, wi, len, hwo, hj.1, hj.2⟩
  · rintro ⟨q, hq, c, wi, len, hwo, rfl, rfl⟩
    obtain ⟨pt, hpt, rfl⟩ := (hpins q).mp hq
    refine ⟨_, ⟨pt, hpt, rfl⟩, ?_⟩
    rw [joinOf_plain n t idx pt _ (hL pt hpt).1 (hL pt hpt).2 hc]
    simp only at hwo
    simp [hwo]

theorem latchOrder_plain : ∀ pt ∈ latchOrder, plainName pt ∧ pt.toList ≠ [] := by decide

theorem std_plain (k : Nat) : ∀ pt ∈ (stdNamesPorts k).map (·.name), plainName pt ∧ pt.toList ≠ [] := by
  intro pt hpt
  obtain ⟨p, hp, rfl⟩ := List.mem_map.mp hpt
  unfold stdNamesPorts at hp
  rcases List.mem_append.mp hp with h | h
  · obtain ⟨j, _, rfl⟩ := List.mem_map.mp h
    exact plain_inName j
  · simp only [List.mem_singleton] at h
    subst h
    decide

theorem namesPins_sub (n : BNet) (i : Inst) : ∀ q ∈ namesPins n i, q ∈ i.pins := by
  intro q hq
  unfold namesPins at hq
  rcases List.mem_append.mp hq with h | h
  · exact (List.mem_filter.mp h).1
  · exact List.mem_reverse.mp (List.mem_filter.mp h).1

theorem latchPins_sub (i : Inst) : ∀ q ∈ latchPins i, q ∈ i.pins := by
  intro q hq
  unfold latchPins at hq
  obtain ⟨pt, _, h⟩ := List.mem_flatMap.mp hq
  exact List.mem_reverse.mp (List.mem_filter.mp h).1

/-- the joins a child declares are exactly the pin / net-bit incidences of that child in `n` -/
theorem mem_kidJoinsF (n : BNet) (t : String) (k : Inst × Nat) (hw : WellNamed n) (hki : k ∈ n.insts.zipIdx)
    (hs : KidShape n k)
    (hc : ∀ c ∈ n.cables, plainName c.1.2 ∧ c.1.2 ≠ "unconn" ∧ c.1.2.toList ≠ []) (x : Pin) (key : Key) :
    (x, key) ∈ kidJoinsF n t k ↔
    ∃ q ∈ k.1.pins, ∃ c wi len, n.wireOf (Pin.inst k.2 q.1 q.2) = some (c, wi, len) ∧
      x = Pin.inst k.2 q.1 q.2 ∧ key = (t, c.2, wi) := by
  obtain ⟨i, idx⟩ := k
  unfold KidShape at hs
  simp only at hs ⊢
  unfold kidJoinsF kidPairs
  simp only
  by_cases hn : i.typ = "EBLIF.names"
  · simp only [hn, if_true] at hs ⊢
    obtain ⟨_, _, h3, h4⟩ := hs
    have := mem_simple_joins n t idx ((stdNamesPorts (i.pins.length - 1)).map (·.name)) i.pins (std_plain _)
      (by
        intro q
        constructor
        · intro hq
          have := h4 q hq
          rw [h3] at this
          obtain ⟨p, hp, rfl⟩ := List.mem_map.mp this
          exact ⟨p.name, List.mem_map.mpr ⟨p, hp, rfl⟩, rfl⟩
        · rintro ⟨pt, hpt, rfl⟩
          obtain ⟨p, hp, rfl⟩ := List.mem_map.mp hpt
          apply namesPins_sub n i
          rw [h3]
          exact List.mem_map.mpr ⟨p, hp, rfl⟩) hc x key
    rw [List.map_map] at this
    exact this
  · simp only [hn, if_false] at hs ⊢
    by_cases hl : i.typ = "EBLIF.latch"
    · simp only [hl, if_true] at hs ⊢
      obtain ⟨_, _, _, h4, h5⟩ := hs
      exact mem_simple_joins n t idx (latchOrder.take i.pins.length) i.pins
        (fun pt hpt => latchOrder_plain pt (List.mem_of_mem_take hpt))
        (by
          intro q
          constructor
          · intro hq
            have := h5 q hq
            rw [h4] at this
            obtain ⟨pt, hpt, rfl⟩ := List.mem_map.mp this
            exact ⟨pt, hpt, rfl⟩
          · rintro ⟨pt, hpt, rfl⟩
            apply latchPins_sub i
            rw [h4]
            exact List.mem_map.mpr ⟨pt, hpt, rfl⟩) hc x key
    · simp only [hl, if_false] at hs ⊢
      obtain ⟨_, hpp, hex⟩ := hs
      have hi : i ∈ n.insts := mem_zipIdx_fst hki
      obtain ⟨_, hmod, _⟩ := hw.2.2.1 i hi
      obtain ⟨_, hpn, _⟩ := findDef_ok hw hmod
      have hev : ∀ p ∈ (n.findDef i.model).ports, ∀ q ∈ i.pins, q.1 = p.name →
          joinOf idx t (formalText p q.2, netText n (Pin.inst idx q.1 q.2)) =
            (match n.wireOf (Pin.inst idx q.1 q.2) with
             | none => []
             | some (c, wi, _) => [(Pin.inst idx p.name q.2, (t, c.2, wi))]) := by
        intro p hpm q hq hqn
        obtain ⟨hpl, hb⟩ := hpp p hpm
        exact joinOf_eval n t idx p q.2 _ hpl (okWord_nonempty (hpn p hpm)) (hb q hq hqn) hc
      constructor
      · intro hj
        obtain ⟨fa, hfa, hj⟩ := List.mem_flatMap.mp hj
        unfold connsOf at hfa
        obtain ⟨p, hpm, hfa⟩ := List.mem_flatMap.mp hfa
        obtain ⟨q, hq, rfl⟩ := List.mem_map.mp hfa
        simp only [List.mem_filter, List.mem_reverse, decide_eq_true_eq] at hq
        rw [hev p hpm q hq.1 hq.2] at hj
        cases hwo : n.wireOf (Pin.inst idx q.1 q.2) with
        | none => simp [hwo] at hj
        | some r =>
          obtain ⟨c, wi, len⟩ := r
          simp only [hwo, List.mem_singleton, Prod.mk.injEq] at hj
          exact ⟨q, hq.1, c, wi, len, hwo, by rw [hq.2]; exact hj.1, hj.2⟩
      · rintro ⟨q, hq, c, wi, len, hwo, rfl, rfl⟩
        obtain ⟨p, hpm, hpq⟩ := hex q hq
        refine List.mem_flatMap.mpr ⟨(formalText p q.2, netText n (Pin.inst idx q.1 q.2)), ?_, ?_⟩
        · unfold connsOf
          refine List.mem_flatMap.mpr ⟨p, hpm, List.mem_map.mpr ⟨q, ?_, rfl⟩⟩
          simp only [List.mem_filter, List.mem_reverse, decide_eq_true_eq]
          exact ⟨hq, hpq.symm⟩
        · rw [hev p hpm q hq hpq.symm, hwo]
          simp [hpq]

end Spydr.Eblif
