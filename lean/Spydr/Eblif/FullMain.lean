/-
  Round trip, whole writer output: the total theorem.
-/
import Spydr.Eblif.FullBB

namespace Spydr.Eblif

/-- **Write-then-read, everything the writer emits.** -/
theorem roundtrip_full (o : Opts) (n : BNet) (t : String) (hw : WellNamed n) (hf : FragFull n t)
    (hn : NetOKF n t) (hnm : NamesOK o n) (hbp : BBPlain n t) :
    ∃ n', readB (composeText o n) = Except.ok n' ∧
      n'.insts.map kindOf = n.insts.map kindOf ∧
      (∀ j : Nat, (n'.insts[j]?).map infoOf =
        (n.insts[j]?).map (fun (i : Inst) => (if o.writeCname then some i.name else none, i.attrs, i.params))) ∧
      (∀ x k, OnNet n' x k ↔ OnNet n x k) ∧
      (n'.findDef t).ports = insPorts (n.findDef t) ++ pureOuts (n.findDef t) := by
  have ht : okWord t = true := hw.2.2.2.2 t hf.top
  obtain ⟨s0, hm, fk, fe, fa, fl, fd, fp, fdex⟩ := top_full o n t hw ht hf hn hnm
  have hJown := jf_owner n t hw ht hn
  have inv0 : TopInvF t (JF n t) (aliasOf (connKeys n t (n.findDef t))) s0 :=
    ⟨fl, fe, fdex, fun k _ => by rw [fa]⟩
  -- the black-box models
  have hbbs : ∃ sf, elabModels s0 (bbPart o n t) = Except.ok sf ∧
      TopInvF t (JF n t) (aliasOf (connKeys n t (n.findDef t))) sf ∧ instKinds sf = instKinds s0 ∧
      (∀ j, dataAt sf j = dataAt s0 j) ∧ portsOf sf t = portsOf s0 t := by
    unfold bbPart
    split
    · obtain ⟨sf, hsf⟩ := bb_models_ok (bbDefs n t) (by
        intro d hd p hp
        have hdm : d ∈ n.defs := by
          unfold bbDefs at hd; exact (List.mem_filter.mp hd).1
        exact ⟨(hbp d hd).2 p hp, okWord_nonempty ((hw.2.1 d hdm).2.1 p hp)⟩) s0
      exact ⟨sf, hsf, bb_models_foldF t _ _ hJown (bbDefs n t) (fun d hd => (hbp d hd).1) inv0 hsf⟩
    · exact ⟨s0, rfl, inv0, rfl, fun _ => rfl, rfl⟩
  obtain ⟨sf, hsf, invf, kf, df, pf⟩ := hbbs
  obtain ⟨n', hconv⟩ := applyConvention_ok (List.range sf.insts.length)
    ({ sf with comments := (astOfFull o n t).comments } : St).toNet
  have hread : readB (composeText o n) = Except.ok n' := by
    rw [read_composed_full o n t hw hf]
    unfold elabB elabSt
    have hms : elabModels {} (astOfFull o n t).models = Except.ok sf := by
      simp only [astOfFull]
      rw [elabModels_append]
      simp only [elabModels, hm, bind, Except.bind, pure, Except.pure]
      exact hsf
    simp only [hms, bind, Except.bind, pure, Except.pure]
    exact hconv
  refine ⟨n', hread, ?_⟩
  obtain ⟨c1, c2, _, c4⟩ := applyConvention_pres _ hconv
  have hins : n'.insts.map eraseName = sf.insts.map eraseName := c4
  have hkind : ∀ l : List Inst, l.map kindOf = (l.map eraseName).map kindOf := by
    intro l; rw [List.map_map]; rfl
  have hinfo : ∀ (l : List Inst) (j : Nat), (l[j]?).map infoOf = ((l.map eraseName)[j]?).map infoOf := by
    intro l j
    rw [List.getElem?_map]
    cases l[j]? <;> rfl
  refine ⟨?_, ?_, ?_, ?_⟩
  · rw [hkind n'.insts, hins, ← hkind]
    have : sf.insts.map kindOf = instKinds sf := rfl
    rw [this, kf, fk]
  · intro j
    rw [hinfo n'.insts, hins, ← hinfo]
    have hd := df j
    simp only [dataAt] at hd
    rw [hd]
    by_cases hj : j < n.insts.length
    · have hmem : (n.insts[j], j) ∈ n.insts.zipIdx := List.mem_zipIdx_iff_getElem?.mpr (by simp)
      have := fd _ hmem
      simp only [dataAt] at this
      rw [this]
      obtain ⟨_, ha, hp, _⟩ := hn.2.2.2.2.2 _ hmem
      rw [infoFold_infoStmts o n.insts[j] ha hp, List.getElem?_eq_getElem hj]
      rfl
    · have hlen : s0.insts.length = n.insts.length := by
        have := congrArg List.length fk
        simpa [instKinds] using this
      have h1 : s0.insts[j]? = none := by rw [List.getElem?_eq_none_iff]; omega
      have h2 : n.insts[j]? = none := by rw [List.getElem?_eq_none_iff]; omega
      simp [h1, h2]
  · intro x k
    have hpins : x ∈ sf.pins k ↔ ∃ k', (x, k') ∈ JF n t ∧ aliasOf (connKeys n t (n.findDef t)) k' = k := by
      rw [invf.ex x k]
      constructor
      · rintro ⟨k', hm', ha⟩
        exact ⟨k', hm', by rw [← invf.al k' (hJown _ hm')]; exact ha⟩
      · rintro ⟨k', hm', ha⟩
        exact ⟨k', hm', by rw [invf.al k' (hJown _ hm')]; exact ha⟩
    exact (onNet_of_cables c1 x k).trans ((onNet_of_cables (b := sf.toNet) rfl x k).trans
      ((onNet_toNet sf invf.linv.pl x k).trans (hpins.trans (joinsF_iff_onNet n t hw ht hn x k))))
  · have hfind : (n'.findDef t).ports = portsOf sf t := by
      unfold BNet.findDef portsOf findDef
      rw [c2]
      show (match (sf.defs.find? fun (d : DefD) => d.name = t) with | some d => d | none => ({ name := t } : DefD)).ports = _
      cases sf.defs.find? (fun (d : DefD) => d.name = t) <;> rfl
    rw [hfind, pf, fp]

end Spydr.Eblif
