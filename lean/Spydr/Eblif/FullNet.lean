/-
  Round trip, whole writer output: shape conditions on the netlist (all decidable) and the join
  set of the written text, modulo the `.conn` aliases, against the netlist it was written from.
-/
import Spydr.Eblif.FullConn2

namespace Spydr.Eblif

/-- a pin found in a wire of `n` is one the writer writes -/
def CoveredF (n : BNet) (t : String) : Pin → Prop
  | Pin.top o pn b => o = t ∧ ∃ p ∈ (n.findDef t).ports, p.name = pn ∧ b < p.width
  | Pin.inst idx pn b => ∃ i ∈ (n.insts[idx]?).toList, (pn, b) ∈ i.pins

instance (n : BNet) (t : String) (x : Pin) : Decidable (CoveredF n t x) := by
  cases x with
  | top o pn b => unfold CoveredF; infer_instance
  | inst idx pn b => unfold CoveredF; infer_instance

/-- top-level ports: IN, OUT or INOUT, plain names, at least one pin, every pin on some wire -/
def PortsOKF (n : BNet) (t : String) : Prop :=
  ∀ p ∈ (n.findDef t).ports, (p.dir = Dir.inp ∨ p.dir = Dir.out ∨ p.dir = Dir.inout) ∧ plainName p.name ∧ 1 ≤ p.width ∧
    ∀ b, b < p.width → (n.wireOf (Pin.top t p.name b)).isSome = true

instance (n : BNet) (t : String) : Decidable (PortsOKF n t) := by unfold PortsOKF; infer_instance

def CablesOKF (n : BNet) (t : String) : Prop :=
  ∀ cw ∈ n.cables, cw.1.1 = t ∧ plainName cw.1.2 ∧ cw.1.2 ≠ "unconn" ∧
    ∀ pw ∈ cw.2.zipIdx, ∀ x ∈ pw.1, n.wireOf x = some (cw.1, pw.2, cw.2.length) ∧ CoveredF n t x

instance (n : BNet) (t : String) : Decidable (CablesOKF n t) := by unfold CablesOKF; infer_instance

/-- a port bit whose pin sits on a differently named net (it gets a `.conn` line) names no net of
    its own: the wire called after it is absent or empty -/
def ConnOK (n : BNet) (t : String) : Prop :=
  ∀ kk ∈ connKeys n t (n.findDef t), ∀ cw ∈ n.cables, cw.1 = (kk.2.1, kk.2.2.1) →
    ∀ w, cw.2[kk.2.2.2]? = some w → w = []

instance (n : BNet) (t : String) : Decidable (ConnOK n t) := by
  unfold ConnOK
  have : ∀ (l : List (List Pin)) (j : Nat), Decidable (∀ w, l[j]? = some w → w = []) := by
    intro l j
    cases l[j]? with
    | none => exact isTrue (fun _ h => by cases h)
    | some w =>
      by_cases hw : w = []
      · exact isTrue (fun _ h => by cases h; exact hw)
      · exact isFalse (fun h => hw (h w rfl))
  infer_instance

/-- children: per-kind shape, pairwise different attr / param keys, no child instantiates the top
    model, a `.names` definition is not also used by a child of another kind -/
def KidsOKF (n : BNet) (t : String) : Prop :=
  ∀ k ∈ n.insts.zipIdx, KidShape n k ∧ (k.1.attrs.map (·.1)).Nodup ∧ (k.1.params.map (·.1)).Nodup ∧ t ≠ k.1.model ∧
    (k.1.typ ≠ "EBLIF.names" → ∀ j ∈ n.insts, j.typ = "EBLIF.names" → k.1.model ≠ j.model)

instance (n : BNet) (t : String) : Decidable (KidsOKF n t) := by unfold KidsOKF; infer_instance

/-- shape conditions on the netlist for the whole writer output (all decidable) -/
def NetOKF (n : BNet) (t : String) : Prop :=
  kidsFull n t = n.insts.zipIdx ∧ PortsOKF n t ∧ ((n.findDef t).ports.map (·.name)).Nodup ∧
  CablesOKF n t ∧ ConnOK n t ∧ KidsOKF n t

instance (n : BNet) (t : String) : Decidable (NetOKF n t) := by unfold NetOKF; infer_instance

/-- joins of the header of the written top model -/
def hdrJ (n : BNet) (t : String) : List (Pin × Key) :=
  wordJoins t ((insPorts (n.findDef t)).flatMap portBits) ++ wordJoins t ((pureOuts (n.findDef t)).flatMap portBits)

/-- all joins the written text declares, before the `.conn` aliases -/
def JF (n : BNet) (t : String) : List (Pin × Key) := hdrJ n t ++ n.insts.zipIdx.flatMap (kidJoinsF n t)

theorem mem_hdrJ (n : BNet) (t : String) (hw : WellNamed n) (ht : okWord t = true) (hp : PortsOKF n t)
    (x : Pin) (k : Key) :
    (x, k) ∈ hdrJ n t ↔ ∃ p ∈ (n.findDef t).ports, ∃ b, b < p.width ∧ x = Pin.top t p.name b ∧ k = (t, p.name, b) := by
  obtain ⟨_, hpn, _⟩ := findDef_ok hw ht
  have hok : ∀ ps : List PortD, (∀ p ∈ ps, p ∈ (n.findDef t).ports) →
      wordJoins t (ps.flatMap portBits) = ps.flatMap (portJoins t) := by
    intro ps hps
    apply wordJoins_ports
    intro p hpm
    obtain ⟨_, hpl, hwd, _⟩ := hp p (hps p hpm)
    exact ⟨hpl, okWord_nonempty (hpn p (hps p hpm)), hwd⟩
  unfold hdrJ
  rw [hok (insPorts (n.findDef t)) (fun p h => (List.mem_filter.mp h).1),
    hok (pureOuts (n.findDef t)) (fun p h => (List.mem_filter.mp h).1)]
  simp only [List.mem_append, List.mem_flatMap, portJoins, List.mem_map, List.mem_range, Prod.mk.injEq,
    insPorts, pureOuts, List.mem_filter, Bool.or_eq_true, decide_eq_true_eq]
  constructor
  · rintro (⟨p, ⟨hpm, _⟩, b, hb, e1, e2⟩ | ⟨p, ⟨hpm, _⟩, b, hb, e1, e2⟩)
    · exact ⟨p, hpm, b, hb, e1.symm, e2.symm⟩
    · exact ⟨p, hpm, b, hb, e1.symm, e2.symm⟩
  · rintro ⟨p, hpm, b, hb, e1, e2⟩
    rcases (hp p hpm).1 with hd | hd | hd
    · exact Or.inl ⟨p, ⟨hpm, Or.inl hd⟩, b, hb, e1.symm, e2.symm⟩
    · exact Or.inr ⟨p, ⟨hpm, hd⟩, b, hb, e1.symm, e2.symm⟩
    · exact Or.inl ⟨p, ⟨hpm, Or.inr hd⟩, b, hb, e1.symm, e2.symm⟩

theorem jf_owner (n : BNet) (t : String) (hw : WellNamed n) (ht : okWord t = true) (hn : NetOKF n t) :
    ∀ e ∈ JF n t, e.2.1 = t := by
  obtain ⟨_, hp, _, hcb, _, hk⟩ := hn
  have hcab : ∀ c ∈ n.cables, plainName c.1.2 ∧ c.1.2 ≠ "unconn" ∧ c.1.2.toList ≠ [] := by
    intro c hc
    obtain ⟨_, h2, h3, _⟩ := hcb c hc
    exact ⟨h2, h3, okWord_nonempty (hw.2.2.2.1 c hc)⟩
  intro e he
  obtain ⟨x, k⟩ := e
  unfold JF at he
  rcases List.mem_append.mp he with h | h
  · obtain ⟨p, _, b, _, _, rfl⟩ := (mem_hdrJ n t hw ht hp x k).mp h
    rfl
  · obtain ⟨kk, hkk, hj⟩ := List.mem_flatMap.mp h
    obtain ⟨q, _, c, wi, len, _, _, rfl⟩ := (mem_kidJoinsF n t kk hw hkk (hk kk hkk).1 hcab x k).mp hj
    rfl

/-- the alias of a port bit is the net bit its pin is on -/
theorem alias_portbit (n : BNet) (t : String) (hnd : ((n.findDef t).ports.map (·.name)).Nodup)
    (p : PortD) (hp : p ∈ (n.findDef t).ports) (b : Nat) (hb : b < p.width) (c : CKey) (wi len : Nat)
    (hwo : n.wireOf (Pin.top t p.name b) = some (c, wi, len)) :
    aliasOf (connKeys n t (n.findDef t)) (t, p.name, b) = (t, c.2, wi) := by
  have hsrc : ∀ ka, (ka, ((t, p.name, b) : Key)) ∈ connKeys n t (n.findDef t) → ka = (t, c.2, wi) ∧ ¬ (c.2 = p.name ∧ wi = b) := by
    intro ka hm
    obtain ⟨p', hp', b', hb', c', wi', len', hwo', hne, rfl, he⟩ := (mem_connKeys n t _ ka _).mp hm
    rw [findDef_name] at hwo'
    simp only [Prod.mk.injEq, true_and] at he
    have := eq_of_nodup_name hnd hp hp' he.1
    subst this
    rw [← he.2, hwo] at hwo'
    simp only [Option.some.injEq, Prod.mk.injEq] at hwo'
    obtain ⟨rfl, rfl, _⟩ := hwo'
    exact ⟨rfl, by rw [he.2]; exact hne⟩
  by_cases hsame : c.2 = p.name ∧ wi = b
  · have : (t, p.name, b) ∉ (connKeys n t (n.findDef t)).map (·.2) := by
      intro hm
      obtain ⟨pp, hpp, he⟩ := List.mem_map.mp hm
      obtain ⟨ka, kb⟩ := pp
      simp only at he
      subst he
      exact (hsrc ka hpp).2 hsame
    rw [aliasOf_not_mem this, hsame.1, hsame.2]
  · have hm : ((t, c.2, wi), ((t, p.name, b) : Key)) ∈ connKeys n t (n.findDef t) :=
      (mem_connKeys n t _ _ _).mpr ⟨p, hp, b, hb, c, wi, len, by rw [findDef_name]; exact hwo, hsame, rfl, rfl⟩
    obtain ⟨pp, hpp, he, ha⟩ := aliasOf_mem (List.mem_map.mpr ⟨_, hm, rfl⟩)
    obtain ⟨ka, kb⟩ := pp
    simp only at he ha
    subst he
    rw [ha]
    exact (hsrc ka hpp).1

/-- a net bit that carries a pin in `n` is not the source of a `.conn` line -/
theorem alias_carrier (n : BNet) (t : String) (hc : ConnOK n t) (x : Pin) (k : Key) (ho : OnNet n x k) :
    aliasOf (connKeys n t (n.findDef t)) k = k := by
  apply aliasOf_not_mem
  intro hm
  obtain ⟨pp, hpp, he⟩ := List.mem_map.mp hm
  obtain ⟨ws, w, hmem, hws, hx⟩ := ho
  have := hc pp hpp ((k.1, k.2.1), ws) hmem (by rw [he]) w (by rw [he]; exact hws)
  rw [this] at hx
  cases hx

/-- **the joins the written text declares, followed through the `.conn` aliases, are exactly the
    pin / net-bit incidences of the netlist** -/
theorem joinsF_iff_onNet (n : BNet) (t : String) (hw : WellNamed n) (ht : okWord t = true) (hn : NetOKF n t)
    (x : Pin) (k : Key) :
    (∃ k', (x, k') ∈ JF n t ∧ aliasOf (connKeys n t (n.findDef t)) k' = k) ↔ OnNet n x k := by
  have hn' := hn
  obtain ⟨_, hp, hnd, hcb, hcn, hk⟩ := hn'
  have hcab : ∀ c ∈ n.cables, plainName c.1.2 ∧ c.1.2 ≠ "unconn" ∧ c.1.2.toList ≠ [] := by
    intro c hc
    obtain ⟨_, h2, h3, _⟩ := hcb c hc
    exact ⟨h2, h3, okWord_nonempty (hw.2.2.2.1 c hc)⟩
  have honnet : ∀ (y : Pin) (c : CKey) (wi len : Nat), n.wireOf y = some (c, wi, len) → OnNet n y (t, c.2, wi) := by
    intro y c wi len hwo
    obtain ⟨ws, w, hm, _, hws, hx⟩ := wireOf_spec hwo
    obtain ⟨hown, _⟩ := hcb (c, ws) hm
    refine ⟨ws, w, ?_, hws, hx⟩
    simp only at hown ⊢
    rw [← hown]; exact hm
  constructor
  · rintro ⟨k', hm, ha⟩
    unfold JF at hm
    rcases List.mem_append.mp hm with h | h
    · obtain ⟨p, hpm, b, hb, rfl, rfl⟩ := (mem_hdrJ n t hw ht hp x k').mp h
      obtain ⟨_, _, _, hsome⟩ := hp p hpm
      cases hwo : n.wireOf (Pin.top t p.name b) with
      | none => have := hsome b hb; rw [hwo] at this; cases this
      | some r =>
        obtain ⟨c, wi, len⟩ := r
        rw [alias_portbit n t hnd p hpm b hb c wi len hwo] at ha
        rw [← ha]
        exact honnet _ c wi len hwo
    · obtain ⟨kk, hkk, hj⟩ := List.mem_flatMap.mp h
      obtain ⟨q, _, c, wi, len, hwo, rfl, rfl⟩ := (mem_kidJoinsF n t kk hw hkk (hk kk hkk).1 hcab x k').mp hj
      have ho := honnet _ c wi len hwo
      rw [alias_carrier n t hcn _ _ ho] at ha
      rw [← ha]; exact ho
  · rintro ⟨ws, w, hm, hws, hx⟩
    have ho : OnNet n x k := ⟨ws, w, hm, hws, hx⟩
    obtain ⟨hown, _, _, hun⟩ := hcb ((k.1, k.2.1), ws) hm
    have hpw : (w, k.2.2) ∈ ws.zipIdx := List.mem_zipIdx_iff_getElem?.mpr hws
    obtain ⟨hwo, hcov⟩ := hun (w, k.2.2) hpw x hx
    simp only at hown hwo
    have hkeq : (t, k.2.1, k.2.2) = k := by
      obtain ⟨k1, k2, k3⟩ := k
      simp only at hown ⊢
      rw [hown]
    cases x with
    | top o pn b =>
      simp only [CoveredF] at hcov
      obtain ⟨rfl, p, hpm, rfl, hb⟩ := hcov
      refine ⟨(o, p.name, b), ?_, ?_⟩
      · unfold JF
        exact List.mem_append.mpr (Or.inl ((mem_hdrJ n o hw ht hp _ _).mpr ⟨p, hpm, b, hb, rfl, rfl⟩))
      · rw [alias_portbit n o hnd p hpm b hb _ _ _ hwo]
        exact hkeq
    | inst idx pn b =>
      simp only [CoveredF, Option.mem_toList] at hcov
      obtain ⟨i, hi, hqm⟩ := hcov
      have hkk : (i, idx) ∈ n.insts.zipIdx := List.mem_zipIdx_iff_getElem?.mpr (by simpa using hi)
      refine ⟨k, ?_, alias_carrier n t hcn _ _ ho⟩
      unfold JF
      refine List.mem_append.mpr (Or.inr (List.mem_flatMap.mpr ⟨(i, idx), hkk, ?_⟩))
      exact (mem_kidJoinsF n t (i, idx) hw hkk (hk _ hkk).1 hcab _ _).mpr
        ⟨(pn, b), hqm, _, _, _, hwo, rfl, hkeq.symm⟩

end Spydr.Eblif
