/-
  Round trip, all instance kinds: the re-read of a written `.latch` / `.names` block cannot fail.
-/
import Spydr.Eblif.FullStmt

namespace Spydr.Eblif

theorem nm_rename {st st' : St} {idx : Nat} {p n : String} (h : rename st idx p n = Except.ok st') :
    ∃ d, namesOf st' = (namesOf st).set idx d := by
  unfold rename at h
  split at h
  · cases h; exact nm_assignDefault _ _ _ _
  · cases h; exact ⟨n, nm_updInst_set _ _ _ n (fun _ => rfl)⟩

theorem len_namesOf (st : St) : (namesOf st).length = st.insts.length := by simp [namesOf]

/-- the info lines the writer emits for instance `i`, applied to the instance just created at
    position `idx`, succeed when no earlier instance carries `i`'s name -/
theorem info_ok (o : Opts) (i : Inst) (t : String) (st s2 : St) (idx : Nat) (dflt : String)
    (hlen : st.insts.length = idx) (hn2 : namesOf s2 = namesOf st ++ [dflt])
    (hx : o.writeCname = true → ∀ j, j ≠ idx → (namesOf st)[j]? ≠ some i.name) :
    ∃ st', applyInfo s2 idx t (infoStmts o i) = Except.ok st' ∧ st'.insts.length = idx + 1 ∧
      (o.writeCname = true → namesOf st' = namesOf st ++ [i.name]) := by
  have hl2 : s2.insts.length = idx + 1 := by
    have := congrArg List.length hn2
    simp only [len_namesOf, List.length_append, List.length_singleton] at this
    omega
  unfold infoStmts
  by_cases hwc : o.writeCname = true
  · simp only [hwc, if_true, List.cons_append, List.nil_append, List.append_assoc]
    have hx2 : ∀ j, j ≠ idx → (namesOf s2)[j]? ≠ some i.name := by
      intro j hj
      rw [hn2]
      have hlen' : (namesOf st).length = idx := by rw [len_namesOf]; exact hlen
      rcases Nat.lt_or_ge j idx with hlt | hge
      · rw [List.getElem?_append_left (by omega)]
        exact hx hwc j hj
      · have : (namesOf st ++ [dflt])[j]? = none := by
          rw [List.getElem?_eq_none_iff]; simp; omega
        rw [this]; simp
    obtain ⟨s3, h3, n3⟩ := applyInfo_cname_ok s2 idx t i.name _ (infoStmts_nocname i) hx2
    refine ⟨s3, h3, ?_, fun _ => ?_⟩
    · have := congrArg List.length (ik_applyInfo _ h3)
      simp only [instKinds, List.length_map] at this
      rw [this]; exact hl2
    · rw [n3, hn2]
      have hl : idx = (namesOf st).length := by rw [len_namesOf]; exact hlen.symm
      rw [hl]
      exact set_append_last _ _ _
  · have hwf : o.writeCname = false := by simpa using hwc
    simp only [hwf, Bool.false_eq_true, if_false, List.nil_append]
    obtain ⟨s3, h3, _⟩ := applyInfo_nocname_ok idx t _ (infoStmts_nocname i) s2
    refine ⟨s3, h3, ?_, fun h => by cases h⟩
    have := congrArg List.length (ik_applyInfo _ h3)
    simp only [instKinds, List.length_map] at this
    rw [this]; exact hl2

/-! ### `.latch` -/

theorem hasP_addLatchPorts (l : List String) :
    ∀ (st : St), DefEx st "generic-latch" → ∀ o ∈ l, HasP (addLatchPorts st l) "generic-latch" o := by
  induction l with
  | nil => intro st _ o ho; cases ho
  | cons a r ih =>
    intro st hd o ho
    unfold addLatchPorts
    obtain ⟨h1, h2⟩ := addPort_has st "generic-latch" a (if a = "output" then Dir.out else Dir.inp) 1 hd
    rcases List.mem_cons.mp ho with rfl | hm
    · have : HasP (addPort st "generic-latch" o (if o = "output" then Dir.out else Dir.inp) 1) "generic-latch" o := by
        unfold HasP; rw [← hasPort_eq]; exact h1
      exact this.mono (pm_addLatchPorts r _)
    · exact ih _ h2 o hm

theorem mem_zip_fst {α β : Type} {a : α} {b : β} : ∀ {l : List α} {m : List β}, (a, b) ∈ l.zip m → a ∈ l
  | [], _, h => by simp at h
  | _ :: _, [], h => by simp at h
  | x :: r, y :: s, h => by
      simp only [List.zip_cons_cons, List.mem_cons, Prod.mk.injEq] at h
      rcases h with ⟨rfl, _⟩ | h
      · simp
      · exact List.mem_cons_of_mem _ (mem_zip_fst h)

theorem mem_zip_snd {α β : Type} {a : α} {b : β} : ∀ {l : List α} {m : List β}, (a, b) ∈ l.zip m → b ∈ m
  | [], _, h => by simp at h
  | _ :: _, [], h => by simp at h
  | x :: r, y :: s, h => by
      simp only [List.zip_cons_cons, List.mem_cons, Prod.mk.injEq] at h
      rcases h with ⟨_, rfl⟩ | h
      · simp
      · exact List.mem_cons_of_mem _ (mem_zip_snd h)

/-- a written `.latch` block re-reads without error -/
theorem latch_stmt_ok (o : Opts) (i : Inst) (t : String) (toks : List String) (st : St) (idx : Nat)
    (hout : ∃ x, (latchOrder.zip toks).find? (fun p => p.1 = "output") = some x)
    (htok : ∀ tk ∈ toks, ∃ cn ci, splitIdx tk = Except.ok (cn, ci))
    (hlen : st.insts.length = idx)
    (hx : o.writeCname = true → ∀ j, j ≠ idx → (namesOf st)[j]? ≠ some i.name) :
    ∃ st', elabStmt st t (Stmt.latch toks (infoStmts o i)) = Except.ok st' ∧ st'.insts.length = idx + 1 ∧
      (o.writeCname = true → namesOf st' = namesOf st ++ [i.name]) := by
  obtain ⟨x, hxo⟩ := hout
  let s0 := addLatchPorts (ensureDef st "generic-latch") ((latchOrder.zip toks).map (·.1))
  have hd0 : DefEx (ensureDef st "generic-latch") "generic-latch" := defEx_ensureDef _ _
  have hl0 : s0.insts.length = idx := by
    rw [len_of_ik ((ik_addLatchPorts _ _).trans (ik_ensureDef _ _))]; exact hlen
  have hn0 : namesOf s0 = namesOf st := by
    show namesOf (addLatchPorts _ _) = _
    have : ∀ (l : List String) (s : St), namesOf (addLatchPorts s l) = namesOf s := by
      intro l; induction l with
      | nil => intro s; rfl
      | cons a r ih => intro s; unfold addLatchPorts; rw [ih]; simp
    rw [this]; simp
  -- rename
  have hren : ∃ s1, rename (newInst s0 t "generic-latch" "EBLIF.latch").1 s0.insts.length t x.2 = Except.ok s1 := by
    unfold rename; split <;> exact ⟨_, rfl⟩
  obtain ⟨s1, h1⟩ := hren
  have hpm1 : PMono s0 s1 := PMono.trans (PMono.of_defs (b := (newInst s0 t "generic-latch" "EBLIF.latch").1) rfl) (pm_rename h1)
  have hpa : ∀ fa ∈ latchOrder.zip toks, ∃ cn ci pn pi, splitIdx fa.2 = Except.ok (cn, ci) ∧
      splitIdx fa.1 = Except.ok (pn, pi) ∧ HasP s1 "generic-latch" pn := by
    intro fa hfa
    obtain ⟨a, b⟩ := fa
    obtain ⟨cn, ci, e1⟩ := htok b (mem_zip_snd hfa)
    have e2 := latchOrder_split a (mem_zip_fst hfa)
    refine ⟨cn, ci, a, 0, e1, e2, ?_⟩
    have : HasP s0 "generic-latch" a :=
      hasP_addLatchPorts _ _ hd0 a (List.mem_map.mpr ⟨(a, b), hfa, rfl⟩)
    exact this.mono hpm1
  obtain ⟨s2, h2⟩ := connectAll_ok s0.insts.length t "generic-latch" (latchOrder.zip toks) s1 hpa
  have hn2 : ∃ d, namesOf s2 = namesOf st ++ [d] := by
    obtain ⟨d, hd⟩ := nm_rename h1
    refine ⟨d, ?_⟩
    rw [nm_connectAll _ h2, hd, nm_newInst, hn0]
    have hl : s0.insts.length = (namesOf st).length := by rw [len_namesOf, hl0, hlen]
    rw [hl]
    exact set_append_last _ _ _
  obtain ⟨dflt, hn2⟩ := hn2
  obtain ⟨s3, h3, hl3, hn3⟩ := info_ok o i t st s2 idx dflt hlen hn2 hx
  refine ⟨s3, ?_, hl3, hn3⟩
  unfold elabStmt
  simp only [hxo]
  show (rename (newInst s0 t "generic-latch" "EBLIF.latch").1 s0.insts.length t x.2 >>= fun st =>
    connectAll st s0.insts.length t "generic-latch" (latchOrder.zip toks) >>= fun st =>
    applyInfo st s0.insts.length t (infoStmts o i)) = _
  rw [h1]
  simp only [bind, Except.bind]
  rw [h2]
  simp only
  rw [hl0]; exact h3

end Spydr.Eblif
