/-
  Round trip, all instance kinds: `.names`.  The generated definition `logic-gate_k` is absent or
  standard (`Std`); a written `.names` block re-reads without error.
-/
import Spydr.Eblif.FullOk

namespace Spydr.Eblif

/-- `logic-gate_k` does not exist yet, or has exactly the standard ports -/
def Std (st : St) (k : Nat) : Prop :=
  findDef st ("logic-gate_" ++ natStr k) = none ∨
  (DefEx st ("logic-gate_" ++ natStr k) ∧ portsOf st ("logic-gate_" ++ natStr k) = stdNamesPorts k)

/-- after the ports were created on demand the definition is standard, and exists -/
theorem std_after (st : St) (k : Nat) (h : Std st k) :
    portsOf (addNamesPorts (ensureDef st ("logic-gate_" ++ natStr k)) ("logic-gate_" ++ natStr k) k) ("logic-gate_" ++ natStr k)
      = stdNamesPorts k ∧
    DefEx (addNamesPorts (ensureDef st ("logic-gate_" ++ natStr k)) ("logic-gate_" ++ natStr k) k) ("logic-gate_" ++ natStr k) := by
  refine ⟨?_, defEx_of_dv (dv_addNamesPorts _ _ _) (defEx_ensureDef _ _)⟩
  rcases h with h | ⟨hd, hp⟩
  · exact names_def_fresh _ _ k (defEx_ensureDef _ _) (portsOf_ensureDef_fresh st _ h)
  · have e : portsOf (ensureDef st ("logic-gate_" ++ natStr k)) ("logic-gate_" ++ natStr k) = stdNamesPorts k := by
      rw [portsOf_ensureDef_old st _ hd]; exact hp
    rw [names_def_again _ _ k e]; exact e

theorem plain_inName (j : Nat) : plainName (inName j) ∧ (inName j).toList ≠ [] := by
  have hl : (inName j).toList = ['i', 'n', '_'] ++ (natStr j).toList := by
    unfold inName
    rw [String.toList_append]
    rfl
  refine ⟨?_, by rw [hl]; simp⟩
  intro c hc he
  subst he
  have hm : ']' ∈ (inName j).toList := List.mem_of_getLast? hc
  rw [hl] at hm
  rcases List.mem_append.mp hm with h1 | h1
  · revert h1; decide
  · have hd : ']' ∈ Nat.toDigits 10 j := by simpa [natStr] using h1
    have := digit_bounds (Nat.isDigit_of_mem_toDigits (by decide) (by decide) hd)
    simp at this

theorem std_split (k : Nat) : ∀ p ∈ stdNamesPorts k, splitIdx p.name = Except.ok (p.name, 0) := by
  intro p hp
  unfold stdNamesPorts at hp
  rcases List.mem_append.mp hp with h | h
  · obtain ⟨j, _, rfl⟩ := List.mem_map.mp h
    exact splitIdx_plain _ (plain_inName j).1 (plain_inName j).2
  · simp only [List.mem_singleton] at h
    subst h
    rfl

theorem findIn_isSome_of_mem {ps : List PortD} {p : PortD} (h : p ∈ ps) : (findIn ps p.name).isSome = true := by
  unfold findIn
  rw [List.find?_isSome]
  exact ⟨p, h, by simp⟩

theorem nm_addNamesPorts (st : St) (dn : String) (k : Nat) : namesOf (addNamesPorts st dn k) = namesOf st := by
  unfold addNamesPorts
  simp only [nm_addPort]
  generalize List.range k = l
  induction l generalizing st with
  | nil => rfl
  | cons a r ih => rw [List.foldl_cons, ih]; simp

/-- a written `.names` block re-reads without error -/
theorem names_stmt_ok (o : Opts) (i : Inst) (t : String) (nets covers : List String) (st : St) (idx : Nat)
    (hne : nets ≠ [])
    (hnet : ∀ nt ∈ nets, ∃ cn ci, splitIdx nt = Except.ok (cn, ci))
    (hstd : Std st (nets.length - 1))
    (hlen : st.insts.length = idx)
    (hx : o.writeCname = true → ∀ j, j ≠ idx → (namesOf st)[j]? ≠ some i.name) :
    ∃ st', elabStmt st t (Stmt.names nets covers (infoStmts o i)) = Except.ok st' ∧ st'.insts.length = idx + 1 ∧
      (o.writeCname = true → namesOf st' = namesOf st ++ [i.name]) := by
  obtain ⟨outNet, hlast⟩ : ∃ x, nets.getLast? = some x := by
    cases h : nets.getLast? with
    | none => exact absurd (List.getLast?_eq_none_iff.mp h) hne
    | some x => exact ⟨x, rfl⟩
  let k := nets.length - 1
  let dn := "logic-gate_" ++ natStr k
  let s0 := addNamesPorts (ensureDef st dn) dn k
  obtain ⟨hp0, hd0⟩ := std_after st k hstd
  have hl0 : s0.insts.length = idx := by
    rw [len_of_ik ((ik_addNamesPorts _ _ _).trans (ik_ensureDef _ _))]; exact hlen
  have hn0 : namesOf s0 = namesOf st := by
    show namesOf (addNamesPorts _ _ _) = _
    rw [nm_addNamesPorts]; simp
  let sa := updInst (newInst s0 t dn "EBLIF.names").1 s0.insts.length (fun i => { i with covers := some covers })
  have hna : namesOf sa = namesOf st ++ [""] := by
    show namesOf (updInst _ _ _) = _
    rw [nm_updInst _ _ (fun i => { i with covers := some covers }) (fun _ => rfl), nm_newInst, hn0]
  -- naming
  have hren : ∃ s1, (if containsSub outNet.toList "unconn".toList then pure (assignDefault sa s0.insts.length t dn)
                     else rename sa s0.insts.length t outNet) = Except.ok s1 ∧
      PMono s0 s1 ∧ ∃ d, namesOf s1 = (namesOf sa).set s0.insts.length d := by
    split
    · exact ⟨_, rfl, PMono.of_defs rfl, nm_assignDefault _ _ _ _⟩
    · have : ∃ s1, rename sa s0.insts.length t outNet = Except.ok s1 := by
        unfold rename; split <;> exact ⟨_, rfl⟩
      obtain ⟨s1, h1⟩ := this
      exact ⟨s1, h1, PMono.trans (PMono.of_defs (b := sa) rfl) (pm_rename h1), nm_rename h1⟩
  obtain ⟨s1, h1, hpm1, d1, hn1⟩ := hren
  -- pins
  have hinfo := names_info_std st nets hstd
  have hpa : ∀ fa ∈ namesInfo st nets, ∃ cn ci pn pi, splitIdx fa.2 = Except.ok (cn, ci) ∧
      splitIdx fa.1 = Except.ok (pn, pi) ∧ HasP s1 dn pn := by
    intro fa hfa
    rw [hinfo] at hfa
    obtain ⟨pn, hpn, rfl⟩ := List.mem_map.mp hfa
    obtain ⟨p, nt⟩ := pn
    have hp : p ∈ stdNamesPorts k := mem_zip_fst hpn
    obtain ⟨cn, ci, e1⟩ := hnet nt (mem_zip_snd hpn)
    refine ⟨cn, ci, p.name, 0, e1, std_split k p hp, ?_⟩
    have : HasP s0 dn p.name := by
      unfold HasP
      show (findIn (portsOf (addNamesPorts _ _ _) _) p.name).isSome = true
      rw [hp0]; exact findIn_isSome_of_mem hp
    exact this.mono hpm1
  obtain ⟨s2, h2⟩ := connectAll_ok s0.insts.length t dn (namesInfo st nets) s1 hpa
  have hn2 : namesOf s2 = namesOf st ++ [d1] := by
    rw [nm_connectAll _ h2, hn1, hna]
    have hl : s0.insts.length = (namesOf st).length := by rw [len_namesOf, hl0, hlen]
    rw [hl]
    exact set_append_last _ _ _
  obtain ⟨s3, h3, hl3, hn3⟩ := info_ok o i t st s2 idx d1 hlen hn2 hx
  refine ⟨s3, ?_, hl3, hn3⟩
  unfold elabStmt
  simp only [hlast]
  show ((if containsSub outNet.toList "unconn".toList then pure (assignDefault sa s0.insts.length t dn)
         else rename sa s0.insts.length t outNet) >>= fun st1 =>
    connectAll st1 s0.insts.length t dn (namesInfo st nets) >>= fun st2 =>
    applyInfo st2 s0.insts.length t (infoStmts o i)) = _
  rw [h1]
  simp only [bind, Except.bind]
  rw [h2]
  simp only
  rw [hl0]; exact h3

end Spydr.Eblif
