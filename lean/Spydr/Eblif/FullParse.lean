/-
  Parser side for everything the writer emits: `.names` blocks with their truth-table rows,
  `.latch` blocks, `.conn` lines, the `.clock` line.
-/
import Spydr.Eblif.Props.C18BlackBox

namespace Spydr.Eblif

/-- the modes in which a model is open -/
def OpenMode (m : Mode) : Prop := m = Mode.header ∨ m = Mode.body ∨ m = Mode.info ∨ m = Mode.covers

/-- a statement keyword line is handled by `stepBody` in every open mode, and `stepBody` does not
    look at the mode for these keywords -/
theorem pstep_names_line (s : PSt) (c : Model) (hc : s.cur = some c) (hm : OpenMode s.mode) (nets : List String) :
    pstep s (".names" :: nets) = { s with cur := some { c with body := c.body ++ [Stmt.names nets [] []] }, mode := Mode.covers } := by
  cases s with
  | mk mode comments done cur err =>
    simp only at hc hm
    subst hc
    rcases hm with rfl | rfl | rfl | rfl <;>
      simp [pstep, stepHeader, stepBody, stepInfo, stepCovers, PSt.pushStmt, isCoverWord, isCoverChar]

theorem pstep_latch_line (s : PSt) (c : Model) (hc : s.cur = some c) (hm : OpenMode s.mode) (toks : List String) :
    pstep s (".latch" :: toks) = { s with cur := some { c with body := c.body ++ [Stmt.latch toks []] }, mode := Mode.info } := by
  cases s with
  | mk mode comments done cur err =>
    simp only at hc hm
    subst hc
    rcases hm with rfl | rfl | rfl | rfl <;>
      simp [pstep, stepHeader, stepBody, stepInfo, stepCovers, PSt.pushStmt, isCoverWord, isCoverChar]

theorem pstep_conn_line (s : PSt) (c : Model) (hc : s.cur = some c) (hm : OpenMode s.mode) (a b : String) :
    pstep s [".conn", a, b] = { s with cur := some { c with body := c.body ++ [Stmt.conn a b] }, mode := Mode.body } := by
  cases s with
  | mk mode comments done cur err =>
    simp only at hc hm
    subst hc
    rcases hm with rfl | rfl | rfl | rfl <;>
      simp [pstep, stepHeader, stepBody, stepInfo, stepCovers, PSt.pushStmt, isCoverWord, isCoverChar]

theorem pstep_end_line (s : PSt) (c : Model) (hc : s.cur = some c) (hm : OpenMode s.mode) :
    pstep s [".end"] = { s with done := s.done ++ [c], cur := none, mode := Mode.outside } := by
  cases s with
  | mk mode comments done cur err =>
    simp only at hc hm
    subst hc
    rcases hm with rfl | rfl | rfl | rfl <;>
      simp [pstep, stepHeader, stepBody, stepInfo, stepCovers, isCoverWord, isCoverChar]

theorem pstep_subckt_line (s : PSt) (c : Model) (hc : s.cur = some c) (he : s.err = none) (hm : OpenMode s.mode)
    (gate : Bool) (m : String) (conns : List (String × String)) (hcs : ∀ x ∈ conns, '=' ∉ x.1.toList) :
    pstep s ([subcktKw gate, m] ++ conns.map connWord) =
      { s with cur := some { c with body := c.body ++ [Stmt.subckt gate m conns []] }, mode := Mode.info } := by
  cases s with
  | mk mode comments done cur err =>
    simp only at hc hm he
    subst hc
    rcases hm with rfl | rfl | rfl | rfl <;> cases gate <;>
      simp [pstep, stepHeader, stepBody, stepInfo, stepCovers, PSt.pushStmt, isCoverWord, isCoverChar, subcktKw,
        parseConns_connWords conns hcs]

/-- a truth-table row: its first word is a cover word -/
def CoverRow (l : List String) : Prop := ∃ w r, l = w :: r ∧ isCoverWord w = true

theorem pstep_cover_row (s : PSt) (c : Model) (hc : s.cur = some c) (hm : s.mode = Mode.covers) (row : List String)
    (hr : CoverRow row) (nets covers : List String) (body : List Stmt) (hb : c.body = body ++ [Stmt.names nets covers []]) :
    pstep s row = { s with cur := some { c with body := body ++ [Stmt.names nets (covers ++ [coverText row]) []] } } := by
  obtain ⟨w, r, rfl, hw⟩ := hr
  cases s with
  | mk mode comments done cur err =>
    simp only at hc hm
    subst hc; subst hm
    simp [pstep, stepCovers, hw, PSt.modLast, hb, modifyLast_append_singleton, addCoverStmt]

theorem cover_rows_fold (rows : List (List String)) (hr : ∀ r ∈ rows, CoverRow r) :
    ∀ (s : PSt) (c : Model) (nets covers : List String) (body : List Stmt), s.cur = some c → s.mode = Mode.covers →
      c.body = body ++ [Stmt.names nets covers []] →
      rows.foldl pstep s = { s with cur := some { c with body := body ++ [Stmt.names nets (covers ++ rows.map coverText) []] } } := by
  induction rows with
  | nil =>
    intro s c nets covers body hc _ hb
    cases s with
    | mk mode comments done cur err =>
      simp only at hc
      subst hc
      cases c with
      | mk name hdr cbody => simp only at hb; subst hb; simp
  | cons row r ih =>
    intro s c nets covers body hc hm hb
    simp only [List.foldl_cons, List.map_cons]
    rw [pstep_cover_row s c hc hm row (hr row (by simp)) nets covers body hb]
    have := ih (fun x hx => hr x (by simp [hx]))
      { s with cur := some { c with body := body ++ [Stmt.names nets (covers ++ [coverText row]) []] } }
      { c with body := body ++ [Stmt.names nets (covers ++ [coverText row]) []] }
      nets (covers ++ [coverText row]) body rfl hm rfl
    rw [this]
    simp

/-- info lines after any instance statement (generalises `info_lines_fold` to the three kinds) -/
def withInfo (x : Stmt) (info : List InfoStmt) : Stmt :=
  match x with
  | Stmt.subckt g m c i => Stmt.subckt g m c (i ++ info)
  | Stmt.names n c i => Stmt.names n c (i ++ info)
  | Stmt.latch t i => Stmt.latch t (i ++ info)
  | s => s

def isInstStmt : Stmt → Bool
  | Stmt.subckt _ _ _ _ => true
  | Stmt.names _ _ _ => true
  | Stmt.latch _ _ => true
  | _ => false

theorem pstep_info_line (s : PSt) (c : Model) (hc : s.cur = some c) (hm : s.mode = Mode.info ∨ s.mode = Mode.covers)
    (x : Stmt) (hx : isInstStmt x = true) (body : List Stmt) (hb : c.body = body ++ [x]) (i : InfoStmt) :
    pstep s (infoLine i) = { s with cur := some { c with body := body ++ [withInfo x [i]] }, mode := Mode.info } := by
  cases s with
  | mk mode comments done cur err =>
    simp only at hc hm
    subst hc
    rcases hm with rfl | rfl <;> cases i <;> cases x <;>
      simp_all [pstep, stepInfo, stepCovers, infoLine, PSt.modLast, modifyLast_append_singleton, addInfoStmt, withInfo,
        isInstStmt, isCoverWord, isCoverChar]

theorem withInfo_withInfo (x : Stmt) (a b : List InfoStmt) : withInfo (withInfo x a) b = withInfo x (a ++ b) := by
  cases x <;> simp [withInfo, List.append_assoc]

theorem isInst_withInfo (x : Stmt) (a : List InfoStmt) : isInstStmt (withInfo x a) = isInstStmt x := by
  cases x <;> rfl

theorem info_lines_fold_gen (info : List InfoStmt) :
    ∀ (s : PSt) (c : Model) (x : Stmt) (body : List Stmt), s.cur = some c → (s.mode = Mode.info ∨ s.mode = Mode.covers) →
      isInstStmt x = true → c.body = body ++ [x] →
      (info.map infoLine).foldl pstep s =
        { s with cur := some { c with body := body ++ [withInfo x info] }, mode := if info = [] then s.mode else Mode.info } := by
  induction info with
  | nil =>
    intro s c x body hc _ _ hb
    cases s with
    | mk mode comments done cur err =>
      simp only at hc
      subst hc
      cases c with
      | mk name hdr cbody =>
        simp only at hb; subst hb
        cases x <;> simp [withInfo]
  | cons i r ih =>
    intro s c x body hc hm hx hb
    simp only [List.map_cons, List.foldl_cons]
    rw [pstep_info_line s c hc hm x hx body hb i]
    have := ih { s with cur := some { c with body := body ++ [withInfo x [i]] }, mode := Mode.info }
      { c with body := body ++ [withInfo x [i]] } (withInfo x [i]) body rfl (Or.inl rfl)
      (by rw [isInst_withInfo]; exact hx) rfl
    rw [this]
    simp [withInfo_withInfo]

end Spydr.Eblif
