/-
  The composed lines of ANY netlist with a top model in `work` whose children are `.subckt`, `.gate`,
  `.names`, `.latch` instances parse to an explicit AST (`astOfFull`): header with `.clock`, all four
  instance kinds with truth tables and info lines, `.conn` lines, black-box block.
-/
import Spydr.Eblif.FullParse

namespace Spydr.Eblif

def namesNets (n : BNet) (idx : Nat) (i : Inst) : List String :=
  ((i.pins.filter (fun q => n.portDir i.model q.1 = Dir.inp)) ++
   (i.pins.reverse.filter (fun q => n.portDir i.model q.1 = Dir.out))).map (fun q => netText n (Pin.inst idx q.1 q.2))

def coverRows (i : Inst) : List (List String) :=
  match i.covers with
  | some cs => cs.map (fun c => splitOnBlank c.toList)
  | none => []

def latchToks (n : BNet) (idx : Nat) (i : Inst) : List String :=
  latchOrder.flatMap (fun pt =>
    (i.pins.reverse.filter (fun q => q.1 = pt)).map (fun q => netText n (Pin.inst idx q.1 q.2)))

/-- the statement the writer's lines for one child parse to -/
def stmtOfFull (o : Opts) (n : BNet) (p : Inst × Nat) : Stmt :=
  if p.1.typ = "EBLIF.names" then Stmt.names (namesNets n p.2 p.1) ((coverRows p.1).map coverText) (infoStmts o p.1)
  else if p.1.typ = "EBLIF.latch" then Stmt.latch (latchToks n p.2 p.1) (infoStmts o p.1)
  else Stmt.subckt (p.1.typ = "EBLIF.gate") p.1.model (connsOf n p.2 p.1) (infoStmts o p.1)

def kidsFull (n : BNet) (t : String) : List (Inst × Nat) :=
  let kids := n.insts.zipIdx.filter (fun (p : Inst × Nat) => p.1.parent = t)
  kids.filter (fun (p : Inst × Nat) => p.1.typ = "EBLIF.subckt") ++ kids.filter (fun (p : Inst × Nat) => p.1.typ = "EBLIF.gate") ++
  kids.filter (fun (p : Inst × Nat) => p.1.typ = "EBLIF.names") ++ kids.filter (fun (p : Inst × Nat) => p.1.typ = "EBLIF.latch")

def connStmts (n : BNet) (d : DefD) : List Stmt :=
  d.ports.flatMap (fun p =>
    (List.range p.width).flatMap (fun b =>
      match n.wireOf (Pin.top d.name p.name b) with
      | some (c, wi, _) =>
          if c.2 = p.name && wi = b then []
          else [Stmt.conn (netText n (Pin.top d.name p.name b)) (if p.width > 1 then p.name ++ "[" ++ natStr b ++ "]" else p.name)]
      | none => []))

def hdrOfFull (d : DefD) : List Hdr :=
  hdrOf d ++ (match d.clock with | some c => [Hdr.clock c] | none => [])

def astOfFull (o : Opts) (n : BNet) (t : String) : BAst :=
  { comments := (astOf o n t).comments,
    models := [{ name := t, hdr := hdrOfFull (n.findDef t),
                 body := (kidsFull n t).map (stmtOfFull o n) ++ connStmts n (n.findDef t) }] ++ bbPart o n t }

structure FragFull (n : BNet) (t : String) : Prop where
  top : n.top = some t
  work : (n.findDef t).inWork = true
  kinds : ∀ i ∈ n.insts, i.parent = t →
    (i.typ = "EBLIF.subckt" ∨ i.typ = "EBLIF.gate" ∨ i.typ = "EBLIF.names" ∨ i.typ = "EBLIF.latch")
  noeq : ∀ d ∈ n.defs, ∀ p ∈ d.ports, '=' ∉ p.name.toList
  covers : ∀ i ∈ n.insts, ∀ r ∈ coverRows i, CoverRow r

theorem openMode_info : OpenMode Mode.info := Or.inr (Or.inr (Or.inl rfl))
theorem openMode_covers : OpenMode Mode.covers := Or.inr (Or.inr (Or.inr rfl))

theorem kid_block (o : Opts) (n : BNet) (hne : ∀ d ∈ n.defs, ∀ p ∈ d.ports, '=' ∉ p.name.toList)
    (k : Inst × Nat) (hk : k.1.typ = "EBLIF.subckt" ∨ k.1.typ = "EBLIF.gate" ∨ k.1.typ = "EBLIF.names" ∨ k.1.typ = "EBLIF.latch")
    (hcov : ∀ r ∈ coverRows k.1, CoverRow r)
    (s : PSt) (c : Model) (hc : s.cur = some c) (he : s.err = none) (hm : OpenMode s.mode) :
    ∃ m', OpenMode m' ∧ (instLines o n k).foldl pstep s =
      { s with cur := some { c with body := c.body ++ [stmtOfFull o n k] }, mode := m' } := by
  obtain ⟨i, idx⟩ := k
  simp only at hk hcov
  have hinfo : infoLines o i = (infoStmts o i).map infoLine := by
    unfold infoLines infoStmts
    simp only [List.map_append, List.map_map]
    congr 1
    · congr 1
      split <;> rfl
  have hsub : ∀ g : Bool, (i.typ = "EBLIF.subckt" ∧ g = false) ∨ (i.typ = "EBLIF.gate" ∧ g = true) →
      ∃ m', OpenMode m' ∧ ([subcktLine n idx i g] ++ infoLines o i).foldl pstep s =
        { s with cur := some { c with body := c.body ++ [Stmt.subckt g i.model (connsOf n idx i) (infoStmts o i)] }, mode := m' } := by
    intro g _
    have hline : subcktLine n idx i g = [subcktKw g, i.model] ++ (connsOf n idx i).map connWord := by
      unfold subcktLine connsOf subcktKw
      simp only [List.map_flatMap, List.map_map]
      congr 1
    have hcs : ∀ x ∈ connsOf n idx i, '=' ∉ x.1.toList := by
      intro x hx
      unfold connsOf at hx
      obtain ⟨p, hp, hx⟩ := List.mem_flatMap.mp hx
      obtain ⟨q, _, rfl⟩ := List.mem_map.mp hx
      obtain ⟨d, hd, hpd⟩ := findDef_ports_mem hp
      exact formalText_noeq (hne d hd p hpd) q.2
    refine ⟨if infoStmts o i = [] then Mode.info else Mode.info, by split <;> exact openMode_info, ?_⟩
    simp only [List.cons_append, List.nil_append, List.foldl_cons]
    rw [hline, pstep_subckt_line s c hc he hm g i.model _ hcs, hinfo]
    have := info_lines_fold_gen (infoStmts o i)
      { s with cur := some { c with body := c.body ++ [Stmt.subckt g i.model (connsOf n idx i) []] }, mode := Mode.info }
      { c with body := c.body ++ [Stmt.subckt g i.model (connsOf n idx i) []] } (Stmt.subckt g i.model (connsOf n idx i) []) c.body
      rfl (Or.inl rfl) rfl rfl
    rw [this]
    simp [withInfo]
  rcases hk with h | h | h | h
  · have e1 : instLines o n (i, idx) = [subcktLine n idx i false] ++ infoLines o i := by unfold instLines; simp [h]
    have e2 : stmtOfFull o n (i, idx) = Stmt.subckt false i.model (connsOf n idx i) (infoStmts o i) := by
      unfold stmtOfFull; simp [h]
    rw [e1, e2]; exact hsub false (Or.inl ⟨h, rfl⟩)
  · have e1 : instLines o n (i, idx) = [subcktLine n idx i true] ++ infoLines o i := by unfold instLines; simp [h]
    have e2 : stmtOfFull o n (i, idx) = Stmt.subckt true i.model (connsOf n idx i) (infoStmts o i) := by
      unfold stmtOfFull; simp [h]
    rw [e1, e2]; exact hsub true (Or.inr ⟨h, rfl⟩)
  · have e1 : instLines o n (i, idx) = ((".names" :: namesNets n idx i) :: coverRows i) ++ infoLines o i := by
      unfold instLines namesLines namesNets coverRows
      simp only [h, show ¬ ("EBLIF.names" = "EBLIF.subckt") by decide, show ¬ ("EBLIF.names" = "EBLIF.other") by decide,
        show ¬ ("EBLIF.names" = "EBLIF.gate") by decide, decide_false, decide_true, Bool.or_self, Bool.false_eq_true,
        if_false, if_true, List.singleton_append, List.cons_append, List.nil_append]
      rfl
    have e2 : stmtOfFull o n (i, idx) = Stmt.names (namesNets n idx i) ((coverRows i).map coverText) (infoStmts o i) := by
      unfold stmtOfFull; simp [h]
    rw [e1, e2]
    simp only [List.cons_append, List.foldl_cons, List.foldl_append]
    rw [pstep_names_line s c hc hm]
    have h2 := cover_rows_fold (coverRows i) hcov
      { s with cur := some { c with body := c.body ++ [Stmt.names (namesNets n idx i) [] []] }, mode := Mode.covers }
      { c with body := c.body ++ [Stmt.names (namesNets n idx i) [] []] } (namesNets n idx i) [] c.body rfl rfl rfl
    rw [h2, hinfo]
    have h3 := info_lines_fold_gen (infoStmts o i)
      { s with cur := some { c with body := c.body ++ [Stmt.names (namesNets n idx i) ([] ++ (coverRows i).map coverText) []] }, mode := Mode.covers }
      { c with body := c.body ++ [Stmt.names (namesNets n idx i) ([] ++ (coverRows i).map coverText) []] }
      (Stmt.names (namesNets n idx i) ([] ++ (coverRows i).map coverText) []) c.body rfl (Or.inr rfl) rfl rfl
    refine ⟨if infoStmts o i = [] then Mode.covers else Mode.info, by split; exact openMode_covers; exact openMode_info, ?_⟩
    rw [h3]
    simp [withInfo]
  · have e1 : instLines o n (i, idx) = [".latch" :: latchToks n idx i] ++ infoLines o i := by
      unfold instLines latchLine latchToks; simp [h]
    have e2 : stmtOfFull o n (i, idx) = Stmt.latch (latchToks n idx i) (infoStmts o i) := by
      unfold stmtOfFull; simp [h]
    rw [e1, e2]
    simp only [List.cons_append, List.nil_append, List.foldl_cons]
    rw [pstep_latch_line s c hc hm, hinfo]
    have h3 := info_lines_fold_gen (infoStmts o i)
      { s with cur := some { c with body := c.body ++ [Stmt.latch (latchToks n idx i) []] }, mode := Mode.info }
      { c with body := c.body ++ [Stmt.latch (latchToks n idx i) []] } (Stmt.latch (latchToks n idx i) []) c.body
      rfl (Or.inl rfl) rfl rfl
    refine ⟨if infoStmts o i = [] then Mode.info else Mode.info, by split <;> exact openMode_info, ?_⟩
    rw [h3]
    simp [withInfo]

end Spydr.Eblif
