/-
  The full parser-side theorem for the writer's output.
-/
import Spydr.Eblif.FullParse2

namespace Spydr.Eblif

theorem kids_fold (o : Opts) (n : BNet) (hne : ∀ d ∈ n.defs, ∀ p ∈ d.ports, '=' ∉ p.name.toList) :
    ∀ (ks : List (Inst × Nat)),
      (∀ k ∈ ks, (k.1.typ = "EBLIF.subckt" ∨ k.1.typ = "EBLIF.gate" ∨ k.1.typ = "EBLIF.names" ∨ k.1.typ = "EBLIF.latch") ∧
        ∀ r ∈ coverRows k.1, CoverRow r) →
      ∀ (s : PSt) (c : Model), s.cur = some c → s.err = none → OpenMode s.mode →
        ∃ m', OpenMode m' ∧ (ks.flatMap (instLines o n)).foldl pstep s =
          { s with cur := some { c with body := c.body ++ ks.map (stmtOfFull o n) }, mode := m' } := by
  intro ks
  induction ks with
  | nil =>
    intro _ s c hc _ hm
    refine ⟨s.mode, hm, ?_⟩
    cases s with
    | mk mode comments done cur err => simp only at hc; subst hc; simp
  | cons k r ih =>
    intro hk s c hc he hm
    obtain ⟨m1, om1, h1⟩ := kid_block o n hne k (hk k (by simp)).1 (hk k (by simp)).2 s c hc he hm
    obtain ⟨m2, om2, h2⟩ := ih (fun x hx => hk x (by simp [hx]))
      { s with cur := some { c with body := c.body ++ [stmtOfFull o n k] }, mode := m1 }
      { c with body := c.body ++ [stmtOfFull o n k] } rfl he om1
    refine ⟨m2, om2, ?_⟩
    simp only [List.flatMap_cons, List.foldl_append]
    rw [h1, h2]
    simp

theorem conn_lines_fold (n : BNet) (d : DefD) :
    ∀ (s : PSt) (c : Model), s.cur = some c → OpenMode s.mode →
      ∃ m', OpenMode m' ∧ (connLines n d).foldl pstep s =
        { s with cur := some { c with body := c.body ++ connStmts n d }, mode := m' } := by
  have hgen : ∀ (ls : List (String × String)) (s : PSt) (c : Model), s.cur = some c → OpenMode s.mode →
      ∃ m', OpenMode m' ∧ (ls.map (fun ab => [".conn", ab.1, ab.2])).foldl pstep s =
        { s with cur := some { c with body := c.body ++ ls.map (fun ab => Stmt.conn ab.1 ab.2) }, mode := m' } := by
    intro ls
    induction ls with
    | nil =>
      intro s c hc hm
      refine ⟨s.mode, hm, ?_⟩
      cases s with
      | mk mode comments done cur err => simp only at hc; subst hc; simp
    | cons ab r ih =>
      intro s c hc hm
      obtain ⟨m2, om2, h2⟩ := ih { s with cur := some { c with body := c.body ++ [Stmt.conn ab.1 ab.2] }, mode := Mode.body }
        { c with body := c.body ++ [Stmt.conn ab.1 ab.2] } rfl (Or.inr (Or.inl rfl))
      refine ⟨m2, om2, ?_⟩
      simp only [List.map_cons, List.foldl_cons]
      rw [pstep_conn_line s c hc hm, h2]
      simp
  -- both lists are the image of the same list of pairs
  let pairs : List (String × String) := d.ports.flatMap (fun p =>
    (List.range p.width).flatMap (fun b =>
      match n.wireOf (Pin.top d.name p.name b) with
      | some (c, wi, _) =>
          if c.2 = p.name && wi = b then []
          else [(netText n (Pin.top d.name p.name b), if p.width > 1 then p.name ++ "[" ++ natStr b ++ "]" else p.name)]
      | none => []))
  have e1 : connLines n d = pairs.map (fun ab => [".conn", ab.1, ab.2]) := by
    unfold connLines
    simp only [pairs, List.map_flatMap]
    congr 1; funext p
    congr 1; funext b
    cases hwo : n.wireOf (Pin.top d.name p.name b) with
    | none => rfl
    | some r =>
      obtain ⟨c, wi, len⟩ := r
      by_cases hc : (decide (c.2 = p.name) && decide (wi = b)) = true <;> simp [hc]
  have e2 : connStmts n d = pairs.map (fun ab => Stmt.conn ab.1 ab.2) := by
    unfold connStmts
    simp only [pairs, List.map_flatMap]
    congr 1; funext p
    congr 1; funext b
    cases hwo : n.wireOf (Pin.top d.name p.name b) with
    | none => rfl
    | some r =>
      obtain ⟨c, wi, len⟩ := r
      by_cases hc : (decide (c.2 = p.name) && decide (wi = b)) = true <;> simp [hc]
  intro s c hc hm
  rw [e1, e2]
  exact hgen pairs s c hc hm

/-- **Parser side, everything the writer emits.**  For every netlist whose top model is in `work`
    and whose children are `.subckt`/`.gate`/`.names`/`.latch` instances (port names without `=`,
    truth-table rows starting with a cover word): the composed lines -- comments, header with
    `.clock`, all instance blocks with truth tables and `.cname/.attr/.param` lines, `.conn` lines,
    black-box block -- parse to the explicit AST `astOfFull`. -/
theorem parse_composeLines_full (o : Opts) (n : BNet) (t : String) (hf : FragFull n t) :
    parseLines (composeLines o n) = Except.ok (astOfFull o n t) := by
  have hk : ∀ k ∈ kidsFull n t, (k.1.typ = "EBLIF.subckt" ∨ k.1.typ = "EBLIF.gate" ∨ k.1.typ = "EBLIF.names" ∨ k.1.typ = "EBLIF.latch") ∧
      ∀ r ∈ coverRows k.1, CoverRow r := by
    intro k hk
    have hm : k ∈ n.insts.zipIdx ∧ k.1.parent = t := by
      unfold kidsFull at hk
      simp only [List.mem_append, List.mem_filter, decide_eq_true_eq] at hk
      rcases hk with ((h | h) | h) | h <;> exact h.1
    exact ⟨hf.kinds k.1 (mem_zipIdx_fst hm.1) hm.2, hf.covers k.1 (mem_zipIdx_fst hm.1)⟩
  have hother : (n.insts.zipIdx.filter (fun (p : Inst × Nat) => p.1.parent = t)).filter (fun (p : Inst × Nat) => p.1.typ = "EBLIF.other") = [] := by
    rw [List.filter_eq_nil_iff]
    intro p hp hty
    simp only [List.mem_filter, decide_eq_true_eq] at hp hty
    rcases hf.kinds p.1 (mem_zipIdx_fst hp.1) hp.2 with h | h | h | h <;> (rw [hty] at h; exact absurd h (by decide))
  have hbl : blackboxLines n t = (bbDefs n t).flatMap (fun d =>
          [[".model", d.name],
           [".inputs"] ++ (d.ports.filter (fun p => p.dir = Dir.inp)).map (·.name),
           [".outputs"] ++ (d.ports.filter (fun p => p.dir = Dir.out)).map (·.name),
           [".blackbox"], [".end"], []]) := rfl
  have hlines : composeLines o n =
      n.comments.map (fun c => ["#"] ++ splitOnBlank c.toList) ++
      ([["#", "Generated", "by", "'BYU", "spydrnet", "tool'"], [], [".model", t],
        [".inputs"] ++ ((n.findDef t).ports.filter (fun p => p.dir = Dir.inp || p.dir = Dir.inout)).flatMap portBits,
        [".outputs"] ++ ((n.findDef t).ports.filter (fun p => p.dir = Dir.out || p.dir = Dir.inout)).flatMap portBits] ++
       ((match (n.findDef t).clock with | some c => [[".clock"] ++ c] | none => []) ++
        ((kidsFull n t).flatMap (instLines o n) ++ (connLines n (n.findDef t) ++ ([[".end"], []] ++
        (if o.writeBlackbox then blackboxLines n t else [])))))) := by
    unfold composeLines modelLines
    simp only [hf.top, hf.work, if_true]
    rw [hother]
    simp [kidsFull, List.append_assoc]
    rfl
  unfold parseLines
  rw [hlines, List.foldl_append, comments_fold _ _ rfl, List.foldl_append]
  simp only [List.foldl_cons, List.foldl_nil]
  have h0 : ∀ s : PSt, s.mode = Mode.outside → s.err = none →
      pstep (pstep (pstep (pstep (pstep s ["#", "Generated", "by", "'BYU", "spydrnet", "tool'"]) []) [".model", t])
        ([".inputs"] ++ ((n.findDef t).ports.filter (fun p => p.dir = Dir.inp || p.dir = Dir.inout)).flatMap portBits))
        ([".outputs"] ++ ((n.findDef t).ports.filter (fun p => p.dir = Dir.out || p.dir = Dir.inout)).flatMap portBits) =
      { s with comments := s.comments ++ ["Generated by 'BYU spydrnet tool' "], mode := Mode.header,
               cur := some { name := t, hdr := hdrOf (n.findDef t), body := [] } } := by
    intro s hm he
    cases s with
    | mk mode comments done cur err =>
      simp only at hm he
      subst hm; subst he
      simp [pstep, stepOutside, stepHeader, commentText, PSt.pushHdr, hdrOf]
  rw [h0 _ rfl rfl, List.foldl_append]
  -- clock
  have hclk : ∀ s : PSt, s.mode = Mode.header → ∀ c0, s.cur = some c0 →
      (match (n.findDef t).clock with | some c => [[".clock"] ++ c] | none => []).foldl pstep s =
        { s with cur := some { c0 with hdr := c0.hdr ++ (match (n.findDef t).clock with | some c => [Hdr.clock c] | none => []) } } := by
    intro s hm c0 hc
    cases s with
    | mk mode comments done cur err =>
      simp only at hm hc
      subst hm; subst hc
      cases (n.findDef t).clock <;> simp [pstep, stepHeader, PSt.pushHdr]
  rw [hclk _ rfl _ rfl, List.foldl_append]
  obtain ⟨m1, om1, h1⟩ := kids_fold o n hf.noeq (kidsFull n t) hk
    { mode := Mode.header, comments := n.comments.map (fun c => commentText (splitOnBlank c.toList)) ++ ["Generated by 'BYU spydrnet tool' "],
      done := [], cur := some { name := t, hdr := hdrOf (n.findDef t) ++ (match (n.findDef t).clock with | some c => [Hdr.clock c] | none => []), body := [] },
      err := none }
    { name := t, hdr := hdrOf (n.findDef t) ++ (match (n.findDef t).clock with | some c => [Hdr.clock c] | none => []), body := [] }
    rfl rfl (Or.inl rfl)
  simp only [List.nil_append] at h1 ⊢
  rw [h1, List.foldl_append]
  obtain ⟨m2, om2, h2⟩ := conn_lines_fold n (n.findDef t)
    { mode := m1, comments := n.comments.map (fun c => commentText (splitOnBlank c.toList)) ++ ["Generated by 'BYU spydrnet tool' "],
      done := [], cur := some { name := t, hdr := hdrOf (n.findDef t) ++ (match (n.findDef t).clock with | some c => [Hdr.clock c] | none => []),
                                body := (kidsFull n t).map (stmtOfFull o n) },
      err := none } _ rfl om1
  rw [h2, List.foldl_append]
  simp only [List.foldl_cons, List.foldl_nil]
  rw [pstep_end_line _ _ rfl om2]
  have hblank : ∀ s : PSt, s.mode = Mode.outside → pstep s [] = s := by
    intro s hm
    cases s with
    | mk mode comments done cur err => simp only at hm; subst hm; rfl
  rw [hblank _ rfl]
  by_cases hwb : o.writeBlackbox = true
  · simp only [hwb, if_true]
    rw [hbl, bb_lines_fold _ _ rfl rfl rfl]
    simp [PSt.finish, astOfFull, astOf, bbPart, hwb, hdrOfFull]
    rfl
  · simp [hwb, PSt.finish, astOfFull, astOf, bbPart, hdrOfFull]
    rfl

end Spydr.Eblif
