/-
  Round trip, all instance kinds: the standard shape of the generated `logic-gate_k` definitions
  is kept by every instance statement.
-/
import Spydr.Eblif.FullOk2

namespace Spydr.Eblif

theorem not_defEx_iff (st : St) (x : String) : findDef st x = none ↔ x ∉ defNames st := by
  rw [← defEx_iff]
  unfold DefEx
  cases findDef st x <;> simp

theorem absent_ensureDef {st : St} {x m : String} (hx : findDef st x = none) (hne : x ≠ m) :
    findDef (ensureDef st m) x = none := by
  rw [not_defEx_iff] at hx ⊢
  rcases dv_ensureDef st m with ⟨_, e⟩ | ⟨_, e⟩
  · simpa [defNames, e] using hx
  · simp only [defNames, e, List.map_append, List.mem_append, List.map_cons, List.map_nil, List.mem_singleton, not_or]
    exact ⟨by simpa [defNames] using hx, hne⟩

theorem absent_of_dv {a b : St} (h : defsView b = defsView a) {x : String} (hx : findDef a x = none) : findDef b x = none := by
  rw [not_defEx_iff] at hx ⊢
  simpa [defNames, h] using hx

/-- an instance statement creates at most the definition it instantiates -/
theorem absent_elabStmt_inst {st st' : St} {cur : String} {s : Stmt} (hs : isInst s = true) {x : String}
    (hx : findDef st x = none) (hne : x ≠ stmtModel s) (h : elabStmt st cur s = Except.ok st') :
    findDef st' x = none := by
  cases s with
  | subckt gate model conns info =>
    simp only [stmtModel] at hne
    unfold elabStmt at h
    simp only [] at h
    obtain ⟨s1, h1, h⟩ := bind_ok h
    obtain ⟨s2, h2, h⟩ := bind_ok h
    have a0 : findDef (checkHierarchy st cur model) x = none := absent_of_dv (dv_checkHierarchy _ _ _) hx
    have a1 := absent_ensureDef a0 hne
    have a2 := absent_of_dv (dv_declFormals conns h1) a1
    have a3 : findDef (assignDefault (newInst s1 cur model (if gate then "EBLIF.gate" else "EBLIF.subckt")).1
        (newInst s1 cur model (if gate then "EBLIF.gate" else "EBLIF.subckt")).2 cur model) x = none := absent_of_dv rfl a2
    exact absent_of_dv (dv_applyInfo info h) (absent_of_dv (dv_connectAll _ h2) a3)
  | names nets covers info =>
    simp only [stmtModel] at hne
    unfold elabStmt at h
    simp only [] at h
    split at h
    · cases h
    · obtain ⟨s1, h1, h⟩ := bind_ok h
      obtain ⟨s2, h2, h⟩ := bind_ok h
      have a1 := absent_ensureDef hx hne
      have a2 := absent_of_dv (dv_addNamesPorts _ ("logic-gate_" ++ natStr (nets.length - 1)) (nets.length - 1)) a1
      have a3 : findDef s1 x = none := by
        split at h1
        · cases h1; exact absent_of_dv rfl a2
        · exact absent_of_dv (dv_rename h1) (absent_of_dv rfl a2)
      exact absent_of_dv (dv_applyInfo info h) (absent_of_dv (dv_connectAll _ h2) a3)
  | latch toks info =>
    simp only [stmtModel] at hne
    unfold elabStmt at h
    simp only [] at h
    split at h
    · cases h
    · obtain ⟨s1, h1, h⟩ := bind_ok h
      obtain ⟨s2, h2, h⟩ := bind_ok h
      have a1 := absent_ensureDef hx hne
      have a2 := absent_of_dv (dv_addLatchPorts (List.map (·.1) (latchOrder.zip toks)) _) a1
      have a3 : findDef s1 x = none := absent_of_dv (dv_rename h1) (absent_of_dv rfl a2)
      exact absent_of_dv (dv_applyInfo info h) (absent_of_dv (dv_connectAll _ h2) a3)
  | conn a b => cases hs
  | blackbox => cases hs

/-- an instance statement of another definition keeps `Std k` -/
theorem std_other {st st' : St} {cur : String} {s : Stmt} (hs : isInst s = true) {k : Nat}
    (hne : "logic-gate_" ++ natStr k ≠ stmtModel s) (hk : Std st k) (h : elabStmt st cur s = Except.ok st') :
    Std st' k := by
  rcases hk with hk | ⟨hd, hp⟩
  · exact Or.inl (absent_elabStmt_inst hs hk hne h)
  · have f := fr_elabStmt_inst hs hd hne h
    exact Or.inr ⟨f.2, by rw [f.1]; exact hp⟩

/-! ### the `.names` statement keeps its own definition standard -/

theorem portWidth_of_defs {a b : St} (h : b.defs = a.defs) (dn pn : String) : portWidth b dn pn = portWidth a dn pn := by
  unfold portWidth; rw [findDef_of_defs h]

theorem connectAll_defs_fixed {idx : Nat} {parent model : String} (l : List (String × String)) :
    ∀ {st st' : St}, (∀ fa ∈ l, ∀ pn pi, splitIdx fa.1 = Except.ok (pn, pi) → pi + 1 ≤ portWidth st model pn) →
      connectAll st idx parent model l = Except.ok st' → st'.defs = st.defs := by
  induction l with
  | nil => intro st st' _ h; cases h; rfl
  | cons fa r ih =>
    intro st st' hw h
    unfold connectAll at h
    obtain ⟨s1, h1, h2⟩ := bind_ok h
    have e1 : s1.defs = st.defs := by
      unfold connectOne at h1
      obtain ⟨⟨cn, ci⟩, _, h1⟩ := bind_ok h1
      obtain ⟨⟨pn, pi⟩, hsp, h1⟩ := bind_ok h1
      simp only [] at h1
      split at h1
      · cases h1; rfl
      · split at h1
        · cases h1
        · cases h1
          have hle := hw fa (by simp) pn pi hsp
          have : growPort st model pn (pi + 1) = st := by
            unfold growPort; simp [hle]
          rw [this]; exact defs_connect _ _ _ _ _
    rw [ih (fun fb hfb pn pi hsp => by rw [portWidth_of_defs e1]; exact hw fb (by simp [hfb]) pn pi hsp) h2, e1]

theorem portWidth_std {s : St} {dn : String} {k : Nat} (hp : portsOf s dn = stdNamesPorts k) {p : PortD}
    (hm : p ∈ stdNamesPorts k) : portWidth s dn p.name = 1 := by
  rw [portWidth_eq, hp]
  have hs := findIn_isSome_of_mem hm
  cases hf : findIn (stdNamesPorts k) p.name with
  | none => rw [hf] at hs; cases hs
  | some q =>
    have hq : q ∈ stdNamesPorts k := List.mem_of_find?_eq_some hf
    unfold stdNamesPorts at hq
    rcases List.mem_append.mp hq with h | h
    · obtain ⟨j, _, rfl⟩ := List.mem_map.mp h; rfl
    · simp only [List.mem_singleton] at h; subst h; rfl

theorem std_names_self {st st' : St} {cur : String} {nets covers : List String} {info : List InfoStmt}
    (hk : Std st (nets.length - 1)) (h : elabStmt st cur (Stmt.names nets covers info) = Except.ok st') :
    DefEx st' ("logic-gate_" ++ natStr (nets.length - 1)) ∧
    portsOf st' ("logic-gate_" ++ natStr (nets.length - 1)) = stdNamesPorts (nets.length - 1) := by
  obtain ⟨hp0, hd0⟩ := std_after st (nets.length - 1) hk
  have hinfo := names_info_std st nets hk
  unfold elabStmt at h
  simp only [] at h
  split at h
  · cases h
  · obtain ⟨s1, h1, h⟩ := bind_ok h
    obtain ⟨s2, h2, h⟩ := bind_ok h
    have a3 : Fr ("logic-gate_" ++ natStr (nets.length - 1))
        (addNamesPorts (ensureDef st ("logic-gate_" ++ natStr (nets.length - 1))) ("logic-gate_" ++ natStr (nets.length - 1)) (nets.length - 1)) s1 := by
      split at h1
      · cases h1; exact fr_of_defs hd0 rfl
      · refine Fr.trans ?_ (fr_rename ?_ h1)
        · exact fr_of_defs hd0 rfl
        · exact (fr_of_defs hd0 rfl).2
    have hp1 : portsOf s1 ("logic-gate_" ++ natStr (nets.length - 1)) = stdNamesPorts (nets.length - 1) := by
      rw [a3.1]; exact hp0
    have h2' : connectAll s1 (newInst (addNamesPorts (ensureDef st ("logic-gate_" ++ natStr (nets.length - 1))) ("logic-gate_" ++ natStr (nets.length - 1)) (nets.length - 1)) cur ("logic-gate_" ++ natStr (nets.length - 1)) "EBLIF.names").2
        cur ("logic-gate_" ++ natStr (nets.length - 1)) (namesInfo st nets) = Except.ok s2 := h2
    rw [hinfo] at h2'
    have hdefs := connectAll_defs_fixed _ (by
      intro fa hfa pn pi hsp
      obtain ⟨pq, hpq, rfl⟩ := List.mem_map.mp hfa
      have hm : pq.1 ∈ stdNamesPorts (nets.length - 1) := by
        obtain ⟨p, nt⟩ := pq; exact mem_zip_fst hpq
      have := std_split _ pq.1 hm
      simp only at hsp
      rw [this] at hsp
      cases hsp
      rw [portWidth_std hp1 hm]; omega) h2'
    have a4 : Fr ("logic-gate_" ++ natStr (nets.length - 1)) s1 s2 := fr_of_defs a3.2 hdefs
    have a5 := Fr.trans a4 (fr_applyInfo info a4.2 h)
    exact ⟨a5.2, by rw [a5.1, hp1]⟩

end Spydr.Eblif
