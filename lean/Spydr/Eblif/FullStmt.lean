/-
  Round trip, all instance kinds: statement-level facts for `.names` and `.latch` (alias table,
  attached data, frame of other definitions' ports).
-/
import Spydr.Eblif.Props.C18Mirror

namespace Spydr.Eblif

def stmtInfo : Stmt → List InfoStmt
  | Stmt.subckt _ _ _ info => info
  | Stmt.names _ _ info => info
  | Stmt.latch _ info => info
  | _ => []

def isInst : Stmt → Bool
  | Stmt.subckt _ _ _ _ => true
  | Stmt.names _ _ _ => true
  | Stmt.latch _ _ => true
  | _ => false

/-- the definition an instance statement instantiates -/
def stmtModel : Stmt → String
  | Stmt.subckt _ m _ _ => m
  | Stmt.names nets _ _ => "logic-gate_" ++ natStr (nets.length - 1)
  | Stmt.latch _ _ => "generic-latch"
  | _ => ""

/-! ### the alias table is untouched by instance statements -/

theorem alias_of_nf {a b : St} (h : netFields b = netFields a) : b.alias = a.alias := by
  simp only [netFields, Prod.mk.injEq] at h
  exact h.2.1

theorem alias_connectOne {st st' : St} {idx : Nat} {parent model : String} {fa : String × String}
    (h : connectOne st idx parent model fa = Except.ok st') : st'.alias = st.alias := by
  obtain ⟨cn, ci, pn, pi, _, _, hc⟩ := connectOne_cases h
  rcases hc with ⟨_, hf⟩ | ⟨_, hs⟩
  · exact alias_of_nf hf
  · subst hs
    rw [alias_connect]
    exact alias_of_nf (by simp)

theorem alias_connectAll {idx : Nat} {parent model : String} (l : List (String × String)) :
    ∀ {st st' : St}, connectAll st idx parent model l = Except.ok st' → st'.alias = st.alias := by
  induction l with
  | nil => intro st st' h; cases h; rfl
  | cons fa r ih =>
    intro st st' h
    unfold connectAll at h
    obtain ⟨s1, h1, h2⟩ := bind_ok h
    rw [ih h2, alias_connectOne h1]

theorem alias_elabStmt_inst {st st' : St} {cur : String} {s : Stmt} (hs : isInst s = true)
    (h : elabStmt st cur s = Except.ok st') : st'.alias = st.alias := by
  cases s with
  | subckt gate model conns info =>
    unfold elabStmt at h
    simp only [] at h
    obtain ⟨s1, h1, h⟩ := bind_ok h
    obtain ⟨s2, h2, h⟩ := bind_ok h
    rw [alias_of_nf (nf_applyInfo info h), alias_connectAll _ h2]
    have : netFields s1 = netFields st := by rw [nf_declFormals conns h1]; simp
    rw [← alias_of_nf this]
    rfl
  | names nets covers info =>
    unfold elabStmt at h
    simp only [] at h
    split at h
    · cases h
    · obtain ⟨s1, h1, h⟩ := bind_ok h
      obtain ⟨s2, h2, h⟩ := bind_ok h
      rw [alias_of_nf (nf_applyInfo info h), alias_connectAll _ h2]
      split at h1
      · cases h1
        exact alias_of_nf ((nf_assignDefault _ _ _ _).trans ((nf_updInst _ _ _).trans
            ((nf_newInst _ _ _ _).trans ((nf_addNamesPorts _ _ _).trans (nf_ensureDef _ _)))))
      · exact alias_of_nf ((nf_rename h1).trans ((nf_updInst _ _ _).trans
            ((nf_newInst _ _ _ _).trans ((nf_addNamesPorts _ _ _).trans (nf_ensureDef _ _)))))
  | latch toks info =>
    unfold elabStmt at h
    simp only [] at h
    split at h
    · cases h
    · obtain ⟨s1, h1, h⟩ := bind_ok h
      obtain ⟨s2, h2, h⟩ := bind_ok h
      rw [alias_of_nf (nf_applyInfo info h), alias_connectAll _ h2]
      exact alias_of_nf ((nf_rename h1).trans
        ((nf_newInst _ _ _ _).trans ((nf_addLatchPorts _ _).trans (nf_ensureDef _ _))))
  | conn a b => cases hs
  | blackbox => cases hs

/-! ### data attached to the new instance -/

theorem data_updInst_same (st : St) (idx j : Nat) (f : Inst → Inst) (hf : ∀ i, infoOf (f i) = infoOf i) :
    dataAt (updInst st idx f) j = dataAt st j := info_updInst _ _ _ _ hf

/-- `.cname/.attr/.param` lines of any instance statement are attached to the instance it creates -/
theorem elabStmt_inst_data {st st' : St} {cur : String} {s : Stmt} (hs : isInst s = true)
    (h : elabStmt st cur s = Except.ok st') :
    dataAt st' st.insts.length = some (infoFold (stmtInfo s) (none, [], [])) := by
  cases s with
  | subckt gate model conns info => exact elabStmt_subckt_data h
  | names nets covers info =>
    unfold elabStmt at h
    simp only [] at h
    split at h
    · cases h
    · obtain ⟨s1, h1, h⟩ := bind_ok h
      obtain ⟨s2, h2, h⟩ := bind_ok h
      rw [newInst_snd] at h1 h2 h
      have hlen : (addNamesPorts (ensureDef st ("logic-gate_" ++ natStr (nets.length - 1)))
          ("logic-gate_" ++ natStr (nets.length - 1)) (nets.length - 1)).insts.length = st.insts.length :=
        len_of_ik ((ik_addNamesPorts _ _ _).trans (ik_ensureDef _ _))
      have e1 : dataAt s1 st.insts.length = some (none, [], []) := by
        rw [← hlen]
        split at h1
        · cases h1
          rw [data_assignDefault, data_updInst_same _ _ _ (fun i => { i with covers := some covers }) (fun _ => rfl), data_newInst]
        · rw [data_rename h1, data_updInst_same _ _ _ (fun i => { i with covers := some covers }) (fun _ => rfl), data_newInst]
      rw [hlen] at h2 h
      rw [data_applyInfo info h, data_connectAll _ h2, e1]
      rfl
  | latch toks info =>
    unfold elabStmt at h
    simp only [] at h
    split at h
    · cases h
    · obtain ⟨s1, h1, h⟩ := bind_ok h
      obtain ⟨s2, h2, h⟩ := bind_ok h
      rw [newInst_snd] at h1 h2 h
      have hlen : (addLatchPorts (ensureDef st "generic-latch") (List.map (·.1) (latchOrder.zip toks))).insts.length
          = st.insts.length := len_of_ik ((ik_addLatchPorts _ _).trans (ik_ensureDef _ _))
      have e1 : dataAt s1 st.insts.length = some (none, [], []) := by
        rw [← hlen, data_rename h1, data_newInst]
      rw [hlen] at h2 h
      rw [data_applyInfo info h, data_connectAll _ h2, e1]
      rfl
  | conn a b => cases hs
  | blackbox => cases hs

/-! ### an instance statement leaves the ports of every other definition alone -/

theorem fr_addLatchPorts {t : String} (hne : t ≠ "generic-latch") (l : List String) :
    ∀ {st : St}, DefEx st t → Fr t st (addLatchPorts st l) := by
  induction l with
  | nil => intro st hd; exact ⟨rfl, hd⟩
  | cons o r ih =>
    intro st hd
    unfold addLatchPorts
    have a1 := fr_addPort hd "generic-latch" o (if o = "output" then Dir.out else Dir.inp) 1 hne
    exact Fr.trans a1 (ih a1.2)

theorem fr_addNamesPorts {t dn : String} (hne : t ≠ dn) (k : Nat) {st : St} (hd : DefEx st t) :
    Fr t st (addNamesPorts st dn k) := by
  unfold addNamesPorts
  simp only []
  have hfold : ∀ (l : List Nat) (s : St), DefEx s t →
      Fr t s (l.foldl (fun st i => addPort st dn ("in_" ++ natStr i) Dir.inp 1) s) := by
    intro l
    induction l with
    | nil => intro s hs; exact ⟨rfl, hs⟩
    | cons i r ih =>
      intro s hs
      rw [List.foldl_cons]
      have a1 := fr_addPort hs dn ("in_" ++ natStr i) Dir.inp 1 hne
      exact Fr.trans a1 (ih _ a1.2)
  have a1 := hfold (List.range k) st hd
  exact Fr.trans a1 (fr_addPort a1.2 dn "out" Dir.out 1 hne)

theorem fr_rename {t : String} {st st' : St} {i : Nat} {p n : String} (hd : DefEx st t)
    (h : rename st i p n = Except.ok st') : Fr t st st' := by
  unfold rename at h
  split at h <;> (cases h; exact fr_of_defs hd rfl)

theorem fr_elabStmt_inst {t cur : String} {st st' : St} {s : Stmt} (hs : isInst s = true) (hd : DefEx st t)
    (hne : t ≠ stmtModel s) (h : elabStmt st cur s = Except.ok st') : Fr t st st' := by
  cases s with
  | subckt gate model conns info => exact fr_elabStmt_subckt hd hne h
  | names nets covers info =>
    simp only [stmtModel] at hne
    unfold elabStmt at h
    simp only [] at h
    split at h
    · cases h
    · obtain ⟨s1, h1, h⟩ := bind_ok h
      obtain ⟨s2, h2, h⟩ := bind_ok h
      have a1 := fr_ensureDef hd ("logic-gate_" ++ natStr (nets.length - 1))
      have a2 := Fr.trans a1 (fr_addNamesPorts hne (nets.length - 1) a1.2)
      have a3 : Fr t st s1 := by
        split at h1
        · cases h1
          exact Fr.trans a2 (fr_of_defs a2.2 rfl)
        · refine Fr.trans a2 (Fr.trans ?_ (fr_rename ?_ h1))
          · exact fr_of_defs a2.2 rfl
          · exact (fr_of_defs a2.2 rfl).2
      have a4 := Fr.trans a3 (fr_connectAll hne _ a3.2 h2)
      exact Fr.trans a4 (fr_applyInfo info a4.2 h)
  | latch toks info =>
    simp only [stmtModel] at hne
    unfold elabStmt at h
    simp only [] at h
    split at h
    · cases h
    · obtain ⟨s1, h1, h⟩ := bind_ok h
      obtain ⟨s2, h2, h⟩ := bind_ok h
      have a1 := fr_ensureDef hd "generic-latch"
      have a2 := Fr.trans a1 (fr_addLatchPorts hne (List.map (·.1) (latchOrder.zip toks)) a1.2)
      have a3 : Fr t st s1 := by
        refine Fr.trans a2 (Fr.trans ?_ (fr_rename ?_ h1))
        · exact fr_of_defs a2.2 rfl
        · exact (fr_of_defs a2.2 rfl).2
      have a4 := Fr.trans a3 (fr_connectAll hne _ a3.2 h2)
      exact Fr.trans a4 (fr_applyInfo info a4.2 h)
  | conn a b => cases hs
  | blackbox => cases hs

end Spydr.Eblif
