/-
  Round trip, whole writer output: the top model (header, all child blocks, `.conn` lines) through
  the elaborator.
-/
import Spydr.Eblif.FullBody3

namespace Spydr.Eblif

/-! ### the header cannot fail and creates no definition -/

theorem dv_elabInput {st st' : St} {cur tok : String} (h : elabInput st cur tok = Except.ok st') :
    defsView st' = defsView st := by
  unfold elabInput at h
  obtain ⟨⟨pn, pi⟩, _, h⟩ := bind_ok h
  simp only [] at h
  cases h
  rw [dv_connect, dv_growPort]; split <;> simp

theorem dv_elabOutput {st st' : St} {cur tok : String} (h : elabOutput st cur tok = Except.ok st') :
    defsView st' = defsView st := by
  unfold elabOutput at h
  obtain ⟨⟨pn, pi⟩, _, h⟩ := bind_ok h
  simp only [] at h
  split at h
  · cases h; simp
  · cases h; simp

theorem dv_elabToks (f : St → String → String → Except Err St)
    (hf : ∀ {st st' : St} {cur tok : String}, f st cur tok = Except.ok st' → defsView st' = defsView st)
    {cur : String} (l : List String) :
    ∀ {st st' : St}, elabToks f st cur l = Except.ok st' → defsView st' = defsView st := by
  induction l with
  | nil => intro st st' h; cases h; rfl
  | cons w r ih =>
    intro st st' h
    unfold elabToks at h
    obtain ⟨s1, h1, h2⟩ := bind_ok h
    rw [ih h2, hf h1]

theorem dv_elabHdrs {cur : String} (l : List Hdr) :
    ∀ {st st' : St}, elabHdrs st cur l = Except.ok st' → defsView st' = defsView st := by
  induction l with
  | nil => intro st st' h; cases h; rfl
  | cons x r ih =>
    intro st st' h
    unfold elabHdrs at h
    obtain ⟨s1, h1, h2⟩ := bind_ok h
    rw [ih h2]
    cases x with
    | inputs l => exact dv_elabToks elabInput (fun h => dv_elabInput h) l h1
    | outputs l => exact dv_elabToks elabOutput (fun h => dv_elabOutput h) l h1
    | clock l =>
      unfold elabHdr at h1
      cases h1
      exact dv_updDef _ _ _ (fun _ => ⟨rfl, rfl⟩)

theorem hdr_ok (t : String) (d : DefD) (hP : ∀ p ∈ d.ports, plainName p.name ∧ p.name.toList ≠ []) (st : St) :
    ∃ sh, elabHdrs st t (hdrOfFull d) = Except.ok sh := by
  have hws : ∀ (P : List PortD), (∀ p ∈ P, p ∈ d.ports) → ∀ w ∈ P.flatMap portBits, ∃ pn pi, splitIdx w = Except.ok (pn, pi) := by
    intro P hPs w hw
    obtain ⟨p, hp, hwp⟩ := List.mem_flatMap.mp hw
    obtain ⟨h1, h2⟩ := hP p (hPs p hp)
    obtain ⟨pi, hs⟩ := splitIdx_portBits p h1 h2 w hwp
    exact ⟨p.name, pi, hs⟩
  obtain ⟨s1, h1⟩ := elabToks_ok elabInput elabInput_ok t _
    (hws (insPorts d) (fun p hp => (List.mem_filter.mp hp).1)) st
  obtain ⟨s2, h2⟩ := elabToks_ok elabOutput elabOutput_ok t _
    (hws (outsPorts d) (fun p hp => (List.mem_filter.mp hp).1)) s1
  have hsplit : hdrOfFull d = Hdr.inputs ((insPorts d).flatMap portBits) :: Hdr.outputs ((outsPorts d).flatMap portBits) ::
      (match d.clock with | some c => [Hdr.clock c] | none => []) := rfl
  rw [hsplit]
  have hrest : ∃ sh, elabHdrs s2 t (match d.clock with | some c => [Hdr.clock c] | none => []) = Except.ok sh := by
    cases d.clock with
    | none => exact ⟨s2, rfl⟩
    | some c => exact ⟨_, rfl⟩
  obtain ⟨sh, h3⟩ := hrest
  refine ⟨sh, ?_⟩
  unfold elabHdrs
  simp only [elabHdr, h1, bind, Except.bind]
  unfold elabHdrs
  simp only [elabHdr, h2, bind, Except.bind]
  exact h3

/-! ### `.conn` statements -/

theorem bodyJoins_conns (cur : String) (l : List (String × String)) :
    ∀ st : St, bodyJoins st cur (l.map (fun ab => Stmt.conn ab.1 ab.2)) = [] := by
  induction l with
  | nil => intro st; rfl
  | cons ab r ih =>
    intro st
    simp only [List.map_cons, bodyJoins, stmtJoins, List.nil_append]
    cases elabStmt st cur (Stmt.conn ab.1 ab.2) with
    | error e => rfl
    | ok s1 => exact ih s1

theorem carrier_not_src (n : BNet) (t : String) (hc : ConnOK n t) (x : Pin) (k : Key) (ho : OnNet n x k) :
    k ∉ (connKeys n t (n.findDef t)).map (·.2) := by
  intro hm
  obtain ⟨pp, hpp, he⟩ := List.mem_map.mp hm
  obtain ⟨ws, w, hmem, hws, hx⟩ := ho
  have := hc pp hpp ((k.1, k.2.1), ws) hmem (by rw [he]) w (by rw [he]; exact hws)
  rw [this] at hx
  cases hx

/-- **the top model of the written text** -/
theorem top_full (o : Opts) (n : BNet) (t : String) (hw : WellNamed n) (ht : okWord t = true) (hf : FragFull n t)
    (hn : NetOKF n t) (hnm : NamesOK o n) :
    ∃ s0, elabModel {} { name := t, hdr := hdrOfFull (n.findDef t),
                         body := (kidsFull n t).map (stmtOfFull o n) ++ connStmts n (n.findDef t) } = Except.ok s0 ∧
      instKinds s0 = n.insts.map kindOf ∧
      Exact s0 (JF n t) ∧ s0.alias = aliasOf (connKeys n t (n.findDef t)) ∧ LInv s0 ∧
      (∀ kk ∈ n.insts.zipIdx, dataAt s0 kk.2 = some (infoFold (infoStmts o kk.1) (none, [], []))) ∧
      portsOf s0 t = insPorts (n.findDef t) ++ pureOuts (n.findDef t) ∧ DefEx s0 t := by
  have hn' := hn
  obtain ⟨hsorted, hp, hnd, hcb, hcn, hk⟩ := hn'
  obtain ⟨_, hpn, _⟩ := findDef_ok hw ht
  have hcab : ∀ c ∈ n.cables, plainName c.1.2 ∧ c.1.2.toList ≠ [] := by
    intro c hc
    obtain ⟨_, h2, _, _⟩ := hcb c hc
    exact ⟨h2, okWord_nonempty (hw.2.2.2.1 c hc)⟩
  have hP : ∀ p ∈ (n.findDef t).ports, (p.dir = Dir.inp ∨ p.dir = Dir.out ∨ p.dir = Dir.inout) ∧ plainName p.name ∧
      p.name.toList ≠ [] ∧ 1 ≤ p.width := by
    intro p hpm
    obtain ⟨h1, h2, h3, _⟩ := hp p hpm
    exact ⟨h1, h2, okWord_nonempty (hpn p hpm), h3⟩
  -- header
  obtain ⟨sh, hh⟩ := hdr_ok t (n.findDef t) (fun p hpm => ⟨(hP p hpm).2.1, (hP p hpm).2.2.1⟩) (beginModel {} t)
  obtain ⟨ph, dh, rh, eh, kh⟩ := hdr_full t (n.findDef t) hP hnd sh hh
  have hlen0 : sh.insts.length = 0 := by
    have := congrArg List.length kh; simpa [instKinds] using this
  have hnames0 : namesOf sh = [] := by
    simp only [namesOf]
    have : sh.insts = [] := List.eq_nil_of_length_eq_zero hlen0
    rw [this]; rfl
  have hkids : ∀ i ∈ n.insts, i.parent = t ∧
      (i.typ = "EBLIF.subckt" ∨ i.typ = "EBLIF.gate" ∨ i.typ = "EBLIF.names" ∨ i.typ = "EBLIF.latch") := by
    intro i hi
    obtain ⟨idx, hidx⟩ := List.getElem?_of_mem hi
    have hm : (i, idx) ∈ kidsFull n t := by rw [hsorted]; exact List.mem_zipIdx_iff_getElem?.mpr hidx
    have hpar : i.parent = t := by
      unfold kidsFull at hm
      simp only [List.mem_append, List.mem_filter, decide_eq_true_eq] at hm
      rcases hm with ((h | h) | h) | h <;> exact h.1.2
    exact ⟨hpar, hf.kinds i hi hpar⟩
  have hstd0 : StdKids n sh := by
    intro j hj hjn
    left
    have hjm := names_model n t hk j hj hjn
    obtain ⟨idx, hidx⟩ := List.getElem?_of_mem hj
    have hne := (hk (j, idx) (List.mem_zipIdx_iff_getElem?.mpr hidx)).2.2.2.1
    rw [← hjm]
    rw [not_defEx_iff]
    have hdv : defsView sh = defsView (beginModel {} t) := dv_elabHdrs _ hh
    have hb : defNames (beginModel {} t) = [t] := by
      simp [defNames, defsView, beginModel, ensureDef, findDef, updDef]
    simp only [defNames, hdv]
    simp only [defNames] at hb
    rw [hb]
    simp only [List.mem_singleton]
    exact fun e => hne e.symm
  -- children
  obtain ⟨sk, hbk, kk, ek, dk, _, ak, lk, fk⟩ := body_full o n t hw hcab hnm hk hkids n.insts 0
    (fun k hk' => hk') sh hlen0 (fun _ => by simp [hnames0]) dh hstd0
  -- `.conn` lines
  obtain ⟨sc, hbc, ac, dc, ic⟩ := conn_stmts t (connPairs n (n.findDef t)) (connKeys n t (n.findDef t))
    (connPairs_keys n t (n.findDef t) (fun p hpm => ⟨(hP p hpm).2.1, (hP p hpm).2.2.1⟩) hcab) sk
  have hJ : JF n t = (hdrJ n t ++ (n.insts.zipIdx 0).flatMap (kidJoinsF n t)) ++
      bodyJoins sk t ((connPairs n (n.findDef t)).map (fun ab => Stmt.conn ab.1 ab.2)) := by
    rw [bodyJoins_conns]; simp [JF]
  have hdisj : ∀ pp ∈ connKeys n t (n.findDef t), pp.1 ∉ (connKeys n t (n.findDef t)).map (·.2) := by
    intro pp hpp
    obtain ⟨ka, kb⟩ := pp
    obtain ⟨p, hpm, b, hb, c, wi, len, hwo, _, rfl, _⟩ := (mem_connKeys n t _ ka kb).mp hpp
    obtain ⟨ws, w, hm, _, hws, hx⟩ := wireOf_spec hwo
    obtain ⟨hown, _⟩ := hcb (c, ws) hm
    refine carrier_not_src n t hcn _ _ ⟨ws, w, ?_, hws, hx⟩
    simp only at hown ⊢
    rw [← hown]; exact hm
  refine ⟨sc, ?_, ?_, ?_, ?_, linv_elabStmts _ (lk (⟨rh.wf, rh.pl⟩)) hbc, ?_, ?_, ?_⟩
  · unfold elabModel
    simp only [hh, bind, Except.bind]
    rw [hsorted, elabStmts_append, connStmts_eq]
    simp only [hbk, bind, Except.bind]
    exact hbc
  · have : instKinds sc = instKinds sk := by simp [instKinds, ic]
    rw [this, kk, kh]; simp
  · rw [hJ]
    exact exact_elabStmts _ (by
      intro s hs
      obtain ⟨ab, _, rfl⟩ := List.mem_map.mp hs
      simp) (ek _ eh) hbc
  · rw [ac, ak, rh.aid, ← aliasOf_nil]
    have := alias_fold (connKeys n t (n.findDef t)) [] (by simpa using connKeys_nodup n t _ hnd) (by simpa using hdisj)
    simpa using this
  · intro kk hkk
    rw [data_of_insts ic]
    exact dk kk hkk
  · have f2 : Fr t sk sc := fr_of_defs fk.2 dc
    rw [f2.1, fk.1, ph]
  · exact (fr_of_defs fk.2 dc).2

end Spydr.Eblif
