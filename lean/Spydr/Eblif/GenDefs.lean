/-
  The generated definitions: `logic-gate_k` has exactly the ports in_0 .. in_{k-1} (IN) and out
  (OUT), one pin each; `generic-latch` has a prefix of input, output, type, control, init-val.
-/
import Spydr.Eblif.Props.C18FullParse

namespace Spydr.Eblif

theorem natStr_inj {a b : Nat} (h : natStr a = natStr b) : a = b := by
  have := congrArg (fun s => digitsToNat s.toList) h
  simpa [digitsToNat_natStr] using this

def inName (i : Nat) : String := "in_" ++ natStr i

theorem inName_inj {a b : Nat} (h : inName a = inName b) : a = b := by
  unfold inName at h
  exact natStr_inj ((String.append_right_inj "in_").mp h)

theorem inName_ne_out (i : Nat) : inName i ≠ "out" := by
  unfold inName
  intro h
  have := congrArg String.toList h
  simp only [String.toList_append] at this
  have h1 : ("in_" : String).toList = ['i', 'n', '_'] := by decide
  have h2 : ("out" : String).toList = ['o', 'u', 't'] := by decide
  rw [h1, h2] at this
  simp at this

def stdNamesPorts (k : Nat) : List PortD :=
  (List.range k).map (fun i => { name := inName i, dir := Dir.inp, width := 1 }) ++ [{ name := "out", dir := Dir.out, width := 1 }]

theorem portsOf_addPort_new (st : St) (dn pn : String) (d : Dir) (w : Nat) (hd : DefEx st dn)
    (hn : ∀ p ∈ portsOf st dn, p.name ≠ pn) :
    portsOf (addPort st dn pn d w) dn = portsOf st dn ++ [{ name := pn, dir := d, width := w }] ∧ DefEx (addPort st dn pn d w) dn := by
  have hf : hasPort st dn pn = false := by
    rw [hasPort_eq, findIn_none_of _ pn hn]; rfl
  obtain ⟨_, _, h3⟩ := addPort_port st dn pn d w hd hf
  refine ⟨?_, h3⟩
  unfold addPort
  simp only [hf, Bool.false_eq_true, if_false]
  rw [portsOf_of_defs (defs_appendPins _ _ _)]
  exact portsOf_updPorts st dn (fun ps => ps ++ [({ name := pn, dir := d, width := w } : PortD)]) hd

theorem portsOf_addPort_old (st : St) (dn pn : String) (d : Dir) (w : Nat)
    (hn : ∃ p ∈ portsOf st dn, p.name = pn) : addPort st dn pn d w = st := by
  have hf : hasPort st dn pn = true := by
    rw [hasPort_eq]
    obtain ⟨p, hp, hpn⟩ := hn
    unfold findIn
    cases h : (portsOf st dn).find? (fun q => q.name = pn) with
    | some q => rfl
    | none =>
      rw [List.find?_eq_none] at h
      exact absurd (by simpa using hpn) (h p hp)
  unfold addPort
  simp [hf]

/-- in-ports fold from a fresh definition -/
theorem fold_in_fresh (dn : String) (k : Nat) :
    ∀ (st : St), DefEx st dn → portsOf st dn = [] →
      portsOf ((List.range k).foldl (fun st i => addPort st dn ("in_" ++ natStr i) Dir.inp 1) st) dn =
        (List.range k).map (fun i => ({ name := inName i, dir := Dir.inp, width := 1 } : PortD)) ∧
      DefEx ((List.range k).foldl (fun st i => addPort st dn ("in_" ++ natStr i) Dir.inp 1) st) dn := by
  induction k with
  | zero => intro st hd hp; exact ⟨by simpa using hp, hd⟩
  | succ k ih =>
    intro st hd hp
    rw [List.range_succ, List.foldl_append]
    obtain ⟨hp1, hd1⟩ := ih st hd hp
    simp only [List.foldl_cons, List.foldl_nil, List.map_append, List.map_cons, List.map_nil]
    have hn : ∀ p ∈ portsOf ((List.range k).foldl (fun st i => addPort st dn ("in_" ++ natStr i) Dir.inp 1) st) dn,
        p.name ≠ "in_" ++ natStr k := by
      intro p hpm he
      rw [hp1] at hpm
      obtain ⟨i, hi, rfl⟩ := List.mem_map.mp hpm
      have := inName_inj (a := i) (b := k) he
      simp only [List.mem_range] at hi
      omega
    obtain ⟨h2, d2⟩ := portsOf_addPort_new _ dn ("in_" ++ natStr k) Dir.inp 1 hd1 hn
    exact ⟨by rw [h2, hp1]; rfl, d2⟩

/-- **`.names`, generated definition, fresh**: when `logic-gate_k` does not exist yet (or has no
    port), after `addNamesPorts` it has exactly the ports in_0 .. in_{k-1} (IN) and out (OUT) -/
theorem names_def_fresh (st : St) (dn : String) (k : Nat) (hd : DefEx st dn) (hp : portsOf st dn = []) :
    portsOf (addNamesPorts st dn k) dn = stdNamesPorts k := by
  unfold addNamesPorts
  simp only []
  obtain ⟨h1, d1⟩ := fold_in_fresh dn k st hd hp
  have hn : ∀ p ∈ portsOf ((List.range k).foldl (fun st i => addPort st dn ("in_" ++ natStr i) Dir.inp 1) st) dn, p.name ≠ "out" := by
    intro p hpm
    rw [h1] at hpm
    obtain ⟨i, _, rfl⟩ := List.mem_map.mp hpm
    exact inName_ne_out i
  rw [(portsOf_addPort_new _ dn "out" Dir.out 1 d1 hn).1, h1]
  rfl

/-- ... and when it already has them, nothing changes -/
theorem names_def_again (st : St) (dn : String) (k : Nat) (hp : portsOf st dn = stdNamesPorts k) :
    addNamesPorts st dn k = st := by
  unfold addNamesPorts
  simp only []
  have hfold : ∀ (l : List Nat), (∀ i ∈ l, i < k) →
      l.foldl (fun st i => addPort st dn ("in_" ++ natStr i) Dir.inp 1) st = st := by
    intro l
    induction l with
    | nil => intro _; rfl
    | cons a r ih =>
      intro hl
      simp only [List.foldl_cons]
      have e := portsOf_addPort_old st dn ("in_" ++ natStr a) Dir.inp 1 ⟨{ name := inName a, dir := Dir.inp, width := 1 }, by
        rw [hp]; unfold stdNamesPorts
        exact List.mem_append.mpr (Or.inl (List.mem_map.mpr ⟨a, List.mem_range.mpr (hl a (by simp)), rfl⟩)), rfl⟩
      rw [e]
      exact ih (fun i hi => hl i (by simp [hi]))
  rw [hfold (List.range k) (fun i hi => List.mem_range.mp hi)]
  exact portsOf_addPort_old st dn "out" Dir.out 1 ⟨{ name := "out", dir := Dir.out, width := 1 }, by
    rw [hp]; unfold stdNamesPorts; simp, rfl⟩

def stdLatchPorts : List PortD :=
  [{ name := "input", dir := Dir.inp, width := 1 }, { name := "output", dir := Dir.out, width := 1 },
   { name := "type", dir := Dir.inp, width := 1 }, { name := "control", dir := Dir.inp, width := 1 },
   { name := "init-val", dir := Dir.inp, width := 1 }]

end Spydr.Eblif
