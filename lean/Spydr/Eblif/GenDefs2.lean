/-
  The generated `generic-latch` definition.
-/
import Spydr.Eblif.GenDefs

namespace Spydr.Eblif

theorem addLatchPorts_append (a b : List String) : ∀ st : St, addLatchPorts st (a ++ b) = addLatchPorts (addLatchPorts st a) b := by
  induction a with
  | nil => intro st; rfl
  | cons x r ih => intro st; simp only [List.cons_append, addLatchPorts]; exact ih _

theorem latch_present : ∀ j, j < 5 → ∀ b, b ≤ 5 →
    ((stdLatchPorts.take b).any (fun p => p.name = latchOrder[j]!)) = decide (j < b) := by decide

theorem latch_std_at : ∀ j, j < 5 →
    stdLatchPorts[j]! = { name := latchOrder[j]!, dir := (if latchOrder[j]! = "output" then Dir.out else Dir.inp), width := 1 } := by
  decide

/-- **`.latch`, generated definition**: if `generic-latch` has the first `a` of the ports input,
    output, type, control, init-val, then after a `.latch` with `m` fields it has the first `max a m` -/
theorem latch_def_shape (m : Nat) (hm : m ≤ 5) :
    ∀ (st : St) (a : Nat), a ≤ 5 → DefEx st "generic-latch" → portsOf st "generic-latch" = stdLatchPorts.take a →
      portsOf (addLatchPorts st (latchOrder.take m)) "generic-latch" = stdLatchPorts.take (max a m) ∧
      DefEx (addLatchPorts st (latchOrder.take m)) "generic-latch" := by
  induction m with
  | zero =>
    intro st a _ hd hp
    have : addLatchPorts st (latchOrder.take 0) = st := rfl
    rw [this]
    exact ⟨by simpa using hp, hd⟩
  | succ m ih =>
    intro st a ha hd hp
    have hm' : m < 5 := by omega
    obtain ⟨h1, d1⟩ := ih (by omega) st a ha hd hp
    have htake : latchOrder.take (m + 1) = latchOrder.take m ++ [latchOrder[m]!] := by
      have hl : latchOrder.length = 5 := by decide
      rw [List.take_add_one]
      simp [List.getElem?_eq_getElem (by omega : m < latchOrder.length), List.getElem!_eq_getElem?_getD]
    rw [htake, addLatchPorts_append]
    simp only [addLatchPorts]
    have hpres := latch_present m hm' (max a m) (by omega)
    by_cases hlt : m < max a m
    · -- already there
      have hex : ∃ p ∈ portsOf (addLatchPorts st (latchOrder.take m)) "generic-latch", p.name = latchOrder[m]! := by
        rw [h1]
        rw [show decide (m < max a m) = true by simpa using hlt] at hpres
        simp only [List.any_eq_true, decide_eq_true_eq] at hpres
        exact hpres
      rw [portsOf_addPort_old _ _ _ _ _ hex]
      have : max a (m + 1) = max a m := by omega
      rw [this]; exact ⟨h1, d1⟩
    · have hge : max a m = m := by omega
      have hn : ∀ p ∈ portsOf (addLatchPorts st (latchOrder.take m)) "generic-latch", p.name ≠ latchOrder[m]! := by
        intro p hpm he
        rw [h1] at hpm
        rw [show decide (m < max a m) = false by simpa using hlt] at hpres
        rw [List.any_eq_false] at hpres
        exact (hpres p hpm) (by simpa using he)
      obtain ⟨h2, d2⟩ := portsOf_addPort_new _ "generic-latch" (latchOrder[m]!) (if latchOrder[m]! = "output" then Dir.out else Dir.inp) 1 d1 hn
      refine ⟨?_, d2⟩
      rw [h2, h1, hge]
      have : max a (m + 1) = m + 1 := by omega
      rw [this, List.take_add_one]
      have hl : stdLatchPorts.length = 5 := by decide
      rw [List.getElem?_eq_getElem (by omega : m < stdLatchPorts.length)]
      have := latch_std_at m hm'
      rw [List.getElem!_eq_getElem?_getD, List.getElem?_eq_getElem (by omega : m < stdLatchPorts.length)] at this
      simp only [Option.getD_some] at this
      rw [this]; rfl

end Spydr.Eblif
