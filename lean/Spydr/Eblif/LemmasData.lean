/-
  `.names` joins, instance data (`.cname/.attr/.param`), header ports.
-/
import Spydr.Eblif.LemmasExact

namespace Spydr.Eblif

/-! ### `.names`: every listed net is joined to the port it is zipped with -/

theorem elabStmt_names_joins {st st' : St} {cur : String} {nets covers : List String} {info : List InfoStmt}
    (h : elabStmt st cur (Stmt.names nets covers info) = Except.ok st') :
    ∀ fa ∈ namesInfo st nets, ∀ cn ci pn pi, splitIdx fa.2 = Except.ok (cn, ci) →
      splitIdx fa.1 = Except.ok (pn, pi) → cn ≠ "unconn" →
      Joined st' (Pin.inst st.insts.length pn pi) (cur, cn, ci) ∧ Live st' (cur, cn, ci) := by
  unfold elabStmt at h
  simp only [] at h
  split at h
  · cases h
  · obtain ⟨s1, h1, h⟩ := bind_ok h
    obtain ⟨s2, h2, h⟩ := bind_ok h
    rw [newInst_snd] at h1 h2 h
    have hlen : (addNamesPorts (ensureDef st ("logic-gate_" ++ natStr (nets.length - 1)))
        ("logic-gate_" ++ natStr (nets.length - 1)) (nets.length - 1)).insts.length = st.insts.length :=
      len_of_ik ((ik_addNamesPorts _ _ _).trans (ik_ensureDef _ _))
    intro fa hfa cn ci pn pi x1 x2 hu
    have hj := connectAll_joins _ h2 fa hfa cn ci pn pi x1 x2 hu
    rw [hlen] at hj
    have e23 : Ext s2 st' := Ext.of_fields (nf_applyInfo info h)
    exact ⟨e23.joined _ _ hj.1, e23.live _ hj.2⟩

/-! ### instance data -/

theorem getElem?_updIdx (l : List Inst) (idx j : Nat) (f : Inst → Inst) :
    (l.zipIdx.map (fun (p : Inst × Nat) => if p.2 = idx then f p.1 else p.1))[j]? =
      (l[j]?).map (fun i => if j = idx then f i else i) := by
  rw [List.getElem?_map, List.getElem?_zipIdx]
  cases l[j]? <;> simp

theorem info_updInst (st : St) (idx j : Nat) (f : Inst → Inst) (hf : ∀ i, infoOf (f i) = infoOf i) :
    ((updInst st idx f).insts[j]?).map infoOf = (st.insts[j]?).map infoOf := by
  simp only [updInst, getElem?_updIdx]
  cases st.insts[j]? with
  | none => rfl
  | some i => simp only [Option.map_some]; split <;> simp [hf]

theorem info_updInst_at (st : St) (idx : Nat) (f : Inst → Inst) :
    (updInst st idx f).insts[idx]? = (st.insts[idx]?).map f := by
  simp only [updInst, getElem?_updIdx]
  cases st.insts[idx]? <;> simp

theorem info_appendPins (st : St) (n : String) (l : List (String × Nat)) (j : Nat) :
    ((appendPins st n l).insts[j]?).map infoOf = (st.insts[j]?).map infoOf := by
  simp only [appendPins, List.getElem?_map]
  cases st.insts[j]? with
  | none => rfl
  | some i => simp only [Option.map_some]; split <;> rfl

/-- data of instance `j` -/
def dataAt (st : St) (j : Nat) := (st.insts[j]?).map infoOf

theorem data_of_insts {a b : St} (h : b.insts = a.insts) (j : Nat) : dataAt b j = dataAt a j := by
  simp [dataAt, h]

theorem data_growPort (st : St) (dn pn : String) (w j : Nat) : dataAt (growPort st dn pn w) j = dataAt st j := by
  unfold growPort; simp only []; split
  · rfl
  · exact info_appendPins _ _ _ _

theorem data_ensureCable (st : St) (o n : String) (j : Nat) : dataAt (ensureCable st o n) j = dataAt st j := by
  unfold ensureCable; split <;> rfl
theorem data_ensureWire (st : St) (o n : String) (i j : Nat) : dataAt (ensureWire st o n i) j = dataAt st j := by
  unfold ensureWire; simp only []; split
  · exact data_ensureCable st o n j
  · exact data_ensureCable st o n j
theorem data_connect (st : St) (p : Pin) (o n : String) (i j : Nat) : dataAt (connect st p o n i) j = dataAt st j := by
  unfold connect; exact data_ensureWire st o n i j

theorem data_connectOne {st st' : St} {idx : Nat} {parent model : String} {fa : String × String}
    (h : connectOne st idx parent model fa = Except.ok st') (j : Nat) : dataAt st' j = dataAt st j := by
  unfold connectOne at h
  obtain ⟨⟨cn, ci⟩, _, h⟩ := bind_ok h
  obtain ⟨⟨pn, pi⟩, _, h⟩ := bind_ok h
  simp only [] at h
  split at h
  · cases h; exact info_updInst _ _ _ _ (fun _ => rfl)
  · split at h
    · cases h
    · cases h; rw [data_connect, data_growPort]

theorem data_connectAll {idx : Nat} {parent model : String} (l : List (String × String)) :
    ∀ {st st' : St}, connectAll st idx parent model l = Except.ok st' → ∀ j, dataAt st' j = dataAt st j := by
  induction l with
  | nil => intro st st' h j; cases h; rfl
  | cons fa r ih =>
    intro st st' h j
    unfold connectAll at h
    obtain ⟨s1, h1, h⟩ := bind_ok h
    rw [ih h, data_connectOne h1]

theorem data_renameStrict {st st' : St} {i : Nat} {p n : String} (h : renameStrict st i p n = Except.ok st') (j : Nat) :
    dataAt st' j = dataAt st j := by
  unfold renameStrict at h
  split at h
  · cases h
  · cases h; exact info_updInst _ _ _ _ (fun _ => rfl)

theorem data_assignDefault' (st : St) (i : Nat) (p m : String) (j : Nat) :
    dataAt (assignDefault st i p m) j = dataAt st j := by
  unfold assignDefault
  exact info_updInst _ _ _ _ (fun _ => rfl)

theorem data_rename {st st' : St} {i : Nat} {p n : String} (h : rename st i p n = Except.ok st') (j : Nat) :
    dataAt st' j = dataAt st j := by
  unfold rename at h
  split at h
  · cases h; exact data_assignDefault' _ _ _ _ _
  · cases h; exact info_updInst _ _ _ _ (fun _ => rfl)

/-- the info lines do to the data of instance `idx` exactly what `infoFold` says -/
theorem data_applyInfo {idx : Nat} {parent : String} (l : List InfoStmt) :
    ∀ {st st' : St}, applyInfo st idx parent l = Except.ok st' →
      dataAt st' idx = (dataAt st idx).map (infoFold l) := by
  induction l with
  | nil => intro st st' h; cases h; cases dataAt st idx <;> rfl
  | cons x r ih =>
    intro st st' h
    cases x with
    | cname n =>
      unfold applyInfo at h
      obtain ⟨s1, h1, h⟩ := bind_ok h
      rw [ih h, data_renameStrict h1]
      simp only [dataAt, info_updInst_at]
      cases st.insts[idx]? <;> simp [infoOf, infoFold]
    | attr k v =>
      unfold applyInfo at h
      rw [ih h]
      simp only [dataAt, info_updInst_at]
      cases st.insts[idx]? <;> simp [infoOf, infoFold]
    | param k v =>
      unfold applyInfo at h
      rw [ih h]
      simp only [dataAt, info_updInst_at]
      cases st.insts[idx]? <;> simp [infoOf, infoFold]

theorem data_newInst (st : St) (p m t : String) :
    dataAt (newInst st p m t).1 st.insts.length = some (none, [], []) := by
  simp [dataAt, newInst, infoOf]

theorem data_assignDefault (st : St) (i : Nat) (p m : String) (j : Nat) :
    dataAt (assignDefault st i p m) j = dataAt st j := by
  unfold assignDefault
  exact info_updInst _ _ _ _ (fun _ => rfl)

/-- `.cname/.attr/.param` lines of a `.subckt`/`.gate` are attached to the instance it creates -/
theorem elabStmt_subckt_data {st st' : St} {cur : String} {gate : Bool} {model : String}
    {conns : List (String × String)} {info : List InfoStmt}
    (h : elabStmt st cur (Stmt.subckt gate model conns info) = Except.ok st') :
    dataAt st' st.insts.length = some (infoFold info (none, [], [])) := by
  unfold elabStmt at h
  simp only [] at h
  obtain ⟨s1, h1, h⟩ := bind_ok h
  obtain ⟨s2, h2, h⟩ := bind_ok h
  rw [newInst_snd] at h2 h
  have hlen : s1.insts.length = st.insts.length := by rw [len_declFormals conns h1]; simp
  rw [← hlen, data_applyInfo info h, data_connectAll _ h2, data_assignDefault, data_newInst]
  rfl

end Spydr.Eblif
