/-
  Data of existing instances is never touched by later statements; header ports.
-/
import Spydr.Eblif.LemmasData

namespace Spydr.Eblif

theorem data_updInst_ne (st : St) (idx j : Nat) (f : Inst → Inst) (h : j ≠ idx) :
    dataAt (updInst st idx f) j = dataAt st j := by
  simp only [dataAt, updInst, getElem?_updIdx]
  cases st.insts[j]? <;> simp [h]

theorem data_rename_ne {st st' : St} {i : Nat} {p n : String} (h : rename st i p n = Except.ok st') (j : Nat) :
    dataAt st' j = dataAt st j := data_rename h j

theorem data_applyInfo_ne {idx : Nat} {parent : String} (l : List InfoStmt) {j : Nat} (hj : j ≠ idx) :
    ∀ {st st' : St}, applyInfo st idx parent l = Except.ok st' → dataAt st' j = dataAt st j := by
  induction l with
  | nil => intro st st' h; cases h; rfl
  | cons x r ih =>
    intro st st' h
    cases x with
    | cname n =>
      unfold applyInfo at h
      obtain ⟨s1, h1, h⟩ := bind_ok h
      rw [ih h, data_renameStrict h1, data_updInst_ne _ _ _ _ hj]
    | attr k v => unfold applyInfo at h; rw [ih h, data_updInst_ne _ _ _ _ hj]
    | param k v => unfold applyInfo at h; rw [ih h, data_updInst_ne _ _ _ _ hj]

theorem data_appendPins (st : St) (n : String) (l : List (String × Nat)) (j : Nat) :
    dataAt (appendPins st n l) j = dataAt st j := info_appendPins st n l j

theorem data_addPort (st : St) (dn pn : String) (d : Dir) (w j : Nat) : dataAt (addPort st dn pn d w) j = dataAt st j := by
  unfold addPort; split
  · rfl
  · exact data_appendPins _ _ _ _

theorem data_declFormal {st st' : St} {model : String} {fa : String × String}
    (h : declFormal st model fa = Except.ok st') (j : Nat) : dataAt st' j = dataAt st j := by
  unfold declFormal at h
  obtain ⟨⟨pn, pi⟩, _, h⟩ := bind_ok h
  simp only [] at h
  cases h
  split
  · exact data_addPort _ _ _ _ _ _
  · rw [data_growPort, data_addPort]

theorem data_declFormals {model : String} (l : List (String × String)) :
    ∀ {st st' : St}, declFormals st model l = Except.ok st' → ∀ j, dataAt st' j = dataAt st j := by
  induction l with
  | nil => intro st st' h j; cases h; rfl
  | cons fa r ih =>
    intro st st' h j
    unfold declFormals at h
    obtain ⟨s1, h1, h⟩ := bind_ok h
    rw [ih h, data_declFormal h1]

theorem data_ensureDef (st : St) (n : String) (j : Nat) : dataAt (ensureDef st n) j = dataAt st j := by
  unfold ensureDef; split <;> rfl
theorem data_checkHierarchy (st : St) (c d : String) (j : Nat) : dataAt (checkHierarchy st c d) j = dataAt st j := by
  unfold checkHierarchy; split <;> rfl

theorem data_addLatchPorts (l : List String) : ∀ (st : St) (j : Nat), dataAt (addLatchPorts st l) j = dataAt st j := by
  induction l with
  | nil => intro st j; rfl
  | cons o r ih => intro st j; simp only [addLatchPorts]; rw [ih, data_addPort]

theorem data_foldl_addPort (dn : String) (l : List Nat) :
    ∀ (st : St) (j : Nat), dataAt (l.foldl (fun st i => addPort st dn ("in_" ++ natStr i) Dir.inp 1) st) j = dataAt st j := by
  induction l with
  | nil => intro st j; rfl
  | cons o r ih => intro st j; simp only [List.foldl_cons]; rw [ih, data_addPort]

theorem data_addNamesPorts (st : St) (dn : String) (k j : Nat) : dataAt (addNamesPorts st dn k) j = dataAt st j := by
  unfold addNamesPorts
  simp only []
  rw [data_addPort, data_foldl_addPort]

theorem data_newInst_lt (st : St) (p m t : String) {j : Nat} (hj : j < st.insts.length) :
    dataAt (newInst st p m t).1 j = dataAt st j := by
  simp [dataAt, newInst, List.getElem?_append_left hj]

/-- a statement never changes the `.cname/.attr/.param` data of an instance that existed before -/
theorem data_elabStmt_old {st st' : St} {cur : String} {s : Stmt} {j : Nat} (hj : j < st.insts.length)
    (h : elabStmt st cur s = Except.ok st') : dataAt st' j = dataAt st j := by
  have hne : j ≠ st.insts.length := by omega
  cases s with
  | subckt gate model conns info =>
    unfold elabStmt at h
    simp only [] at h
    obtain ⟨s1, h1, h⟩ := bind_ok h
    obtain ⟨s2, h2, h⟩ := bind_ok h
    rw [newInst_snd] at h2 h
    have hlen : s1.insts.length = st.insts.length := by rw [len_declFormals conns h1]; simp
    rw [hlen] at h2 h
    rw [data_applyInfo_ne info hne h, data_connectAll _ h2, data_assignDefault,
      data_newInst_lt _ _ _ _ (by omega), data_declFormals conns h1, data_ensureDef, data_checkHierarchy]
  | names nets covers info =>
    unfold elabStmt at h
    simp only [] at h
    split at h
    · cases h
    · obtain ⟨s1, h1, h⟩ := bind_ok h
      obtain ⟨s2, h2, h⟩ := bind_ok h
      rw [newInst_snd] at h1 h2 h
      have hlen : (addNamesPorts (ensureDef st ("logic-gate_" ++ natStr (nets.length - 1)))
          ("logic-gate_" ++ natStr (nets.length - 1)) (nets.length - 1)).insts.length = st.insts.length :=
        len_of_ik ((ik_addNamesPorts _ _ _).trans (ik_ensureDef _ _))
      rw [hlen] at h1 h2 h
      have e1 : dataAt s1 j = dataAt st j := by
        split at h1
        · cases h1
          rw [data_assignDefault, data_updInst_ne _ _ _ _ hne, data_newInst_lt _ _ _ _ (by omega),
            data_addNamesPorts, data_ensureDef]
        · rw [data_rename h1, data_updInst_ne _ _ _ _ hne, data_newInst_lt _ _ _ _ (by omega),
            data_addNamesPorts, data_ensureDef]
      rw [data_applyInfo_ne info hne h, data_connectAll _ h2, e1]
  | latch toks info =>
    unfold elabStmt at h
    simp only [] at h
    split at h
    · cases h
    · obtain ⟨s1, h1, h⟩ := bind_ok h
      obtain ⟨s2, h2, h⟩ := bind_ok h
      rw [newInst_snd] at h1 h2 h
      have hlen : (addLatchPorts (ensureDef st "generic-latch") (List.map (·.1) (latchOrder.zip toks))).insts.length
          = st.insts.length := len_of_ik ((ik_addLatchPorts _ _).trans (ik_ensureDef _ _))
      rw [hlen] at h1 h2 h
      rw [data_applyInfo_ne info hne h, data_connectAll _ h2, data_rename h1,
        data_newInst_lt _ _ _ _ (by omega), data_addLatchPorts, data_ensureDef]
  | conn a b =>
    unfold elabStmt at h
    obtain ⟨⟨n1, i1⟩, _, h⟩ := bind_ok h
    obtain ⟨⟨n2, i2⟩, _, h⟩ := bind_ok h
    simp only [] at h
    cases h
    have : ∀ s ka kb, dataAt (mergeKeys s ka kb) j = dataAt s j := by
      intro s ka kb; unfold mergeKeys; simp only []; split <;> rfl
    rw [this, data_ensureWire, data_ensureWire]
  | blackbox =>
    unfold elabStmt at h
    cases h
    rfl

theorem data_elabStmts_old {cur : String} (l : List Stmt) :
    ∀ {st st' : St} {j : Nat}, j < st.insts.length → elabStmts st cur l = Except.ok st' →
      dataAt st' j = dataAt st j := by
  induction l with
  | nil => intro st st' j _ h; cases h; rfl
  | cons s r ih =>
    intro st st' j hj h
    unfold elabStmts at h
    obtain ⟨s1, h1, h⟩ := bind_ok h
    have hlen : st.insts.length ≤ s1.insts.length := by
      have := congrArg List.length (ik_elabStmt h1)
      simp only [instKinds, List.length_map, List.length_append] at this
      omega
    rw [ih (by omega) h, data_elabStmt_old hj h1]

end Spydr.Eblif
