/-
  Net-level invariants of the EBLIF elaborator: what is joined stays joined (`Ext`) as long as no
  `.blackbox` strips the model, and the primitive steps that create the joins.
-/
import Spydr.Eblif.Spec

namespace Spydr.Eblif

theorem bind_ok {ε α β : Type} {x : Except ε α} {f : α → Except ε β} {b : β}
    (h : (x >>= f) = Except.ok b) : ∃ a, x = Except.ok a ∧ f a = Except.ok b := by
  cases x with
  | error e => simp [bind, Except.bind] at h
  | ok a => exact ⟨a, rfl, h⟩

structure Ext (st st' : St) : Prop where
  joined : ∀ p k, Joined st p k → Joined st' p k
  same : ∀ k1 k2, st.alias k1 = st.alias k2 → st'.alias k1 = st'.alias k2
  live : ∀ k, Live st k → Live st' k

theorem Ext.refl (st : St) : Ext st st := ⟨fun _ _ h => h, fun _ _ h => h, fun _ h => h⟩

theorem Ext.trans {a b c : St} (h1 : Ext a b) (h2 : Ext b c) : Ext a c :=
  ⟨fun p k h => h2.joined p k (h1.joined p k h), fun k1 k2 h => h2.same k1 k2 (h1.same k1 k2 h),
   fun k h => h2.live k (h1.live k h)⟩

/-- the four net fields -/
def netFields (st : St) := (st.pins, st.alias, st.cables, st.width)

theorem Ext.of_fields {st st' : St} (h : netFields st' = netFields st) : Ext st st' := by
  simp only [netFields, Prod.mk.injEq] at h
  obtain ⟨hp, ha, hc, hw⟩ := h
  exact ⟨fun p k hj => by simpa [Joined, hp, ha] using hj, fun k1 k2 hk => by simpa [ha] using hk,
         fun k hl => by simpa [Live, hc, hw] using hl⟩

@[simp] theorem nf_ensureDef (st : St) (n : String) : netFields (ensureDef st n) = netFields st := by
  unfold ensureDef; split <;> rfl
@[simp] theorem nf_updDef (st : St) (n : String) (f : DefD → DefD) : netFields (updDef st n f) = netFields st := rfl
@[simp] theorem nf_appendPins (st : St) (n : String) (l) : netFields (appendPins st n l) = netFields st := rfl
@[simp] theorem nf_addPort (st : St) (dn pn : String) (d : Dir) (w : Nat) : netFields (addPort st dn pn d w) = netFields st := by
  unfold addPort; split <;> simp
@[simp] theorem nf_setDir (st : St) (dn pn : String) (d : Dir) : netFields (setDir st dn pn d) = netFields st := rfl
@[simp] theorem nf_growPort (st : St) (dn pn : String) (w : Nat) : netFields (growPort st dn pn w) = netFields st := by
  unfold growPort; simp only []; split <;> simp
@[simp] theorem nf_updInst (st : St) (i : Nat) (f : Inst → Inst) : netFields (updInst st i f) = netFields st := rfl
@[simp] theorem nf_assignDefault (st : St) (i : Nat) (p m : String) : netFields (assignDefault st i p m) = netFields st := rfl
@[simp] theorem nf_newInst (st : St) (p m t : String) : netFields (newInst st p m t).1 = netFields st := rfl
@[simp] theorem nf_checkHierarchy (st : St) (c d : String) : netFields (checkHierarchy st c d) = netFields st := by
  unfold checkHierarchy; split <;> rfl

theorem nf_renameStrict {st st' : St} {i : Nat} {p n : String} (h : renameStrict st i p n = Except.ok st') :
    netFields st' = netFields st := by
  unfold renameStrict at h
  split at h
  · cases h
  · cases h; rfl

theorem nf_rename {st st' : St} {i : Nat} {p n : String} (h : rename st i p n = Except.ok st') :
    netFields st' = netFields st := by
  unfold rename at h
  split at h
  · cases h; exact nf_assignDefault _ _ _ _
  · cases h; rfl

theorem nf_addLatchPorts (l : List String) : ∀ st : St, netFields (addLatchPorts st l) = netFields st := by
  induction l with
  | nil => intro st; rfl
  | cons o r ih => intro st; simp [addLatchPorts, ih]

theorem nf_foldl_addPort (dn : String) (l : List Nat) :
    ∀ st : St, netFields (l.foldl (fun st i => addPort st dn ("in_" ++ natStr i) Dir.inp 1) st) = netFields st := by
  induction l with
  | nil => intro st; rfl
  | cons o r ih => intro st; simp [List.foldl_cons, ih]

@[simp] theorem nf_addNamesPorts (st : St) (dn : String) (k : Nat) : netFields (addNamesPorts st dn k) = netFields st := by
  unfold addNamesPorts
  simp [nf_foldl_addPort]

/-! ### the steps that touch nets -/

theorem ext_ensureCable (st : St) (o n : String) : Ext st (ensureCable st o n) := by
  unfold ensureCable
  split
  · exact Ext.refl st
  · refine ⟨fun _ _ h => h, fun _ _ h => h, fun k hl => ?_⟩
    exact ⟨by simp [hl.1], hl.2⟩

theorem ensureCable_mem (st : St) (o n : String) : (o, n) ∈ (ensureCable st o n).cables := by
  unfold ensureCable
  split
  · assumption
  · simp

theorem ext_ensureWire (st : St) (o n : String) (i : Nat) : Ext st (ensureWire st o n i) := by
  unfold ensureWire
  simp only []
  split
  · exact ext_ensureCable st o n
  · refine Ext.trans (ext_ensureCable st o n) ⟨fun _ _ h => h, fun _ _ h => h, fun k hl => ?_⟩
    refine ⟨hl.1, ?_⟩
    simp only [upd]
    split
    · rename_i hlt hk
      have h2 := hl.2
      rw [hk] at h2
      omega
    · exact hl.2

theorem ensureWire_live (st : St) (o n : String) (i : Nat) : Live (ensureWire st o n i) (o, n, i) := by
  unfold ensureWire
  simp only []
  split
  · rename_i h; exact ⟨ensureCable_mem st o n, by simp only []; omega⟩
  · exact ⟨ensureCable_mem st o n, by simp [upd]⟩

theorem ext_connect (st : St) (p : Pin) (o n : String) (i : Nat) : Ext st (connect st p o n i) := by
  unfold connect
  refine Ext.trans (ext_ensureWire st o n i) ⟨fun q k h => ?_, fun _ _ h => h, fun _ h => h⟩
  simp only [Joined, upd] at *
  split
  · rename_i hk; rw [hk] at h; simp [h]
  · exact h

/-- `connect_pin_to_wire`: afterwards the pin is on the wire of the named bit, whose cable exists -/
theorem connect_joins (st : St) (p : Pin) (o n : String) (i : Nat) :
    Joined (connect st p o n i) p (o, n, i) ∧ Live (connect st p o n i) (o, n, i) := by
  unfold connect
  exact ⟨by simp [Joined, upd], ensureWire_live st o n i⟩

theorem ext_mergeKeys (st : St) (ka kb : Key) : Ext st (mergeKeys st ka kb) := by
  unfold mergeKeys
  simp only []
  split
  · exact Ext.refl st
  · rename_i hne
    refine ⟨fun q k h => ?_, fun k1 k2 h => ?_, fun _ h => h⟩
    · simp only [Joined, upd] at *
      by_cases h1 : st.alias k = st.alias kb
      · simp [h1, hne]
        rw [h1] at h; exact Or.inr h
      · simp only [h1, if_false]
        by_cases h2 : st.alias k = st.alias ka
        · simp [h2, hne]; rw [h2] at h; exact Or.inl h
        · simp [h1, h2, h]
    · simp only [h]

theorem mergeKeys_alias (st : St) (ka kb : Key) :
    (mergeKeys st ka kb).alias ka = (mergeKeys st ka kb).alias kb := by
  unfold mergeKeys
  simp only []
  split
  · assumption
  · rename_i hne; simp [hne]

/-! ### monadic steps -/

theorem connectOne_cases {st st' : St} {idx : Nat} {parent model : String} {fa : String × String}
    (h : connectOne st idx parent model fa = Except.ok st') :
    ∃ cn ci pn pi, splitIdx fa.2 = Except.ok (cn, ci) ∧ splitIdx fa.1 = Except.ok (pn, pi) ∧
      ((cn = "unconn" ∧ netFields st' = netFields st) ∨
       (cn ≠ "unconn" ∧ st' = connect (growPort st model pn (pi + 1)) (Pin.inst idx pn pi) parent cn ci)) := by
  unfold connectOne at h
  obtain ⟨⟨cn, ci⟩, h1, h⟩ := bind_ok h
  obtain ⟨⟨pn, pi⟩, h2, h⟩ := bind_ok h
  refine ⟨cn, ci, pn, pi, h1, h2, ?_⟩
  simp only [] at h
  split at h
  · rename_i hu
    left
    cases h
    exact ⟨hu, rfl⟩
  · rename_i hu
    split at h
    · cases h
    · right
      cases h
      exact ⟨hu, rfl⟩

theorem ext_connectOne {st st' : St} {idx : Nat} {parent model : String} {fa : String × String}
    (h : connectOne st idx parent model fa = Except.ok st') : Ext st st' := by
  obtain ⟨cn, ci, pn, pi, _, _, hc⟩ := connectOne_cases h
  rcases hc with ⟨_, hf⟩ | ⟨_, hs⟩
  · exact Ext.of_fields hf
  · subst hs
    exact Ext.trans (Ext.of_fields (by simp)) (ext_connect _ _ _ _ _)

theorem ext_connectAll {idx : Nat} {parent model : String} (l : List (String × String)) :
    ∀ {st st' : St}, connectAll st idx parent model l = Except.ok st' → Ext st st' := by
  induction l with
  | nil => intro st st' h; cases h; exact Ext.refl _
  | cons fa r ih =>
    intro st st' h
    unfold connectAll at h
    obtain ⟨s1, h1, h⟩ := bind_ok h
    exact Ext.trans (ext_connectOne h1) (ih h)

/-- every `formal=actual` of the list (actual not `unconn`) ends up joined to the named bit -/
theorem connectAll_joins {idx : Nat} {parent model : String} (l : List (String × String)) :
    ∀ {st st' : St}, connectAll st idx parent model l = Except.ok st' →
      ∀ fa ∈ l, ∀ cn ci pn pi, splitIdx fa.2 = Except.ok (cn, ci) → splitIdx fa.1 = Except.ok (pn, pi) →
        cn ≠ "unconn" → Joined st' (Pin.inst idx pn pi) (parent, cn, ci) ∧ Live st' (parent, cn, ci) := by
  induction l with
  | nil => intro st st' _ fa hfa; cases hfa
  | cons fb r ih =>
    intro st st' h0 fa hfa cn ci pn pi e1 e2 hu
    unfold connectAll at h0
    obtain ⟨s1, h1, h⟩ := bind_ok h0
    clear h0
    rcases List.mem_cons.mp hfa with rfl | hmem
    · obtain ⟨cn', ci', pn', pi', e1', e2', hc⟩ := connectOne_cases h1
      rw [e1] at e1'; rw [e2] at e2'
      cases e1'; cases e2'
      rcases hc with ⟨hu', _⟩ | ⟨_, hs⟩
      · exact absurd hu' hu
      · have hj := connect_joins (growPort st model pn (pi + 1)) (Pin.inst idx pn pi) parent cn ci
        rw [← hs] at hj
        have hx := ext_connectAll r h
        exact ⟨hx.joined _ _ hj.1, hx.live _ hj.2⟩
    · exact ih h fa hmem cn ci pn pi e1 e2 hu

theorem nf_declFormal {st st' : St} {model : String} {fa : String × String}
    (h : declFormal st model fa = Except.ok st') : netFields st' = netFields st := by
  unfold declFormal at h
  obtain ⟨⟨pn, pi⟩, _, h⟩ := bind_ok h
  simp only [] at h
  cases h
  split <;> simp

theorem nf_declFormals {model : String} (l : List (String × String)) :
    ∀ {st st' : St}, declFormals st model l = Except.ok st' → netFields st' = netFields st := by
  induction l with
  | nil => intro st st' h; cases h; rfl
  | cons fa r ih =>
    intro st st' h
    unfold declFormals at h
    obtain ⟨s1, h1, h⟩ := bind_ok h
    rw [ih h, nf_declFormal h1]

theorem nf_applyInfo {idx : Nat} {parent : String} (l : List InfoStmt) :
    ∀ {st st' : St}, applyInfo st idx parent l = Except.ok st' → netFields st' = netFields st := by
  induction l with
  | nil => intro st st' h; cases h; rfl
  | cons x r ih =>
    intro st st' h
    cases x with
    | cname n =>
      unfold applyInfo at h
      obtain ⟨s1, h1, h⟩ := bind_ok h
      rw [ih h, nf_renameStrict h1]; rfl
    | attr k v => unfold applyInfo at h; rw [ih h]; rfl
    | param k v => unfold applyInfo at h; rw [ih h]; rfl

/-! ### instance counts (the creation index of an instance is the length before it) -/

@[simp] theorem len_ensureDef (st : St) (n : String) : (ensureDef st n).insts.length = st.insts.length := by
  unfold ensureDef; split <;> rfl
@[simp] theorem len_updDef (st : St) (n : String) (f : DefD → DefD) : (updDef st n f).insts.length = st.insts.length := rfl
@[simp] theorem len_appendPins (st : St) (n : String) (l) : (appendPins st n l).insts.length = st.insts.length := by
  simp [appendPins]
@[simp] theorem len_addPort (st : St) (dn pn : String) (d : Dir) (w : Nat) : (addPort st dn pn d w).insts.length = st.insts.length := by
  unfold addPort; split <;> simp
@[simp] theorem len_growPort (st : St) (dn pn : String) (w : Nat) : (growPort st dn pn w).insts.length = st.insts.length := by
  unfold growPort; simp only []; split <;> simp
@[simp] theorem len_checkHierarchy (st : St) (c d : String) : (checkHierarchy st c d).insts.length = st.insts.length := by
  unfold checkHierarchy; split <;> rfl

theorem len_declFormal {st st' : St} {model : String} {fa : String × String}
    (h : declFormal st model fa = Except.ok st') : st'.insts.length = st.insts.length := by
  unfold declFormal at h
  obtain ⟨⟨pn, pi⟩, _, h⟩ := bind_ok h
  simp only [] at h
  cases h
  split <;> simp

theorem len_declFormals {model : String} (l : List (String × String)) :
    ∀ {st st' : St}, declFormals st model l = Except.ok st' → st'.insts.length = st.insts.length := by
  induction l with
  | nil => intro st st' h; cases h; rfl
  | cons fa r ih =>
    intro st st' h
    unfold declFormals at h
    obtain ⟨s1, h1, h⟩ := bind_ok h
    rw [ih h, len_declFormal h1]

end Spydr.Eblif
