/-
  Exactness of the wire table: pins are on a wire only because a statement declared it.
-/
import Spydr.Eblif.LemmasLive

namespace Spydr.Eblif

theorem Exact.init : Exact ({} : St) [] := by
  intro p k
  simp

/-- pins and alias table -/
def paFields (st : St) := (st.pins, st.alias)

theorem Exact.of_pa {st st' : St} {J : List (Pin × Key)} (h : paFields st' = paFields st) (e : Exact st J) :
    Exact st' J := by
  simp only [paFields, Prod.mk.injEq] at h
  intro p k
  rw [h.1, h.2]
  exact e p k

theorem pa_of_nf {st st' : St} (h : netFields st' = netFields st) : paFields st' = paFields st := by
  simp only [netFields, Prod.mk.injEq] at h
  simp [paFields, h.1, h.2.1]

theorem pa_ensureCable (st : St) (o n : String) : paFields (ensureCable st o n) = paFields st := by
  unfold ensureCable; split <;> rfl
theorem pa_ensureWire (st : St) (o n : String) (i : Nat) : paFields (ensureWire st o n i) = paFields st := by
  unfold ensureWire; simp only []; split
  · exact pa_ensureCable st o n
  · exact pa_ensureCable st o n

theorem exact_connect {st : St} {J : List (Pin × Key)} (e : Exact st J) (q : Pin) (o n : String) (i : Nat) :
    Exact (connect st q o n i) (J ++ [(q, (o, n, i))]) := by
  have hpa := pa_ensureWire st o n i
  simp only [paFields, Prod.mk.injEq] at hpa
  intro p k
  unfold connect
  simp only [upd, hpa.1, hpa.2, List.mem_append, List.mem_singleton, Prod.mk.injEq]
  constructor
  · intro h
    split at h
    · rename_i hk
      rcases List.mem_append.mp h with h | h
      · obtain ⟨k', h1, h2⟩ := (e p _).mp h
        exact ⟨k', Or.inl h1, by rw [h2, hk]⟩
      · simp only [List.mem_singleton] at h
        exact ⟨(o, n, i), Or.inr ⟨h, rfl⟩, hk.symm⟩
    · obtain ⟨k', h1, h2⟩ := (e p k).mp h
      exact ⟨k', Or.inl h1, h2⟩
  · rintro ⟨k', h1, h2⟩
    rcases h1 with h1 | ⟨hp, hk'⟩
    · have := (e p k).mpr ⟨k', h1, h2⟩
      split
      · rename_i hk; rw [hk] at this; exact List.mem_append.mpr (Or.inl this)
      · exact this
    · subst hp; subst hk'
      simp [h2]

theorem exact_mergeKeys {st : St} {J : List (Pin × Key)} (e : Exact st J) (ka kb : Key) :
    Exact (mergeKeys st ka kb) J := by
  unfold mergeKeys
  simp only []
  split
  · exact e
  · rename_i hne
    intro p k
    simp only [upd]
    by_cases hb : k = st.alias kb
    · subst hb
      simp only [if_true]
      constructor
      · intro h; cases h
      · rintro ⟨k', _, h2⟩
        split at h2
        · exact absurd h2 hne
        · rename_i h3; exact absurd h2 h3
    · simp only [hb, if_false]
      by_cases ha : k = st.alias ka
      · subst ha
        simp only [if_true]
        constructor
        · intro h
          rcases List.mem_append.mp h with h | h
          · obtain ⟨k', h1, h2⟩ := (e p _).mp h
            refine ⟨k', h1, ?_⟩
            split
            · rfl
            · exact h2
          · obtain ⟨k', h1, h2⟩ := (e p _).mp h
            exact ⟨k', h1, by simp [h2]⟩
        · rintro ⟨k', h1, h2⟩
          split at h2
          · rename_i h3
            exact List.mem_append.mpr (Or.inr ((e p _).mpr ⟨k', h1, h3⟩))
          · exact List.mem_append.mpr (Or.inl ((e p _).mpr ⟨k', h1, h2⟩))
      · simp only [ha, if_false]
        constructor
        · intro h
          obtain ⟨k', h1, h2⟩ := (e p k).mp h
          refine ⟨k', h1, ?_⟩
          split
          · rename_i h3; rw [h3] at h2; exact absurd h2.symm hb
          · exact h2
        · rintro ⟨k', h1, h2⟩
          split at h2
          · exact absurd h2.symm ha
          · exact (e p k).mpr ⟨k', h1, h2⟩

theorem exact_connectOne {st st' : St} {J : List (Pin × Key)} {idx : Nat} {parent model : String}
    {fa : String × String} (e : Exact st J) (h : connectOne st idx parent model fa = Except.ok st') :
    Exact st' (J ++ joinOf idx parent fa) := by
  obtain ⟨cn, ci, pn, pi, e1, e2, hc⟩ := connectOne_cases h
  unfold joinOf
  rw [e1, e2]
  simp only []
  rcases hc with ⟨hu, hf⟩ | ⟨hu, hs⟩
  · simp only [hu, if_true, List.append_nil]
    exact Exact.of_pa (pa_of_nf hf) e
  · simp only [hu, if_false]
    subst hs
    exact exact_connect (Exact.of_pa (pa_of_nf (by simp)) e) _ _ _ _

theorem exact_connectAll {idx : Nat} {parent model : String} (l : List (String × String)) :
    ∀ {st st' : St} {J : List (Pin × Key)}, Exact st J → connectAll st idx parent model l = Except.ok st' →
      Exact st' (J ++ l.flatMap (joinOf idx parent)) := by
  induction l with
  | nil => intro st st' J e h; cases h; simpa using e
  | cons fa r ih =>
    intro st st' J e h
    unfold connectAll at h
    obtain ⟨s1, h1, h⟩ := bind_ok h
    have := ih (exact_connectOne e h1) h
    simpa [List.flatMap_cons, List.append_assoc] using this

theorem len_of_ik {a b : St} (h : instKinds a = instKinds b) : a.insts.length = b.insts.length := by
  have := congrArg List.length h
  simpa [instKinds] using this

theorem exact_elabStmt {st st' : St} {J : List (Pin × Key)} {cur : String} {s : Stmt}
    (hs : s ≠ Stmt.blackbox) (e : Exact st J) (h : elabStmt st cur s = Except.ok st') :
    Exact st' (J ++ stmtJoins st cur s) := by
  cases s with
  | subckt gate model conns info =>
    unfold elabStmt at h
    simp only [] at h
    obtain ⟨s1, h1, h⟩ := bind_ok h
    obtain ⟨s2, h2, h⟩ := bind_ok h
    rw [newInst_snd] at h2 h
    have hlen : s1.insts.length = st.insts.length := by rw [len_declFormals conns h1]; simp
    have e1 : Exact s1 J := Exact.of_pa (pa_of_nf (by rw [nf_declFormals conns h1]; simp)) e
    have e1' := Exact.of_pa (pa_of_nf ((nf_assignDefault _ s1.insts.length cur model).trans
      (nf_newInst s1 cur model (if gate then "EBLIF.gate" else "EBLIF.subckt")))) e1
    have e2 := exact_connectAll _ e1' h2
    have e3 := Exact.of_pa (pa_of_nf (nf_applyInfo info h)) e2
    rw [hlen] at e3
    exact e3
  | names nets covers info =>
    unfold elabStmt at h
    simp only [] at h
    split at h
    · cases h
    · obtain ⟨s1, h1, h⟩ := bind_ok h
      obtain ⟨s2, h2, h⟩ := bind_ok h
      rw [newInst_snd] at h1 h2 h
      have hlen : (addNamesPorts (ensureDef st ("logic-gate_" ++ natStr (nets.length - 1)))
          ("logic-gate_" ++ natStr (nets.length - 1)) (nets.length - 1)).insts.length = st.insts.length :=
        len_of_ik ((ik_addNamesPorts _ _ _).trans (ik_ensureDef _ _))
      have e1 : Exact s1 J := by
        split at h1
        · cases h1
          exact Exact.of_pa (pa_of_nf ((nf_assignDefault _ _ _ _).trans ((nf_updInst _ _ _).trans
            ((nf_newInst _ _ _ _).trans ((nf_addNamesPorts _ _ _).trans (nf_ensureDef _ _)))))) e
        · exact Exact.of_pa (pa_of_nf ((nf_rename h1).trans ((nf_updInst _ _ _).trans
            ((nf_newInst _ _ _ _).trans ((nf_addNamesPorts _ _ _).trans (nf_ensureDef _ _)))))) e
      have e2 := exact_connectAll _ e1 h2
      have e3 := Exact.of_pa (pa_of_nf (nf_applyInfo info h)) e2
      rw [hlen] at e3
      exact e3
  | latch toks info =>
    unfold elabStmt at h
    simp only [] at h
    split at h
    · cases h
    · obtain ⟨s1, h1, h⟩ := bind_ok h
      obtain ⟨s2, h2, h⟩ := bind_ok h
      rw [newInst_snd] at h1 h2 h
      have hlen : (addLatchPorts (ensureDef st "generic-latch") (List.map (·.1) (latchOrder.zip toks))).insts.length
          = st.insts.length := len_of_ik ((ik_addLatchPorts _ _).trans (ik_ensureDef _ _))
      have e1 : Exact s1 J := Exact.of_pa (pa_of_nf ((nf_rename h1).trans
        ((nf_newInst _ _ _ _).trans ((nf_addLatchPorts _ _).trans (nf_ensureDef _ _))))) e
      have e2 := exact_connectAll _ e1 h2
      have e3 := Exact.of_pa (pa_of_nf (nf_applyInfo info h)) e2
      rw [hlen] at e3
      exact e3
  | conn a b =>
    unfold elabStmt at h
    obtain ⟨⟨n1, i1⟩, _, h⟩ := bind_ok h
    obtain ⟨⟨n2, i2⟩, _, h⟩ := bind_ok h
    simp only [] at h
    cases h
    simp only [stmtJoins, List.append_nil]
    exact exact_mergeKeys (Exact.of_pa ((pa_ensureWire _ _ _ _).trans (pa_ensureWire _ _ _ _)) e) _ _
  | blackbox => exact absurd rfl hs

theorem exact_elabStmts {cur : String} (l : List Stmt) (hl : ∀ s ∈ l, s ≠ Stmt.blackbox) :
    ∀ {st st' : St} {J : List (Pin × Key)}, Exact st J → elabStmts st cur l = Except.ok st' →
      Exact st' (J ++ bodyJoins st cur l) := by
  induction l with
  | nil => intro st st' J e h; cases h; simpa [bodyJoins] using e
  | cons s r ih =>
    intro st st' J e h
    unfold elabStmts at h
    obtain ⟨s1, h1, h⟩ := bind_ok h
    have := ih (fun x hx => hl x (by simp [hx])) (exact_elabStmt (hl s (by simp)) e h1) h
    simp only [bodyJoins, h1]
    simpa [List.append_assoc] using this

end Spydr.Eblif

namespace Spydr.Eblif

/-- every pin is declared for at most one net bit -/
def Functional (J : List (Pin × Key)) : Prop := ∀ p k1 k2, (p, k1) ∈ J → (p, k2) ∈ J → k1 = k2

theorem exact_one_wire {st : St} {J : List (Pin × Key)} (e : Exact st J) (f : Functional J)
    {p : Pin} {k1 k2 : Key} (h1 : p ∈ st.pins k1) (h2 : p ∈ st.pins k2) : k1 = k2 := by
  obtain ⟨a, ha, ea⟩ := (e p k1).mp h1
  obtain ⟨b, hb, eb⟩ := (e p k2).mp h2
  rw [← ea, ← eb, f p a b ha hb]

/-- the pairs one statement declares for its instance `n` (state-free kinds only) -/
def stmtPairs (n : Nat) (cur : String) : Stmt → List (Pin × Key)
  | Stmt.subckt _ _ conns _ => (infoMapOf conns).flatMap (joinOf n cur)
  | Stmt.latch toks _ => (latchOrder.zip toks).flatMap (joinOf n cur)
  | _ => []

theorem joinOf_idx {n : Nat} {cur : String} {fa : String × String} {p : Pin} {k : Key}
    (h : (p, k) ∈ joinOf n cur fa) : ∃ pn pi, p = Pin.inst n pn pi := by
  unfold joinOf at h
  split at h
  · split at h
    · cases h
    · simp only [List.mem_singleton, Prod.mk.injEq] at h
      exact ⟨_, _, h.1⟩
  · cases h

theorem flatMap_joinOf_idx {n : Nat} {cur : String} {l : List (String × String)} {p : Pin} {k : Key}
    (h : (p, k) ∈ l.flatMap (joinOf n cur)) : ∃ pn pi, p = Pin.inst n pn pi := by
  obtain ⟨fa, _, h⟩ := List.mem_flatMap.mp h
  exact joinOf_idx h

theorem stmtPairs_idx {n : Nat} {cur : String} {s : Stmt} {p : Pin} {k : Key}
    (h : (p, k) ∈ stmtPairs n cur s) : ∃ pn pi, p = Pin.inst n pn pi := by
  cases s <;> simp only [stmtPairs] at h
  · exact flatMap_joinOf_idx h
  · cases h
  · exact flatMap_joinOf_idx h
  · cases h
  · cases h

theorem declaredJoins_idx (cur : String) (body : List Stmt) :
    ∀ (n : Nat) {p : Pin} {k : Key}, (p, k) ∈ declaredJoins n cur body → ∃ m pn pi, n ≤ m ∧ p = Pin.inst m pn pi := by
  induction body with
  | nil => intro n p k h; cases h
  | cons s r ih =>
    intro n p k h
    cases s with
    | subckt g m c i =>
      simp only [declaredJoins, List.mem_append] at h
      rcases h with h | h
      · obtain ⟨pn, pi, e⟩ := flatMap_joinOf_idx h; exact ⟨n, pn, pi, Nat.le_refl _, e⟩
      · obtain ⟨m', pn, pi, hle, e⟩ := ih (n + 1) h; exact ⟨m', pn, pi, by omega, e⟩
    | latch t i =>
      simp only [declaredJoins, List.mem_append] at h
      rcases h with h | h
      · obtain ⟨pn, pi, e⟩ := flatMap_joinOf_idx h; exact ⟨n, pn, pi, Nat.le_refl _, e⟩
      · obtain ⟨m', pn, pi, hle, e⟩ := ih (n + 1) h; exact ⟨m', pn, pi, by omega, e⟩
    | names a b c =>
      simp only [declaredJoins] at h
      obtain ⟨m', pn, pi, hle, e⟩ := ih (n + 1) h; exact ⟨m', pn, pi, by omega, e⟩
    | conn a b => simp only [declaredJoins] at h; exact ih n h
    | blackbox => simp only [declaredJoins] at h; exact ih n h

/-- if within every statement no pin is named twice, no pin is declared for two bits at all -/
theorem declaredJoins_functional (cur : String) (body : List Stmt)
    (hb : ∀ s ∈ body, ∀ n, Functional (stmtPairs n cur s)) :
    ∀ n, Functional (declaredJoins n cur body) := by
  induction body with
  | nil => intro n p k1 k2 h; cases h
  | cons s r ih =>
    have ihr := ih (fun x hx => hb x (by simp [hx]))
    have hs := hb s (by simp)
    intro n p k1 k2 h1 h2
    cases s with
    | subckt g m c i =>
      simp only [declaredJoins, List.mem_append] at h1 h2
      rcases h1 with h1 | h1 <;> rcases h2 with h2 | h2
      · exact hs n p k1 k2 h1 h2
      · obtain ⟨pn, pi, e⟩ := flatMap_joinOf_idx h1
        obtain ⟨m', pn', pi', hle, e'⟩ := declaredJoins_idx cur r (n + 1) h2
        rw [e] at e'; cases e'; omega
      · obtain ⟨pn, pi, e⟩ := flatMap_joinOf_idx h2
        obtain ⟨m', pn', pi', hle, e'⟩ := declaredJoins_idx cur r (n + 1) h1
        rw [e] at e'; cases e'; omega
      · exact ihr (n + 1) p k1 k2 h1 h2
    | latch t i =>
      simp only [declaredJoins, List.mem_append] at h1 h2
      rcases h1 with h1 | h1 <;> rcases h2 with h2 | h2
      · exact hs n p k1 k2 h1 h2
      · obtain ⟨pn, pi, e⟩ := flatMap_joinOf_idx h1
        obtain ⟨m', pn', pi', hle, e'⟩ := declaredJoins_idx cur r (n + 1) h2
        rw [e] at e'; cases e'; omega
      · obtain ⟨pn, pi, e⟩ := flatMap_joinOf_idx h2
        obtain ⟨m', pn', pi', hle, e'⟩ := declaredJoins_idx cur r (n + 1) h1
        rw [e] at e'; cases e'; omega
      · exact ihr (n + 1) p k1 k2 h1 h2
    | names a b c => simp only [declaredJoins] at h1 h2; exact ihr (n + 1) p k1 k2 h1 h2
    | conn a b => simp only [declaredJoins] at h1 h2; exact ihr n p k1 k2 h1 h2
    | blackbox => simp only [declaredJoins] at h1 h2; exact ihr n p k1 k2 h1 h2

def noNames : Stmt → Bool
  | Stmt.names _ _ _ => false
  | _ => true

/-- for bodies without `.names` the declared joins do not depend on the state but for the count -/
theorem bodyJoins_closed (cur : String) (body : List Stmt) (hn : ∀ s ∈ body, noNames s = true) :
    ∀ {st st' : St}, elabStmts st cur body = Except.ok st' →
      bodyJoins st cur body = declaredJoins st.insts.length cur body := by
  induction body with
  | nil => intro st st' _; rfl
  | cons s r ih =>
    intro st st' h
    unfold elabStmts at h
    obtain ⟨s1, h1, h⟩ := bind_ok h
    have ihr := ih (fun x hx => hn x (by simp [hx])) h
    simp only [bodyJoins, h1]
    rw [ihr]
    cases s with
    | subckt g m c i =>
      have : s1.insts.length = st.insts.length + 1 := by
        have := congrArg List.length (ik_elabStmt h1); simpa [instKinds, stmtKind] using this
      simp [stmtJoins, declaredJoins, this]
    | latch t i =>
      have : s1.insts.length = st.insts.length + 1 := by
        have := congrArg List.length (ik_elabStmt h1); simpa [instKinds, stmtKind] using this
      simp [stmtJoins, declaredJoins, this]
    | names a b c =>
      have hx := hn (Stmt.names a b c) (by simp)
      simp [noNames] at hx
    | conn a b =>
      have : s1.insts.length = st.insts.length := by
        have := congrArg List.length (ik_elabStmt h1); simpa [instKinds, stmtKind] using this
      simp [stmtJoins, declaredJoins, this]
    | blackbox =>
      have : s1.insts.length = st.insts.length := by
        have := congrArg List.length (ik_elabStmt h1); simpa [instKinds, stmtKind] using this
      simp [stmtJoins, declaredJoins, this]

end Spydr.Eblif
