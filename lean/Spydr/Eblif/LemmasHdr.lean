/-
  Header ports: each `.inputs` / `.outputs` word gives the model a port of that name with the
  right direction, wide enough, whose pin is joined to the net bit of the same name.
-/
import Spydr.Eblif.LemmasData2

namespace Spydr.Eblif

def findIn (ps : List PortD) (pn : String) : Option PortD := ps.find? (fun q => q.name = pn)

theorem findDef_updDef_self (st : St) (n : String) (f : DefD → DefD) (hf : ∀ d, (f d).name = d.name) :
    findDef (updDef st n f) n = (findDef st n).map f := by
  unfold findDef updDef
  simp only [List.find?_map]
  have hp : ((fun d : DefD => decide (d.name = n)) ∘ fun d => if d.name = n then f d else d) =
      (fun d : DefD => decide (d.name = n)) := by
    funext d
    simp only [Function.comp]
    split
    · rename_i h; simp [hf, h]
    · rfl
  rw [hp]
  cases hfd : st.defs.find? (fun d => decide (d.name = n)) with
  | none => rfl
  | some d =>
    have := List.find?_some hfd
    simp only [decide_eq_true_eq] at this
    simp [this]

/-- the ports of definition `dn` -/
def portsOf (st : St) (dn : String) : List PortD :=
  match findDef st dn with
  | some d => d.ports
  | none => []

theorem portDir_eq (st : St) (dn pn : String) :
    portDir st dn pn = (match findIn (portsOf st dn) pn with | some p => p.dir | none => Dir.undef) := by
  unfold portDir portsOf findIn findPort
  cases findDef st dn <;> rfl

theorem portWidth_eq (st : St) (dn pn : String) :
    portWidth st dn pn = (match findIn (portsOf st dn) pn with | some p => p.width | none => 0) := by
  unfold portWidth portsOf findIn findPort
  cases findDef st dn <;> rfl

theorem hasPort_eq (st : St) (dn pn : String) : hasPort st dn pn = (findIn (portsOf st dn) pn).isSome := by
  unfold hasPort portsOf findIn findPort
  cases findDef st dn <;> simp

theorem portsOf_updPorts (st : St) (dn : String) (g : List PortD → List PortD) (hd : (findDef st dn).isSome) :
    portsOf (updDef st dn (fun d => { d with ports := g d.ports })) dn = g (portsOf st dn) := by
  unfold portsOf
  have e := findDef_updDef_self st dn (fun d => { d with ports := g d.ports }) (fun _ => rfl)
  rw [e]
  cases h : findDef st dn with
  | none => simp [h] at hd
  | some d => rfl

theorem portsOf_of_defs {a b : St} (h : b.defs = a.defs) (dn : String) : portsOf b dn = portsOf a dn := by
  simp [portsOf, findDef, h]

theorem findDef_of_defs {a b : St} (h : b.defs = a.defs) (dn : String) : findDef b dn = findDef a dn := by
  simp [findDef, h]

theorem findIn_map_same (ps : List PortD) (pn : String) (g : PortD → PortD) (hg : ∀ p, (g p).name = p.name) :
    findIn (ps.map g) pn = (findIn ps pn).map g := by
  unfold findIn
  rw [List.find?_map]
  have : ((fun q : PortD => decide (q.name = pn)) ∘ g) = (fun q : PortD => decide (q.name = pn)) := by
    funext p; simp [Function.comp, hg]
  rw [this]

theorem defs_appendPins (st : St) (n : String) (l) : (appendPins st n l).defs = st.defs := rfl
theorem defs_connect (st : St) (p : Pin) (o n : String) (i : Nat) : (connect st p o n i).defs = st.defs := by
  unfold connect ensureWire ensureCable
  simp only []
  split <;> split <;> rfl

theorem isSome_updDef (st : St) (n : String) (f : DefD → DefD) (hf : ∀ d, (f d).name = d.name)
    (hd : (findDef st n).isSome) : (findDef (updDef st n f) n).isSome := by
  rw [findDef_updDef_self _ _ _ hf]
  cases h : findDef st n with
  | none => simp [h] at hd
  | some d => rfl

/-- facts about one port of one definition after `growPort` -/
theorem growPort_port (st : St) (dn pn : String) (w : Nat) (hd : (findDef st dn).isSome) :
    portDir (growPort st dn pn w) dn pn = portDir st dn pn ∧
    (hasPort st dn pn = true → w ≤ portWidth (growPort st dn pn w) dn pn) ∧
    (findDef (growPort st dn pn w) dn).isSome := by
  unfold growPort
  simp only []
  split
  · rename_i hle
    exact ⟨rfl, fun _ => hle, hd⟩
  · rename_i hlt
    have hp := portsOf_updPorts st dn (fun ps => ps.map (fun p => if p.name = pn then { p with width := w } else p)) hd
    have hps : portsOf (appendPins (updDef st dn (fun d => { d with ports := d.ports.map (fun p => if p.name = pn then { p with width := w } else p) })) dn
        (bitsFrom pn (portWidth st dn pn) w)) dn = (portsOf st dn).map (fun p => if p.name = pn then { p with width := w } else p) := by
      rw [portsOf_of_defs (defs_appendPins _ _ _)]; exact hp
    have hg : ∀ p : PortD, (if p.name = pn then { p with width := w } else p).name = p.name := by
      intro p; split <;> rfl
    refine ⟨?_, ?_, ?_⟩
    · rw [portDir_eq, portDir_eq, hps, findIn_map_same _ _ _ hg]
      cases findIn (portsOf st dn) pn with
      | none => rfl
      | some p => simp only [Option.map_some]; split <;> rfl
    · intro hh
      rw [portWidth_eq, hps, findIn_map_same _ _ _ hg]
      rw [hasPort_eq] at hh
      cases hf : findIn (portsOf st dn) pn with
      | none => simp [hf] at hh
      | some p =>
        have hn : p.name = pn := by
          have := List.find?_some hf
          simpa using this
        simp [hn]
    · rw [findDef_of_defs (defs_appendPins _ _ _)]
      exact isSome_updDef _ _ _ (fun _ => rfl) hd

theorem setDir_port (st : St) (dn pn : String) (dir : Dir) (hd : (findDef st dn).isSome) (hh : hasPort st dn pn = true) :
    portDir (setDir st dn pn dir) dn pn = dir ∧ hasPort (setDir st dn pn dir) dn pn = true ∧
    (findDef (setDir st dn pn dir) dn).isSome := by
  have hp := portsOf_updPorts st dn (fun ps => ps.map (fun p => if p.name = pn then { p with dir := dir } else p)) hd
  have hg : ∀ p : PortD, (if p.name = pn then { p with dir := dir } else p).name = p.name := by
    intro p; split <;> rfl
  rw [hasPort_eq] at hh
  unfold setDir
  refine ⟨?_, ?_, isSome_updDef _ _ _ (fun _ => rfl) hd⟩
  · rw [portDir_eq, hp, findIn_map_same _ _ _ hg]
    cases hf : findIn (portsOf st dn) pn with
    | none => simp [hf] at hh
    | some p =>
      have hn : p.name = pn := by
        have := List.find?_some hf
        simpa using this
      simp [hn]
  · rw [hasPort_eq, hp, findIn_map_same _ _ _ hg]
    cases hf : findIn (portsOf st dn) pn with
    | none => simp [hf] at hh
    | some p => rfl

theorem addPort_port (st : St) (dn pn : String) (dir : Dir) (w : Nat) (hd : (findDef st dn).isSome)
    (hh : hasPort st dn pn = false) :
    portDir (addPort st dn pn dir w) dn pn = dir ∧ hasPort (addPort st dn pn dir w) dn pn = true ∧
    (findDef (addPort st dn pn dir w) dn).isSome := by
  unfold addPort
  simp only [hh, Bool.false_eq_true, if_false]
  have hp := portsOf_updPorts st dn (fun ps => ps ++ [{ name := pn, dir := dir, width := w }]) hd
  have hps : portsOf (appendPins (updDef st dn (fun d => { d with ports := d.ports ++ [{ name := pn, dir := dir, width := w }] })) dn
      (bitsFrom pn 0 w)) dn = portsOf st dn ++ [{ name := pn, dir := dir, width := w }] := by
    rw [portsOf_of_defs (defs_appendPins _ _ _)]; exact hp
  rw [hasPort_eq] at hh
  have hnone : findIn (portsOf st dn) pn = none := by
    cases h : findIn (portsOf st dn) pn with
    | none => rfl
    | some p => simp [h] at hh
  refine ⟨?_, ?_, ?_⟩
  · rw [portDir_eq, hps]
    unfold findIn at hnone ⊢
    rw [List.find?_append, hnone]
    simp
  · rw [hasPort_eq, hps]
    unfold findIn at hnone ⊢
    rw [List.find?_append, hnone]
    simp
  · rw [findDef_of_defs (defs_appendPins _ _ _)]
    exact isSome_updDef _ _ _ (fun _ => rfl) hd

/-- `.inputs word`: the model has port `pn` with direction IN, more than `pi` pins, and pin `pi`
    of it is on net bit (model, pn, pi), whose cable exists -/
theorem elabInput_port {st st' : St} {cur tok pn : String} {pi : Nat} (hd : (findDef st cur).isSome)
    (hs : splitIdx tok = Except.ok (pn, pi)) (h : elabInput st cur tok = Except.ok st') :
    portDir st' cur pn = Dir.inp ∧ pi < portWidth st' cur pn ∧
    Joined st' (Pin.top cur pn pi) (cur, pn, pi) ∧ Live st' (cur, pn, pi) := by
  unfold elabInput at h
  rw [hs] at h
  simp only [bind, Except.bind, pure, Except.pure] at h
  cases h
  have hj := connect_joins (growPort (if hasPort st cur pn = true then setDir st cur pn Dir.inp else addPort st cur pn Dir.inp 0) cur pn (pi + 1))
    (Pin.top cur pn pi) cur pn pi
  refine ⟨?_, ?_, hj.1, hj.2⟩
  · unfold portDir
    rw [findDef_of_defs (defs_connect _ _ _ _ _)]
    show portDir _ cur pn = Dir.inp
    by_cases hh : hasPort st cur pn = true
    · simp only [hh, if_true]
      obtain ⟨h1, h2, h3⟩ := setDir_port st cur pn Dir.inp hd hh
      rw [(growPort_port _ cur pn (pi + 1) h3).1, h1]
    · have hf : hasPort st cur pn = false := by simpa using hh
      simp only [hf, Bool.false_eq_true, if_false]
      obtain ⟨h1, h2, h3⟩ := addPort_port st cur pn Dir.inp 0 hd hf
      rw [(growPort_port _ cur pn (pi + 1) h3).1, h1]
  · unfold portWidth
    rw [findDef_of_defs (defs_connect _ _ _ _ _)]
    show pi < portWidth _ cur pn
    by_cases hh : hasPort st cur pn = true
    · simp only [hh, if_true]
      obtain ⟨h1, h2, h3⟩ := setDir_port st cur pn Dir.inp hd hh
      have := (growPort_port _ cur pn (pi + 1) h3).2.1 h2
      omega
    · have hf : hasPort st cur pn = false := by simpa using hh
      simp only [hf, Bool.false_eq_true, if_false]
      obtain ⟨h1, h2, h3⟩ := addPort_port st cur pn Dir.inp 0 hd hf
      have := (growPort_port _ cur pn (pi + 1) h3).2.1 h2
      omega

theorem addPort_has (st : St) (dn pn : String) (dir : Dir) (w : Nat) (hd : (findDef st dn).isSome) :
    hasPort (addPort st dn pn dir w) dn pn = true ∧ (findDef (addPort st dn pn dir w) dn).isSome := by
  by_cases hh : hasPort st dn pn = true
  · have : addPort st dn pn dir w = st := by unfold addPort; simp [hh]
    rw [this]; exact ⟨hh, hd⟩
  · have hf : hasPort st dn pn = false := by simpa using hh
    obtain ⟨_, h2, h3⟩ := addPort_port st dn pn dir w hd hf
    exact ⟨h2, h3⟩

/-- `.outputs word`: port `pn` is OUT (INOUT when it was an input before), has more than `pi`
    pins, and -- unless it was already joined as an input -- pin `pi` is on net bit (model, pn, pi) -/
theorem elabOutput_port {st st' : St} {cur tok pn : String} {pi : Nat} (hd : (findDef st cur).isSome)
    (hs : splitIdx tok = Except.ok (pn, pi)) (h : elabOutput st cur tok = Except.ok st') :
    pi < portWidth st' cur pn ∧
    ((portDir st' cur pn = Dir.out ∧ Joined st' (Pin.top cur pn pi) (cur, pn, pi) ∧ Live st' (cur, pn, pi)) ∨
     (portDir st' cur pn = Dir.inout ∧
       (portDir (addPort st cur pn Dir.out 0) cur pn = Dir.inp ∨ portDir (addPort st cur pn Dir.out 0) cur pn = Dir.inout))) := by
  unfold elabOutput at h
  rw [hs] at h
  simp only [bind, Except.bind, pure, Except.pure] at h
  obtain ⟨hh0, hd0⟩ := addPort_has st cur pn Dir.out 0 hd
  split at h
  · rename_i hio
    cases h
    obtain ⟨h1, h2, h3⟩ := setDir_port _ cur pn Dir.inout hd0 hh0
    obtain ⟨g1, g2, _⟩ := growPort_port _ cur pn (pi + 1) h3
    refine ⟨by have := g2 h2; omega, Or.inr ⟨by rw [g1, h1], ?_⟩⟩
    simpa using hio
  · cases h
    obtain ⟨h1, h2, h3⟩ := setDir_port _ cur pn Dir.out hd0 hh0
    obtain ⟨g1, g2, _⟩ := growPort_port _ cur pn (pi + 1) h3
    have hj := connect_joins (growPort (setDir (addPort st cur pn Dir.out 0) cur pn Dir.out) cur pn (pi + 1))
      (Pin.top cur pn pi) cur pn pi
    refine ⟨?_, Or.inl ⟨?_, hj.1, hj.2⟩⟩
    · unfold portWidth
      rw [findDef_of_defs (defs_connect _ _ _ _ _)]
      show pi < portWidth _ cur pn
      have := g2 h2; omega
    · unfold portDir
      rw [findDef_of_defs (defs_connect _ _ _ _ _)]
      show portDir _ cur pn = Dir.out
      rw [g1, h1]

/-! ### what the header joins stays joined -/

theorem ext_elabInput {st st' : St} {cur tok : String} (h : elabInput st cur tok = Except.ok st') : Ext st st' := by
  unfold elabInput at h
  obtain ⟨⟨pn, pi⟩, _, h⟩ := bind_ok h
  simp only [] at h
  cases h
  refine Ext.trans (Ext.of_fields ?_) (ext_connect _ _ _ _ _)
  rw [nf_growPort]
  split <;> simp

theorem ext_elabOutput {st st' : St} {cur tok : String} (h : elabOutput st cur tok = Except.ok st') : Ext st st' := by
  unfold elabOutput at h
  obtain ⟨⟨pn, pi⟩, _, h⟩ := bind_ok h
  simp only [] at h
  split at h
  · cases h; exact Ext.of_fields (by simp)
  · cases h
    exact Ext.trans (Ext.of_fields (by simp)) (ext_connect _ _ _ _ _)

theorem ext_elabToks (f : St → String → String → Except Err St)
    (hf : ∀ {st st' : St} {cur tok : String}, f st cur tok = Except.ok st' → Ext st st')
    {cur : String} (l : List String) :
    ∀ {st st' : St}, elabToks f st cur l = Except.ok st' → Ext st st' := by
  induction l with
  | nil => intro st st' h; cases h; exact Ext.refl _
  | cons t r ih =>
    intro st st' h
    unfold elabToks at h
    obtain ⟨s1, h1, h⟩ := bind_ok h
    exact Ext.trans (hf h1) (ih h)

theorem ext_elabHdrs {cur : String} (l : List Hdr) :
    ∀ {st st' : St}, elabHdrs st cur l = Except.ok st' → Ext st st' := by
  induction l with
  | nil => intro st st' h; cases h; exact Ext.refl _
  | cons x r ih =>
    intro st st' h
    unfold elabHdrs at h
    obtain ⟨s1, h1, h⟩ := bind_ok h
    refine Ext.trans ?_ (ih h)
    cases x with
    | inputs l => exact ext_elabToks elabInput (fun h => ext_elabInput h) l h1
    | outputs l => exact ext_elabToks elabOutput (fun h => ext_elabOutput h) l h1
    | clock l => unfold elabHdr at h1; cases h1; exact Ext.of_fields (nf_updDef _ _ _)

end Spydr.Eblif
