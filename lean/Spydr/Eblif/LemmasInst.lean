/-
  Instance bookkeeping of the EBLIF elaborator: every statement adds exactly the instances the
  property names, and nothing ever changes parent / model / type of an existing instance.
  Black-box facts.
-/
import Spydr.Eblif.LemmasStmt

namespace Spydr.Eblif

theorem map_updIdx (l : List Inst) (idx : Nat) (f : Inst → Inst) (hf : ∀ i, kindOf (f i) = kindOf i) :
    (l.zipIdx.map (fun (p : Inst × Nat) => if p.2 = idx then f p.1 else p.1)).map kindOf = l.map kindOf := by
  rw [List.map_map]
  have : (kindOf ∘ fun (p : Inst × Nat) => if p.2 = idx then f p.1 else p.1) = kindOf ∘ Prod.fst := by
    funext p
    simp only [Function.comp]
    split
    · exact hf _
    · rfl
  rw [this, ← List.map_map, List.zipIdx_map_fst]

theorem ik_updInst (st : St) (idx : Nat) (f : Inst → Inst) (hf : ∀ i, kindOf (f i) = kindOf i) :
    instKinds (updInst st idx f) = instKinds st := map_updIdx st.insts idx f hf

@[simp] theorem ik_ensureDef (st : St) (n : String) : instKinds (ensureDef st n) = instKinds st := by
  unfold ensureDef; split <;> rfl
@[simp] theorem ik_updDef (st : St) (n : String) (f : DefD → DefD) : instKinds (updDef st n f) = instKinds st := rfl
@[simp] theorem ik_appendPins (st : St) (n : String) (l) : instKinds (appendPins st n l) = instKinds st := by
  simp only [instKinds, appendPins, List.map_map]
  congr 1
  funext i
  simp only [Function.comp]
  split <;> rfl
@[simp] theorem ik_addPort (st : St) (dn pn : String) (d : Dir) (w : Nat) : instKinds (addPort st dn pn d w) = instKinds st := by
  unfold addPort; split <;> simp
@[simp] theorem ik_setDir (st : St) (dn pn : String) (d : Dir) : instKinds (setDir st dn pn d) = instKinds st := rfl
@[simp] theorem ik_growPort (st : St) (dn pn : String) (w : Nat) : instKinds (growPort st dn pn w) = instKinds st := by
  unfold growPort; simp only []; split <;> simp
@[simp] theorem ik_checkHierarchy (st : St) (c d : String) : instKinds (checkHierarchy st c d) = instKinds st := by
  unfold checkHierarchy; split <;> rfl
@[simp] theorem ik_ensureCable (st : St) (o n : String) : instKinds (ensureCable st o n) = instKinds st := by
  unfold ensureCable; split <;> rfl
@[simp] theorem ik_ensureWire (st : St) (o n : String) (i : Nat) : instKinds (ensureWire st o n i) = instKinds st := by
  unfold ensureWire; simp only []; split <;> simp [instKinds] <;> exact ik_ensureCable st o n
@[simp] theorem ik_connect (st : St) (p : Pin) (o n : String) (i : Nat) : instKinds (connect st p o n i) = instKinds st := by
  unfold connect; exact ik_ensureWire st o n i
@[simp] theorem ik_mergeKeys (st : St) (a b : Key) : instKinds (mergeKeys st a b) = instKinds st := by
  unfold mergeKeys; simp only []; split <;> rfl
@[simp] theorem ik_clearOwner (st : St) (o : String) : instKinds (clearOwner st o) = instKinds st := rfl
@[simp] theorem ik_assignDefault (st : St) (i : Nat) (p m : String) : instKinds (assignDefault st i p m) = instKinds st := by
  unfold assignDefault
  exact ik_updInst _ _ _ (fun _ => rfl)
theorem ik_newInst (st : St) (p m t : String) : instKinds (newInst st p m t).1 = instKinds st ++ [(p, m, t)] := by
  simp [instKinds, newInst]

theorem ik_renameStrict {st st' : St} {i : Nat} {p n : String} (h : renameStrict st i p n = Except.ok st') :
    instKinds st' = instKinds st := by
  unfold renameStrict at h
  split at h
  · cases h
  · cases h; exact ik_updInst _ _ _ (fun _ => rfl)

theorem ik_rename {st st' : St} {i : Nat} {p n : String} (h : rename st i p n = Except.ok st') :
    instKinds st' = instKinds st := by
  unfold rename at h
  split at h
  · cases h; exact ik_assignDefault _ _ _ _
  · cases h; exact ik_updInst _ _ _ (fun _ => rfl)

theorem ik_addLatchPorts (l : List String) : ∀ st : St, instKinds (addLatchPorts st l) = instKinds st := by
  induction l with
  | nil => intro st; rfl
  | cons o r ih => intro st; simp [addLatchPorts, ih]

theorem ik_foldl_addPort (dn : String) (l : List Nat) :
    ∀ st : St, instKinds (l.foldl (fun st i => addPort st dn ("in_" ++ natStr i) Dir.inp 1) st) = instKinds st := by
  induction l with
  | nil => intro st; rfl
  | cons o r ih => intro st; simp [List.foldl_cons, ih]

@[simp] theorem ik_addNamesPorts (st : St) (dn : String) (k : Nat) : instKinds (addNamesPorts st dn k) = instKinds st := by
  unfold addNamesPorts
  simp [ik_foldl_addPort]

theorem ik_connectOne {st st' : St} {idx : Nat} {parent model : String} {fa : String × String}
    (h : connectOne st idx parent model fa = Except.ok st') : instKinds st' = instKinds st := by
  unfold connectOne at h
  obtain ⟨⟨cn, ci⟩, _, h⟩ := bind_ok h
  obtain ⟨⟨pn, pi⟩, _, h⟩ := bind_ok h
  simp only [] at h
  split at h
  · cases h; exact ik_updInst _ _ _ (fun _ => rfl)
  · split at h
    · cases h
    · cases h; simp

theorem ik_connectAll {idx : Nat} {parent model : String} (l : List (String × String)) :
    ∀ {st st' : St}, connectAll st idx parent model l = Except.ok st' → instKinds st' = instKinds st := by
  induction l with
  | nil => intro st st' h; cases h; rfl
  | cons fa r ih =>
    intro st st' h
    unfold connectAll at h
    obtain ⟨s1, h1, h⟩ := bind_ok h
    rw [ih h, ik_connectOne h1]

theorem ik_declFormal {st st' : St} {model : String} {fa : String × String}
    (h : declFormal st model fa = Except.ok st') : instKinds st' = instKinds st := by
  unfold declFormal at h
  obtain ⟨⟨pn, pi⟩, _, h⟩ := bind_ok h
  simp only [] at h
  cases h
  split <;> simp

theorem ik_declFormals {model : String} (l : List (String × String)) :
    ∀ {st st' : St}, declFormals st model l = Except.ok st' → instKinds st' = instKinds st := by
  induction l with
  | nil => intro st st' h; cases h; rfl
  | cons fa r ih =>
    intro st st' h
    unfold declFormals at h
    obtain ⟨s1, h1, h⟩ := bind_ok h
    rw [ih h, ik_declFormal h1]

theorem ik_applyInfo {idx : Nat} {parent : String} (l : List InfoStmt) :
    ∀ {st st' : St}, applyInfo st idx parent l = Except.ok st' → instKinds st' = instKinds st := by
  induction l with
  | nil => intro st st' h; cases h; rfl
  | cons x r ih =>
    intro st st' h
    cases x with
    | cname n =>
      unfold applyInfo at h
      obtain ⟨s1, h1, h⟩ := bind_ok h
      rw [ih h, ik_renameStrict h1]; exact ik_updInst _ _ _ (fun _ => rfl)
    | attr k v => unfold applyInfo at h; rw [ih h]; exact ik_updInst _ _ _ (fun _ => rfl)
    | param k v => unfold applyInfo at h; rw [ih h]; exact ik_updInst _ _ _ (fun _ => rfl)

theorem ik_elabStmt {st st' : St} {cur : String} {s : Stmt} (h : elabStmt st cur s = Except.ok st') :
    instKinds st' = instKinds st ++ stmtKind cur s := by
  cases s with
  | subckt gate model conns info =>
    unfold elabStmt at h
    simp only [] at h
    obtain ⟨s1, h1, h⟩ := bind_ok h
    obtain ⟨s2, h2, h⟩ := bind_ok h
    rw [ik_applyInfo info h, ik_connectAll _ h2, ik_assignDefault, ik_newInst, ik_declFormals conns h1]
    simp [stmtKind]
  | names nets covers info =>
    unfold elabStmt at h
    simp only [] at h
    split at h
    · cases h
    · obtain ⟨s1, h1, h⟩ := bind_ok h
      obtain ⟨s2, h2, h⟩ := bind_ok h
      rw [ik_applyInfo info h, ik_connectAll _ h2]
      have e1 : instKinds s1 = instKinds st ++ stmtKind cur (Stmt.names nets covers info) := by
        split at h1
        · cases h1
          rw [ik_assignDefault, ik_updInst, ik_newInst]
          · simp [stmtKind]
          · intro i; rfl
        · rw [ik_rename h1, ik_updInst, ik_newInst]
          · simp [stmtKind]
          · intro i; rfl
      exact e1
  | latch toks info =>
    unfold elabStmt at h
    simp only [] at h
    split at h
    · cases h
    · obtain ⟨s1, h1, h⟩ := bind_ok h
      obtain ⟨s2, h2, h⟩ := bind_ok h
      rw [ik_applyInfo info h, ik_connectAll _ h2, ik_rename h1, ik_newInst, ik_addLatchPorts]
      simp [stmtKind]
  | conn a b =>
    unfold elabStmt at h
    obtain ⟨⟨n1, i1⟩, _, h⟩ := bind_ok h
    obtain ⟨⟨n2, i2⟩, _, h⟩ := bind_ok h
    simp only [] at h
    cases h
    simp [stmtKind]
  | blackbox =>
    unfold elabStmt at h
    cases h
    simp [stmtKind]

theorem ik_elabStmts {cur : String} (l : List Stmt) :
    ∀ {st st' : St}, elabStmts st cur l = Except.ok st' →
      instKinds st' = instKinds st ++ l.flatMap (stmtKind cur) := by
  induction l with
  | nil => intro st st' h; cases h; simp
  | cons s r ih =>
    intro st st' h
    unfold elabStmts at h
    obtain ⟨s1, h1, h⟩ := bind_ok h
    rw [ih h, ik_elabStmt h1]
    simp

/-! ### headers and black boxes -/

theorem ik_beginModel (st : St) (n : String) : instKinds (beginModel st n) = instKinds st := by
  have e : instKinds (updDef (ensureDef st n) n (fun d => { d with declared := true })) = instKinds st :=
    (ik_updDef _ _ _).trans (ik_ensureDef _ _)
  unfold beginModel
  simp only []
  split
  · exact e
  · exact e

theorem ik_elabInput {st st' : St} {cur tok : String} (h : elabInput st cur tok = Except.ok st') :
    instKinds st' = instKinds st := by
  unfold elabInput at h
  obtain ⟨⟨pn, pi⟩, _, h⟩ := bind_ok h
  simp only [] at h
  cases h
  simp only [ik_connect, ik_growPort]
  split <;> simp

theorem ik_elabOutput {st st' : St} {cur tok : String} (h : elabOutput st cur tok = Except.ok st') :
    instKinds st' = instKinds st := by
  unfold elabOutput at h
  obtain ⟨⟨pn, pi⟩, _, h⟩ := bind_ok h
  simp only [] at h
  split at h <;> (cases h; simp)

theorem ik_elabToks (f : St → String → String → Except Err St)
    (hf : ∀ {st st' : St} {cur tok : String}, f st cur tok = Except.ok st' → instKinds st' = instKinds st)
    {cur : String} (l : List String) :
    ∀ {st st' : St}, elabToks f st cur l = Except.ok st' → instKinds st' = instKinds st := by
  induction l with
  | nil => intro st st' h; cases h; rfl
  | cons t r ih =>
    intro st st' h
    unfold elabToks at h
    obtain ⟨s1, h1, h⟩ := bind_ok h
    rw [ih h, hf h1]

theorem ik_elabHdr {st st' : St} {cur : String} {x : Hdr} (h : elabHdr st cur x = Except.ok st') :
    instKinds st' = instKinds st := by
  cases x with
  | inputs l => exact ik_elabToks elabInput (fun h => ik_elabInput h) l h
  | outputs l => exact ik_elabToks elabOutput (fun h => ik_elabOutput h) l h
  | clock l => unfold elabHdr at h; cases h; rfl

theorem ik_elabHdrs {cur : String} (l : List Hdr) :
    ∀ {st st' : St}, elabHdrs st cur l = Except.ok st' → instKinds st' = instKinds st := by
  induction l with
  | nil => intro st st' h; cases h; rfl
  | cons x r ih =>
    intro st st' h
    unfold elabHdrs at h
    obtain ⟨s1, h1, h⟩ := bind_ok h
    rw [ih h, ik_elabHdr h1]

/-- `.blackbox`: afterwards the model owns no cable, none of its net bits carries a pin, and the
    definition is not in library `work` -/
theorem elabStmt_blackbox {st st' : St} {cur : String} (h : elabStmt st cur Stmt.blackbox = Except.ok st') :
    (∀ c ∈ st'.cables, c.1 ≠ cur) ∧ (∀ k : Key, k.1 = cur → st'.pins k = []) ∧
    (∀ d ∈ st'.defs, d.name = cur → d.inWork = false) := by
  unfold elabStmt at h
  cases h
  refine ⟨?_, ?_, ?_⟩
  · intro c hc
    simp only [updDef, clearOwner, List.mem_filter, decide_eq_true_eq] at hc
    exact hc.2
  · intro k hk
    simp [updDef, clearOwner, hk]
  · intro d hd hn
    simp only [updDef, clearOwner, List.mem_map] at hd
    obtain ⟨d0, _, he⟩ := hd
    split at he
    · subst he; simp [DefD.inWork]
    · rename_i hne; subst he; exact absurd hn hne

end Spydr.Eblif
