/-
  Lexer and line-parser facts for the EBLIF model.
-/
import Spydr.Eblif.Spec

namespace Spydr.Eblif

theorem lexGo_word (w : List Char) (hw : ∀ c ∈ w, isWs c = false ∧ c ≠ '\n' ∧ c ≠ '\r') :
    ∀ (cur : List Char) (d : Bool) (rest : List Char),
      lexGo cur d (w ++ ' ' :: rest) = flushW (cur ++ w) ++ lexGo [] true rest := by
  induction w with
  | nil =>
    intro cur d rest
    simp [lexGo, isWs]
  | cons c w ih =>
    intro cur d rest
    have hc := hw c (by simp)
    have hw' : ∀ x ∈ w, isWs x = false ∧ x ≠ '\n' ∧ x ≠ '\r' := fun x hx => hw x (by simp [hx])
    simp only [List.cons_append, lexGo, hc.2.1, hc.2.2, if_false, hc.1]
    rw [ih hw' (cur ++ [c]) true rest]
    simp

theorem terminated_tail {t : Tok} {r : List Tok} (h : Terminated (t :: r)) (hr : r ≠ []) : Terminated r := by
  intro x hx
  apply h
  cases r with
  | nil => exact absurd rfl hr
  | cons a r => simpa [List.getLast?_cons_cons] using hx

theorem lexGo_printB (ts : List Tok) :
    (∀ t ∈ ts, GoodTok t) → Terminated ts → ∀ d : Bool, (ts = [] → d = false) →
      lexGo [] d (printB ts) = ts := by
  induction ts with
  | nil =>
    intro _ _ d hd
    simp [printB, lexGo, flushW, hd rfl]
  | cons t r ih =>
    intro hg ht d _
    have hgr : ∀ x ∈ r, GoodTok x := fun x hx => hg x (by simp [hx])
    cases t with
    | nl =>
      have htr : Terminated r := by
        by_cases hr : r = []
        · subst hr; intro x hx; simp at hx
        · exact terminated_tail ht hr
      simp only [printB, lexGo, if_true, flushW, List.nil_append]
      rw [ih hgr htr false (fun _ => rfl)]
    | word s =>
      have hs : GoodWord s := hg (Tok.word s) (by simp)
      have hr : r ≠ [] := by
        intro hr
        subst hr
        have := ht (Tok.word s) (by simp)
        cases this
      have htr : Terminated r := terminated_tail ht hr
      simp only [printB]
      rw [lexGo_word s.toList hs.2 [] d (printB r)]
      rw [ih hgr htr true (fun h => absurd h hr)]
      simp [flushW, hs.1, String.ofList_toList]

theorem joinCont_cons_ne (t : Tok) (x : List Tok) (h : t ≠ bsl) : joinCont (t :: x) = t :: joinCont x := by
  cases x with
  | nil => simp [joinCont]
  | cons u r => simp [joinCont, h]

theorem joinCont_id (ts : List Tok) (h : ∀ t ∈ ts, t ≠ bsl) : joinCont ts = ts := by
  induction ts with
  | nil => simp [joinCont]
  | cons t r ih =>
    rw [joinCont_cons_ne t r (h t (by simp)), ih (fun x hx => h x (by simp [hx]))]

theorem joinCont_skip (a b : List Tok) (ha : ∀ t ∈ a, t ≠ bsl) (u : Tok) :
    joinCont (a ++ bsl :: u :: b) = joinCont (a ++ b) := by
  induction a with
  | nil => simp [joinCont]
  | cons t r ih =>
    have ht := ha t (by simp)
    simp only [List.cons_append]
    rw [joinCont_cons_ne _ _ ht, joinCont_cons_ne _ _ ht, ih (fun x hx => ha x (by simp [hx]))]

theorem goodWord_bsl : GoodWord "\\" := by
  constructor
  · decide
  · intro c hc
    have : c = '\\' := by simpa using hc
    subst this
    decide

/-! ### comment lines in the line parser -/

def PSt.setC (s : PSt) (c : List String) : PSt := { s with comments := c }

@[simp] theorem setC_mode (s : PSt) (c) : (s.setC c).mode = s.mode := rfl
@[simp] theorem setC_comments (s : PSt) (c) : (s.setC c).comments = c := rfl
@[simp] theorem setC_cur (s : PSt) (c) : (s.setC c).cur = s.cur := rfl
@[simp] theorem setC_done (s : PSt) (c) : (s.setC c).done = s.done := rfl
@[simp] theorem setC_err (s : PSt) (c) : (s.setC c).err = s.err := rfl

theorem PSt.ext' {a b : PSt} (h1 : a.mode = b.mode) (h2 : a.comments = b.comments) (h3 : a.done = b.done)
    (h4 : a.cur = b.cur) (h5 : a.err = b.err) : a = b := by
  cases a; cases b; simp_all

end Spydr.Eblif
