/-
  The alias table of the EBLIF elaborator always points at live wires (`WF`), so what is `Joined`
  on the elaborator state is a pin in a wire of the materialised netlist (`St.toNet`).
-/
import Spydr.Eblif.LemmasInst

namespace Spydr.Eblif

structure WF (st : St) : Prop where
  tgt : ∀ k, Live st k → Live st (st.alias k)
  idn : ∀ k, ¬ Live st k → st.alias k = k
  own : ∀ k, (st.alias k).1 = k.1

theorem WF.init : WF ({} : St) :=
  ⟨fun k h => by simp [Live] at h, fun _ _ => rfl, fun _ => rfl⟩

theorem live_of_fields {st st' : St} (h : netFields st' = netFields st) (k : Key) : Live st' k ↔ Live st k := by
  simp only [netFields, Prod.mk.injEq] at h
  obtain ⟨_, _, hc, hw⟩ := h
  simp [Live, hc, hw]

theorem WF.of_fields {st st' : St} (h : netFields st' = netFields st) (w : WF st) : WF st' := by
  have hl := live_of_fields h
  simp only [netFields, Prod.mk.injEq] at h
  obtain ⟨_, ha, _, _⟩ := h
  refine ⟨fun k hk => ?_, fun k hk => ?_, fun k => ?_⟩
  · rw [ha]; exact (hl _).mpr (w.tgt k ((hl k).mp hk))
  · rw [ha]; exact w.idn k (fun h' => hk ((hl k).mpr h'))
  · rw [ha]; exact w.own k

/-- a step that leaves the alias table alone and only makes more bits live -/
theorem WF.of_mono {st st' : St} (ha : st'.alias = st.alias) (hm : ∀ k, Live st k → Live st' k) (w : WF st) :
    WF st' := by
  refine ⟨fun k hk => ?_, fun k hk => ?_, fun k => ?_⟩
  · rw [ha]
    by_cases h0 : Live st k
    · exact hm _ (w.tgt k h0)
    · rw [w.idn k h0]; exact hk
  · rw [ha]; exact w.idn k (fun h' => hk (hm k h'))
  · rw [ha]; exact w.own k

theorem alias_ensureCable (st : St) (o n : String) : (ensureCable st o n).alias = st.alias := by
  unfold ensureCable; split <;> rfl
theorem alias_ensureWire (st : St) (o n : String) (i : Nat) : (ensureWire st o n i).alias = st.alias := by
  unfold ensureWire; simp only []; split <;> simp [alias_ensureCable]
theorem alias_connect (st : St) (p : Pin) (o n : String) (i : Nat) : (connect st p o n i).alias = st.alias := by
  unfold connect; exact alias_ensureWire st o n i

theorem wf_ensureWire {st : St} (w : WF st) (o n : String) (i : Nat) : WF (ensureWire st o n i) :=
  WF.of_mono (alias_ensureWire st o n i) (ext_ensureWire st o n i).live w

theorem wf_connect {st : St} (w : WF st) (p : Pin) (o n : String) (i : Nat) : WF (connect st p o n i) :=
  WF.of_mono (alias_connect st p o n i) (ext_connect st p o n i).live w

theorem live_mergeKeys (st : St) (ka kb k : Key) : Live (mergeKeys st ka kb) k ↔ Live st k := by
  unfold mergeKeys; simp only []; split <;> rfl

theorem wf_mergeKeys {st : St} (w : WF st) (ka kb : Key) (la : Live st ka) (lb : Live st kb) (ho : ka.1 = kb.1) :
    WF (mergeKeys st ka kb) := by
  have hl := live_mergeKeys st ka kb
  refine ⟨fun k hk => ?_, fun k hk => ?_, fun k => ?_⟩
  · rw [hl] at hk ⊢
    unfold mergeKeys; simp only []
    split
    · exact w.tgt k hk
    · simp only []
      split
      · exact w.tgt ka la
      · exact w.tgt k hk
  · rw [hl] at hk
    unfold mergeKeys; simp only []
    split
    · exact w.idn k hk
    · simp only []
      rw [w.idn k hk]
      split
      · rename_i hkb
        exact absurd (hkb ▸ w.tgt kb lb) hk
      · rfl
  · unfold mergeKeys; simp only []
    split
    · exact w.own k
    · simp only []
      split
      · rename_i hkb
        have h1 := w.own k
        rw [hkb] at h1
        rw [w.own ka, ho, ← w.own kb, h1]
      · exact w.own k

theorem wf_clearOwner {st : St} (w : WF st) (o : String) : WF (clearOwner st o) := by
  have hl : ∀ k, Live (clearOwner st o) k ↔ (Live st k ∧ k.1 ≠ o) := by
    intro k
    simp only [Live, clearOwner, List.mem_filter, decide_eq_true_eq]
    constructor
    · rintro ⟨⟨h1, h2⟩, h3⟩
      simp only [h2, if_false] at h3
      exact ⟨⟨h1, h3⟩, h2⟩
    · rintro ⟨⟨h1, h3⟩, h2⟩
      exact ⟨⟨h1, h2⟩, by simp only [h2, if_false]; exact h3⟩
  refine ⟨fun k hk => ?_, fun k hk => ?_, fun k => ?_⟩
  · obtain ⟨h1, h2⟩ := (hl k).mp hk
    have : (clearOwner st o).alias k = st.alias k := by simp [clearOwner, h2]
    rw [this]
    exact (hl _).mpr ⟨w.tgt k h1, by rw [w.own k]; exact h2⟩
  · by_cases h2 : k.1 = o
    · simp [clearOwner, h2]
    · have : (clearOwner st o).alias k = st.alias k := by simp [clearOwner, h2]
      rw [this]
      exact w.idn k (fun h1 => hk ((hl k).mpr ⟨h1, h2⟩))
  · by_cases h2 : k.1 = o
    · simp [clearOwner, h2]
    · have : (clearOwner st o).alias k = st.alias k := by simp [clearOwner, h2]
      rw [this]; exact w.own k

/-! ### lifting through the elaborator -/

theorem wf_connectOne {st st' : St} {idx : Nat} {parent model : String} {fa : String × String}
    (w : WF st) (h : connectOne st idx parent model fa = Except.ok st') : WF st' := by
  obtain ⟨cn, ci, pn, pi, _, _, hc⟩ := connectOne_cases h
  rcases hc with ⟨_, hf⟩ | ⟨_, hs⟩
  · exact WF.of_fields hf w
  · subst hs
    exact wf_connect (WF.of_fields (by simp) w) _ _ _ _

theorem wf_connectAll {idx : Nat} {parent model : String} (l : List (String × String)) :
    ∀ {st st' : St}, WF st → connectAll st idx parent model l = Except.ok st' → WF st' := by
  induction l with
  | nil => intro st st' w h; cases h; exact w
  | cons fa r ih =>
    intro st st' w h
    unfold connectAll at h
    obtain ⟨s1, h1, h⟩ := bind_ok h
    exact ih (wf_connectOne w h1) h

theorem wf_elabStmt {st st' : St} {cur : String} {s : Stmt} (w : WF st)
    (h : elabStmt st cur s = Except.ok st') : WF st' := by
  cases s with
  | subckt gate model conns info =>
    unfold elabStmt at h
    simp only [] at h
    obtain ⟨s1, h1, h⟩ := bind_ok h
    obtain ⟨s2, h2, h⟩ := bind_ok h
    have w1 : WF s1 := WF.of_fields (by rw [nf_declFormals conns h1]; simp) w
    have w2 : WF s2 := wf_connectAll _ (WF.of_fields ((nf_assignDefault _ _ _ _).trans (nf_newInst _ _ _ _)) w1) h2
    exact WF.of_fields (nf_applyInfo info h) w2
  | names nets covers info =>
    unfold elabStmt at h
    simp only [] at h
    split at h
    · cases h
    · simp only [newInst] at h
      obtain ⟨s1, h1, h⟩ := bind_ok h
      obtain ⟨s2, h2, h⟩ := bind_ok h
      have w1 : WF s1 := by
        split at h1
        · cases h1
          exact WF.of_fields ((nf_addNamesPorts _ _ _).trans (nf_ensureDef _ _)) w
        · exact WF.of_fields (by
            rw [nf_rename h1]
            exact (nf_addNamesPorts _ _ _).trans (nf_ensureDef _ _)) w
      exact WF.of_fields (nf_applyInfo info h) (wf_connectAll _ w1 h2)
  | latch toks info =>
    unfold elabStmt at h
    simp only [newInst] at h
    split at h
    · cases h
    · obtain ⟨s1, h1, h⟩ := bind_ok h
      obtain ⟨s2, h2, h⟩ := bind_ok h
      have w1 : WF s1 := WF.of_fields (by
        rw [nf_rename h1]
        exact (nf_addLatchPorts _ _).trans (nf_ensureDef _ _)) w
      exact WF.of_fields (nf_applyInfo info h) (wf_connectAll _ w1 h2)
  | conn a b =>
    unfold elabStmt at h
    obtain ⟨⟨n1, i1⟩, _, h⟩ := bind_ok h
    obtain ⟨⟨n2, i2⟩, _, h⟩ := bind_ok h
    simp only [] at h
    cases h
    have w1 := wf_ensureWire w cur n1 i1
    have w2 := wf_ensureWire w1 cur n2 i2
    exact wf_mergeKeys w2 _ _ ((ext_ensureWire _ _ _ _).live _ (ensureWire_live _ _ _ _)) (ensureWire_live _ _ _ _) rfl
  | blackbox =>
    unfold elabStmt at h
    cases h
    exact WF.of_fields (nf_updDef _ _ _) (wf_clearOwner w cur)

theorem wf_elabStmts {cur : String} (l : List Stmt) :
    ∀ {st st' : St}, WF st → elabStmts st cur l = Except.ok st' → WF st' := by
  induction l with
  | nil => intro st st' w h; cases h; exact w
  | cons s r ih =>
    intro st st' w h
    unfold elabStmts at h
    obtain ⟨s1, h1, h⟩ := bind_ok h
    exact ih (wf_elabStmt w h1) h

/-- `Joined` on the state is membership in a wire of the materialised netlist -/
theorem joined_toNet {st : St} (w : WF st) {p : Pin} {k : Key} (hj : Joined st p k) (hl : Live st k) :
    ∃ ws wire, (((st.alias k).1, (st.alias k).2.1), ws) ∈ st.toNet.cables ∧
      ws[(st.alias k).2.2]? = some wire ∧ p ∈ wire := by
  have ht := w.tgt k hl
  refine ⟨wiresOf st ((st.alias k).1, (st.alias k).2.1), st.pins (st.alias k), ?_, ?_, hj⟩
  · simp only [St.toNet, List.mem_map]
    exact ⟨_, ht.1, rfl⟩
  · simp only [wiresOf]
    rw [List.getElem?_map, List.getElem?_range ht.2]
    rfl

end Spydr.Eblif
